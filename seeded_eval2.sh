#!/bin/sh
# apply a seeded change, run the pipeline, print failing-verdict counts per property (and mismatches), undo
P="$1"
cd /repo && git apply "$P" || exit 1
cd /verif && ./dev_run.sh >/tmp/seeded_eval.log 2>&1
python3 - <<'PY'
import re,collections
c=collections.Counter()
for fn in ('/verif/.cache/dev/cases.sexp','/verif/.cache/dev/eval.sexp'):
    for l in open(fn,errors='replace'):
        if l.startswith('(oracle '):
            m=re.match(r'\(oracle (\S+) "[^"]*" (\S+)',l)
            if m and m.group(2)=='fail': c[m.group(1)]+=1
print('failing verdicts:',dict(sorted(c.items())))
PY
echo "model mismatches: $(grep -c '^(mismatch' /verif/.cache/dev/model.out)  corr0: $(grep -c '^(corr "[^"]*" 0 ' /verif/.cache/dev/eval.sexp)"
head -1 /tmp/seeded_eval.log | cut -c1-150
cd /repo && git checkout -- . 
