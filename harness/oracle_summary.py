#!/usr/bin/env python3
# condensed summary of oracle verdicts of a cases file
import sys,re,collections
c=collections.Counter(); ex={}; tot=collections.Counter()
for l in open(sys.argv[1], errors='replace'):
    if not l.startswith('(oracle'): continue
    m=re.match(r'\(oracle (\S+) "([^"]*)" (\S+) "([^"]*)" "(.*)"\)$', l.strip())
    if not m: continue
    prop,cid,verdict,sig,what=m.groups()
    tot[(prop,verdict)]+=1
    if verdict!='fail': continue
    k=(prop,cid.split('/')[0],sig); c[k]+=1; ex.setdefault(k,(cid,what[:int(sys.argv[2]) if len(sys.argv)>2 else 120]))
print(' '.join(f'{p}:{v}={n}' for (p,v),n in sorted(tot.items())))
for k,n in sorted(c.items()): print(n,k,ex[k])
