// Command vh is the harness front end: it prepares a run directory (tools, generation,
// compilation, driver), writes the model input and the job list, and evaluates results.
package main

import (
	"encoding/json"
	"flag"
	"fmt"
	"io/ioutil"
	"os"
	"path/filepath"
	"sort"
	"strings"
	"time"

	"verifharness/corpus"
	"verifharness/pipeline"
	"verifharness/spec"
	"verifharness/translate"
)

func die(f string, a ...interface{}) {
	fmt.Fprintf(os.Stderr, f+"\n", a...)
	os.Exit(2)
}

func main() {
	if len(os.Args) < 2 {
		die("usage: vh prepare|... [flags]")
	}
	switch os.Args[1] {
	case "prepare":
		prepare(os.Args[2:])
	case "eval":
		eval(os.Args[2:])
	case "translate": // vh translate <repo> <out.v>: regenerates coq/Generated/Src.v; exit 3 if the content changed
		txt := translate.Translate(os.Args[2])
		old, _ := ioutil.ReadFile(os.Args[3])
		if string(old) == txt {
			return
		}
		os.MkdirAll(filepath.Dir(os.Args[3]), 0o755)
		if err := ioutil.WriteFile(os.Args[3], []byte(txt), 0o644); err != nil {
			die("%v", err)
		}
		os.Exit(3)
	case "textprobe": // debug: vh textprobe <run> <repo> <tier> <seed>
		var seed int64
		fmt.Sscan(os.Args[5], &seed)
		e := &pipeline.Env{Run: os.Args[2], Repo: os.Args[3]}
		os.MkdirAll(filepath.Join(e.Run, "bin"), 0o755)
		n, err := pipeline.TextProbe(e, os.Args[4], seed)
		fmt.Println(n, err)
	default:
		die("unknown command %s", os.Args[1])
	}
}

// Summary is what prepare leaves for the checks.
type Summary struct {
	Tier     string                 `json:"tier"`
	Seed     int64                  `json:"seed"`
	Programs []*ProgSummary         `json:"programs"`
	Timing   map[string]float64     `json:"timing"`
	Driver   string                 `json:"driver"`
	Extra    map[string]interface{} `json:"extra,omitempty"`
}

// ProgSummary is the per-program outcome of generation and compilation.
type ProgSummary struct {
	ID           string            `json:"id"`
	Family       string            `json:"family"`
	Role         string            `json:"role"`
	Props        []string          `json:"props"`
	Exit         int               `json:"exit"`
	Stderr       string            `json:"stderr"`
	StdoutLen    int               `json:"stdout_len"`
	ParseErr     string            `json:"parse_err"`
	RespError    string            `json:"resp_error"`
	Features     uint64            `json:"features"`
	NFiles       int               `json:"n_files"`
	FileName     string            `json:"file_name"`
	SHA          string            `json:"sha"`
	ExtraBytes   bool              `json:"extra_bytes"`
	Package      string            `json:"package"`
	License      bool              `json:"license"`
	Funcs        map[string]string `json:"funcs"`
	Types        []string          `json:"types"`
	Imports      map[string]string `json:"imports"`
	AstErr       string            `json:"ast_err"`
	GogoErr      string            `json:"gogo_err"`
	CompileErr   string            `json:"compile_err"`
	Roots        []string          `json:"roots"`
	RootsOrdered []string          `json:"roots_ordered"`
	Linked       bool              `json:"linked"`
	ExpectFail   bool              `json:"expect_fail"`
	SHARuns      []string          `json:"sha_runs"`
}

func prepare(args []string) {
	fs := flag.NewFlagSet("prepare", flag.ExitOnError)
	out := fs.String("out", "", "run directory")
	repo := fs.String("repo", "/repo", "repository")
	harness := fs.String("harness", "/verif/harness", "harness module")
	tier := fs.String("tier", "quick", "quick|thorough")
	seed := fs.Int64("seed", 1, "seed")
	only := fs.String("only", "", "comma separated program ids (debug)")
	cover := fs.Bool("cover", false, "build the driver with coverage instrumentation")
	fs.Parse(args)
	if *out == "" {
		die("--out required")
	}
	if abs, err := filepath.Abs(*out); err == nil {
		*out = abs
	}
	t0 := time.Now()
	e := &pipeline.Env{Run: *out, Src: filepath.Join(*out, "src"), Repo: *repo, Harness: *harness}
	os.MkdirAll(e.Run, 0o755)
	timing := map[string]float64{}
	if err := pipeline.BuildTools(e); err != nil {
		die("%v", err)
	}
	timing["tools"] = pipeline.Since(t0)
	tt := time.Now()
	if _, err := pipeline.TextProbe(e, *tier, *seed); err != nil {
		fmt.Fprintf(os.Stderr, "text probe: %v\n", err)
	}
	timing["textprobe"] = pipeline.Since(tt)
	progs := corpus.All(*tier, *seed)
	if *only != "" {
		keep := map[string]bool{}
		for _, id := range strings.Split(*only, ",") {
			keep[id] = true
		}
		var f []*spec.Program
		for _, p := range progs {
			if keep[p.ID] {
				f = append(f, p)
			}
		}
		progs = f
	}
	t1 := time.Now()
	rs := pipeline.Generate(e, progs)
	timing["generate"] = pipeline.Since(t1)
	// C14: repeated runs of the real plugin on the same request
	repeats := 4
	if *tier == "thorough" {
		repeats = 24
	}
	tr := time.Now()
	shaRuns := pipeline.Repeat(e, progs, repeats)
	timing["repeat"] = pipeline.Since(tr)
	if err := pipeline.WriteModule(e); err != nil {
		die("%v", err)
	}
	for _, r := range rs {
		pipeline.Layout(e, r)
	}
	t2 := time.Now()
	driver, clog, err := pipeline.Compile(e, rs, *cover)
	timing["compile"] = pipeline.Since(t2)
	if err != nil {
		ioutil.WriteFile(filepath.Join(e.Run, "compile.log"), []byte(clog), 0o644)
		die("%v", err)
	}
	ioutil.WriteFile(filepath.Join(e.Run, "compile.log"), []byte(clog), 0o644)
	// info for the driver, model input, programs
	os.MkdirAll(filepath.Join(e.Run, "info"), 0o755)
	os.MkdirAll(filepath.Join(e.Run, "gen"), 0o755)
	var model strings.Builder
	sum := &Summary{Tier: *tier, Seed: *seed, Timing: timing, Driver: driver}
	for _, r := range rs {
		p := r.Prog
		info := map[string]interface{}{}
		roots := map[string]*spec.EMsg{}
		for _, root := range r.Roots {
			if em := spec.Expect(p, root); em != nil {
				roots[root] = em
			}
		}
		info["roots"] = roots
		b, _ := json.Marshal(info)
		ioutil.WriteFile(filepath.Join(e.Run, "info", p.ID+".json"), b, 0o644)
		ioutil.WriteFile(filepath.Join(e.Run, "gen", p.ID+"_terraform.go"), []byte(r.Content), 0o644)
		fb, _ := json.Marshal(r.FuncSrc)
		ioutil.WriteFile(filepath.Join(e.Run, "gen", p.ID+".funcs.json"), fb, 0o644)
		model.WriteString(p.ModelInput().String())
		model.WriteString("\n")
		ps := &ProgSummary{ID: p.ID, Family: p.Family, Role: p.Role, Props: p.Props, Exit: r.Exit, Stderr: r.Stderr, StdoutLen: r.StdoutLen, ParseErr: r.ParseErr,
			RespError: r.RespError, Features: r.Features, NFiles: r.NFiles, FileName: r.FileName, SHA: r.SHA, ExtraBytes: r.ExtraBytes, Package: r.Package,
			License: r.License, Funcs: r.Funcs, Types: r.Types, Imports: r.Imports, AstErr: r.AstErr, GogoErr: r.GogoErr, CompileErr: r.CompileErr, Roots: r.Roots, RootsOrdered: r.RootsOrdered,
			Linked: r.Dir != "" && r.CompileErr == "" && !p.NoRun, ExpectFail: p.ExpectFail, SHARuns: shaRuns[p.ID]}
		sort.Strings(ps.Types)
		sum.Programs = append(sum.Programs, ps)
	}
	ioutil.WriteFile(filepath.Join(e.Run, "programs.sexp"), []byte(model.String()), 0o644)
	ioutil.WriteFile(filepath.Join(e.Run, "jobs.sexp"), []byte(jobsFor(sum, *tier, *seed)), 0o644)
	pj, _ := json.Marshal(progs)
	ioutil.WriteFile(filepath.Join(e.Run, "programs.json"), pj, 0o644)
	timing["total"] = pipeline.Since(t0)
	sb, _ := json.MarshalIndent(sum, "", " ")
	ioutil.WriteFile(filepath.Join(e.Run, "summary.json"), sb, 0o644)
	nfail, ncomp := 0, 0
	for _, ps := range sum.Programs {
		if ps.Exit != 0 {
			nfail++
		}
		if ps.CompileErr != "" {
			ncomp++
		}
	}
	fmt.Printf("prepared %d programs in %.1fs (tools %.1f generate %.1f compile %.1f): %d plugin failures, %d compile failures\n",
		len(progs), timing["total"], timing["tools"], timing["generate"], timing["compile"], nfail, ncomp)
}

// recipeCounts: cases per (program, root) for each recipe.
var recipeCounts = map[string]map[string]int{
	"quick":    {"schemacheck": 1, "values": 12, "reset": 8, "malformed": 8, "oneof": 2, "echo": 10, "history": 6, "probe": 1, "hooks": 6},
	"thorough": {"schemacheck": 1, "values": 120, "reset": 80, "malformed": 80, "oneof": 6, "echo": 100, "history": 40, "probe": 1, "hooks": 30},
}

var recipeOrder = []string{"schemacheck", "values", "reset", "malformed", "oneof", "echo", "history", "probe", "hooks"}

func jobsFor(sum *Summary, tier string, seed int64) string {
	counts := recipeCounts[tier]
	if counts == nil {
		counts = recipeCounts["quick"]
	}
	var b strings.Builder
	for _, ps := range sum.Programs {
		if !ps.Linked {
			continue
		}
		for _, root := range ps.Roots {
			for i, rc := range recipeOrder {
				fmt.Fprintf(&b, "(job %q %q %q %d %d)\n", ps.ID, root, rc, counts[rc], seed*1000+int64(i))
			}
		}
	}
	return b.String()
}
