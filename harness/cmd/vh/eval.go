package main

import (
	"bufio"
	"encoding/json"
	"flag"
	"fmt"
	"go/ast"
	"go/parser"
	"go/token"
	"io/ioutil"
	"os"
	"path/filepath"
	"regexp"
	"sort"
	"strconv"
	"strings"

	"verifharness/drv"
	"verifharness/spec"
)

// eval computes the program-level verdicts (C01, C11-C16, C18) from what prepare recorded, the
// driver's records and the model's program observables, and writes them as oracle lines.

type evalCtx struct {
	run     string
	sum     *Summary
	progs   map[string]*spec.Program
	ps      map[string]*ProgSummary
	funcs   map[string]map[string]string
	model   map[string][]string // program id -> model program line fields
	records map[string][]string // program id -> normalised behavioural records
	out     *bufio.Writer
}

func (e *evalCtx) verdict(prop, id string, ok bool, sig, what string) {
	v := "ok"
	if !ok {
		v = "fail"
	}
	if ok {
		sig, what = "", ""
	}
	fmt.Fprintln(e.out, spec.L(spec.A("oracle"), spec.A(prop), spec.Q(id), spec.A(v), spec.Q(sig), spec.Q(what)).String())
}

func (e *evalCtx) funcsOf(id string) map[string]string {
	if f, ok := e.funcs[id]; ok {
		return f
	}
	f := map[string]string{}
	if b, err := ioutil.ReadFile(filepath.Join(e.run, "gen", id+".funcs.json")); err == nil {
		json.Unmarshal(b, &f)
	}
	e.funcs[id] = f
	return f
}

const (
	pSDK   = "github.com/hashicorp/terraform-plugin-framework/tfsdk"
	pDiag  = "github.com/hashicorp/terraform-plugin-framework/diag"
	pTypes = "github.com/hashicorp/terraform-plugin-framework/types"
)

var identRe = regexp.MustCompile(`\b[A-Za-z_][A-Za-z0-9_]*\.`)
var paramNameRe = regexp.MustCompile(`([(,]\s*)[A-Za-z_][A-Za-z0-9_]*\s+([*\[A-Za-z])`)

// normSig resolves import qualifiers to import paths and drops parameter names.
func normSig(sig string, imports map[string]string) string {
	byName := map[string]string{}
	for path, name := range imports {
		n := name
		if n == "" {
			n = path[strings.LastIndex(path, "/")+1:]
		}
		byName[n] = path
	}
	s := identRe.ReplaceAllStringFunc(sig, func(m string) string {
		q := strings.TrimSuffix(m, ".")
		if p, ok := byName[q]; ok {
			return p + "."
		}
		return m
	})
	for i := 0; i < 4; i++ {
		s = paramNameRe.ReplaceAllString(s, "$1$2")
	}
	return strings.ReplaceAll(s, " ", "")
}

var converterNameRe = regexp.MustCompile(`^(GenSchema.+|Copy.+(From|To)Terraform)$`)

func (e *evalCtx) expectedRoots(p *spec.Program) []string {
	bad := map[string]bool{}
	for _, r := range p.UnmappableRoots {
		bad[r] = true
	}
	var out []string
	for _, r := range spec.ExpectedRoots(p) {
		if !bad[r] {
			out = append(out, r)
		}
	}
	return out
}

func (e *evalCtx) c01(p *spec.Program, s *ProgSummary) {
	id := p.ID + "/program"
	var bad []string
	sig := "response"
	add := func(cond bool, what string) {
		if cond {
			bad = append(bad, what)
		}
	}
	add(s.Exit != 0, fmt.Sprintf("exit status %d", s.Exit))
	add(s.ParseErr != "", "stdout is not a CodeGeneratorResponse: "+s.ParseErr)
	add(s.ExtraBytes, "stdout holds more than the response")
	add(s.RespError != "", "response carries an error: "+s.RespError)
	add(s.Features != 1, fmt.Sprintf("supported_features=%d", s.Features))
	add(s.NFiles != 1, fmt.Sprintf("%d files in the response", s.NFiles))
	base := strings.TrimSuffix(p.Spec.File[strings.LastIndex(p.Spec.File, "/")+1:], ".proto")
	wantName := p.Spec.GoPackage + "/" + base + "_terraform.go"
	add(s.NFiles == 1 && s.FileName != wantName, fmt.Sprintf("file name %q, expected %q", s.FileName, wantName))
	add(s.NFiles == 1 && !s.License, "file does not start with the license header")
	wantPkg := p.Config.TargetPackageName
	if wantPkg == "" {
		wantPkg = p.Spec.GoPackage[strings.LastIndex(p.Spec.GoPackage, "/")+1:]
	}
	add(s.NFiles == 1 && s.Package != wantPkg, fmt.Sprintf("package %q, expected %q", s.Package, wantPkg))
	add(s.AstErr != "", "output does not parse: "+s.AstErr)
	if len(bad) == 0 {
		sig = "decls"
		want := map[string]string{}
		structPkg := ""
		if p.Config.DefaultPackageName != "" {
			structPkg = p.Config.DefaultPackageName
			if o, ok := p.Config.ImportPathOverrides[structPkg]; ok {
				structPkg = o
			}
			structPkg += "."
		}
		for _, r := range e.expectedRoots(p) {
			want["GenSchema"+r] = "func(context.Context)(" + pSDK + ".Schema," + pDiag + ".Diagnostics)"
			want["Copy"+r+"FromTerraform"] = "func(context.Context," + pTypes + ".Object,*" + structPkg + r + ")" + pDiag + ".Diagnostics"
			want["Copy"+r+"ToTerraform"] = "func(context.Context,*" + structPkg + r + ",*" + pTypes + ".Object)" + pDiag + ".Diagnostics"
		}
		for name, sg := range want {
			got, ok := s.Funcs[name]
			if !ok {
				bad = append(bad, "missing "+name)
				continue
			}
			if sg != "" && normSig(got, s.Imports) != sg {
				bad = append(bad, fmt.Sprintf("%s has signature %s, expected %s", name, normSig(got, s.Imports), sg))
			}
		}
		// the property fixes the converter functions only: helper declarations (the shared diagnostic
		// types and whatever a refactoring adds next to them) are not its business
		for name := range s.Funcs {
			if _, ok := want[name]; !ok && converterNameRe.MatchString(name) {
				bad = append(bad, "unexpected function "+name)
			}
		}
	}
	if len(bad) == 0 {
		sig = "compile"
		add(s.GogoErr != "", "protoc-gen-gogo failed (harness problem): "+s.GogoErr)
		add(s.CompileErr != "", "generated code does not compile with protoc-gen-gogo's output: "+firstLines(s.CompileErr, 3))
	}
	sort.Strings(bad)
	e.verdict("C01", id, len(bad) == 0, sig, strings.Join(bad, "; "))

	// correspondence of the front end at program level
	m := e.model[p.ID]
	if len(m) > 0 {
		var diff []string
		if implFails := s.Exit != 0 && s.NFiles == 0; m[0] != "ok" || implFails {
			if (m[0] != "ok") != implFails {
				diff = append(diff, fmt.Sprintf("model outcome %s, implementation exit status %d with %d files", m[0], s.Exit, s.NFiles))
			}
		} else {
			if m[1] != s.FileName {
				diff = append(diff, fmt.Sprintf("file name model %q impl %q", m[1], s.FileName))
			}
			if m[2] != s.Package {
				diff = append(diff, fmt.Sprintf("package model %q impl %q", m[2], s.Package))
			}
			if m[3] != strings.Join(s.Roots2(), ",") {
				diff = append(diff, fmt.Sprintf("roots model [%s] impl [%s]", m[3], strings.Join(s.Roots2(), ",")))
			}
		}
		fmt.Fprintln(e.out, spec.L(spec.A("corr"), spec.Q(p.ID+"/program"), spec.B(len(diff) == 0), spec.Q(strings.Join(diff, "; "))).String())
	}
}

// Roots2 returns the generated roots in the order of the emitted GenSchema functions.
func (s *ProgSummary) Roots2() []string { return s.RootsOrdered }

func firstLines(s string, n int) string {
	ls := strings.Split(strings.TrimSpace(s), "\n")
	if len(ls) > n {
		ls = ls[:n]
	}
	return strings.Join(ls, " | ")
}

func (e *evalCtx) mustFail(p *spec.Program, s *ProgSummary) {
	ok := s.Exit != 0 && s.NFiles == 0
	what := ""
	if !ok {
		what = fmt.Sprintf("exit status %d, %d files generated", s.Exit, s.NFiles)
	}
	e.verdict("C16", p.ID+"/program", ok, "must-fail", what)
	if m := e.model[p.ID]; len(m) > 0 {
		implFails := s.Exit != 0 && s.NFiles == 0
		fmt.Fprintln(e.out, spec.L(spec.A("corr"), spec.Q(p.ID+"/program"), spec.B((m[0] == "fail") == implFails),
			spec.Q(fmt.Sprintf("model outcome %s, implementation exit status %d with %d files", m[0], s.Exit, s.NFiles))).String())
	}
}

func sameFuncs(a, b map[string]string, names []string) []string {
	var diff []string
	for _, n := range names {
		if a[n] != b[n] {
			diff = append(diff, n)
		}
	}
	return diff
}

func rootFuncs(r string) []string {
	return []string{"GenSchema" + r, "Copy" + r + "FromTerraform", "Copy" + r + "ToTerraform"}
}

func (e *evalCtx) families() {
	byFam := map[string][]*spec.Program{}
	for _, p := range e.progs {
		byFam[p.Family] = append(byFam[p.Family], p)
	}
	for _, fam := range spec.SortedKeys(byFam) {
		members := byFam[fam]
		sort.Slice(members, func(i, j int) bool { return members[i].ID < members[j].ID })
		var base *spec.Program
		for _, m := range members {
			if m.ID == fam {
				base = m
			}
		}
		if base == nil {
			continue
		}
		bs := e.ps[base.ID]
		for _, v := range members {
			if v == base {
				continue
			}
			vs := e.ps[v.ID]
			id := v.ID + "/vs/" + base.ID
			role := v.Role
			switch {
			case role == "selection" || role == "extension":
				var bad []string
				want := e.expectedRoots(v)
				got := append([]string{}, vs.RootsOrdered...)
				if strings.Join(want, ",") != strings.Join(got, ",") {
					bad = append(bad, fmt.Sprintf("generated types %v, selected %v", got, want))
				}
				for _, r := range got {
					// the text of a type's functions does not depend on what else is selected or present
					for _, other := range members {
						if other.Role != "base" && other.Role != "selection" && other.Role != "extension" {
							continue
						}
						of := e.funcsOf(other.ID)
						if _, ok := of["GenSchema"+r]; !ok || other == v {
							continue
						}
						if d := sameFuncs(e.funcsOf(v.ID), of, rootFuncs(r)); len(d) > 0 {
							bad = append(bad, fmt.Sprintf("%v differ from %s", d, other.ID))
						}
					}
				}
				e.verdict("C12", id, len(bad) == 0, role, strings.Join(bad, "; "))
			case strings.HasPrefix(role, "separate-package"):
				var bad []string
				if vs.CompileErr != "" {
					bad = append(bad, "does not compile: "+firstLines(vs.CompileErr, 2))
				}
				structPath := v.Config.DefaultPackageName
				if o, ok := v.Config.ImportPathOverrides[structPath]; ok {
					structPath = o
				}
				if _, ok := vs.Imports[structPath]; !ok {
					bad = append(bad, "struct package "+structPath+" is not imported")
				}
				if vs.Package != v.Config.TargetPackageName {
					bad = append(bad, "package clause "+vs.Package)
				}
				if d := e.compareRecords(base.ID, v.ID); d != "" {
					bad = append(bad, d)
				}
				e.verdict("C13", id, len(bad) == 0, role, strings.Join(bad, "; "))
			case role == "config-permutation":
				ok := vs.SHA == bs.SHA && vs.SHA != ""
				e.verdict("C14", id, ok, role, "permuting configuration entries changes the output")
			case role == "sorted-base":
				// compared with by its own permutations
			case role == "order-sorted":
				sb := e.ps[base.ID+"_sorted"]
				ok := sb != nil && vs.SHA == sb.SHA && vs.SHA != ""
				e.verdict("C15", id, ok, role, "with sort enabled the output depends on the declaration order")
			case role == "order-unsorted":
				d := e.compareRecordsF(base.ID, v.ID, admissibleKinds)
				e.verdict("C15", id, d == "", role, d)
			case role == "channel":
				ok := vs.SHA == bs.SHA && vs.SHA != ""
				e.verdict("C16", id, ok, "channel", fmt.Sprintf("delivery %+v yields another file than the YAML-only delivery", v.Delivery))
			case role == "unmappable":
				var bad []string
				for _, r := range v.UnmappableRoots {
					for _, fn := range rootFuncs(r) {
						if _, ok := vs.Funcs[fn]; ok {
							bad = append(bad, fn+" emitted although "+v.Unmappable+" cannot be mapped")
						}
					}
					if !strings.Contains(vs.Stderr, r) {
						bad = append(bad, "no diagnostic names "+r)
					}
				}
				for _, r := range e.expectedRoots(v) {
					if d := sameFuncs(e.funcsOf(v.ID), e.funcsOf(base.ID), rootFuncs(r)); len(d) > 0 {
						bad = append(bad, fmt.Sprintf("unaffected type changed: %v", d))
					}
				}
				if vs.Exit != 0 {
					bad = append(bad, "plugin failed")
				}
				e.verdict("C18", id, len(bad) == 0, "unmappable", strings.Join(bad, "; "))
			case role == "unmappable-excluded":
				var bad []string
				for _, r := range spec.ExpectedRoots(v) {
					if d := sameFuncs(e.funcsOf(v.ID), e.funcsOf(base.ID), rootFuncs(r)); len(d) > 0 {
						bad = append(bad, fmt.Sprintf("excluding the field does not restore %v", d))
					}
				}
				e.verdict("C18", id, len(bad) == 0, "excluded", strings.Join(bad, "; "))
			case strings.HasPrefix(role, "absent:"):
				twin := e.ps[strings.TrimSuffix(v.ID, "_absent")]
				var bad []string
				if twin == nil {
					bad = append(bad, "no twin")
				} else {
					for _, r := range vs.RootsOrdered {
						if d := sameFuncs(e.funcsOf(v.ID), e.funcsOf(twin.ID), rootFuncs(r)); len(d) > 0 {
							bad = append(bad, fmt.Sprintf("excluding %s leaves a trace in %v", v.Note, d))
						}
					}
				}
				e.verdict("C11", id, len(bad) == 0, "exclusion-equals-absence", strings.Join(bad, "; "))
			case strings.HasPrefix(role, "option:"):
				var bad []string
				kind := v.ID[len("f_opt_"):]
				if strings.HasPrefix(v.ID, "f_opt_") && (strings.HasPrefix(kind, "req") || strings.HasPrefix(kind, "comp") || strings.HasPrefix(kind, "sens") || strings.HasPrefix(kind, "val") || strings.HasPrefix(kind, "pm")) {
					// schema-only options leave the converters byte-identical
					for _, r := range vs.RootsOrdered {
						if d := sameFuncs(e.funcsOf(v.ID), e.funcsOf(base.ID), rootFuncs(r)[1:]); len(d) > 0 {
							bad = append(bad, fmt.Sprintf("a schema option changed converters %v", d))
						}
					}
				}
				e.verdict("C11", id, len(bad) == 0, "converters-unchanged", strings.Join(bad, "; "))
			}
		}
	}
}

// ---------------------------------------------------------------------------------------
// behavioural records

var caseIDRe = regexp.MustCompile(`^\((to|from) "[^"]*" "[^"]*" `)

func (e *evalCtx) loadRecords() {
	f, err := os.Open(filepath.Join(e.run, "cases.sexp"))
	if err != nil {
		return
	}
	defer f.Close()
	// only programs that take part in a behavioural comparison
	wanted := map[string]bool{}
	for _, p := range e.progs {
		if strings.HasPrefix(p.Role, "separate-package") || p.Role == "order-unsorted" {
			wanted[p.ID] = true
			wanted[p.Family] = true
		}
	}
	td := drv.TypeDefs{}
	sc := bufio.NewScanner(f)
	sc.Buffer(make([]byte, 1<<20), 1<<28)
	for sc.Scan() {
		line := sc.Text()
		switch {
		case strings.HasPrefix(line, "(ty "):
			if x, err := spec.Parse(line); err == nil {
				td.Define(x)
			}
		case strings.HasPrefix(line, "(to ") || strings.HasPrefix(line, "(from ") || strings.HasPrefix(line, "(schema "):
			// cheap program id extraction
			parts := strings.SplitN(line, "\"", 6)
			var prog string
			if strings.HasPrefix(line, "(schema ") {
				prog = parts[1]
			} else if len(parts) > 3 {
				prog = parts[3]
			}
			if !wanted[prog] {
				continue
			}
			x, err := spec.Parse(line)
			if err != nil {
				continue
			}
			kind := ""
			if x.Head() != "schema" {
				if ps := strings.Split(x.Nth(1).Atom, "/"); len(ps) >= 3 {
					kind = ps[2]
				}
			}
			e.records[prog] = append(e.records[prog], kind+" "+normRecord(x, td))
		case strings.HasPrefix(line, "(oracle "):
			parts := strings.SplitN(line, "\"", 3)
			if len(parts) > 1 {
				prog := strings.SplitN(parts[1], "/", 2)[0]
				if wanted[prog] {
					x, err := spec.Parse(line)
					if err == nil {
						// (oracle P id verdict sig what): keep property and verdict only
						kind := ""
						if ps := strings.Split(x.Nth(2).Atom, "/"); len(ps) >= 3 {
							kind = ps[2]
						}
						e.records[prog] = append(e.records[prog], kind+" (oracle "+x.Nth(1).Atom+" "+x.Nth(3).Atom+")")
					}
				}
			}
		}
	}
}

// normRecord renders a record without case id and program id and with types written out.
func normRecord(x *spec.Sx, td drv.TypeDefs) string {
	tt := func(v *spec.Sx) string {
		t, err := td.ParseTV(v)
		if err != nil {
			return v.String()
		}
		return drv.NewTypeTable().TVSxFull(t).String()
	}
	switch x.Head() {
	case "schema":
		return "(schema " + x.Nth(2).String() + " " + x.Nth(3).String() + " " + x.Nth(4).String() + ")"
	case "to":
		res := x.Nth(6)
		rs := res.String()
		if res.Head() == "ok" {
			rs = "(ok " + tt(res.Nth(1)) + " " + res.Nth(2).String() + ")"
		}
		return "(to " + x.Nth(3).String() + " " + x.Nth(4).String() + " " + tt(x.Nth(5)) + " " + rs + ")"
	case "from":
		return "(from " + x.Nth(3).String() + " " + tt(x.Nth(4)) + " " + x.Nth(5).String() + " " + x.Nth(6).String() + ")"
	}
	return x.String()
}

// compareRecords compares the behavioural records of two programs as multisets.
func (e *evalCtx) compareRecords(a, b string) string {
	return e.compareRecordsF(a, b, nil)
}

// admissibleKinds: the recipes whose inputs are admissible in the sense of C03/C08 (at most one
// branch of a oneof that is not null, well-formed objects): only there is behaviour independent of
// the declaration order.
var admissibleKinds = map[string]bool{"values-to": true, "values-from": true, "echo-from": true, "echo-to": true, "echo-from2": true,
	"history-first": true, "history-step": true, "history-ref": true, "history-again": true, "probe-base": true, "probe-to": true,
	"probe-from-base": true, "probe-from": true, "oneof-to": true, "": true, "injected-to": true, "hooks-pre": true, "hooks-to": true, "hooks-from": true}

func (e *evalCtx) compareRecordsF(a, b string, kinds map[string]bool) string {
	filter := func(rs []string) []string {
		if kinds == nil {
			return rs
		}
		var o []string
		for _, r := range rs {
			if kinds[strings.SplitN(r, " ", 2)[0]] {
				o = append(o, r)
			}
		}
		return o
	}
	ra, rb := filter(e.records[a]), filter(e.records[b])
	if len(ra) == 0 || len(rb) == 0 {
		return fmt.Sprintf("no behavioural records to compare (%d / %d)", len(ra), len(rb))
	}
	count := map[string]int{}
	for _, r := range ra {
		count[r]++
	}
	for _, r := range rb {
		count[r]--
	}
	nd := 0
	ex := ""
	for r, c := range count {
		if c != 0 {
			nd++
			if ex == "" || r < ex {
				ex = r
			}
		}
	}
	if nd == 0 {
		return ""
	}
	if len(ex) > 300 {
		ex = ex[:300]
	}
	return fmt.Sprintf("%d of %d behavioural records differ between %s and %s, e.g. %s", nd, len(ra), a, b, ex)
}

func eval(args []string) {
	fs := flag.NewFlagSet("eval", flag.ExitOnError)
	run := fs.String("run", "", "run directory")
	fs.Parse(args)
	e := &evalCtx{run: *run, progs: map[string]*spec.Program{}, ps: map[string]*ProgSummary{}, funcs: map[string]map[string]string{},
		model: map[string][]string{}, records: map[string][]string{}}
	b, err := ioutil.ReadFile(filepath.Join(*run, "summary.json"))
	if err != nil {
		die("%v", err)
	}
	e.sum = &Summary{}
	if err := json.Unmarshal(b, e.sum); err != nil {
		die("%v", err)
	}
	var progs []*spec.Program
	pb, err := ioutil.ReadFile(filepath.Join(*run, "programs.json"))
	if err != nil {
		die("%v", err)
	}
	json.Unmarshal(pb, &progs)
	for _, p := range progs {
		e.progs[p.ID] = p
	}
	for _, s := range e.sum.Programs {
		e.ps[s.ID] = s
	}
	// the model's program observables
	if mf, err := os.Open(filepath.Join(*run, "model.out")); err == nil {
		sc := bufio.NewScanner(mf)
		sc.Buffer(make([]byte, 1<<20), 1<<28)
		for sc.Scan() {
			line := sc.Text()
			if !strings.HasPrefix(line, "(program ") {
				continue
			}
			x, err := spec.Parse(line)
			if err != nil {
				continue
			}
			id := x.Nth(1).Atom
			if x.Nth(2).Atom == "fail" {
				e.model[id] = []string{"fail"}
				continue
			}
			var roots []string
			for _, r := range x.Nth(5).List[1:] {
				roots = append(roots, r.Atom)
			}
			e.model[id] = []string{"ok", x.Nth(3).Atom, x.Nth(4).Atom, strings.Join(roots, ",")}
		}
		mf.Close()
	}
	of, err := os.Create(filepath.Join(*run, "eval.sexp"))
	if err != nil {
		die("%v", err)
	}
	e.out = bufio.NewWriter(of)
	e.loadRecords()
	for _, p := range progs {
		s := e.ps[p.ID]
		if s == nil {
			continue
		}
		if p.ExpectFail {
			e.mustFail(p, s)
			continue
		}
		e.c01(p, s)
		e.static(p, s)
		// C14: repeated runs
		same := true
		for _, h := range s.SHARuns {
			if h != s.SHA {
				same = false
			}
		}
		e.verdict("C14", p.ID+"/repeat", same && len(s.SHARuns) > 0, "repeat", fmt.Sprintf("%d repeated runs (the last one with a pristine home, cache and temporary directory; then the target package probe) produced different outputs: %s", len(s.SHARuns), strings.Join(s.SHARuns, " ")))
	}
	e.families()
	e.out.Flush()
	of.Close()
}

// ---- static oracles on the generated text (they also speak when the text does not compile)

type keyNode struct {
	name     string
	children []*keyNode
	has      bool // carries a nested attribute map
}

func isAttrMap(t ast.Expr) bool {
	m, ok := t.(*ast.MapType)
	if !ok {
		return false
	}
	switch v := m.Value.(type) {
	case *ast.SelectorExpr:
		return v.Sel.Name == "Attribute"
	case *ast.Ident:
		return v.Name == "Attribute"
	}
	return false
}

// firstAttrMap finds the outermost attribute map literal below n.
func firstAttrMap(n ast.Node) *ast.CompositeLit {
	var found *ast.CompositeLit
	ast.Inspect(n, func(x ast.Node) bool {
		if found != nil {
			return false
		}
		if c, ok := x.(*ast.CompositeLit); ok && c.Type != nil && isAttrMap(c.Type) {
			found = c
			return false
		}
		return true
	})
	return found
}

func keyTree(c *ast.CompositeLit) []*keyNode {
	var out []*keyNode
	for _, el := range c.Elts {
		kv, ok := el.(*ast.KeyValueExpr)
		if !ok {
			continue
		}
		k, ok := kv.Key.(*ast.BasicLit)
		if !ok {
			continue
		}
		name, _ := strconv.Unquote(k.Value)
		n := &keyNode{name: name}
		if sub := firstAttrMap(kv.Value); sub != nil {
			n.has = true
			n.children = keyTree(sub)
		}
		out = append(out, n)
	}
	return out
}

func renderKeys(ns []*keyNode) string {
	var parts []string
	for _, n := range ns {
		s := n.name
		if n.has {
			s += "{" + renderKeys(n.children) + "}"
		}
		parts = append(parts, s)
	}
	sort.Strings(parts)
	return strings.Join(parts, ",")
}

func expectedKeys(m *spec.EMsg) []*keyNode {
	var out []*keyNode
	for _, f := range m.Fields {
		n := &keyNode{name: f.Attr}
		if f.Msg != nil && (f.Shape == "obj" || f.Shape == "objlist" || f.Shape == "objmap") {
			n.has = true
			n.children = expectedKeys(f.Msg)
		}
		out = append(out, n)
	}
	for _, in := range m.Injected {
		out = append(out, &keyNode{name: in.Name})
	}
	return out
}

func customSuffixes(m *spec.EMsg, into map[string]bool) {
	for _, f := range m.Fields {
		if f.Shape == "custom" {
			into[f.Suffix] = true
		}
		if f.Msg != nil {
			customSuffixes(f.Msg, into)
		}
	}
}

var hookRefRe = regexp.MustCompile(`^(GenSchema|CopyTo|CopyFrom)(.+)$`)

// static evaluates, on the generated text of one program: C02 the attribute names of every generated
// schema, at every depth, are the documented ones; C17 the user hooks the text refers to are exactly
// GenSchema/CopyTo/CopyFrom + the documented suffix of every custom-type field.
func (e *evalCtx) static(p *spec.Program, s *ProgSummary) {
	src, err := ioutil.ReadFile(filepath.Join(e.run, "gen", p.ID+"_terraform.go"))
	if err != nil || len(src) == 0 {
		return
	}
	fset := token.NewFileSet()
	f, err := parser.ParseFile(fset, "gen.go", src, 0)
	if err != nil {
		return // C01 reports a text that does not parse
	}
	declared := map[string]*ast.FuncDecl{}
	for _, d := range f.Decls {
		if fd, ok := d.(*ast.FuncDecl); ok && fd.Recv == nil {
			declared[fd.Name.Name] = fd
		}
	}
	wantHooks := map[string]bool{}
	anyCustom := false
	for _, root := range e.expectedRoots(p) {
		em := spec.Expect(p, root)
		if em == nil {
			continue
		}
		sfx := map[string]bool{}
		customSuffixes(em, sfx)
		for x := range sfx {
			anyCustom = true
			wantHooks["GenSchema"+x], wantHooks["CopyTo"+x], wantHooks["CopyFrom"+x] = true, true, true
		}
		fd := declared["GenSchema"+root]
		if fd == nil || fd.Body == nil {
			continue // C01 / C12 report missing declarations
		}
		top := firstAttrMap(fd.Body)
		got := ""
		if top != nil {
			got = renderKeys(keyTree(top))
		}
		want := renderKeys(expectedKeys(em))
		ok := got == want
		what := ""
		if !ok {
			what = fmt.Sprintf("attribute names of GenSchema%s in the generated text: %s; documented: %s", root, clip(got, 600), clip(want, 600))
		}
		e.verdict("C02", p.ID+"/"+root+"/schema-keys-static", ok, "schema-keys-static", what)
	}
	// hooks referred to: called identifiers that the file does not declare itself
	gotHooks := map[string]bool{}
	ast.Inspect(f, func(x ast.Node) bool {
		c, ok := x.(*ast.CallExpr)
		if !ok {
			return true
		}
		name := ""
		switch fn := c.Fun.(type) {
		case *ast.Ident:
			name = fn.Name
		case *ast.SelectorExpr:
			name = fn.Sel.Name
		}
		if m := hookRefRe.FindStringSubmatch(name); m != nil && declared[name] == nil {
			if _, isPkgCall := c.Fun.(*ast.SelectorExpr); !isPkgCall || wantHooks[name] {
				gotHooks[name] = true
			}
		}
		return true
	})
	if anyCustom || len(gotHooks) > 0 {
		var missing, extra []string
		for h := range wantHooks {
			if !gotHooks[h] {
				missing = append(missing, h)
			}
		}
		for h := range gotHooks {
			if !wantHooks[h] {
				extra = append(extra, h)
			}
		}
		sort.Strings(missing)
		sort.Strings(extra)
		ok := len(missing) == 0 && len(extra) == 0
		what := ""
		if !ok {
			what = fmt.Sprintf("hooks the generated text calls but the documented suffix rule does not give: [%s]; documented hooks never called: [%s]", strings.Join(extra, " "), strings.Join(missing, " "))
		}
		e.verdict("C17", p.ID+"/program/hook-names-static", ok, "hook-names-static", what)
	}
}

func clip(s string, n int) string {
	if len(s) > n {
		return s[:n] + "..."
	}
	return s
}
