// Package drv is the reflective driver linked with the generated packages of the corpus. It
// builds real Go structs and Terraform objects from abstract values, runs the generated
// functions under recover, and dumps canonical observables.
package drv

import (
	"context"
	"fmt"
	"math"
	"math/big"
	"reflect"
	"sort"
	"strings"
	"sync"
	"time"

	"github.com/hashicorp/terraform-plugin-framework/attr"
	"github.com/hashicorp/terraform-plugin-framework/types"

	"verifharness/spec"
	"verifharness/support"
)

// GV is an abstract Go value.
//
//	(i N) (f32 HEX) (f64 HEX) (b 0|1) (s "..") (by nil|"..") (t SEC NSEC OFF)
//	(p nil|V) (l nil|V...) (m nil|("k" V)...) (st ("Name" V)...) (o nil|"Branch" V)
type GV struct {
	K     string
	I     *big.Int
	Bits  uint64
	Bool  bool
	Str   string
	Nil   bool
	T     [3]int64
	Elems []*GV
	Keys  []string
}

// TY is an abstract Terraform type.
type TY struct {
	K      string // i64 f64 str bool time dur list map obj hook
	E      *TY
	Names  []string
	Tys    []*TY
	Suffix string
}

// TV is an abstract Terraform value.
//
//	(pv KIND NULL UNK PAYLOAD) (lv ETY NULL UNK nil|(V...)) (mv ETY NULL UNK nil|(("k" V)...))
//	(ov ATYS NULL UNK nil|(("name" V)...)) (nilv) (hv "S" FIELD TY CUR|absent)
type TV struct {
	K       string // pv lv mv ov nilv hv
	PK      string
	Null    bool
	Unknown bool
	Pay     *GV
	Ty      *TY // element type (lv, mv) or object type (ov)
	NilC    bool
	Elems   []*TV
	Keys    []string
	Suffix  string
	HField  *GV
	HType   *TY
	HCur    *TV
	HFromTF bool
}

var (
	timeType  = reflect.TypeOf(time.Time{})
	bytesType = reflect.TypeOf([]byte(nil))
)

// ---------------------------------------------------------------------------------------
// Go values: real -> abstract

func isBytes(t reflect.Type) bool {
	return t.Kind() == reflect.Slice && t.Elem().Kind() == reflect.Uint8
}

// structFields lists the regular fields of a struct type with by-value embedded structs flattened.
type sfield struct {
	Name  string
	Index []int
	Type  reflect.Type
}

func structFields(t reflect.Type) []sfield {
	var out []sfield
	for i := 0; i < t.NumField(); i++ {
		f := t.Field(i)
		if strings.HasPrefix(f.Name, "XXX_") {
			continue
		}
		if f.Anonymous && f.Type.Kind() == reflect.Struct && f.Type != timeType {
			for _, sf := range structFields(f.Type) {
				out = append(out, sfield{sf.Name, append([]int{i}, sf.Index...), sf.Type})
			}
			continue
		}
		out = append(out, sfield{f.Name, []int{i}, f.Type})
	}
	return out
}

// DumpGo converts a real Go value to its abstract form.
func DumpGo(v reflect.Value) *GV {
	t := v.Type()
	switch {
	case t == timeType:
		tm := v.Interface().(time.Time)
		_, off := tm.Zone()
		return &GV{K: "t", T: [3]int64{tm.Unix(), int64(tm.Nanosecond()), int64(off)}}
	case isBytes(t):
		if v.IsNil() {
			return &GV{K: "by", Nil: true}
		}
		return &GV{K: "by", Str: string(v.Bytes())}
	}
	switch t.Kind() {
	case reflect.Bool:
		return &GV{K: "b", Bool: v.Bool()}
	case reflect.Int, reflect.Int8, reflect.Int16, reflect.Int32, reflect.Int64:
		return &GV{K: "i", I: big.NewInt(v.Int())}
	case reflect.Uint, reflect.Uint8, reflect.Uint16, reflect.Uint32, reflect.Uint64:
		return &GV{K: "i", I: new(big.Int).SetUint64(v.Uint())}
	case reflect.Float32:
		return &GV{K: "f32", Bits: uint64(math.Float32bits(float32(v.Float())))}
	case reflect.Float64:
		return &GV{K: "f64", Bits: math.Float64bits(v.Float())}
	case reflect.String:
		return &GV{K: "s", Str: v.String()}
	case reflect.Ptr:
		if v.IsNil() {
			return &GV{K: "p", Nil: true}
		}
		return &GV{K: "p", Elems: []*GV{DumpGo(v.Elem())}}
	case reflect.Slice:
		if v.IsNil() {
			return &GV{K: "l", Nil: true}
		}
		g := &GV{K: "l", Elems: []*GV{}}
		for i := 0; i < v.Len(); i++ {
			g.Elems = append(g.Elems, DumpGo(v.Index(i)))
		}
		return g
	case reflect.Map:
		if v.IsNil() {
			return &GV{K: "m", Nil: true}
		}
		g := &GV{K: "m", Elems: []*GV{}, Keys: []string{}}
		keys := v.MapKeys()
		sort.Slice(keys, func(i, j int) bool { return keys[i].String() < keys[j].String() })
		for _, k := range keys {
			g.Keys = append(g.Keys, k.String())
			g.Elems = append(g.Elems, DumpGo(v.MapIndex(k)))
		}
		return g
	case reflect.Struct:
		g := &GV{K: "st"}
		for _, sf := range structFields(t) {
			g.Keys = append(g.Keys, sf.Name)
			g.Elems = append(g.Elems, DumpGo(v.FieldByIndex(sf.Index)))
		}
		return g
	case reflect.Interface:
		if v.IsNil() {
			return &GV{K: "o", Nil: true}
		}
		w := v.Elem() // *Wrapper
		if w.Kind() == reflect.Ptr && !w.IsNil() && w.Elem().Kind() == reflect.Struct && w.Elem().NumField() >= 1 {
			ft := w.Elem().Type().Field(0)
			return &GV{K: "o", Keys: []string{ft.Name}, Elems: []*GV{DumpGo(w.Elem().Field(0))}}
		}
		if w.Kind() == reflect.Ptr && w.IsNil() {
			// typed nil wrapper pointer: not produced by the converters in D; rendered distinctly
			return &GV{K: "o", Keys: []string{"<nilwrapper>"}, Elems: []*GV{{K: "b"}}}
		}
		panic(fmt.Sprintf("DumpGo: unsupported interface content %v", w.Type()))
	}
	panic(fmt.Sprintf("DumpGo: unsupported kind %v", t))
}

// ---------------------------------------------------------------------------------------
// Go values: abstract -> real

// Builder builds real values; Wrappers maps (interface type, branch field name) to the wrapper struct type.
type Builder struct {
	Wrappers []reflect.Type // wrapper struct types (not pointers)
}

func (b *Builder) wrapperFor(iface reflect.Type, branch string) (reflect.Type, bool) {
	for _, w := range b.Wrappers {
		if w.NumField() >= 1 && w.Field(0).Name == branch && reflect.PtrTo(w).Implements(iface) {
			return w, true
		}
	}
	return nil, false
}

// WrappersOf lists the wrapper types implementing an interface type, ordered by name.
func (b *Builder) WrappersOf(iface reflect.Type) []reflect.Type {
	var out []reflect.Type
	for _, w := range b.Wrappers {
		if reflect.PtrTo(w).Implements(iface) {
			out = append(out, w)
		}
	}
	sort.Slice(out, func(i, j int) bool { return out[i].Name() < out[j].Name() })
	return out
}

// BuildGo stores the abstract value g into the settable value v.
func (b *Builder) BuildGo(v reflect.Value, g *GV) error {
	t := v.Type()
	switch {
	case t == timeType:
		if g.K != "t" {
			return fmt.Errorf("expected time, got %s", g.K)
		}
		loc := time.UTC
		if g.T[2] != 0 {
			loc = time.FixedZone(fmt.Sprintf("Z%d", g.T[2]), int(g.T[2]))
		}
		v.Set(reflect.ValueOf(time.Unix(g.T[0], g.T[1]).In(loc)))
		return nil
	case isBytes(t):
		if g.K != "by" {
			return fmt.Errorf("expected bytes, got %s", g.K)
		}
		if g.Nil {
			v.Set(reflect.Zero(t))
		} else {
			bs := reflect.MakeSlice(t, len(g.Str), len(g.Str))
			reflect.Copy(bs, reflect.ValueOf([]byte(g.Str)))
			v.Set(bs)
		}
		return nil
	}
	switch t.Kind() {
	case reflect.Bool:
		v.SetBool(g.Bool)
	case reflect.Int, reflect.Int8, reflect.Int16, reflect.Int32, reflect.Int64:
		if g.K != "i" || !g.I.IsInt64() || v.OverflowInt(g.I.Int64()) {
			return fmt.Errorf("int out of range for %v: %v", t, g.I)
		}
		v.SetInt(g.I.Int64())
	case reflect.Uint, reflect.Uint8, reflect.Uint16, reflect.Uint32, reflect.Uint64:
		if g.K != "i" || !g.I.IsUint64() || v.OverflowUint(g.I.Uint64()) {
			return fmt.Errorf("uint out of range for %v: %v", t, g.I)
		}
		v.SetUint(g.I.Uint64())
	case reflect.Float32:
		v.SetFloat(float64(math.Float32frombits(uint32(g.Bits))))
	case reflect.Float64:
		v.SetFloat(math.Float64frombits(g.Bits))
	case reflect.String:
		v.SetString(g.Str)
	case reflect.Ptr:
		if g.Nil {
			v.Set(reflect.Zero(t))
			return nil
		}
		n := reflect.New(t.Elem())
		if err := b.BuildGo(n.Elem(), g.Elems[0]); err != nil {
			return err
		}
		v.Set(n)
	case reflect.Slice:
		if g.Nil {
			v.Set(reflect.Zero(t))
			return nil
		}
		s := reflect.MakeSlice(t, len(g.Elems), len(g.Elems))
		for i, e := range g.Elems {
			if err := b.BuildGo(s.Index(i), e); err != nil {
				return err
			}
		}
		v.Set(s)
	case reflect.Map:
		if g.Nil {
			v.Set(reflect.Zero(t))
			return nil
		}
		m := reflect.MakeMapWithSize(t, len(g.Elems))
		for i, e := range g.Elems {
			ev := reflect.New(t.Elem()).Elem()
			if err := b.BuildGo(ev, e); err != nil {
				return err
			}
			m.SetMapIndex(reflect.ValueOf(g.Keys[i]).Convert(t.Key()), ev)
		}
		v.Set(m)
	case reflect.Struct:
		if g.K != "st" {
			return fmt.Errorf("expected struct for %v, got %s", t, g.K)
		}
		fs := structFields(t)
		byName := map[string]sfield{}
		for _, sf := range fs {
			byName[sf.Name] = sf
		}
		for i, k := range g.Keys {
			sf, ok := byName[k]
			if !ok {
				return fmt.Errorf("struct %v has no field %s", t, k)
			}
			if err := b.BuildGo(v.FieldByIndex(sf.Index), g.Elems[i]); err != nil {
				return fmt.Errorf("%s: %w", k, err)
			}
		}
	case reflect.Interface:
		if g.Nil {
			v.Set(reflect.Zero(t))
			return nil
		}
		w, ok := b.wrapperFor(t, g.Keys[0])
		if !ok {
			return fmt.Errorf("no wrapper for %v branch %s", t, g.Keys[0])
		}
		n := reflect.New(w)
		if err := b.BuildGo(n.Elem().Field(0), g.Elems[0]); err != nil {
			return err
		}
		v.Set(n)
	default:
		return fmt.Errorf("BuildGo: unsupported kind %v", t)
	}
	return nil
}

// ---------------------------------------------------------------------------------------
// Terraform types and values: real <-> abstract

// DumpTy converts an attr.Type.
func DumpTy(t attr.Type) *TY {
	switch t := t.(type) {
	case types.ListType:
		return &TY{K: "list", E: DumpTy(t.ElemType)}
	case types.MapType:
		return &TY{K: "map", E: DumpTy(t.ElemType)}
	case types.ObjectType:
		o := &TY{K: "obj"}
		for _, k := range spec.SortedKeys(t.AttrTypes) {
			o.Names = append(o.Names, k)
			o.Tys = append(o.Tys, DumpTy(t.AttrTypes[k]))
		}
		return o
	case support.TimeType:
		if t != support.UseRFC3339Time() {
			// not what the configured type_constructor returns (e.g. the zero literal TimeType{})
			return otherTy(fmt.Sprintf("other:TimeType{Format:%q}", t.Format), t)
		}
		return &TY{K: "time"}
	case support.DurationType:
		return &TY{K: "dur"}
	case support.HookType:
		return &TY{K: "hook", Suffix: t.Suffix}
	case nil:
		return &TY{K: "niltype"}
	}
	switch t {
	case types.Int64Type:
		return &TY{K: "i64"}
	case types.Float64Type:
		return &TY{K: "f64"}
	case types.StringType:
		return &TY{K: "str"}
	case types.BoolType:
		return &TY{K: "bool"}
	case types.NumberType:
		return &TY{K: "num"}
	}
	return otherTy("other:"+fmt.Sprintf("%T", t), t)
}

// otherTypes remembers the types the abstract view has no name for, so that a schema holding one can
// still be turned back into attribute types (the oracles see the name and object to it).
var otherTypes sync.Map

func otherTy(k string, t attr.Type) *TY {
	otherTypes.Store(k, t)
	return &TY{K: k}
}

// BuildTy converts back.
func BuildTy(t *TY) attr.Type {
	switch t.K {
	case "i64":
		return types.Int64Type
	case "f64":
		return types.Float64Type
	case "str":
		return types.StringType
	case "bool":
		return types.BoolType
	case "num":
		return types.NumberType
	case "time":
		return support.UseRFC3339Time()
	case "dur":
		return support.DurationType{}
	case "hook":
		return support.HookType{Suffix: t.Suffix}
	case "list":
		return types.ListType{ElemType: BuildTy(t.E)}
	case "map":
		return types.MapType{ElemType: BuildTy(t.E)}
	case "obj":
		return types.ObjectType{AttrTypes: BuildAttrTypes(t)}
	case "niltype":
		return nil
	}
	if o, ok := otherTypes.Load(t.K); ok {
		return o.(attr.Type)
	}
	panic("BuildTy: " + t.K)
}

// BuildAttrTypes builds the AttrTypes map of an object type.
func BuildAttrTypes(t *TY) map[string]attr.Type {
	m := make(map[string]attr.Type, len(t.Names))
	for i, n := range t.Names {
		m[n] = BuildTy(t.Tys[i])
	}
	return m
}

func objTyOfMap(m map[string]attr.Type) *TY {
	return DumpTy(types.ObjectType{AttrTypes: m})
}

// DumpTF converts an attr.Value.
func DumpTF(v attr.Value) *TV {
	switch v := v.(type) {
	case nil:
		return &TV{K: "nilv"}
	case types.Int64:
		return &TV{K: "pv", PK: "i64", Null: v.Null, Unknown: v.Unknown, Pay: &GV{K: "i", I: big.NewInt(v.Value)}}
	case types.Float64:
		return &TV{K: "pv", PK: "f64", Null: v.Null, Unknown: v.Unknown, Pay: &GV{K: "f64", Bits: math.Float64bits(v.Value)}}
	case types.String:
		return &TV{K: "pv", PK: "str", Null: v.Null, Unknown: v.Unknown, Pay: &GV{K: "s", Str: v.Value}}
	case types.Bool:
		return &TV{K: "pv", PK: "bool", Null: v.Null, Unknown: v.Unknown, Pay: &GV{K: "b", Bool: v.Value}}
	case support.TimeValue:
		return &TV{K: "pv", PK: "time", Null: v.Null, Unknown: v.Unknown, Pay: DumpGo(reflect.ValueOf(v.Value))}
	case support.DurationValue:
		return &TV{K: "pv", PK: "dur", Null: v.Null, Unknown: v.Unknown, Pay: &GV{K: "i", I: big.NewInt(int64(v.Value))}}
	case support.HookValue:
		h := &TV{K: "hv", Suffix: v.Suffix, HFromTF: v.FromTF, Null: v.Null, Unknown: v.Unknown}
		if g, ok := v.Field.(*GV); ok && g != nil {
			h.HField = g
		}
		if v.AType != nil {
			h.HType = DumpTy(v.AType)
		}
		if v.HasCur {
			h.HCur = DumpTF(v.Cur)
		}
		return h
	case types.List:
		t := &TV{K: "lv", Null: v.Null, Unknown: v.Unknown, Ty: DumpTy(v.ElemType)}
		if v.Elems == nil {
			t.NilC = true
			return t
		}
		t.Elems = []*TV{}
		for _, e := range v.Elems {
			t.Elems = append(t.Elems, DumpTF(e))
		}
		return t
	case types.Map:
		t := &TV{K: "mv", Null: v.Null, Unknown: v.Unknown, Ty: DumpTy(v.ElemType)}
		if v.Elems == nil {
			t.NilC = true
			return t
		}
		t.Elems = []*TV{}
		t.Keys = []string{}
		for _, k := range spec.SortedKeys(v.Elems) {
			t.Keys = append(t.Keys, k)
			t.Elems = append(t.Elems, DumpTF(v.Elems[k]))
		}
		return t
	case types.Object:
		t := &TV{K: "ov", Null: v.Null, Unknown: v.Unknown, Ty: objTyOfMap(v.AttrTypes)}
		if v.AttrTypes == nil {
			t.Ty.K = "objnil"
		}
		if v.Attrs == nil {
			t.NilC = true
			return t
		}
		t.Elems = []*TV{}
		t.Keys = []string{}
		for _, k := range spec.SortedKeys(v.Attrs) {
			t.Keys = append(t.Keys, k)
			t.Elems = append(t.Elems, DumpTF(v.Attrs[k]))
		}
		return t
	}
	return &TV{K: "pv", PK: "other:" + fmt.Sprintf("%T", v)}
}

// BuildTF converts back. b is needed for hook values (their recorded field value is rebuilt
// against the Go type recorded in hookTypes).
func BuildTF(t *TV) attr.Value {
	switch t.K {
	case "nilv":
		return nil
	case "pv":
		switch t.PK {
		case "i64":
			return types.Int64{Null: t.Null, Unknown: t.Unknown, Value: t.Pay.I.Int64()}
		case "f64":
			return types.Float64{Null: t.Null, Unknown: t.Unknown, Value: math.Float64frombits(t.Pay.Bits)}
		case "str":
			return types.String{Null: t.Null, Unknown: t.Unknown, Value: t.Pay.Str}
		case "bool":
			return types.Bool{Null: t.Null, Unknown: t.Unknown, Value: t.Pay.Bool}
		case "time":
			var tm time.Time
			(&Builder{}).BuildGo(reflect.ValueOf(&tm).Elem(), t.Pay)
			return support.TimeValue{Null: t.Null, Unknown: t.Unknown, Value: tm, Format: time.RFC3339}
		case "dur":
			return support.DurationValue{Null: t.Null, Unknown: t.Unknown, Value: time.Duration(t.Pay.I.Int64())}
		}
	case "lv":
		l := types.List{Null: t.Null, Unknown: t.Unknown, ElemType: BuildTy(t.Ty)}
		if !t.NilC {
			l.Elems = make([]attr.Value, len(t.Elems))
			for i, e := range t.Elems {
				l.Elems[i] = BuildTF(e)
			}
		}
		return l
	case "mv":
		m := types.Map{Null: t.Null, Unknown: t.Unknown, ElemType: BuildTy(t.Ty)}
		if !t.NilC {
			m.Elems = make(map[string]attr.Value, len(t.Elems))
			for i, e := range t.Elems {
				m.Elems[t.Keys[i]] = BuildTF(e)
			}
		}
		return m
	case "ov":
		o := types.Object{Null: t.Null, Unknown: t.Unknown}
		if t.Ty.K != "objnil" {
			o.AttrTypes = BuildAttrTypes(t.Ty)
		}
		if !t.NilC {
			o.Attrs = make(map[string]attr.Value, len(t.Elems))
			for i, e := range t.Elems {
				o.Attrs[t.Keys[i]] = BuildTF(e)
			}
		}
		return o
	case "hv":
		h := support.HookValue{Suffix: t.Suffix, FromTF: t.HFromTF, Null: t.Null, Unknown: t.Unknown}
		if t.HField != nil {
			h.Field = t.HField
		}
		if t.HType != nil {
			h.AType = BuildTy(t.HType)
		}
		if t.HCur != nil {
			h.Cur = BuildTF(t.HCur)
			h.HasCur = true
		}
		return h
	}
	panic("BuildTF: " + t.K + "/" + t.PK)
}

func init() {
	support.Dump = func(v reflect.Value) interface{} { return DumpGo(v) }
	support.Restore = func(a interface{}, target reflect.Value) bool {
		g, ok := a.(*GV)
		if !ok || g == nil {
			return false
		}
		tmp := reflect.New(target.Type()).Elem()
		if err := (&Builder{}).BuildGo(tmp, g); err != nil {
			return false
		}
		target.Set(tmp)
		return true
	}
}

// ---------------------------------------------------------------------------------------
// S-expressions

// TypeTable interns object attribute-type lists so that values stay small.
type TypeTable struct {
	ids  map[string]int
	Defs []*spec.Sx
	objs map[int]*TY
}

// NewTypeTable creates an empty table.
func NewTypeTable() *TypeTable { return &TypeTable{ids: map[string]int{}, objs: map[int]*TY{}} }

// TySx renders a type, interning object types. Newly interned definitions are appended to Defs.
func (tt *TypeTable) TySx(t *TY) *spec.Sx {
	switch t.K {
	case "list", "map":
		return spec.L(spec.A(t.K), tt.TySx(t.E))
	case "hook":
		return spec.L(spec.A("hook"), spec.Q(t.Suffix))
	case "obj":
		body := spec.L()
		for i, n := range t.Names {
			body.Add(spec.L(spec.Q(n), tt.TySx(t.Tys[i])))
		}
		key := body.String()
		id, ok := tt.ids[key]
		if !ok {
			id = len(tt.ids)
			tt.ids[key] = id
			tt.Defs = append(tt.Defs, spec.L(spec.A("ty"), spec.I(int64(id)), body))
		}
		return spec.L(spec.A("obj"), spec.A(fmt.Sprintf("#%d", id)))
	default:
		return spec.A(t.K)
	}
}

// GVSx renders an abstract Go value.
func GVSx(g *GV) *spec.Sx {
	switch g.K {
	case "i":
		return spec.L(spec.A("i"), spec.A(g.I.String()))
	case "f32":
		return spec.L(spec.A("f32"), spec.A(fmt.Sprintf("%08x", g.Bits)))
	case "f64":
		return spec.L(spec.A("f64"), spec.A(fmt.Sprintf("%016x", g.Bits)))
	case "b":
		return spec.L(spec.A("b"), spec.B(g.Bool))
	case "s":
		return spec.L(spec.A("s"), spec.Q(g.Str))
	case "by":
		if g.Nil {
			return spec.L(spec.A("by"), spec.A("nil"))
		}
		return spec.L(spec.A("by"), spec.Q(g.Str))
	case "t":
		return spec.L(spec.A("t"), spec.I(g.T[0]), spec.I(g.T[1]), spec.I(g.T[2]))
	case "p":
		if g.Nil {
			return spec.L(spec.A("p"), spec.A("nil"))
		}
		return spec.L(spec.A("p"), GVSx(g.Elems[0]))
	case "l":
		if g.Nil {
			return spec.L(spec.A("l"), spec.A("nil"))
		}
		l := spec.L(spec.A("l"))
		for _, e := range g.Elems {
			l.Add(GVSx(e))
		}
		return l
	case "m":
		if g.Nil {
			return spec.L(spec.A("m"), spec.A("nil"))
		}
		l := spec.L(spec.A("m"))
		for i, e := range g.Elems {
			l.Add(spec.L(spec.Q(g.Keys[i]), GVSx(e)))
		}
		return l
	case "st":
		l := spec.L(spec.A("st"))
		idx := make([]int, len(g.Elems))
		for i := range idx {
			idx[i] = i
		}
		sort.Slice(idx, func(a, b int) bool { return g.Keys[idx[a]] < g.Keys[idx[b]] })
		for _, i := range idx {
			l.Add(spec.L(spec.Q(g.Keys[i]), GVSx(g.Elems[i])))
		}
		return l
	case "o":
		if g.Nil {
			return spec.L(spec.A("o"), spec.A("nil"))
		}
		return spec.L(spec.A("o"), spec.Q(g.Keys[0]), GVSx(g.Elems[0]))
	}
	panic("GVSx: " + g.K)
}

// TVSx renders an abstract Terraform value.
func (tt *TypeTable) TVSx(t *TV) *spec.Sx {
	switch t.K {
	case "nilv":
		return spec.L(spec.A("nilv"))
	case "pv":
		if t.Pay == nil {
			return spec.L(spec.A("pv"), spec.A(t.PK), spec.B(t.Null), spec.B(t.Unknown), spec.L())
		}
		return spec.L(spec.A("pv"), spec.A(t.PK), spec.B(t.Null), spec.B(t.Unknown), GVSx(t.Pay))
	case "lv":
		var body *spec.Sx
		if t.NilC {
			body = spec.A("nil")
		} else {
			body = spec.L()
			for _, e := range t.Elems {
				body.Add(tt.TVSx(e))
			}
		}
		return spec.L(spec.A("lv"), tt.TySx(t.Ty), spec.B(t.Null), spec.B(t.Unknown), body)
	case "mv", "ov":
		var body *spec.Sx
		if t.NilC {
			body = spec.A("nil")
		} else {
			body = spec.L()
			for i, e := range t.Elems {
				body.Add(spec.L(spec.Q(t.Keys[i]), tt.TVSx(e)))
			}
		}
		var ty *spec.Sx
		if t.K == "ov" {
			if t.Ty.K == "objnil" {
				ty = spec.A("nil")
			} else {
				ty = tt.TySx(t.Ty).Nth(1)
			}
		} else {
			ty = tt.TySx(t.Ty)
		}
		return spec.L(spec.A(t.K), ty, spec.B(t.Null), spec.B(t.Unknown), body)
	case "hv":
		f, ty, cur := spec.A("none"), spec.A("none"), spec.A("absent")
		if t.HField != nil {
			f = GVSx(t.HField)
		}
		if t.HType != nil {
			ty = tt.TySx(t.HType)
		}
		if t.HCur != nil {
			cur = tt.TVSx(t.HCur)
		}
		return spec.L(spec.A("hv"), spec.Q(t.Suffix), spec.B(t.HFromTF), spec.B(t.Null), spec.B(t.Unknown), f, ty, cur)
	}
	panic("TVSx: " + t.K)
}

// EqualGV compares abstract Go values structurally.
func EqualGV(a, b *GV) bool { return GVSx(a).String() == GVSx(b).String() }

// EqualTV compares abstract Terraform values structurally.
func EqualTV(a, b *TV) bool {
	return NewTypeTable().TVSx(a).String() == NewTypeTable().TVSx(b).String()
}

// CloneGV deep-copies.
func CloneGV(g *GV) *GV {
	if g == nil {
		return nil
	}
	c := *g
	if g.I != nil {
		c.I = new(big.Int).Set(g.I)
	}
	if g.Elems != nil {
		c.Elems = make([]*GV, len(g.Elems))
		for i, e := range g.Elems {
			c.Elems[i] = CloneGV(e)
		}
	}
	if g.Keys != nil {
		c.Keys = append([]string{}, g.Keys...)
	}
	return &c
}

// CloneTV deep-copies (types are shared: they are never mutated).
func CloneTV(t *TV) *TV {
	if t == nil {
		return nil
	}
	c := *t
	c.Pay = CloneGV(t.Pay)
	c.HField = CloneGV(t.HField)
	c.HCur = CloneTV(t.HCur)
	if t.Elems != nil {
		c.Elems = make([]*TV, len(t.Elems))
		for i, e := range t.Elems {
			c.Elems[i] = CloneTV(e)
		}
	}
	if t.Keys != nil {
		c.Keys = append([]string{}, t.Keys...)
	}
	return &c
}

var bg = context.Background()

// TVSxFull renders a value with object types written out (no interning), for comparisons across runs.
func (tt *TypeTable) TVSxFull(t *TV) *spec.Sx {
	switch t.K {
	case "lv":
		var body *spec.Sx
		if t.NilC {
			body = spec.A("nil")
		} else {
			body = spec.L()
			for _, e := range t.Elems {
				body.Add(tt.TVSxFull(e))
			}
		}
		return spec.L(spec.A("lv"), tt.tySxFull(t.Ty), spec.B(t.Null), spec.B(t.Unknown), body)
	case "mv", "ov":
		var body *spec.Sx
		if t.NilC {
			body = spec.A("nil")
		} else {
			body = spec.L()
			for i, e := range t.Elems {
				body.Add(spec.L(spec.Q(t.Keys[i]), tt.TVSxFull(e)))
			}
		}
		return spec.L(spec.A(t.K), tt.tySxFull(t.Ty), spec.B(t.Null), spec.B(t.Unknown), body)
	case "hv":
		f, ty, cur := spec.A("none"), spec.A("none"), spec.A("absent")
		if t.HField != nil {
			f = GVSx(t.HField)
		}
		if t.HType != nil {
			ty = tt.tySxFull(t.HType)
		}
		if t.HCur != nil {
			cur = tt.TVSxFull(t.HCur)
		}
		return spec.L(spec.A("hv"), spec.Q(t.Suffix), spec.B(t.HFromTF), spec.B(t.Null), spec.B(t.Unknown), f, ty, cur)
	}
	return tt.TVSx(t)
}
