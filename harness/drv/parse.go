package drv

import (
	"fmt"
	"math/big"
	"strconv"

	"verifharness/spec"
)

// TypeDefs resolves #N references while parsing.
type TypeDefs map[int]*TY

// ParseTy parses a type.
func (td TypeDefs) ParseTy(s *spec.Sx) (*TY, error) {
	if !s.IsList {
		return &TY{K: s.Atom}, nil
	}
	switch s.Head() {
	case "list", "map":
		e, err := td.ParseTy(s.Nth(1))
		if err != nil {
			return nil, err
		}
		return &TY{K: s.Head(), E: e}, nil
	case "hook":
		return &TY{K: "hook", Suffix: s.Nth(1).Atom}, nil
	case "obj":
		return td.objRef(s.Nth(1))
	}
	return nil, fmt.Errorf("bad type %s", s)
}

func (td TypeDefs) objRef(s *spec.Sx) (*TY, error) {
	if s.IsList {
		return td.ParseObjBody(s)
	}
	if s.Atom == "nil" {
		return &TY{K: "objnil"}, nil
	}
	if len(s.Atom) < 2 || s.Atom[0] != '#' {
		return nil, fmt.Errorf("bad object type ref %s", s)
	}
	n, err := strconv.Atoi(s.Atom[1:])
	if err != nil {
		return nil, err
	}
	t, ok := td[n]
	if !ok {
		return nil, fmt.Errorf("undefined type #%d", n)
	}
	return t, nil
}

// ParseObjBody parses (("name" TY)...).
func (td TypeDefs) ParseObjBody(s *spec.Sx) (*TY, error) {
	o := &TY{K: "obj"}
	for _, e := range s.List {
		t, err := td.ParseTy(e.Nth(1))
		if err != nil {
			return nil, err
		}
		o.Names = append(o.Names, e.Nth(0).Atom)
		o.Tys = append(o.Tys, t)
	}
	return o, nil
}

// Define handles a (ty N BODY) line.
func (td TypeDefs) Define(s *spec.Sx) error {
	n, err := strconv.Atoi(s.Nth(1).Atom)
	if err != nil {
		return err
	}
	t, err := td.ParseObjBody(s.Nth(2))
	if err != nil {
		return err
	}
	td[n] = t
	return nil
}

func atoi64(s string) int64 { n, _ := strconv.ParseInt(s, 10, 64); return n }

// ParseGV parses an abstract Go value.
func ParseGV(s *spec.Sx) (*GV, error) {
	isNil := func() bool { n := s.Nth(1); return n != nil && !n.IsList && !n.Quoted && n.Atom == "nil" }
	switch s.Head() {
	case "i":
		n, ok := new(big.Int).SetString(s.Nth(1).Atom, 10)
		if !ok {
			return nil, fmt.Errorf("bad int %s", s)
		}
		return &GV{K: "i", I: n}, nil
	case "f32", "f64":
		b, err := strconv.ParseUint(s.Nth(1).Atom, 16, 64)
		if err != nil {
			return nil, err
		}
		return &GV{K: s.Head(), Bits: b}, nil
	case "b":
		return &GV{K: "b", Bool: s.Nth(1).Atom == "1"}, nil
	case "s":
		return &GV{K: "s", Str: s.Nth(1).Atom}, nil
	case "by":
		if isNil() {
			return &GV{K: "by", Nil: true}, nil
		}
		return &GV{K: "by", Str: s.Nth(1).Atom}, nil
	case "t":
		return &GV{K: "t", T: [3]int64{atoi64(s.Nth(1).Atom), atoi64(s.Nth(2).Atom), atoi64(s.Nth(3).Atom)}}, nil
	case "p":
		if isNil() {
			return &GV{K: "p", Nil: true}, nil
		}
		e, err := ParseGV(s.Nth(1))
		if err != nil {
			return nil, err
		}
		return &GV{K: "p", Elems: []*GV{e}}, nil
	case "l":
		if isNil() {
			return &GV{K: "l", Nil: true}, nil
		}
		g := &GV{K: "l", Elems: []*GV{}}
		for _, x := range s.List[1:] {
			e, err := ParseGV(x)
			if err != nil {
				return nil, err
			}
			g.Elems = append(g.Elems, e)
		}
		return g, nil
	case "m", "st":
		if s.Head() == "m" && isNil() {
			return &GV{K: "m", Nil: true}, nil
		}
		g := &GV{K: s.Head(), Elems: []*GV{}, Keys: []string{}}
		for _, x := range s.List[1:] {
			e, err := ParseGV(x.Nth(1))
			if err != nil {
				return nil, err
			}
			g.Keys = append(g.Keys, x.Nth(0).Atom)
			g.Elems = append(g.Elems, e)
		}
		return g, nil
	case "o":
		if isNil() {
			return &GV{K: "o", Nil: true}, nil
		}
		e, err := ParseGV(s.Nth(2))
		if err != nil {
			return nil, err
		}
		return &GV{K: "o", Keys: []string{s.Nth(1).Atom}, Elems: []*GV{e}}, nil
	}
	return nil, fmt.Errorf("bad go value %s", s)
}

// ParseTV parses an abstract Terraform value.
func (td TypeDefs) ParseTV(s *spec.Sx) (*TV, error) {
	flag := func(i int) bool { return s.Nth(i).Atom == "1" }
	switch s.Head() {
	case "nilv":
		return &TV{K: "nilv"}, nil
	case "pv":
		t := &TV{K: "pv", PK: s.Nth(1).Atom, Null: flag(2), Unknown: flag(3)}
		if p := s.Nth(4); p != nil && len(p.List) > 0 {
			g, err := ParseGV(p)
			if err != nil {
				return nil, err
			}
			t.Pay = g
		}
		return t, nil
	case "lv":
		ety, err := td.ParseTy(s.Nth(1))
		if err != nil {
			return nil, err
		}
		t := &TV{K: "lv", Ty: ety, Null: flag(2), Unknown: flag(3)}
		body := s.Nth(4)
		if !body.IsList {
			t.NilC = true
			return t, nil
		}
		t.Elems = []*TV{}
		for _, x := range body.List {
			e, err := td.ParseTV(x)
			if err != nil {
				return nil, err
			}
			t.Elems = append(t.Elems, e)
		}
		return t, nil
	case "mv", "ov":
		var ty *TY
		var err error
		if s.Head() == "mv" {
			ty, err = td.ParseTy(s.Nth(1))
		} else {
			ty, err = td.objRef(s.Nth(1))
		}
		if err != nil {
			return nil, err
		}
		t := &TV{K: s.Head(), Ty: ty, Null: flag(2), Unknown: flag(3)}
		body := s.Nth(4)
		if !body.IsList {
			t.NilC = true
			return t, nil
		}
		t.Elems = []*TV{}
		t.Keys = []string{}
		for _, x := range body.List {
			e, err := td.ParseTV(x.Nth(1))
			if err != nil {
				return nil, err
			}
			t.Keys = append(t.Keys, x.Nth(0).Atom)
			t.Elems = append(t.Elems, e)
		}
		return t, nil
	case "hv":
		t := &TV{K: "hv", Suffix: s.Nth(1).Atom, HFromTF: flag(2), Null: flag(3), Unknown: flag(4)}
		if f := s.Nth(5); f.IsList {
			g, err := ParseGV(f)
			if err != nil {
				return nil, err
			}
			t.HField = g
		}
		if y := s.Nth(6); y.IsList || y.Atom != "none" {
			ty, err := td.ParseTy(y)
			if err != nil {
				return nil, err
			}
			t.HType = ty
		}
		if c := s.Nth(7); c.IsList {
			cv, err := td.ParseTV(c)
			if err != nil {
				return nil, err
			}
			t.HCur = cv
		}
		return t, nil
	}
	return nil, fmt.Errorf("bad tf value %s", s)
}
