package drv

import (
	"fmt"
	"reflect"
	"regexp"
	"sort"
	"strings"

	"github.com/hashicorp/terraform-plugin-framework/attr"
	"github.com/hashicorp/terraform-plugin-framework/types"
	"github.com/hashicorp/terraform-plugin-go/tftypes"

	"verifharness/spec"
)

// The oracles below are the properties' own predicates, evaluated on the implementation's
// observables without reference to the model. Each verdict carries a signature (what kind of
// field the predicate failed at) so that listed known findings can be told from new violations.

func injectedNames(info *spec.EMsg) map[string]bool {
	m := map[string]bool{}
	if info != nil {
		for _, j := range info.Injected {
			m[j.Name] = true
		}
	}
	return m
}

// nilEmbeddedParent reports whether the value has a nil pointer-embedded parent some field needs.
func nilEmbeddedParent(info *spec.EMsg, st *GV) bool {
	if info == nil || st == nil {
		return false
	}
	for _, f := range info.Fields {
		if len(f.Via) > 0 {
			if _, ok := ResolveVia(st, f.Via); !ok {
				return true
			}
		}
		v, s := FieldOf(f, st)
		if s != fsOK || f.Msg == nil {
			continue
		}
		if nilEmbeddedInValue(f, v) {
			return true
		}
	}
	return false
}

func nilEmbeddedInValue(f *spec.EField, v *GV) bool {
	switch v.K {
	case "p":
		return !v.Nil && nilEmbeddedInValue(f, v.Elems[0])
	case "l", "m":
		for _, e := range v.Elems {
			if nilEmbeddedInValue(f, e) {
				return true
			}
		}
		return false
	case "st":
		return nilEmbeddedParent(f.Msg, v)
	}
	return false
}

func hasEmbeddedPtr(info *spec.EMsg, depth int) bool {
	if info == nil || depth > 8 {
		return false
	}
	for _, f := range info.Fields {
		if len(f.Via) > 0 {
			return true
		}
		if hasEmbeddedPtr(f.Msg, depth+1) {
			return true
		}
	}
	return false
}

// ---------------------------------------------------------------------------------------
// C03: conformance of a CopyTo result on the empty object

func conformVal(ty *TY, v *TV, ef *spec.EField, path string, errs *[]string) {
	if len(*errs) > 8 {
		return
	}
	if v.K == "nilv" {
		*errs = append(*errs, path+": nil value")
		return
	}
	if v.Unknown {
		*errs = append(*errs, path+": unknown")
	}
	switch ty.K {
	case "i64", "f64", "str", "bool", "time", "dur":
		if v.K != "pv" || v.PK != ty.K {
			*errs = append(*errs, fmt.Sprintf("%s: value kind %s/%s, schema type %s", path, v.K, v.PK, ty.K))
		}
	case "hook":
		if v.K != "hv" {
			*errs = append(*errs, path+": not a hook value")
		}
	case "list", "map":
		want := map[string]string{"list": "lv", "map": "mv"}[ty.K]
		if v.K != want {
			*errs = append(*errs, fmt.Sprintf("%s: value kind %s, schema type %s", path, v.K, ty.K))
			return
		}
		if !tyEqual(v.Ty, ty.E) {
			*errs = append(*errs, path+": element type differs from the schema's")
		}
		if v.Null {
			return
		}
		for i, e := range v.Elems {
			conformVal(ty.E, e, ef, fmt.Sprintf("%s[%d]", path, i), errs)
		}
	case "obj":
		if v.K != "ov" {
			*errs = append(*errs, fmt.Sprintf("%s: value kind %s, schema type obj", path, v.K))
			return
		}
		if !tyEqual(v.Ty, ty) {
			*errs = append(*errs, path+": attribute types differ from the schema's")
		}
		if v.Null {
			return
		}
		var info *spec.EMsg
		if ef != nil {
			info = ef.Msg
		}
		conformObj(ty, v, info, path, errs)
	}
}

func conformObj(ty *TY, v *TV, info *spec.EMsg, path string, errs *[]string) {
	inj := injectedNames(info)
	for i, n := range ty.Names {
		if inj[n] {
			continue
		}
		a, ok := v.Attr(n)
		if !ok {
			*errs = append(*errs, path+"."+n+": missing")
			continue
		}
		conformVal(ty.Tys[i], a, fieldByAttr(info, n), path+"."+n, errs)
	}
	for _, k := range v.Keys {
		if ty.AttrTy(k) == nil {
			*errs = append(*errs, path+"."+k+": not in the schema")
		}
	}
}

func tyEqual(a, b *TY) bool {
	if a == nil || b == nil {
		return a == b
	}
	tt := NewTypeTable()
	return tt.tySxFull(a).String() == tt.tySxFull(b).String()
}

// fillMissing adds null values for the attributes the converters never touch (injected ones).
func fillMissing(o *types.Object) (err error) {
	for k, t := range o.AttrTypes {
		if v, ok := o.Attrs[k]; ok {
			switch vv := v.(type) {
			case types.Object:
				if !vv.Null && !vv.Unknown {
					if err := fillMissing(&vv); err != nil {
						return err
					}
					o.Attrs[k] = vv
				}
			case types.List:
				for i, e := range vv.Elems {
					if eo, ok := e.(types.Object); ok && !eo.Null && !eo.Unknown {
						if err := fillMissing(&eo); err != nil {
							return err
						}
						vv.Elems[i] = eo
					}
				}
			case types.Map:
				for mk, e := range vv.Elems {
					if eo, ok := e.(types.Object); ok && !eo.Null && !eo.Unknown {
						if err := fillMissing(&eo); err != nil {
							return err
						}
						vv.Elems[mk] = eo
					}
				}
			}
			continue
		}
		nv, err := t.ValueFromTerraform(bg, tftypes.NewValue(t.TerraformType(bg), nil))
		if err != nil {
			return err
		}
		if o.Attrs == nil {
			o.Attrs = map[string]attr.Value{}
		}
		o.Attrs[k] = nv
	}
	return nil
}

var fiveDigitYear = regexp.MustCompile(`parsing time \\?"\d{5,}-`)

// toTerraformOK converts the object to a tftypes.Value and checks its type against the schema's.
func toTerraformOK(o types.Object, schemaTy *TY) (msg string) {
	defer func() {
		if e := recover(); e != nil {
			msg = fmt.Sprintf("ToTerraformValue panicked: %v", e)
		}
	}()
	if err := fillMissing(&o); err != nil {
		return "cannot fill injected attributes: " + err.Error()
	}
	v, err := o.ToTerraformValue(bg)
	if err != nil {
		return "ToTerraformValue: " + err.Error()
	}
	want := BuildTy(schemaTy).TerraformType(bg)
	if !v.Type().Is(want) {
		return "Terraform type of the result differs from the schema's"
	}
	if err := tftypes.ValidateValue(want, v); err != nil {
		// ValidateValue expects a Go value; the Value itself validates by construction
		_ = err
	}
	// "so that the framework would accept it as state": the schema's type reads the value back
	if _, err := BuildTy(schemaTy).ValueFromTerraform(bg, v); err != nil && !fiveDigitYear.MatchString(err.Error()) {
		// (the harness's RFC 3339 time type cannot read back its own rendering of years beyond 9999, which the
		// boundary values include: that is the user type's limit, not the generator's)
		return "the schema's type does not accept the Terraform value of the result: " + err.Error()
	}
	return ""
}

func (c *ctx) oracleC03(id string, src *GV, r ToResult) {
	if r.Panic != "" {
		sig := "panic"
		if nilEmbeddedParent(c.info, src) {
			sig = "panic:nil-embedded-pointer"
		}
		c.Oracle("C03", id, false, sig, "CopyTo panicked: "+r.Panic)
		return
	}
	if len(r.Diags) > 0 {
		c.Oracle("C03", id, false, "diag:"+r.Diags[0].Kind, fmt.Sprintf("diagnostics returned: %v", r.Diags))
		return
	}
	var errs []string
	conformObj(c.objTy, r.Obj, c.info, c.r.Name, &errs)
	if len(errs) > 0 {
		c.Oracle("C03", id, false, "nonconformant", strings.Join(errs, "; "))
		return
	}
	if msg := toTerraformOK(r.Real, c.objTy); msg != "" {
		c.Oracle("C03", id, false, "tfvalue", msg)
		return
	}
	c.Oracle("C03", id, true, "", "")
}

// ---------------------------------------------------------------------------------------
// C20: null-ness on the empty target

func (c *ctx) checkNullness(info *spec.EMsg, st *GV, obj *TV, path string, fails *[]string, sigs *[]string) {
	if info == nil || obj == nil {
		return
	}
	for _, f := range info.Fields {
		a, ok := obj.Attr(f.Attr)
		p := path + "." + f.Attr
		if !ok {
			continue // C03 reports missing attributes
		}
		bad := func(what string) {
			*fails = append(*fails, p+": "+what)
			*sigs = append(*sigs, DescribeField(f))
		}
		if f.Shape == "custom" {
			continue
		}
		if f.Placeholder {
			if !a.Null {
				bad("placeholder attribute is not null")
			}
			continue
		}
		v, state := FieldOf(f, st)
		if state != fsOK {
			// unset oneof / inactive branch / nil embedded pointer: absence is null -- except for a message held by
			// value, which is never null (its attributes are those of the zero message, checked on the way back)
			if state == fsViaNil && f.Shape == "obj" && !f.Ptr {
				if a.Null {
					bad("non-nullable message rendered null")
				}
				continue
			}
			if !a.Null {
				bad("attribute of an absent field is not null")
			}
			continue
		}
		switch f.Shape {
		case "prim":
			switch {
			case f.Temporal && f.Ptr:
				if a.Null != v.Nil {
					bad(fmt.Sprintf("pointer nil=%v but null=%v", v.Nil, a.Null))
				}
			case f.Temporal:
				if a.Null {
					bad("time/duration held by value rendered null")
				}
			default:
				z := IsZeroGV(v)
				if a.Null != z {
					bad(fmt.Sprintf("zero=%v but null=%v", z, a.Null))
				}
			}
		case "list", "map", "objlist", "objmap":
			empty := v.Nil || len(v.Elems) == 0
			if a.Null != empty {
				bad(fmt.Sprintf("empty=%v but null=%v", empty, a.Null))
			}
		case "obj":
			if f.Ptr {
				if a.Null != v.Nil {
					bad(fmt.Sprintf("pointer nil=%v but null=%v", v.Nil, a.Null))
				}
				if !v.Nil && !a.Null {
					c.checkNullness(f.Msg, v.Elems[0], a, p, fails, sigs)
				}
			} else {
				if a.Null {
					bad("non-nullable message rendered null")
				} else {
					c.checkNullness(f.Msg, v, a, p, fails, sigs)
				}
			}
		}
	}
}

func (c *ctx) oracleC20(id string, src *GV, r ToResult) {
	if r.Panic != "" {
		sig := "panic"
		if nilEmbeddedParent(c.info, src) {
			sig = "panic:nil-embedded-pointer"
		}
		c.Oracle("C20", id, false, sig, "CopyTo panicked")
		return
	}
	var fails, sigs []string
	c.checkNullness(c.info, src, r.Obj, c.r.Name, &fails, &sigs)
	if len(fails) > 0 {
		c.Oracle("C20", id, false, sigs[0], strings.Join(fails, "; "))
		return
	}
	c.Oracle("C20", id, true, "", "")
}

// ---------------------------------------------------------------------------------------
// C04 / C19: round trip

// scalarLeaves lists every scalar leaf with its path.
func scalarLeaves(g *GV, path string, out map[string]string) {
	switch g.K {
	case "i", "s", "b", "t":
		out[path] = GVSx(g).String()
	case "f32", "f64":
		n := (&Builder{}).NF(g, nil)
		out[path] = GVSx(n).String()
	case "by":
		if !g.Nil && g.Str != "" {
			out[path] = GVSx(g).String()
		}
	case "p", "o":
		if !g.Nil {
			scalarLeaves(g.Elems[0], path, out)
		}
	case "l":
		for i, e := range g.Elems {
			scalarLeaves(e, fmt.Sprintf("%s[%d]", path, i), out)
		}
	case "m":
		for i, e := range g.Elems {
			scalarLeaves(e, fmt.Sprintf("%s[%q]", path, g.Keys[i]), out)
		}
	case "st":
		for i, e := range g.Elems {
			scalarLeaves(e, path+"."+g.Keys[i], out)
		}
	}
}

func (c *ctx) oracleRoundTrip(id string, src *GV, fr FromResult) {
	if fr.Panic != "" {
		sig := "panic"
		if hasEmbeddedPtr(c.info, 0) {
			sig = "panic:embedded-pointer"
		}
		c.Oracle("C04", id, false, sig, "CopyFrom panicked: "+fr.Panic)
		return
	}
	a, b := Described(c.info, c.p.b.NF(src, c.rt)), Described(c.info, c.p.b.NF(fr.Val, c.rt))
	var diffs []string
	DiffGV(a, b, "", &diffs)
	if len(fr.Diags) > 0 {
		// reading back what CopyTo wrote was refused; the scalar leaves lost that way are C19's too (below)
		c.Oracle("C04", id, false, "diag:"+fr.Diags[0].Kind, fmt.Sprintf("diagnostics: %v", fr.Diags))
	} else if len(diffs) > 0 {
		c.Oracle("C04", id, false, ShapeAt(c.info, diffs[0]), "normal forms differ at "+strings.Join(diffs, ", "))
	} else {
		c.Oracle("C04", id, true, "", "")
	}
	// C19: every non-zero scalar leaf of the source is found again, exactly
	la, lb := map[string]string{}, map[string]string{}
	scalarLeaves(a, "", la)
	scalarLeaves(b, "", lb)
	var bad []string
	for _, k := range spec.SortedKeys(la) {
		if lb[k] != la[k] {
			// a leaf below a structural difference is C04's business, not C19's
			structural := false
			for _, d := range diffs {
				if strings.HasPrefix(k, d) && d != k {
					// ... except for the scalar elements of a repeated field or map that differs as a whole
					// (C19 quantifies over "repeated element, map value"): an element that is not read back
					if rest := k[len(d):]; !(strings.HasPrefix(rest, "[") && strings.Index(rest, "]") == len(rest)-1) {
						structural = true
					}
				}
			}
			if !structural {
				bad = append(bad, fmt.Sprintf("%s: %s -> %s", k, la[k], lb[k]))
			}
		}
	}
	if len(bad) > 0 {
		c.Oracle("C19", id, false, ShapeAt(c.info, strings.SplitN(bad[0], ":", 2)[0]), strings.Join(bad, "; "))
	} else {
		c.Oracle("C19", id, true, "", "")
	}
}

// ---------------------------------------------------------------------------------------
// helpers shared by the remaining oracles

// noUnknown lists the paths of unknown values (attributes named in skip, at this object level, aside).
func noUnknown(t *TV, info *spec.EMsg, path string, out *[]string) {
	if t == nil {
		return
	}
	if t.Unknown {
		*out = append(*out, path)
	}
	if t.Null || t.NilC {
		return
	}
	switch t.K {
	case "ov":
		inj := injectedNames(info)
		for i, k := range t.Keys {
			if inj[k] {
				continue
			}
			var sub *spec.EMsg
			if f := fieldByAttr(info, k); f != nil {
				sub = f.Msg
			}
			noUnknown(t.Elems[i], sub, path+"."+k, out)
		}
	case "lv", "mv":
		for i, e := range t.Elems {
			noUnknown(e, info, fmt.Sprintf("%s[%d]", path, i), out)
		}
	}
}

func sortedCopy(xs []string) []string {
	o := append([]string{}, xs...)
	sort.Strings(o)
	return o
}

var _ = reflect.TypeOf
