package drv

import (
	"math"
	"math/big"
	"reflect"
	"sort"

	"verifharness/spec"
)

// Rnd is the one PRNG of the driver (splitmix64); every random choice derives from it.
type Rnd struct{ s uint64 }

// NewRnd seeds a generator.
func NewRnd(seed uint64) *Rnd { return &Rnd{s: seed*0x9E3779B97F4A7C15 + 0x1234567} }

// U64 returns the next value.
func (r *Rnd) U64() uint64 {
	r.s += 0x9E3779B97F4A7C15
	z := r.s
	z = (z ^ (z >> 30)) * 0xBF58476D1CE4E5B9
	z = (z ^ (z >> 27)) * 0x94D049BB133111EB
	return z ^ (z >> 31)
}

// N returns a value in [0,n).
func (r *Rnd) N(n int) int {
	if n <= 0 {
		return 0
	}
	return int(r.U64() % uint64(n))
}

// P is true with probability num/den.
func (r *Rnd) P(num, den int) bool { return r.N(den) < num }

// Fork derives an independent generator from the seed of r and a tag; it does not advance r, so the
// derived generator depends on the tag only, not on how many forks were taken before.
func (r *Rnd) Fork(tag uint64) *Rnd { return NewRnd(r.s ^ (tag+1)*0xD1B54A32D192ED03) }

// Mode steers value generation.
type Mode int

const (
	// MRand mixes everything.
	MRand Mode = iota
	// MZero is the zero value.
	MZero
	// MFull sets everything non-zero, non-nil, non-empty.
	MFull
	// MEdge prefers boundary values.
	MEdge
)

var strPool = []string{"", "a", "x y", "ünï", "\x00\xff\xfe", "line\nbreak", "0", "null", "\"q\"", "long-value-0123456789"}

func (r *Rnd) str() string {
	if r.P(1, 3) {
		return strPool[r.N(len(strPool))]
	}
	n := r.N(6) + 1
	b := make([]byte, n)
	for i := range b {
		b[i] = byte('a' + r.N(26))
	}
	return string(b)
}

func (r *Rnd) nzstr() string {
	for {
		s := r.str()
		if s != "" {
			return s
		}
	}
}

// intIn returns an integer of the given width and signedness.
func (r *Rnd) intIn(bits int, signed bool, m Mode) *big.Int {
	var lo, hi *big.Int
	one := big.NewInt(1)
	if signed {
		hi = new(big.Int).Sub(new(big.Int).Lsh(one, uint(bits-1)), one)
		lo = new(big.Int).Neg(new(big.Int).Lsh(one, uint(bits-1)))
	} else {
		lo = big.NewInt(0)
		hi = new(big.Int).Sub(new(big.Int).Lsh(one, uint(bits)), one)
	}
	edges := []*big.Int{lo, hi, big.NewInt(1), new(big.Int).Sub(hi, one), new(big.Int).Add(lo, one)}
	if signed {
		edges = append(edges, big.NewInt(-1))
	} else {
		// around the signed maximum of the same width
		half := new(big.Int).Lsh(one, uint(bits-1))
		edges = append(edges, half, new(big.Int).Sub(half, one), new(big.Int).Add(half, one))
	}
	switch m {
	case MZero:
		return big.NewInt(0)
	case MEdge:
		return new(big.Int).Set(edges[r.N(len(edges))])
	}
	for {
		var v *big.Int
		switch r.N(4) {
		case 0:
			v = new(big.Int).Set(edges[r.N(len(edges))])
		case 1:
			v = big.NewInt(int64(r.N(2000)) - 1000)
		default:
			v = new(big.Int).SetUint64(r.U64())
			if signed {
				v = big.NewInt(int64(r.U64()))
			}
			sh := uint(r.N(64))
			v.Rsh(v, sh)
		}
		if v.Cmp(lo) < 0 || v.Cmp(hi) > 0 {
			v.Mod(v, new(big.Int).Add(new(big.Int).Sub(hi, lo), one))
			v.Add(v, lo)
		}
		if m == MFull && v.Sign() == 0 {
			continue
		}
		if m == MRand && r.P(1, 5) {
			return big.NewInt(0)
		}
		return v
	}
}

var f32Edges = []uint32{0x00000000, 0x80000000, 0x00000001, 0x80000001, 0x007fffff, 0x00800000, 0x7f7fffff, 0xff7fffff, 0x3f800000, 0x3f800001, 0x33800000, 0x4b7fffff, 0x3eaaaaab}
var f64Edges = []uint64{0, 0x8000000000000000, 1, 0x8000000000000001, 0x000fffffffffffff, 0x0010000000000000, 0x7fefffffffffffff, 0xffefffffffffffff, 0x3ff0000000000000, 0x3ff0000000000001, 0x3fd5555555555555, 0x47efffffe0000000, 0x36a0000000000000, 0x47efffffefffffff}

func (r *Rnd) f32bits(m Mode) uint32 {
	if m == MZero {
		return 0
	}
	for {
		var b uint32
		if m == MEdge || r.P(1, 3) {
			b = f32Edges[r.N(len(f32Edges))]
		} else {
			b = uint32(r.U64())
		}
		if b&0x7f800000 == 0x7f800000 { // inf / nan excluded (DESIGN §3.6)
			continue
		}
		if m == MFull && b&0x7fffffff == 0 {
			continue
		}
		if m == MRand && r.P(1, 6) {
			return 0
		}
		return b
	}
}

func (r *Rnd) f64bits(m Mode) uint64 {
	if m == MZero {
		return 0
	}
	for {
		var b uint64
		if m == MEdge || r.P(1, 3) {
			b = f64Edges[r.N(len(f64Edges))]
		} else {
			b = r.U64()
		}
		if b&0x7ff0000000000000 == 0x7ff0000000000000 {
			continue
		}
		if m == MFull && b&0x7fffffffffffffff == 0 {
			continue
		}
		if m == MRand && r.P(1, 6) {
			return 0
		}
		return b
	}
}

func (r *Rnd) timeGV(m Mode) *GV {
	if m == MZero {
		return &GV{K: "t", T: [3]int64{-62135596800, 0, 0}}
	}
	offs := []int64{0, 0, 3600, -18000, 19800, 50400, -43200, 900}
	secs := []int64{0, 1, -1, 1600000000, 253402300799, -62135596800, 951782400, 4102444800}
	var s int64
	if r.P(1, 2) {
		s = secs[r.N(len(secs))]
	} else {
		s = int64(r.U64()%uint64(253402300799+62135596800)) - 62135596800
	}
	ns := int64(0)
	switch r.N(4) {
	case 0:
		ns = 999999999
	case 1:
		ns = int64(r.N(1000000000))
	case 2:
		ns = 1
	}
	if m == MFull && s == -62135596800 && ns == 0 {
		s = 1600000000
	}
	return &GV{K: "t", T: [3]int64{s, ns, offs[r.N(len(offs))]}}
}

// sizes of containers by depth
func (r *Rnd) size(depth int, m Mode) int {
	switch m {
	case MFull:
		if depth > 2 {
			return 1
		}
		return 1 + r.N(2)
	}
	if depth > 2 {
		return r.N(2)
	}
	return r.N(4)
}

// GenGo generates an abstract value for a Go type.
func (b *Builder) GenGo(t reflect.Type, r *Rnd, m Mode, depth int) *GV {
	switch {
	case t == timeType:
		return r.timeGV(m)
	case isBytes(t):
		switch m {
		case MZero:
			return &GV{K: "by", Nil: true}
		case MFull:
			return &GV{K: "by", Str: r.nzstr()}
		}
		switch r.N(4) {
		case 0:
			return &GV{K: "by", Nil: true}
		case 1:
			return &GV{K: "by", Str: ""}
		}
		return &GV{K: "by", Str: r.str()}
	}
	switch t.Kind() {
	case reflect.Bool:
		switch m {
		case MZero:
			return &GV{K: "b"}
		case MFull:
			return &GV{K: "b", Bool: true}
		}
		return &GV{K: "b", Bool: r.P(1, 2)}
	case reflect.Int32:
		return &GV{K: "i", I: r.intIn(32, true, m)}
	case reflect.Int64, reflect.Int:
		return &GV{K: "i", I: r.intIn(64, true, m)}
	case reflect.Uint32:
		return &GV{K: "i", I: r.intIn(32, false, m)}
	case reflect.Uint64, reflect.Uint:
		return &GV{K: "i", I: r.intIn(64, false, m)}
	case reflect.Uint8:
		return &GV{K: "i", I: r.intIn(8, false, m)}
	case reflect.Float32:
		return &GV{K: "f32", Bits: uint64(r.f32bits(m))}
	case reflect.Float64:
		return &GV{K: "f64", Bits: r.f64bits(m)}
	case reflect.String:
		switch m {
		case MZero:
			return &GV{K: "s"}
		case MFull:
			return &GV{K: "s", Str: r.nzstr()}
		}
		return &GV{K: "s", Str: r.str()}
	case reflect.Ptr:
		if m == MZero || (m != MFull && r.P(1, 3)) {
			return &GV{K: "p", Nil: true}
		}
		em := m
		if m == MRand && r.P(1, 4) {
			em = MZero // non-nil pointer to a zero value
		}
		return &GV{K: "p", Elems: []*GV{b.GenGo(t.Elem(), r, em, depth+1)}}
	case reflect.Slice:
		if m == MZero {
			return &GV{K: "l", Nil: true}
		}
		if m != MFull {
			switch r.N(5) {
			case 0:
				return &GV{K: "l", Nil: true}
			case 1:
				return &GV{K: "l", Elems: []*GV{}}
			}
		}
		n := r.size(depth, m)
		if m == MFull && n == 0 {
			n = 1
		}
		g := &GV{K: "l", Elems: []*GV{}}
		for i := 0; i < n; i++ {
			g.Elems = append(g.Elems, b.GenGo(t.Elem(), r, m, depth+1))
		}
		return g
	case reflect.Map:
		if m == MZero {
			return &GV{K: "m", Nil: true}
		}
		if m != MFull {
			switch r.N(5) {
			case 0:
				return &GV{K: "m", Nil: true}
			case 1:
				return &GV{K: "m", Elems: []*GV{}, Keys: []string{}}
			}
		}
		n := r.size(depth, m)
		if m == MFull && n == 0 {
			n = 1
		}
		keys := map[string]bool{}
		for i := 0; i < n; i++ {
			k := []string{"k1", "k2", "a", "", "z.z", "K"}[r.N(6)]
			keys[k] = true
		}
		g := &GV{K: "m", Elems: []*GV{}, Keys: []string{}}
		for _, k := range spec.SortedKeys(keys) {
			g.Keys = append(g.Keys, k)
			g.Elems = append(g.Elems, b.GenGo(t.Elem(), r, m, depth+1))
		}
		return g
	case reflect.Struct:
		// fields are visited in name order and every field gets its own generator derived from
		// its name, so that the value does not depend on the declaration order (C15) nor on the
		// presence of other fields (C11)
		g := &GV{K: "st"}
		fs := structFields(t)
		sort.Slice(fs, func(i, j int) bool { return fs[i].Name < fs[j].Name })
		base := r.U64()
		for _, sf := range fs {
			fr := NewRnd(base ^ hashName(sf.Name))
			g.Keys = append(g.Keys, sf.Name)
			fm := m
			if m == MRand {
				switch fr.N(6) {
				case 0:
					fm = MZero
				case 1:
					fm = MEdge
				}
			}
			g.Elems = append(g.Elems, b.GenGo(sf.Type, fr, fm, depth))
		}
		return g
	case reflect.Interface:
		ws := b.WrappersOf(t)
		if len(ws) == 0 || m == MZero || (m != MFull && r.P(1, 4)) {
			return &GV{K: "o", Nil: true}
		}
		w := ws[r.N(len(ws))]
		pm := m
		if m == MRand && r.P(1, 4) {
			pm = MZero // active branch with zero payload
		}
		return &GV{K: "o", Keys: []string{w.Field(0).Name}, Elems: []*GV{b.GenGo(w.Field(0).Type, r, pm, depth+1)}}
	}
	panic("GenGo: unsupported " + t.String())
}

// ZeroGo is the abstract zero value of a type.
func (b *Builder) ZeroGo(t reflect.Type) *GV { return b.GenGo(t, NewRnd(0), MZero, 0) }

func f32repr(bits uint64) bool {
	f := math.Float64frombits(bits)
	return float64(float32(f)) == f
}

func hashName(s string) uint64 {
	h := uint64(1469598103934665603)
	for i := 0; i < len(s); i++ {
		h ^= uint64(s[i])
		h *= 1099511628211
	}
	return h
}
