package drv

import (
	"context"
	"fmt"
	"reflect"
	"regexp"
	"sort"
	"strings"

	"github.com/hashicorp/terraform-plugin-framework/attr"
	"github.com/hashicorp/terraform-plugin-framework/diag"
	"github.com/hashicorp/terraform-plugin-framework/tfsdk"
	"github.com/hashicorp/terraform-plugin-framework/types"

	"verifharness/spec"
	"verifharness/support"
)

// Root is one generated root type.
type Root struct {
	Name   string
	New    func() interface{}
	Schema func(context.Context) (tfsdk.Schema, diag.Diagnostics)
	From   func(context.Context, types.Object, interface{}) diag.Diagnostics
	To     func(context.Context, interface{}, *types.Object) diag.Diagnostics
}

// Program is the registry entry of one corpus program.
type Program struct {
	ID       string
	Roots    []Root
	Wrappers []interface{}
	b        *Builder
}

var programs = map[string]*Program{}

// Register is called from the generated reg packages.
func Register(p *Program) {
	p.b = &Builder{}
	for _, w := range p.Wrappers {
		p.b.Wrappers = append(p.b.Wrappers, reflect.TypeOf(w).Elem())
	}
	programs[p.ID] = p
}

// Root finds a root.
func (p *Program) Root(name string) *Root {
	for i := range p.Roots {
		if p.Roots[i].Name == name {
			return &p.Roots[i]
		}
	}
	return nil
}

// Diag is a canonical diagnostic: kind and path.
type Diag struct {
	Kind string // ReadMissing ReadConv WriteMissing WriteConv WriteGeneral Other
	Path string
	Sev  string
}

var (
	reMissingAttrs = regexp.MustCompile(`^A value for (.*) is missing in the source Terraform object Attrs$`)
	reMissingTypes = regexp.MustCompile(`^A value for (.*) is missing in the source Terraform object AttrTypes$`)
	reConv         = regexp.MustCompile(`^A value for (.*) can not be converted to (.*)$`)
)

// Canon classifies diagnostics by their struct type (falling back to their text) and reads
// the path; equal diagnostics are merged, the list is sorted.
func Canon(ds diag.Diagnostics) []Diag {
	set := map[Diag]bool{}
	for _, d := range ds {
		c := Diag{Kind: "Other", Sev: d.Severity().String()}
		tn := reflect.TypeOf(d).Name()
		rv := reflect.ValueOf(d)
		if rv.Kind() == reflect.Struct {
			if f := rv.FieldByName("Path"); f.IsValid() && f.Kind() == reflect.String {
				c.Path = f.String()
			}
		}
		switch {
		case strings.Contains(tn, "ReadMissing"):
			c.Kind = "ReadMissing"
		case strings.Contains(tn, "ReadConversion"):
			c.Kind = "ReadConv"
		case strings.Contains(tn, "WriteMissing"):
			c.Kind = "WriteMissing"
		case strings.Contains(tn, "WriteConversion"):
			c.Kind = "WriteConv"
		case strings.Contains(tn, "WriteGeneral"):
			c.Kind = "WriteGeneral"
		default:
			reading := strings.Contains(strings.ToLower(d.Summary()), "reading")
			det := d.Detail()
			if m := reMissingAttrs.FindStringSubmatch(det); m != nil {
				c.Kind, c.Path = "ReadMissing", m[1]
			} else if m := reMissingTypes.FindStringSubmatch(det); m != nil {
				c.Kind, c.Path = "WriteMissing", m[1]
			} else if m := reConv.FindStringSubmatch(det); m != nil {
				c.Path = m[1]
				if reading {
					c.Kind = "ReadConv"
				} else {
					c.Kind = "WriteConv"
				}
			}
		}
		// the text must name the path (that is what the property demands of a diagnostic)
		if c.Path != "" && !strings.Contains(d.Detail(), c.Path) {
			c.Kind += "!pathNotInDetail"
		}
		set[c] = true
	}
	out := make([]Diag, 0, len(set))
	for d := range set {
		out = append(out, d)
	}
	sort.Slice(out, func(i, j int) bool {
		if out[i].Kind != out[j].Kind {
			return out[i].Kind < out[j].Kind
		}
		return out[i].Path < out[j].Path
	})
	return out
}

// rawDups counts the diagnostics that repeat an earlier one word for word (severity, summary and detail): the same
// problem reported more than once. Two different problems under one path (a list of the wrong type in one element,
// an element of the wrong type in another) have different details and are not duplicates.
func rawDups(ds diag.Diagnostics) int {
	seen := map[[3]string]bool{}
	n := 0
	for _, d := range ds {
		k := [3]string{d.Severity().String(), d.Summary(), d.Detail()}
		if seen[k] {
			n++
		}
		seen[k] = true
	}
	return n
}

// DiagsSx renders canonical diagnostics.
func DiagsSx(ds []Diag) *spec.Sx {
	l := spec.L(spec.A("diags"))
	for _, d := range ds {
		k := d.Kind
		if d.Sev != "Error" {
			k += "@" + d.Sev
		}
		l.Add(spec.L(spec.A(k), spec.Q(d.Path)))
	}
	return l
}

// ToResult is the outcome of one CopyTo call.
type ToResult struct {
	Panic string
	Obj   *TV
	Diags []Diag
	Dups  int // raw diagnostics beyond the distinct ones (the same problem reported more than once)
	Real  types.Object
	Hooks []support.HookCall
}

// FromResult is the outcome of one CopyFrom call.
type FromResult struct {
	Panic string
	Val   *GV
	Diags []Diag
	Dups  int // raw diagnostics beyond the distinct ones (the same problem reported more than once)
	Hooks []support.HookCall
}

// NewValue builds a fresh root struct holding the abstract value (nil: the zero struct).
func (p *Program) NewValue(r *Root, g *GV) (interface{}, error) {
	v := r.New()
	if g != nil {
		if err := p.b.BuildGo(reflect.ValueOf(v).Elem(), g); err != nil {
			return nil, err
		}
	}
	return v, nil
}

// ExecTo runs Copy<T>ToTerraform(src, &target) on fresh real values.
func (p *Program) ExecTo(r *Root, src *GV, target *TV) (res ToResult) {
	v, err := p.NewValue(r, src)
	if err != nil {
		panic(fmt.Sprintf("harness: cannot build source for %s.%s: %v", p.ID, r.Name, err))
	}
	obj, ok := BuildTF(target).(types.Object)
	if !ok {
		panic("harness: target is not an object")
	}
	support.ResetLog()
	func() {
		defer func() {
			if e := recover(); e != nil {
				res.Panic = fmt.Sprint(e)
			}
		}()
		ds := r.To(bg, v, &obj)
		res.Diags = Canon(ds)
		res.Dups = rawDups(ds)
	}()
	res.Hooks = support.Log()
	if res.Panic == "" {
		res.Obj = DumpTF(obj)
		res.Real = obj
	}
	return res
}

// ExecFrom runs Copy<T>FromTerraform(obj, &prior) on fresh real values.
func (p *Program) ExecFrom(r *Root, obj *TV, prior *GV) (res FromResult) {
	v, err := p.NewValue(r, prior)
	if err != nil {
		panic(fmt.Sprintf("harness: cannot build prior for %s.%s: %v", p.ID, r.Name, err))
	}
	o, ok := BuildTF(obj).(types.Object)
	if !ok {
		panic("harness: source is not an object")
	}
	support.ResetLog()
	func() {
		defer func() {
			if e := recover(); e != nil {
				res.Panic = fmt.Sprint(e)
			}
		}()
		ds := r.From(bg, o, v)
		res.Diags = Canon(ds)
		res.Dups = rawDups(ds)
	}()
	res.Hooks = support.Log()
	if res.Panic == "" {
		res.Val = DumpGo(reflect.ValueOf(v).Elem())
	}
	return res
}

// ---------------------------------------------------------------------------------------
// schema

// SAttr is one attribute of the run-time schema.
type SAttr struct {
	Name                                    string
	Required, Optional, Computed, Sensitive bool
	Desc                                    string
	Validators, PlanModifiers               []string
	Ty                                      *TY    // leaf
	Nest                                    string // single list map
	Attrs                                   []*SAttr
}

func exprOf(x interface{}) string {
	if e, ok := x.(interface{ Expr() string }); ok {
		return e.Expr()
	}
	tn := fmt.Sprintf("%T", x)
	if strings.Contains(tn, "seStateForUnknown") {
		return "github.com/hashicorp/terraform-plugin-framework/tfsdk.UseStateForUnknown()"
	}
	return "go:" + tn
}

func dumpAttrs(m map[string]tfsdk.Attribute) []*SAttr {
	var out []*SAttr
	for _, k := range spec.SortedKeys(m) {
		a := m[k]
		s := &SAttr{Name: k, Required: a.Required, Optional: a.Optional, Computed: a.Computed, Sensitive: a.Sensitive, Desc: a.Description}
		for _, v := range a.Validators {
			s.Validators = append(s.Validators, exprOf(v))
		}
		for _, v := range a.PlanModifiers {
			s.PlanModifiers = append(s.PlanModifiers, exprOf(v))
		}
		if a.Attributes != nil {
			switch a.Attributes.GetNestingMode() {
			case tfsdk.NestingModeSingle:
				s.Nest = "single"
			case tfsdk.NestingModeList:
				s.Nest = "list"
			case tfsdk.NestingModeMap:
				s.Nest = "map"
			default:
				s.Nest = "other"
			}
			s.Attrs = dumpAttrs(a.Attributes.GetAttributes())
		}
		if a.Type != nil {
			s.Ty = DumpTy(a.Type)
		}
		out = append(out, s)
	}
	return out
}

// SchemaOf runs GenSchema<T>.
func (r *Root) SchemaOf() (attrs []*SAttr, objTy *TY, hookLog []support.HookCall, err error) {
	defer func() {
		if e := recover(); e != nil {
			err = fmt.Errorf("GenSchema%s panicked: %v", r.Name, e)
		}
	}()
	support.ResetLog()
	s, ds := r.Schema(bg)
	if ds.HasError() {
		return nil, nil, nil, fmt.Errorf("GenSchema%s returned diagnostics", r.Name)
	}
	hookLog = support.Log()
	attrs = dumpAttrs(s.Attributes)
	ot, ok := s.AttributeType().(types.ObjectType)
	if !ok {
		return nil, nil, nil, fmt.Errorf("schema attribute type is not an object")
	}
	return attrs, DumpTy(ot), hookLog, nil
}

func strs(head string, xs []string) *spec.Sx {
	l := spec.L(spec.A(head))
	for _, x := range xs {
		l.Add(spec.Q(x))
	}
	return l
}

// SchemaSx renders schema attributes.
func (tt *TypeTable) SchemaSx(as []*SAttr) *spec.Sx {
	l := spec.L(spec.A("attrs"))
	for _, a := range as {
		x := spec.L(spec.A("attr"), spec.Q(a.Name), spec.L(spec.B(a.Required), spec.B(a.Optional), spec.B(a.Computed), spec.B(a.Sensitive)),
			spec.Q(a.Desc), strs("vals", a.Validators), strs("pms", a.PlanModifiers))
		if a.Nest != "" {
			x.Add(spec.L(spec.A("nested"), spec.A(a.Nest), tt.SchemaSx(a.Attrs)))
		} else if a.Ty != nil {
			x.Add(spec.L(spec.A("ty"), tt.tySxFull(a.Ty)))
		} else {
			x.Add(spec.L(spec.A("ty"), spec.A("none")))
		}
		l.Add(x)
	}
	return l
}

// tySxFull renders a type without interning (schemas are printed once).
func (tt *TypeTable) tySxFull(t *TY) *spec.Sx {
	switch t.K {
	case "list", "map":
		return spec.L(spec.A(t.K), tt.tySxFull(t.E))
	case "hook":
		return spec.L(spec.A("hook"), spec.Q(t.Suffix))
	case "obj":
		body := spec.L()
		for i, n := range t.Names {
			body.Add(spec.L(spec.Q(n), tt.tySxFull(t.Tys[i])))
		}
		return spec.L(spec.A("obj"), body)
	}
	return spec.A(t.K)
}

// EmptyOf returns the empty object of an object type (types, no values).
func EmptyOf(ot *TY) *TV {
	return &TV{K: "ov", Ty: ot, Elems: []*TV{}, Keys: []string{}}
}

var _ attr.Value
