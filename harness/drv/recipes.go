package drv

import (
	"encoding/json"
	"fmt"
	"io/ioutil"
	"os"
	"path/filepath"
	"reflect"
	"strconv"

	"verifharness/spec"
)

// Info is what the harness computed independently from spec and configuration (spec.Expect).
type Info struct {
	Roots map[string]*spec.EMsg `json:"roots"`
}

var infoCache = map[string]*Info{}

func loadInfo(prog string) *Info {
	if i, ok := infoCache[prog]; ok {
		return i
	}
	dir := os.Getenv("VERIF_INFO_DIR")
	i := &Info{Roots: map[string]*spec.EMsg{}}
	if dir != "" {
		if b, err := ioutil.ReadFile(filepath.Join(dir, prog+".json")); err == nil {
			json.Unmarshal(b, i)
		}
	}
	infoCache[prog] = i
	return i
}

// ctx is the context of one job.
type ctx struct {
	o     *Out
	p     *Program
	r     *Root
	info  *spec.EMsg
	rnd   *Rnd
	rt    reflect.Type
	attrs []*SAttr
	objTy *TY
	n     int
	base  string
	cases int
}

func (c *ctx) id(kind string) string {
	c.cases++
	return fmt.Sprintf("%s/%s/%s/%d", c.p.ID, c.r.Name, kind, c.cases)
}

func resTo(tt *TypeTable, r ToResult) *spec.Sx {
	if r.Panic != "" {
		return spec.L(spec.A("panic"))
	}
	return spec.L(spec.A("ok"), tt.TVSx(r.Obj), DiagsSx(r.Diags))
}

func resFrom(r FromResult) *spec.Sx {
	if r.Panic != "" {
		return spec.L(spec.A("panic"))
	}
	return spec.L(spec.A("ok"), GVSx(r.Val), DiagsSx(r.Diags))
}

// To executes and logs one CopyTo.
func (c *ctx) To(kind string, src *GV, target *TV) (string, ToResult) {
	id := c.id(kind)
	r := c.p.ExecTo(c.r, src, target)
	c.o.Emit(spec.L(spec.A("to"), spec.Q(id), spec.Q(c.p.ID), spec.Q(c.r.Name), GVSx(src), c.o.tt.TVSx(target), resTo(c.o.tt, r)))
	return id, r
}

// From executes and logs one CopyFrom.
func (c *ctx) From(kind string, obj *TV, prior *GV) (string, FromResult) {
	id := c.id(kind)
	r := c.p.ExecFrom(c.r, obj, prior)
	c.o.Emit(spec.L(spec.A("from"), spec.Q(id), spec.Q(c.p.ID), spec.Q(c.r.Name), c.o.tt.TVSx(obj), GVSx(prior), resFrom(r)))
	return id, r
}

// Oracle logs a property verdict on the implementation's observables.
func (c *ctx) Oracle(prop, id string, ok bool, sig, what string) {
	v := "ok"
	if !ok {
		v = "fail"
	}
	c.o.Emit(spec.L(spec.A("oracle"), spec.A(prop), spec.Q(id), spec.A(v), spec.Q(sig), spec.Q(what)))
}

func runJob(o *Out, j *spec.Sx) {
	if j.Head() != "job" {
		return
	}
	prog, root, recipe := j.Nth(1).Atom, j.Nth(2).Atom, j.Nth(3).Atom
	n, _ := strconv.Atoi(j.Nth(4).Atom)
	seed, _ := strconv.ParseUint(j.Nth(5).Atom, 10, 64)
	p := programs[prog]
	if p == nil {
		o.Emit(spec.L(spec.A("error"), spec.Q(prog), spec.Q("program not linked")))
		return
	}
	r := p.Root(root)
	if r == nil {
		o.Emit(spec.L(spec.A("error"), spec.Q(prog), spec.Q("root not generated: "+root)))
		return
	}
	c := &ctx{o: o, p: p, r: r, rnd: NewRnd(seed), n: n, base: recipe}
	c.info = loadInfo(prog).Roots[root]
	c.rt = reflect.TypeOf(r.New()).Elem()
	attrs, objTy, hookLog, err := r.SchemaOf()
	if err != nil {
		o.Emit(spec.L(spec.A("schemaerror"), spec.Q(prog), spec.Q(root), spec.Q(err.Error())))
		return
	}
	c.attrs, c.objTy = attrs, objTy
	_ = hookLog
	f, ok := recipes[recipe]
	if !ok {
		o.Emit(spec.L(spec.A("error"), spec.Q(prog), spec.Q("unknown recipe "+recipe)))
		return
	}
	f(c)
}

var recipes = map[string]func(*ctx){}

func init() {
	recipes["schema"] = recipeSchema
	recipes["roundtrip"] = recipeRoundTrip
}

func recipeSchema(c *ctx) {
	c.o.Emit(spec.L(spec.A("schema"), spec.Q(c.p.ID), spec.Q(c.r.Name), c.o.tt.SchemaSx(c.attrs), c.o.tt.tySxFull(c.objTy)))
}

// modes cycles through generation modes so that zero / full / edge values are always present.
func (c *ctx) modeOf(i int) Mode {
	switch i {
	case 0:
		return MZero
	case 1:
		return MFull
	case 2:
		return MEdge
	}
	return MRand
}

// recipeRoundTrip: value -> CopyTo(empty) -> CopyFrom(fresh).
func recipeRoundTrip(c *ctx) {
	for i := 0; i < c.n; i++ {
		v := c.p.b.GenGo(c.rt, c.rnd.Fork(uint64(i)), c.modeOf(i), 0)
		_, tr := c.To("to", v, EmptyOf(c.objTy))
		if tr.Panic != "" {
			continue
		}
		c.From("from", tr.Obj, c.p.b.ZeroGo(c.rt))
	}
}
