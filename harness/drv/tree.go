package drv

import (
	"fmt"
	"math/big"
	"reflect"
	"sort"
	"strings"

	"verifharness/spec"
)

// Field returns the named field of an abstract struct.
func (g *GV) Field(name string) *GV {
	if g == nil || g.K != "st" {
		return nil
	}
	for i, k := range g.Keys {
		if k == name {
			return g.Elems[i]
		}
	}
	return nil
}

// SetField replaces the named field.
func (g *GV) SetField(name string, v *GV) bool {
	for i, k := range g.Keys {
		if k == name {
			g.Elems[i] = v
			return true
		}
	}
	return false
}

// Attr returns the named attribute (or map element) of an abstract object / map.
func (t *TV) Attr(name string) (*TV, bool) {
	if t == nil || t.NilC {
		return nil, false
	}
	for i, k := range t.Keys {
		if k == name {
			return t.Elems[i], true
		}
	}
	return nil, false
}

// SetAttr sets or adds an attribute.
func (t *TV) SetAttr(name string, v *TV) {
	for i, k := range t.Keys {
		if k == name {
			t.Elems[i] = v
			return
		}
	}
	t.NilC = false
	t.Keys = append(t.Keys, name)
	t.Elems = append(t.Elems, v)
	// keep sorted
	idx := make([]int, len(t.Keys))
	for i := range idx {
		idx[i] = i
	}
	sort.Slice(idx, func(a, b int) bool { return t.Keys[idx[a]] < t.Keys[idx[b]] })
	ks, es := make([]string, len(idx)), make([]*TV, len(idx))
	for i, j := range idx {
		ks[i], es[i] = t.Keys[j], t.Elems[j]
	}
	t.Keys, t.Elems = ks, es
}

// DelAttr removes an attribute.
func (t *TV) DelAttr(name string) {
	for i, k := range t.Keys {
		if k == name {
			t.Keys = append(t.Keys[:i:i], t.Keys[i+1:]...)
			t.Elems = append(t.Elems[:i:i], t.Elems[i+1:]...)
			return
		}
	}
}

// AttrTy returns the type of an attribute of an object type.
func (t *TY) AttrTy(name string) *TY {
	if t == nil {
		return nil
	}
	for i, n := range t.Names {
		if n == name {
			return t.Tys[i]
		}
	}
	return nil
}

// WithoutAttr returns the object type without one attribute.
func (t *TY) WithoutAttr(name string) *TY {
	o := &TY{K: t.K}
	for i, n := range t.Names {
		if n != name {
			o.Names = append(o.Names, n)
			o.Tys = append(o.Tys, t.Tys[i])
		}
	}
	return o
}

// IsZeroGV says whether an abstract value is the zero value of its Go type, up to the documented
// normal form (empty byte strings, slices and maps are nil; -0 is 0).
func IsZeroGV(g *GV) bool {
	switch g.K {
	case "i":
		return g.I.Sign() == 0
	case "f32":
		return g.Bits&0x7fffffff == 0
	case "f64":
		return g.Bits&0x7fffffffffffffff == 0
	case "b":
		return !g.Bool
	case "s":
		return g.Str == ""
	case "by":
		return g.Nil || g.Str == ""
	case "l", "m":
		return g.Nil || len(g.Elems) == 0
	case "p", "o":
		return g.Nil
	case "t":
		return g.T == [3]int64{-62135596800, 0, 0}
	case "st":
		for _, e := range g.Elems {
			if !IsZeroGV(e) {
				return false
			}
		}
		return true
	}
	return false
}

// fieldState resolves what the generated code reads for a field: the value, or why there is none.
type fieldState int

const (
	fsOK       fieldState = iota
	fsViaNil              // a pointer-embedded parent is nil
	fsInactive            // oneof holds another branch or none
)

// ResolveVia follows the pointer-embedded parents.
func ResolveVia(st *GV, via []string) (*GV, bool) {
	cur := st
	for _, p := range via {
		f := cur.Field(p)
		if f == nil || f.K != "p" || f.Nil {
			return nil, false
		}
		cur = f.Elems[0]
	}
	return cur, true
}

// FieldOf returns the Go value of a field occurrence inside the struct value st.
func FieldOf(ef *spec.EField, st *GV) (*GV, fieldState) {
	holder, ok := ResolveVia(st, ef.Via)
	if !ok {
		return nil, fsViaNil
	}
	if ef.Oneof != "" {
		h := holder.Field(ef.Oneof)
		if h == nil || h.K != "o" || h.Nil || h.Keys[0] != ef.GoName {
			return nil, fsInactive
		}
		return h.Elems[0], fsOK
	}
	v := holder.Field(ef.GoName)
	if v == nil {
		return nil, fsInactive
	}
	return v, fsOK
}

// ---------------------------------------------------------------------------------------
// normal form of C04

// NF computes the documented normal form: nil and empty slices, maps and byte strings are
// identified; a oneof whose payload is the zero value is unset; a pointer-embedded message
// whose fields are all zero is nil; -0 is +0.
func (b *Builder) NF(g *GV, t reflect.Type) *GV {
	switch g.K {
	case "f32":
		if g.Bits == 0x80000000 {
			return &GV{K: "f32"}
		}
		return g
	case "f64":
		if g.Bits == 0x8000000000000000 {
			return &GV{K: "f64"}
		}
		return g
	case "by":
		if g.Nil || g.Str == "" {
			return &GV{K: "by", Nil: true}
		}
		return g
	case "p":
		if g.Nil {
			return g
		}
		return &GV{K: "p", Elems: []*GV{b.NF(g.Elems[0], t.Elem())}}
	case "l":
		if g.Nil || len(g.Elems) == 0 {
			return &GV{K: "l", Nil: true}
		}
		o := &GV{K: "l", Elems: []*GV{}}
		for _, e := range g.Elems {
			o.Elems = append(o.Elems, b.NF(e, t.Elem()))
		}
		return o
	case "m":
		if g.Nil || len(g.Elems) == 0 {
			return &GV{K: "m", Nil: true}
		}
		o := &GV{K: "m", Elems: []*GV{}, Keys: append([]string{}, g.Keys...)}
		for _, e := range g.Elems {
			o.Elems = append(o.Elems, b.NF(e, t.Elem()))
		}
		return o
	case "o":
		if g.Nil {
			return g
		}
		if IsZeroGV(g.Elems[0]) {
			return &GV{K: "o", Nil: true}
		}
		if t != nil && t.Kind() == reflect.Interface {
			if w, ok := b.wrapperFor(t, g.Keys[0]); ok {
				return &GV{K: "o", Keys: g.Keys, Elems: []*GV{b.NF(g.Elems[0], w.Field(0).Type)}}
			}
		}
		return &GV{K: "o", Keys: g.Keys, Elems: []*GV{nfLoose(g.Elems[0])}}
	case "st":
		o := &GV{K: "st"}
		byName := map[string]sfield{}
		anon := map[string]bool{}
		if t != nil && t.Kind() == reflect.Struct {
			for _, sf := range structFields(t) {
				byName[sf.Name] = sf
			}
			markAnonPtr(t, anon)
		}
		for i, k := range g.Keys {
			var ft reflect.Type
			if sf, ok := byName[k]; ok {
				ft = sf.Type
			}
			var e *GV
			if ft != nil {
				e = b.NF(g.Elems[i], ft)
			} else {
				e = nfLoose(g.Elems[i])
			}
			if anon[k] && e.K == "p" && !e.Nil && IsZeroGV(e.Elems[0]) {
				e = &GV{K: "p", Nil: true}
			}
			o.Keys = append(o.Keys, k)
			o.Elems = append(o.Elems, e)
		}
		return o
	}
	return g
}

// markAnonPtr records the pointer-embedded fields of a struct type (through by-value embedded structs).
func markAnonPtr(t reflect.Type, out map[string]bool) {
	for i := 0; i < t.NumField(); i++ {
		f := t.Field(i)
		if !f.Anonymous {
			continue
		}
		if f.Type.Kind() == reflect.Ptr {
			out[f.Name] = true
		} else if f.Type.Kind() == reflect.Struct && f.Type != timeType {
			markAnonPtr(f.Type, out)
		}
	}
}

// nfLoose normalises without type information (inside oneof payloads): everything except the
// pointer-embedded rule, which needs the type; payload structs are re-normalised with their type
// by the caller when available.
func nfLoose(g *GV) *GV {
	switch g.K {
	case "p":
		if g.Nil {
			return g
		}
		return &GV{K: "p", Elems: []*GV{nfLoose(g.Elems[0])}}
	case "l", "m":
		if g.Nil || len(g.Elems) == 0 {
			return &GV{K: g.K, Nil: true}
		}
		o := &GV{K: g.K, Elems: []*GV{}, Keys: append([]string{}, g.Keys...)}
		for _, e := range g.Elems {
			o.Elems = append(o.Elems, nfLoose(e))
		}
		return o
	case "st":
		o := &GV{K: "st", Keys: append([]string{}, g.Keys...)}
		for _, e := range g.Elems {
			o.Elems = append(o.Elems, nfLoose(e))
		}
		return o
	case "o":
		if g.Nil {
			return g
		}
		if IsZeroGV(g.Elems[0]) {
			return &GV{K: "o", Nil: true}
		}
		return &GV{K: "o", Keys: g.Keys, Elems: []*GV{nfLoose(g.Elems[0])}}
	default:
		return (&Builder{}).NF(g, nil)
	}
}

// DiffGV lists the paths (Go field names, indices, keys) at which two values differ.
func DiffGV(a, b *GV, path string, out *[]string) {
	if len(*out) > 20 {
		return
	}
	if a.K != b.K || a.Nil != b.Nil {
		*out = append(*out, path)
		return
	}
	switch a.K {
	case "st":
		for i, k := range a.Keys {
			bf := b.Field(k)
			if bf == nil {
				*out = append(*out, path+"."+k)
				continue
			}
			DiffGV(a.Elems[i], bf, path+"."+k, out)
		}
	case "p":
		if !a.Nil {
			DiffGV(a.Elems[0], b.Elems[0], path, out)
		}
	case "l":
		if len(a.Elems) != len(b.Elems) {
			*out = append(*out, path+"[len]")
			return
		}
		for i := range a.Elems {
			DiffGV(a.Elems[i], b.Elems[i], fmt.Sprintf("%s[%d]", path, i), out)
		}
	case "m":
		if strings.Join(a.Keys, "\x00") != strings.Join(b.Keys, "\x00") {
			*out = append(*out, path+"[keys]")
			return
		}
		for i := range a.Elems {
			DiffGV(a.Elems[i], b.Elems[i], fmt.Sprintf("%s[%q]", path, a.Keys[i]), out)
		}
	case "o":
		if a.Nil {
			return
		}
		if a.Keys[0] != b.Keys[0] {
			*out = append(*out, path+"(branch)")
			return
		}
		DiffGV(a.Elems[0], b.Elems[0], path+"("+a.Keys[0]+")", out)
	default:
		if !EqualGV(a, b) {
			*out = append(*out, path)
		}
	}
}

// ShapeAt describes the field addressed by a difference path (field names only are used).
func ShapeAt(info *spec.EMsg, path string) string {
	if info == nil {
		return "noinfo"
	}
	segs := strings.FieldsFunc(path, func(r rune) bool { return r == '.' })
	cur := info
	desc := "root"
	for _, s := range segs {
		name := s
		if i := strings.IndexAny(name, "[("); i >= 0 {
			name = name[:i]
		}
		if cur == nil {
			break
		}
		var hit *spec.EField
		for _, f := range cur.Fields {
			if f.GoName == name || f.Oneof == name {
				hit = f
				if f.GoName == name {
					break
				}
			}
			for _, v := range f.Via {
				if v == name && hit == nil {
					hit = f
				}
			}
		}
		if hit == nil {
			return desc + "/unknown:" + name
		}
		desc = DescribeField(hit)
		cur = hit.Msg
	}
	return desc
}

// DescribeField summarises the shape of a field occurrence (used as the signature of findings).
func DescribeField(f *spec.EField) string {
	s := f.Shape
	if f.Ptr {
		s += "+ptr"
	}
	if f.Msg != nil && f.Msg.Empty {
		s += "+emptymsg"
	}
	if f.Oneof != "" {
		s += "+oneof"
	}
	if len(f.Via) > 0 {
		s += "+embeddedptr"
	}
	if f.Temporal {
		s += "+temporal"
	}
	if f.Placeholder {
		s += "+placeholder"
	}
	return s
}

var bigZero = big.NewInt(0)

// Described zeroes, at every message level the expectation tree knows, the Go fields the schema
// does not describe (excluded fields), so that comparisons speak about described fields only.
func Described(info *spec.EMsg, g *GV) *GV {
	if info == nil || g == nil || g.K != "st" {
		return g
	}
	desc := map[string]*spec.EField{}
	keep := map[string]bool{}
	for _, f := range info.Fields {
		switch {
		case len(f.Via) > 0:
			keep[f.Via[0]] = true
		case f.Oneof != "":
			keep[f.Oneof] = true
		default:
			desc[f.GoName] = f
		}
	}
	for _, o := range info.Oneofs {
		keep[o] = true
	}
	out := &GV{K: "st"}
	for i, k := range g.Keys {
		e := g.Elems[i]
		f, ok := desc[k]
		switch {
		case ok && f.Msg != nil:
			e = describedIn(f.Msg, e)
		case ok:
		case keep[k]:
			// oneof holder or embedded pointer: project inside with the message of the branch / the embedded fields
			if e.K == "o" && !e.Nil {
				found := false
				for _, bf := range info.Fields {
					if bf.Oneof == k && bf.GoName == e.Keys[0] {
						found = true
						if bf.Msg != nil {
							e = &GV{K: "o", Keys: e.Keys, Elems: []*GV{describedIn(bf.Msg, e.Elems[0])}}
						}
					}
				}
				if !found {
					// the active branch is a field the schema does not describe (excluded): not copied
					e = &GV{K: "o", Nil: true}
				}
			}
			if e.K == "p" && !e.Nil && e.Elems[0].K == "st" {
				// pointer-embedded message: inside it only the promoted fields the schema describes count
				sub := &spec.EMsg{Name: k}
				for _, pf := range info.Fields {
					if len(pf.Via) > 0 && pf.Via[0] == k {
						c := *pf
						c.Via = pf.Via[1:]
						sub.Fields = append(sub.Fields, &c)
					}
				}
				if len(sub.Fields) > 0 {
					inner := Described(sub, e.Elems[0])
					if IsZeroGV(inner) {
						// all described fields zero: the normal form of a nullable embedded message is nil
						e = &GV{K: "p", Nil: true}
					} else {
						e = &GV{K: "p", Elems: []*GV{inner}}
					}
				}
			}
		default:
			continue // not described: dropped from the comparison
		}
		out.Keys = append(out.Keys, k)
		out.Elems = append(out.Elems, e)
	}
	return out
}

func describedIn(info *spec.EMsg, g *GV) *GV {
	switch g.K {
	case "st":
		return Described(info, g)
	case "p", "l", "m":
		if g.Nil {
			return g
		}
		o := &GV{K: g.K, Keys: g.Keys, Elems: []*GV{}}
		for _, e := range g.Elems {
			o.Elems = append(o.Elems, describedIn(info, e))
		}
		return o
	}
	return g
}

// BranchName returns the active branch of a oneof holder value ("" when nil or not a holder).
func (g *GV) BranchName() string {
	if g == nil || g.K != "o" || g.Nil || len(g.Keys) == 0 {
		return ""
	}
	return g.Keys[0]
}

// Elems0 returns the payload of a oneof holder value (nil when unset).
func (g *GV) Elems0() *GV {
	if g == nil || g.K != "o" || g.Nil || len(g.Elems) == 0 {
		return nil
	}
	return g.Elems[0]
}
