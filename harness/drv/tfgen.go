package drv

import (
	"math"
	"math/big"

	"verifharness/spec"
)

// TFMode steers generation of Terraform objects.
type TFMode int

const (
	// TFConf: any conforming object, null / unknown / known anywhere, payloads kept under null/unknown.
	TFConf TFMode = iota
	// TFPlan: admissible plans of C08: at most one non-null branch per oneof group, no null or
	// unknown list/map elements, numbers in the range of the Go field.
	TFPlan
	// TFKnown: everything known and non-null where possible.
	TFKnown
)

func (r *Rnd) flags(m TFMode, allowNull bool) (null, unknown bool) {
	switch m {
	case TFKnown:
		return false, false
	}
	switch r.N(6) {
	case 0:
		if allowNull {
			return true, false
		}
	case 1:
		if allowNull {
			return false, true
		}
	}
	return false, false
}

func fieldByAttr(info *spec.EMsg, name string) *spec.EField {
	if info == nil {
		return nil
	}
	for _, f := range info.Fields {
		if f.Attr == name {
			return f
		}
	}
	return nil
}

// genPrimPayload generates a payload of kind pk within the range of the Go scalar.
func (r *Rnd) genPrimPayload(pk, scalar string, zero bool) *GV {
	switch pk {
	case "i64":
		if zero {
			return &GV{K: "i", I: big.NewInt(0)}
		}
		switch scalar {
		case "int32", "enum":
			return &GV{K: "i", I: r.intIn(32, true, MRand)}
		case "uint32":
			return &GV{K: "i", I: r.intIn(32, false, MRand)}
		case "uint64":
			// the attribute holds an int64; every int64 maps to one uint64
			return &GV{K: "i", I: r.intIn(64, true, MRand)}
		default:
			return &GV{K: "i", I: r.intIn(64, true, MRand)}
		}
	case "f64":
		if zero {
			return &GV{K: "f64"}
		}
		if scalar == "float32" {
			return &GV{K: "f64", Bits: math.Float64bits(float64(math.Float32frombits(r.f32bits(MRand))))}
		}
		return &GV{K: "f64", Bits: r.f64bits(MRand)}
	case "str":
		if zero {
			return &GV{K: "s"}
		}
		return &GV{K: "s", Str: r.str()}
	case "bool":
		if zero {
			return &GV{K: "b"}
		}
		return &GV{K: "b", Bool: r.P(1, 2)}
	case "time":
		if zero {
			return r.timeGV(MZero)
		}
		return r.timeGV(MRand)
	case "dur":
		if zero {
			return &GV{K: "i", I: big.NewInt(0)}
		}
		return &GV{K: "i", I: r.intIn(64, true, MRand)}
	}
	return &GV{K: "s"}
}

// GenTF generates a value of type ty; ef describes the field the attribute stems from (may be nil).
func (r *Rnd) GenTF(ty *TY, ef *spec.EField, m TFMode, elem bool, depth int) *TV {
	allowNull := !(elem && m == TFPlan)
	null, unknown := r.flags(m, allowNull)
	wipe := (null || unknown) && (m == TFPlan || r.P(1, 2)) // as the framework decodes: no payload under null/unknown
	switch ty.K {
	case "i64", "f64", "str", "bool", "time", "dur":
		scalar := ""
		if ef != nil {
			scalar = ef.Scalar
		}
		zero := wipe || (!null && !unknown && r.P(1, 5)) // known zero values are part of the claim
		return &TV{K: "pv", PK: ty.K, Null: null, Unknown: unknown, Pay: r.genPrimPayload(ty.K, scalar, zero)}
	case "hook":
		return &TV{K: "hv", Suffix: ty.Suffix, HFromTF: true, Null: null, Unknown: unknown}
	case "list":
		t := &TV{K: "lv", Ty: ty.E, Null: null, Unknown: unknown}
		if wipe {
			t.NilC = true
			return t
		}
		n := r.size(depth, MRand)
		t.Elems = []*TV{}
		for i := 0; i < n; i++ {
			t.Elems = append(t.Elems, r.GenTF(ty.E, ef, m, true, depth+1))
		}
		return t
	case "map":
		t := &TV{K: "mv", Ty: ty.E, Null: null, Unknown: unknown}
		if wipe {
			t.NilC = true
			return t
		}
		n := r.size(depth, MRand)
		keys := map[string]bool{}
		for i := 0; i < n; i++ {
			keys[[]string{"k1", "k2", "a", "", "z.z", "K"}[r.N(6)]] = true
		}
		t.Elems = []*TV{}
		t.Keys = []string{}
		for _, k := range spec.SortedKeys(keys) {
			t.Keys = append(t.Keys, k)
			t.Elems = append(t.Elems, r.GenTF(ty.E, ef, m, true, depth+1))
		}
		return t
	case "obj":
		t := &TV{K: "ov", Ty: ty, Null: null, Unknown: unknown}
		if wipe {
			t.NilC = true
			return t
		}
		var info *spec.EMsg
		if ef != nil {
			info = ef.Msg
		}
		r.fillObj(t, ty, info, m, depth)
		return t
	}
	return &TV{K: "nilv"}
}

// fillObj generates the attributes of an object value.
func (r *Rnd) fillObj(t *TV, ty *TY, info *spec.EMsg, m TFMode, depth int) {
	t.Elems = []*TV{}
	t.Keys = []string{}
	base := r.U64()
	// oneof groups: choose the branch that may be non-null
	active := map[string]string{}
	if info != nil && m == TFPlan {
		groups := map[string][]string{}
		for _, f := range info.Fields {
			if f.Oneof != "" {
				groups[f.Oneof+"/"+joinVia(f.Via)] = append(groups[f.Oneof+"/"+joinVia(f.Via)], f.Attr)
			}
		}
		for _, g := range spec.SortedKeys(groups) {
			gr := NewRnd(base ^ hashName(g))
			bs := sortedCopy(groups[g])
			if gr.P(3, 4) {
				active[g] = bs[gr.N(len(bs))]
			} else {
				active[g] = ""
			}
		}
	}
	for i, n := range ty.Names {
		fr := NewRnd(base ^ hashName(n))
		ef := fieldByAttr(info, n)
		v := fr.GenTF(ty.Tys[i], ef, m, false, depth+1)
		if ef != nil && ef.Oneof != "" && m == TFPlan {
			if active[ef.Oneof+"/"+joinVia(ef.Via)] != n && !v.Null {
				// inactive branch: null (C08 admits at most one branch that is not null)
				v.Null, v.Unknown = true, false
				wipeTV(v)
			}
		}
		t.Keys = append(t.Keys, n)
		t.Elems = append(t.Elems, v)
	}
}

func joinVia(v []string) string {
	s := ""
	for _, x := range v {
		s += x + "."
	}
	return s
}

// wipeTV removes the payload of a null / unknown value (as the framework decodes such values).
func wipeTV(v *TV) {
	switch v.K {
	case "pv":
		v.Pay = (&Rnd{}).genPrimPayload(v.PK, "", true)
	case "lv", "mv", "ov":
		v.NilC = true
		v.Elems = nil
		v.Keys = nil
	}
}

// ErasePayload returns a copy in which every null or unknown value carries no payload.
func ErasePayload(v *TV) *TV {
	c := CloneTV(v)
	var walk func(t *TV)
	walk = func(t *TV) {
		if t == nil {
			return
		}
		if (t.Null || t.Unknown) && t.K != "nilv" && t.K != "hv" {
			wipeTV(t)
			return
		}
		for _, e := range t.Elems {
			walk(e)
		}
	}
	walk(c)
	return c
}

// HasPayloadUnderNull says whether some null/unknown value carries a payload.
func HasPayloadUnderNull(v *TV) bool {
	return !EqualTV(v, ErasePayload(v))
}

// GenObject generates an object of the schema's type.
func (c *ctx) GenObject(r *Rnd, m TFMode) *TV {
	t := &TV{K: "ov", Ty: c.objTy}
	r.fillObj(t, c.objTy, c.info, m, 0)
	return t
}

// ---------------------------------------------------------------------------------------
// corruptions (C06)

// Corruption describes one edit of a conforming object.
type Corruption struct {
	Kind string // delete wrongtype nilvalue nilcontainer
	At   string
}

// position is an attribute or element slot inside an object tree.
type position struct {
	parent *TV
	key    string // attribute name / map key
	index  int    // list index (-1 otherwise)
	path   string
}

func collectPositions(t *TV, path string, out *[]position) {
	if t == nil || t.NilC {
		return
	}
	switch t.K {
	case "ov", "mv":
		for i, k := range t.Keys {
			*out = append(*out, position{parent: t, key: k, index: -1, path: path + "/" + k})
			collectPositions(t.Elems[i], path+"/"+k, out)
		}
	case "lv":
		for i, e := range t.Elems {
			*out = append(*out, position{parent: t, index: i, path: path + "/#"})
			collectPositions(e, path+"/#", out)
		}
	}
}

func wrongTyped(r *Rnd, old *TV) *TV {
	cands := []*TV{
		{K: "pv", PK: "str", Pay: &GV{K: "s", Str: "wrong"}},
		{K: "pv", PK: "i64", Pay: &GV{K: "i", I: big.NewInt(7)}},
		{K: "pv", PK: "bool", Pay: &GV{K: "b", Bool: true}},
		{K: "pv", PK: "f64", Pay: &GV{K: "f64", Bits: 0x3ff8000000000000}},
		{K: "lv", Ty: &TY{K: "str"}, Elems: []*TV{}},
		{K: "mv", Ty: &TY{K: "str"}, Elems: []*TV{}, Keys: []string{}},
		{K: "ov", Ty: &TY{K: "obj"}, Elems: []*TV{}, Keys: []string{}},
	}
	for {
		c := cands[r.N(len(cands))]
		if old == nil || c.K != old.K || (c.K == "pv" && c.PK != old.PK) {
			return CloneTV(c)
		}
	}
}

// Corrupt applies n random corruptions and returns what was done.
func Corrupt(r *Rnd, obj *TV, n int) (*TV, []Corruption) {
	c := CloneTV(obj)
	var done []Corruption
	for i := 0; i < n; i++ {
		var ps []position
		collectPositions(c, "", &ps)
		if len(ps) == 0 {
			break
		}
		p := ps[r.N(len(ps))]
		var old *TV
		if p.index >= 0 {
			old = p.parent.Elems[p.index]
		} else {
			old, _ = p.parent.Attr(p.key)
		}
		switch r.N(5) {
		case 0:
			if p.index >= 0 || p.parent.K == "mv" {
				// deleting a list or map element is not a malformation: replace it with a wrong type instead
				setPos(p, wrongTyped(r, old))
				done = append(done, Corruption{"wrongtype", p.path})
			} else {
				p.parent.DelAttr(p.key)
				done = append(done, Corruption{"delete", p.path})
			}
		case 1, 2:
			setPos(p, wrongTyped(r, old))
			done = append(done, Corruption{"wrongtype", p.path})
		case 3:
			setPos(p, &TV{K: "nilv"})
			done = append(done, Corruption{"nilvalue", p.path})
		case 4:
			if old != nil && (old.K == "ov" || old.K == "lv" || old.K == "mv") && !old.Null && !old.Unknown {
				old.NilC = true
				old.Elems = nil
				old.Keys = nil
				done = append(done, Corruption{"nilcontainer", p.path})
			} else {
				setPos(p, &TV{K: "nilv"})
				done = append(done, Corruption{"nilvalue", p.path})
			}
		}
	}
	return c, done
}

// CorruptTwin damages one attribute in two different ways in two elements of the same list or map of
// objects (deleted in one, of a wrong type in the other): two problems that are reported under one path.
func CorruptTwin(r *Rnd, obj *TV) (*TV, []Corruption) {
	c := CloneTV(obj)
	var hosts []*TV
	var paths []string
	var walk func(v *TV, path string)
	walk = func(v *TV, path string) {
		if v == nil || v.Null || v.Unknown || v.NilC {
			return
		}
		switch v.K {
		case "ov":
			for i, k := range v.Keys {
				walk(v.Elems[i], path+"/"+k)
			}
		case "lv", "mv":
			n := 0
			for _, e := range v.Elems {
				if e != nil && e.K == "ov" && !e.Null && !e.Unknown && !e.NilC && len(e.Keys) > 0 {
					n++
				}
				walk(e, path+"/*")
			}
			if n >= 2 {
				hosts = append(hosts, v)
				paths = append(paths, path)
			}
		}
	}
	walk(c, "")
	if len(hosts) == 0 {
		return nil, nil
	}
	h := r.N(len(hosts))
	var els []*TV
	for _, e := range hosts[h].Elems {
		if e != nil && e.K == "ov" && !e.Null && !e.Unknown && !e.NilC && len(e.Keys) > 0 {
			els = append(els, e)
		}
	}
	a, b := els[0], els[1]
	if r.P(1, 2) {
		a, b = b, a
	}
	key := a.Keys[r.N(len(a.Keys))]
	old, ok := b.Attr(key)
	if !ok {
		return nil, nil
	}
	a.DelAttr(key)
	b.SetAttr(key, wrongTyped(r, old))
	return c, []Corruption{{"delete", paths[h] + "/*/" + key}, {"wrongtype", paths[h] + "/*/" + key}}
}

func setPos(p position, v *TV) {
	if p.index >= 0 {
		p.parent.Elems[p.index] = v
		return
	}
	p.parent.SetAttr(p.key, v)
}
