package drv

import (
	"fmt"
	"reflect"
	"sort"
	"strings"

	"verifharness/spec"
	"verifharness/support"
)

func init() {
	recipes["values"] = recipeValues
	recipes["reset"] = recipeReset
	recipes["malformed"] = recipeMalformed
	recipes["oneof"] = recipeOneof
	recipes["echo"] = recipeEcho
	recipes["history"] = recipeHistory
	recipes["probe"] = recipeProbe
	recipes["schemacheck"] = recipeSchemaCheck
	recipes["hooks"] = recipeHooks
}

func (c *ctx) zero() *GV { return c.p.b.ZeroGo(c.rt) }

// ---------------------------------------------------------------------------------------
// values: C03, C20, C04, C19, C07 (to direction at every depth)

func recipeValues(c *ctx) {
	for i := 0; i < c.n; i++ {
		v := c.p.b.GenGo(c.rt, c.rnd.Fork(uint64(i)), c.modeOf(i), 0)
		id, tr := c.To("values-to", v, EmptyOf(c.objTy))
		c.oracleC03(id, v, tr)
		c.oracleC20(id, v, tr)
		c.oracleExclusive(id, v, tr)
		if tr.Panic != "" {
			continue
		}
		id2, fr := c.From("values-from", tr.Obj, c.zero())
		c.oracleRoundTrip(id2, v, fr)
	}
}

// oracleExclusive: C07, CopyTo direction, at every depth.
func (c *ctx) oracleExclusive(id string, src *GV, r ToResult) {
	if r.Panic != "" || !hasOneof(c.info, 0) {
		return
	}
	var fails []string
	c.checkExclusive(c.info, src, r.Obj, c.r.Name, &fails)
	if len(fails) > 0 {
		c.Oracle("C07", id, false, "to-exclusive", strings.Join(fails, "; "))
	} else {
		c.Oracle("C07", id, true, "", "")
	}
}

func hasOneof(info *spec.EMsg, depth int) bool {
	if info == nil || depth > 8 {
		return false
	}
	for _, f := range info.Fields {
		if f.Oneof != "" || hasOneof(f.Msg, depth+1) {
			return true
		}
	}
	return false
}

func (c *ctx) checkExclusive(info *spec.EMsg, st *GV, obj *TV, path string, fails *[]string) {
	if info == nil || obj == nil || st == nil {
		return
	}
	for _, f := range info.Fields {
		a, ok := obj.Attr(f.Attr)
		if !ok {
			continue
		}
		v, state := FieldOf(f, st)
		if f.Oneof != "" {
			switch {
			case state != fsOK:
				if !a.Null {
					*fails = append(*fails, path+"."+f.Attr+": inactive branch is not null")
				}
			case f.Shape == "prim":
				z := IsZeroGV(v)
				if a.Null != z {
					*fails = append(*fails, fmt.Sprintf("%s.%s: active branch zero=%v null=%v", path, f.Attr, z, a.Null))
				}
			case f.Shape == "obj":
				if a.Null != v.Nil {
					*fails = append(*fails, fmt.Sprintf("%s.%s: active message branch nil=%v null=%v", path, f.Attr, v.Nil, a.Null))
				}
			}
		}
		if state != fsOK || f.Msg == nil || a.Null {
			continue
		}
		switch f.Shape {
		case "obj":
			if v.K == "p" {
				if !v.Nil {
					c.checkExclusive(f.Msg, v.Elems[0], a, path+"."+f.Attr, fails)
				}
			} else {
				c.checkExclusive(f.Msg, v, a, path+"."+f.Attr, fails)
			}
		case "objlist":
			for i, e := range v.Elems {
				if i < len(a.Elems) {
					ev := e
					if ev.K == "p" {
						if ev.Nil {
							continue
						}
						ev = ev.Elems[0]
					}
					c.checkExclusive(f.Msg, ev, a.Elems[i], fmt.Sprintf("%s.%s[%d]", path, f.Attr, i), fails)
				}
			}
		case "objmap":
			for i, e := range v.Elems {
				ea, ok := a.Attr(v.Keys[i])
				if !ok {
					continue
				}
				ev := e
				if ev.K == "p" {
					if ev.Nil {
						continue
					}
					ev = ev.Elems[0]
				}
				c.checkExclusive(f.Msg, ev, ea, fmt.Sprintf("%s.%s[%q]", path, f.Attr, v.Keys[i]), fails)
			}
		}
	}
}

// ---------------------------------------------------------------------------------------
// reset: C05

func (c *ctx) customTop() map[string]bool {
	d := map[string]bool{}
	if c.info != nil {
		for _, f := range c.info.Fields {
			if f.Shape == "custom" && len(f.Via) == 0 {
				d[f.GoName] = true
			}
		}
	}
	return d
}

func (c *ctx) describedTop() map[string]bool {
	d := map[string]bool{}
	if c.info == nil {
		return d
	}
	for _, f := range c.info.Fields {
		switch {
		case len(f.Via) > 0:
			d[f.Via[0]] = true
		case f.Oneof != "":
			d[f.Oneof] = true
		default:
			d[f.GoName] = true
		}
	}
	for _, o := range c.info.Oneofs {
		d[o] = true
	}
	return d
}

func isNU(a *TV) bool { return a.Null || a.Unknown }

func (c *ctx) checkReset(info *spec.EMsg, obj *TV, st *GV, path string, fails *[]string, sigs *[]string) {
	if info == nil || obj == nil || st == nil {
		return
	}
	bad := func(f *spec.EField, what string) {
		*fails = append(*fails, path+"."+f.Attr+": "+what)
		*sigs = append(*sigs, DescribeField(f))
	}
	// groups
	viaAll := map[string]bool{}    // via head -> all children null/unknown
	viaCustom := map[string]bool{} // via head -> a custom-type field is promoted from it
	groupAll := map[string]bool{}  // oneof group -> all branches null/unknown
	for _, f := range info.Fields {
		a, ok := obj.Attr(f.Attr)
		nu := ok && isNU(a)
		if len(f.Via) > 0 {
			if _, seen := viaAll[f.Via[0]]; !seen {
				viaAll[f.Via[0]] = true
			}
			if !nu {
				viaAll[f.Via[0]] = false
			}
			if f.Shape == "custom" {
				// the user's CopyFrom function is handed a pointer to the field, so the embedded message it lives in
				// has to exist whatever the attribute holds; its other fields are checked below
				viaCustom[f.Via[0]] = true
			}
		}
		if f.Oneof != "" {
			k := joinVia(f.Via) + f.Oneof
			if _, seen := groupAll[k]; !seen {
				groupAll[k] = true
			}
			if !nu {
				groupAll[k] = false
			}
		}
	}
	for head, all := range viaAll {
		if all && !viaCustom[head] {
			if p := st.Field(head); p != nil && p.K == "p" && !p.Nil {
				*fails = append(*fails, path+"."+head+": embedded pointer not reset although all its attributes are null or unknown")
				*sigs = append(*sigs, "embeddedptr-parent")
			}
		}
	}
	for _, f := range info.Fields {
		a, ok := obj.Attr(f.Attr)
		if !ok || f.Shape == "custom" || f.Placeholder {
			continue
		}
		if f.Oneof != "" {
			if groupAll[joinVia(f.Via)+f.Oneof] {
				holder, okv := ResolveVia(st, f.Via)
				if okv {
					if h := holder.Field(f.Oneof); h != nil && !h.Nil {
						bad(f, "oneof not nil although every branch is null or unknown")
					}
				}
			}
			if isNU(a) {
				continue
			}
		}
		v, state := FieldOf(f, st)
		if state != fsOK {
			continue
		}
		if isNU(a) {
			switch f.Shape {
			case "prim":
				if !IsZeroGV(v) {
					bad(f, "null/unknown attribute left a non-zero field")
				}
			case "list", "map", "objlist", "objmap":
				if !v.Nil && len(v.Elems) > 0 {
					bad(f, fmt.Sprintf("null/unknown collection left %d elements", len(v.Elems)))
				}
			case "obj":
				if f.Ptr && !v.Nil {
					bad(f, "null/unknown message left a non-nil pointer")
				}
				if !f.Ptr && !IsZeroGV(v) {
					bad(f, "null/unknown message left a non-zero struct")
				}
			}
			continue
		}
		if f.Msg == nil {
			continue
		}
		switch f.Shape {
		case "obj":
			if v.K == "p" {
				if !v.Nil {
					c.checkReset(f.Msg, a, v.Elems[0], path+"."+f.Attr, fails, sigs)
				}
			} else {
				c.checkReset(f.Msg, a, v, path+"."+f.Attr, fails, sigs)
			}
		case "objlist":
			for i, ea := range a.Elems {
				if i >= len(v.Elems) || ea.K != "ov" {
					continue
				}
				ev := v.Elems[i]
				if isNU(ea) {
					if !IsZeroGV(ev) {
						bad(f, fmt.Sprintf("null/unknown element %d left a non-zero value", i))
					}
					continue
				}
				if ev.K == "p" {
					if ev.Nil {
						continue
					}
					ev = ev.Elems[0]
				}
				c.checkReset(f.Msg, ea, ev, fmt.Sprintf("%s.%s[%d]", path, f.Attr, i), fails, sigs)
			}
		}
	}
}

func recipeReset(c *ctx) {
	desc := c.describedTop()
	custom := c.customTop()
	for i := 0; i < c.n; i++ {
		r := c.rnd.Fork(uint64(i))
		t := c.GenObject(r, TFConf)
		prior := c.p.b.GenGo(c.rt, r.Fork(1), MFull, 0)
		if i%3 == 2 {
			prior = c.p.b.GenGo(c.rt, r.Fork(1), MRand, 0)
		}
		if i%4 == 1 {
			// every branch attribute of every oneof group null (or unknown), against a target that holds branches
			for _, f := range c.info.Fields {
				if f.Oneof == "" {
					continue
				}
				if a, ok := t.Attr(f.Attr); ok && a != nil && a.K != "nilv" {
					a.Null, a.Unknown = i%8 == 1, i%8 != 1
				}
			}
		}
		id1, r1 := c.From("reset-full", t, prior)
		id2, r2 := c.From("reset-zero", t, c.zero())
		if r1.Panic != "" || r2.Panic != "" {
			sig := "panic"
			if hasEmbeddedPtr(c.info, 0) {
				sig = "panic:embedded-pointer"
			}
			c.Oracle("C05", id1, false, sig, "CopyFrom panicked on a conforming object: "+r1.Panic+r2.Panic)
			continue
		}
		if len(r1.Diags)+len(r2.Diags) > 0 {
			c.Oracle("C05", id1, false, "diag", fmt.Sprintf("diagnostics on a conforming object: %v %v", r1.Diags, r2.Diags))
			continue
		}
		var fails, sigs []string
		// independence of the prior target / untouched fields
		for k, name := range r1.Val.Keys {
			a, b := r1.Val.Elems[k], r2.Val.Field(name)
			if custom[name] {
				continue // delegated to the user's hook (C17)
			}
			if desc[name] {
				if b == nil || !EqualGV(a, b) {
					fails = append(fails, name+": result depends on the prior content of the target")
					sigs = append(sigs, ShapeAt(c.info, "."+name))
				}
			} else {
				if p := prior.Field(name); p != nil && !EqualGV(a, p) {
					fails = append(fails, name+": field not described by the schema was modified")
					sigs = append(sigs, "undescribed-field")
				}
			}
		}
		c.checkReset(c.info, t, r1.Val, c.r.Name, &fails, &sigs)
		// payload independence
		if te := ErasePayload(t); !EqualTV(te, t) {
			_, r3 := c.From("reset-erased", te, prior)
			if r3.Panic != "" || !EqualGV(r3.Val, r1.Val) {
				var d []string
				if r3.Panic == "" {
					DiffGV(r1.Val, r3.Val, "", &d)
				}
				fails = append(fails, "result depends on the payload of a null/unknown value: "+strings.Join(d, ","))
				if len(d) > 0 {
					sigs = append(sigs, "payload:"+ShapeAt(c.info, d[0]))
				} else {
					sigs = append(sigs, "payload")
				}
			}
		}
		_ = id2
		if len(fails) > 0 {
			c.Oracle("C05", id1, false, sigs[0], strings.Join(fails, "; "))
		} else {
			c.Oracle("C05", id1, true, "", "")
		}
	}
}

// ---------------------------------------------------------------------------------------
// malformed: C06

type dset map[[2]string]bool

func lastSeg(p string) string {
	if i := strings.LastIndex(p, "."); i >= 0 {
		return p[i+1:]
	}
	return p
}

func goTypeOK(f *spec.EField, a *TV, elem bool) bool {
	if a == nil {
		return false
	}
	shape := f.Shape
	if elem {
		switch shape {
		case "list", "map":
			shape = "prim"
		case "objlist", "objmap":
			shape = "obj"
		}
	}
	switch shape {
	case "prim":
		return a.K == "pv" && a.PK == f.PK
	case "list", "objlist":
		return a.K == "lv"
	case "map", "objmap":
		return a.K == "mv"
	case "obj":
		return a.K == "ov"
	}
	return true
}

// expectedReadDiags walks a (possibly malformed) object the way the property describes.
func expectedReadDiags(info *spec.EMsg, obj *TV, full dset, short dset) {
	if info == nil {
		return
	}
	for _, f := range info.Fields {
		if f.Placeholder {
			continue // exists in the schema only, never read
		}
		var a *TV
		ok := false
		if obj != nil && !obj.NilC {
			a, ok = obj.Attr(f.Attr)
		}
		if !ok {
			full[[2]string{"ReadMissing", f.Path}] = true
			short[[2]string{"ReadMissing", lastSeg(f.Path)}] = true
			continue
		}
		if f.Shape == "custom" {
			continue
		}
		if !goTypeOK(f, a, false) {
			full[[2]string{"ReadConv", f.Path}] = true
			short[[2]string{"ReadConv", lastSeg(f.Path)}] = true
			continue
		}
		if isNU(a) {
			continue
		}
		switch f.Shape {
		case "obj":
			if f.Msg != nil && !f.Msg.Empty {
				expectedReadDiags(f.Msg, a, full, short)
			}
		case "list", "map", "objlist", "objmap":
			for _, e := range a.Elems {
				if !goTypeOK(f, e, true) {
					full[[2]string{"ReadConv", f.Path}] = true
					short[[2]string{"ReadConv", lastSeg(f.Path)}] = true
					continue
				}
				if (f.Shape == "objlist" || f.Shape == "objmap") && !isNU(e) && f.Msg != nil && !f.Msg.Empty {
					expectedReadDiags(f.Msg, e, full, short)
				}
			}
		}
	}
}

// fullSet: the diagnostics by kind and full path (each attribute's diagnostic names the field's path).
func fullSet(ds []Diag) dset {
	s := dset{}
	for _, d := range ds {
		s[[2]string{d.Kind, d.Path}] = true
	}
	return s
}

func shortSet(ds []Diag) dset {
	s := dset{}
	for _, d := range ds {
		s[[2]string{d.Kind, lastSeg(d.Path)}] = true
	}
	return s
}

func dsetStr(s dset) string {
	var xs []string
	for k := range s {
		xs = append(xs, k[0]+":"+k[1])
	}
	sort.Strings(xs)
	return strings.Join(xs, ",")
}

// pruneTypes removes attribute types at random levels; returns the pruned type.
func pruneTypes(r *Rnd, ty *TY, n *int) *TY {
	switch ty.K {
	case "list", "map":
		return &TY{K: ty.K, E: pruneTypes(r, ty.E, n)}
	case "obj":
		o := &TY{K: "obj"}
		for i, name := range ty.Names {
			if r.P(1, 6) {
				*n++
				continue
			}
			o.Names = append(o.Names, name)
			o.Tys = append(o.Tys, pruneTypes(r, ty.Tys[i], n))
		}
		return o
	}
	return ty
}

// expectedWriteDiags: one WriteMissing per attribute type that is missing where a source value reaches.
func expectedWriteDiags(info *spec.EMsg, st *GV, ty *TY, full dset, short dset) {
	if info == nil || ty == nil {
		return
	}
	for _, f := range info.Fields {
		at := ty.AttrTy(f.Attr)
		if at == nil {
			full[[2]string{"WriteMissing", f.Path}] = true
			short[[2]string{"WriteMissing", lastSeg(f.Path)}] = true
			continue
		}
		if f.Msg == nil || f.Shape == "custom" {
			continue
		}
		v, state := FieldOf(f, st)
		if state != fsOK {
			continue
		}
		reach := func(e *GV, et *TY) {
			if e.K == "p" {
				if e.Nil {
					return
				}
				e = e.Elems[0]
			}
			if et != nil && et.K == "obj" {
				expectedWriteDiags(f.Msg, e, et, full, short)
			}
		}
		switch f.Shape {
		case "obj":
			reach(v, at)
		case "objlist", "objmap":
			for _, e := range v.Elems {
				if e.K == "p" && e.Nil {
					continue
				}
				reach(e, at.E)
			}
		}
	}
}

func recipeMalformed(c *ctx) {
	for i := 0; i < c.n; i++ {
		r := c.rnd.Fork(uint64(i))
		mode := TFKnown
		if i%2 == 1 {
			mode = TFConf
		}
		t := c.GenObject(r, mode)
		bad, corr := Corrupt(r.Fork(2), t, 1+r.N(3))
		prior := c.zero()
		if i%3 == 0 {
			prior = c.p.b.GenGo(c.rt, r.Fork(3), MFull, 0)
		}
		id, fr := c.From("malformed-from", bad, prior)
		if fr.Panic != "" {
			sig := "panic"
			if hasEmbeddedPtr(c.info, 0) {
				sig = "panic:embedded-pointer"
			}
			c.Oracle("C06", id, false, sig, fmt.Sprintf("CopyFrom panicked after %v: %s", corr, fr.Panic))
		} else {
			full, short := dset{}, dset{}
			expectedReadDiags(c.info, bad, full, short)
			got := fullSet(fr.Diags)
			short = full
			ok := dsetStr(got) == dsetStr(full) && fr.Dups == 0 // each problem reported once
			for _, d := range fr.Diags {
				if strings.Contains(d.Kind, "!") || d.Sev != "Error" {
					ok = false
				}
			}
			what := ""
			if !ok {
				what = fmt.Sprintf("after %v: diagnostics %s, expected %s", corr, dsetStr(got), dsetStr(short))
			}
			// the well-formed attributes are still copied
			if ok {
				_, r0 := c.From("malformed-ref", t, prior)
				if r0.Panic == "" {
					touched := map[string]bool{}
					for _, k := range corr {
						seg := strings.Split(strings.TrimPrefix(k.At, "/"), "/")[0]
						touched[seg] = true
					}
					for _, f := range c.info.Fields {
						if touched[f.Attr] || len(f.Via) > 0 || f.Oneof != "" {
							continue
						}
						a, b := fr.Val.Field(f.GoName), r0.Val.Field(f.GoName)
						if a != nil && b != nil && !EqualGV(a, b) {
							ok = false
							what = fmt.Sprintf("after %v: well-formed attribute %s was not copied as without the corruption", corr, f.Attr)
						}
					}
				}
			}
			c.Oracle("C06", id, ok, "from-diags", what)
		}
		// the same attribute damaged in two different ways in two elements of one list or map
		if twin, tc := CorruptTwin(r.Fork(7), t); twin != nil {
			idt, ft := c.From("malformed-from", twin, c.zero())
			if ft.Panic != "" {
				c.Oracle("C06", idt, false, "panic", fmt.Sprintf("CopyFrom panicked after %v: %s", tc, ft.Panic))
			} else {
				full, short := dset{}, dset{}
				expectedReadDiags(c.info, twin, full, short)
				got := fullSet(ft.Diags)
				okt := dsetStr(got) == dsetStr(full)
				whatt := ""
				if !okt {
					whatt = fmt.Sprintf("after %v: diagnostics %s, expected %s", tc, dsetStr(got), dsetStr(full))
				}
				c.Oracle("C06", idt, okt, "from-diags-twin", whatt)
			}
		}
		// CopyTo with attribute types removed
		v := c.p.b.GenGo(c.rt, r.Fork(4), MFull, 0)
		if i%2 == 1 {
			v = c.p.b.GenGo(c.rt, r.Fork(4), MRand, 0)
		}
		if nilEmbeddedParent(c.info, v) {
			continue
		}
		removed := 0
		pt := pruneTypes(r.Fork(5), c.objTy, &removed)
		id2, tr := c.To("malformed-to", v, EmptyOf(pt))
		if tr.Panic != "" {
			c.Oracle("C06", id2, false, "panic-to", "CopyTo panicked with attribute types removed: "+tr.Panic)
			continue
		}
		full, short := dset{}, dset{}
		expectedWriteDiags(c.info, v, pt, full, short)
		got := fullSet(tr.Diags)
		short = full
		ok := dsetStr(got) == dsetStr(full)
		what := ""
		if !ok {
			what = fmt.Sprintf("%d types removed: diagnostics %s, expected %s", removed, dsetStr(got), dsetStr(short))
		} else if tr.Dups != 0 {
			// "as one error diagnostic naming the field": a type missing from an element type is reported once,
			// however many elements reach it
			ok = false
			what = fmt.Sprintf("%d types removed: %d diagnostics for %d distinct problems (%s)", removed, len(tr.Diags)+tr.Dups, len(got), dsetStr(got))
		}
		if ok {
			_, t0 := c.To("malformed-to-ref", v, EmptyOf(c.objTy))
			if t0.Panic == "" {
				for i, n := range pt.Names {
					if !tyEqual(pt.Tys[i], c.objTy.AttrTy(n)) {
						continue
					}
					a, oka := tr.Obj.Attr(n)
					b, okb := t0.Obj.Attr(n)
					if oka != okb || (oka && !EqualTV(a, b)) {
						ok = false
						what = "attribute " + n + " is not written as with the complete type"
					}
				}
			}
		}
		c.Oracle("C06", id2, ok, "to-diags", what)
		// the same with a target that already holds values (written by an earlier call) whose types are
		// then removed, in the declared types and in the types the held values carry
		_, pre := c.To("malformed-to-pre", c.p.b.GenGo(c.rt, r.Fork(6), MFull, 0), EmptyOf(c.objTy))
		if pre.Panic == "" && len(pre.Diags) == 0 {
			target := retype(pre.Obj, pt)
			id3, tp := c.To("malformed-to-populated", v, target)
			if tp.Panic != "" {
				c.Oracle("C06", id3, false, "panic-to", "CopyTo panicked on a populated target with attribute types removed: "+tp.Panic)
			} else {
				got := fullSet(tp.Diags)
				okp := dsetStr(got) == dsetStr(full) && tp.Dups == 0
				whatp := ""
				if !okp {
					whatp = fmt.Sprintf("populated target, %d types removed: diagnostics %s, expected %s", removed, dsetStr(got), dsetStr(full))
				}
				c.Oracle("C06", id3, okp, "to-diags-populated", whatp)
			}
		}
	}
}

// retype gives a value the (pruned) type pt: object values carry pt's attribute types, element types
// follow; values are kept, including those of attributes whose type was removed.
func retype(v *TV, pt *TY) *TV {
	if v == nil || pt == nil {
		return v
	}
	o := CloneTV(v)
	switch o.K {
	case "ov":
		if pt.K == "obj" {
			o.Ty = pt
			for i, k := range o.Keys {
				if at := pt.AttrTy(k); at != nil {
					o.Elems[i] = retype(o.Elems[i], at)
				}
			}
		}
	case "lv", "mv":
		if (pt.K == "list" && o.K == "lv") || (pt.K == "map" && o.K == "mv") {
			o.Ty = pt.E
			for i := range o.Elems {
				o.Elems[i] = retype(o.Elems[i], pt.E)
			}
		}
	}
	return o
}

// ---------------------------------------------------------------------------------------
// oneof: C07 (top level groups, every prior holder state)

func recipeOneof(c *ctx) {
	if c.info == nil {
		return
	}
	// a group is a oneof of the message itself or one promoted from an embedded message (then the holder
	// sits below the embedded struct(s) named by via; a nil embedded pointer means: no branch)
	groups := map[string][]*spec.EField{}
	for _, f := range c.info.Fields {
		if f.Oneof != "" {
			k := strings.Join(append(append([]string{}, f.Via...), f.Oneof), "\x00")
			groups[k] = append(groups[k], f)
		}
	}
	gi := 0
	for _, gk := range spec.SortedKeys(groups) {
		gi++
		bs := groups[gk]
		g, via := bs[0].Oneof, bs[0].Via
		sort.Slice(bs, func(i, j int) bool { return bs[i].GoName < bs[j].GoName })
		ht := c.rt
		okT := true
		for _, p := range via {
			sf, ok := ht.FieldByName(p)
			if !ok {
				okT = false
				break
			}
			ht = sf.Type
			if ht.Kind() == reflect.Ptr {
				ht = ht.Elem()
			}
		}
		holderField, ok := ht.FieldByName(g)
		if !ok || !okT {
			c.Oracle("C07", c.id("oneof"), false, "no-holder", "struct has no oneof holder "+strings.Join(append(append([]string{}, via...), g), "."))
			continue
		}
		// holder of the group inside a struct value (absent when an embedded pointer on the way is nil)
		holderOf := func(st *GV) *GV {
			if st == nil {
				return nil
			}
			h, ok := ResolveVia(st, via)
			if !ok {
				return &GV{K: "o", Nil: true}
			}
			return h.Field(g)
		}
		// the struct value with the holder set (embedded pointers on the way allocated); a nil holder on a
		// promoted group leaves the embedded pointers as they are in base
		setHolder := func(base *GV, h *GV) *GV {
			if len(via) == 0 {
				o := CloneGV(base)
				o.SetField(g, h)
				return o
			}
			if h.Nil {
				return CloneGV(base)
			}
			probe := *bs[0]
			probe.GoName = h.Keys[0]
			return c.withField(base, &probe, h.Elems[0])
		}
		mk := func(b *spec.EField, r *Rnd, m Mode) *GV {
			if b == nil {
				return &GV{K: "o", Nil: true}
			}
			w, ok := c.p.b.wrapperFor(holderField.Type, b.GoName)
			if !ok {
				return &GV{K: "o", Nil: true}
			}
			return &GV{K: "o", Keys: []string{b.GoName}, Elems: []*GV{c.p.b.GenGo(w.Field(0).Type, r, m, 1)}}
		}
		// a message branch that is SET to a message holding nothing (non-nil pointer to the zero struct): CopyTo renders
		// its attribute non-null with null attributes inside, and CopyFrom has to select that branch
		mkSetZero := func(b *spec.EField, r *Rnd) *GV {
			w, ok := c.p.b.wrapperFor(holderField.Type, b.GoName)
			if !ok {
				return nil
			}
			ft := w.Field(0).Type
			if ft.Kind() != reflect.Ptr || ft.Elem().Kind() != reflect.Struct {
				return nil
			}
			return &GV{K: "o", Keys: []string{b.GoName}, Elems: []*GV{{K: "p", Elems: []*GV{c.p.b.GenGo(ft.Elem(), r, MZero, 2)}}}}
		}
		choices := append([]*spec.EField{nil}, bs...)
		k := 0
		for _, act := range choices {
			for _, pri := range choices {
				for variant := 0; variant < 3; variant++ {
					// third variant: the active scalar branch holds its zero value and its attribute is known and NOT null
					// (what a configuration that sets the branch to "" / 0 / false plans): the oneof holds that branch
					if variant == 2 && (act == nil || act.Shape != "prim" || act.Ptr || act.Temporal) {
						continue
					}
					k++
					// every (active branch, prior holder, variant) combination is run unless the group is
					// very large; then a deterministic sample
					if total := len(choices) * len(choices) * 2; total > 40*c.n && c.n > 0 && (k*7919)%total >= 40*c.n {
						continue
					}
					an, pn := "none", "none"
					if act != nil {
						an = act.GoName
					}
					if pri != nil {
						pn = pri.GoName
					}
					r := c.rnd.Fork(hashName(fmt.Sprintf("%s/%s/%s/%d", strings.Join(append(append([]string{}, via...), g), "."), an, pn, variant)))
					m := MFull
					if variant >= 1 && act != nil {
						m = MZero // active branch with zero payload
					}
					hv := mk(act, r, m)
					if variant == 1 && act != nil && act.Shape == "obj" && pri != nil {
						if z := mkSetZero(act, r); z != nil {
							hv = z
						}
					}
					v := setHolder(c.zero(), hv)
					id, tr := c.To("oneof-to", v, EmptyOf(c.objTy))
					if tr.Panic != "" {
						c.Oracle("C07", id, false, "panic", "CopyTo panicked")
						continue
					}
					var fails []string
					c.checkExclusive(c.info, v, tr.Obj, c.r.Name, &fails)
					// the object CopyFrom reads: inactive branches null, or unknown in the second variant
					obj := CloneTV(tr.Obj)
					if variant == 1 {
						for _, b := range bs {
							if a, ok := obj.Attr(b.Attr); ok && a.Null {
								a.Null, a.Unknown = false, true
							}
						}
					}
					if variant == 2 {
						if a, ok := obj.Attr(act.Attr); ok {
							a.Null, a.Unknown = false, false
						}
					}
					prior := setHolder(c.zero(), mk(pri, r.Fork(9), MFull))
					id2, fr := c.From("oneof-from", obj, prior)
					if fr.Panic != "" {
						c.Oracle("C07", id2, false, "panic", "CopyFrom panicked")
						continue
					}
					// a message branch whose attribute is known and not null (CopyTo renders every set message branch so, a
					// zero payload included): exactly one branch attribute is known and non-null, so the oneof holds THAT
					// branch - the normal form used below would identify a zero payload with an unset oneof
					if act != nil && act.Shape == "obj" {
						if a, ok := obj.Attr(act.Attr); ok && !a.Null && !a.Unknown {
							if got := holderOf(fr.Val); got == nil || got.BranchName() != act.GoName {
								c.Oracle("C07", id2, false, "from-holder-msg-branch:"+DescribeField(act),
									fmt.Sprintf("holder %s: the message branch attribute %s is known and not null, read back %s (prior %s)", g, act.Attr, GVSx(got), GVSx(holderOf(prior))))
								continue
							}
						}
					}
					if variant == 2 {
						// exactly that branch with that (zero) value, not its normal form
						want, got := holderOf(v), holderOf(fr.Val)
						ok := got != nil && want != nil && want.BranchName() != "" && got.BranchName() == want.BranchName() &&
							got.Elems0() != nil && want.Elems0() != nil && EqualGV(c.p.b.NF(want.Elems0(), nil), c.p.b.NF(got.Elems0(), nil))
						what := ""
						if !ok {
							what = fmt.Sprintf("holder %s: the branch attribute %s is known, not null and holds the zero value, read back %s, expected %s", g, act.Attr, GVSx(got), GVSx(want))
						}
						c.Oracle("C07", id2, ok, "from-holder-known-zero:"+DescribeField(act), what)
						continue
					}
					// compared on the fields the schema describes (an excluded field of a branch message is not copied)
					want := holderOf(Described(c.info, c.p.b.NF(v, c.rt)))
					got := holderOf(Described(c.info, c.p.b.NF(fr.Val, c.rt)))
					if want == nil || got == nil {
						want, got = c.p.b.NF(holderOf(v), holderField.Type), c.p.b.NF(holderOf(fr.Val), holderField.Type)
					}
					if !EqualGV(want, got) {
						fails = append(fails, fmt.Sprintf("holder %s: read back %s, expected %s (prior %s)", g, GVSx(got), GVSx(want), GVSx(holderOf(prior))))
					}
					if len(fails) > 0 {
						sig := "from-holder"
						if act != nil {
							sig += ":" + DescribeField(act)
						} else {
							sig += ":none"
						}
						c.Oracle("C07", id2, false, sig, strings.Join(fails, "; "))
					} else {
						c.Oracle("C07", id2, true, "", "")
					}
				}
			}
		}
	}
}

// ---------------------------------------------------------------------------------------
// echo: C08

// semEq: equality of Terraform values as Terraform sees them (payload under null ignored).
func semEq(a, b *TV) bool {
	return EqualTV(ErasePayload(a), ErasePayload(b))
}

func (c *ctx) knownKept(info *spec.EMsg, p, q *TV, path string, fails *[]string, sigs *[]string) {
	if p == nil || q == nil || p.NilC {
		return
	}
	inj := injectedNames(info)
	for i, k := range p.Keys {
		if inj[k] {
			continue
		}
		a := p.Elems[i]
		f := fieldByAttr(info, k)
		b, ok := q.Attr(k)
		if !ok {
			*fails = append(*fails, path+"."+k+": attribute disappeared")
			*sigs = append(*sigs, "missing")
			continue
		}
		if a.Unknown || (f != nil && f.Shape == "custom") {
			continue
		}
		sig := "noinfo"
		if f != nil {
			sig = DescribeField(f)
		}
		bad := func(what string) {
			*fails = append(*fails, path+"."+k+": "+what)
			*sigs = append(*sigs, sig)
		}
		if a.Null != b.Null {
			bad(fmt.Sprintf("known value changed null-ness %v -> %v", a.Null, b.Null))
			continue
		}
		if a.Null {
			continue
		}
		switch a.K {
		case "pv":
			if !EqualTV(a, b) {
				bad("known value changed: " + NewTypeTable().TVSx(a).String() + " -> " + NewTypeTable().TVSx(b).String())
			}
		case "lv":
			if b.K != "lv" || len(a.Elems) != len(b.Elems) {
				bad(fmt.Sprintf("list length changed %d -> %d", len(a.Elems), len(b.Elems)))
			}
		case "mv":
			if b.K != "mv" || strings.Join(a.Keys, "\x00") != strings.Join(b.Keys, "\x00") {
				bad("map key set changed")
			}
		case "ov":
			var sub *spec.EMsg
			if f != nil {
				sub = f.Msg
			}
			if b.K != "ov" {
				bad("object replaced")
			} else {
				c.knownKept(sub, a, b, path+"."+k, fails, sigs)
			}
		}
	}
}

func recipeEcho(c *ctx) {
	for i := 0; i < c.n; i++ {
		r := c.rnd.Fork(uint64(i))
		p := c.GenObject(r, TFPlan)
		id1, fr := c.From("echo-from", p, c.zero())
		if fr.Panic != "" || len(fr.Diags) > 0 {
			sig := "from-failed"
			if fr.Panic != "" && hasEmbeddedPtr(c.info, 0) {
				sig = "panic:embedded-pointer"
			}
			c.Oracle("C08", id1, false, sig, fmt.Sprintf("CopyFrom of a plan failed: %s %v", fr.Panic, fr.Diags))
			continue
		}
		id2, tr := c.To("echo-to", fr.Val, p)
		if tr.Panic != "" || len(tr.Diags) > 0 {
			sig := "to-failed"
			if tr.Panic != "" && nilEmbeddedParent(c.info, fr.Val) {
				sig = "panic:nil-embedded-pointer"
			}
			c.Oracle("C08", id2, false, sig, fmt.Sprintf("CopyTo into the plan failed: %s %v", tr.Panic, tr.Diags))
			continue
		}
		var fails, sigs []string
		var unk []string
		noUnknown(tr.Obj, c.info, c.r.Name, &unk)
		if len(unk) > 0 {
			fails = append(fails, "unknown values remain: "+strings.Join(unk, ","))
			sigs = append(sigs, "unknown-remains")
		}
		c.knownKept(c.info, p, tr.Obj, c.r.Name, &fails, &sigs)
		_, fr2 := c.From("echo-from2", tr.Obj, c.zero())
		if fr2.Panic != "" {
			fails = append(fails, "decoding the result panicked")
			sigs = append(sigs, "panic")
		} else {
			a, b := Described(c.info, c.p.b.NF(fr.Val, c.rt)), Described(c.info, c.p.b.NF(fr2.Val, c.rt))
			var d []string
			DiffGV(a, b, "", &d)
			if len(d) > 0 {
				fails = append(fails, "decoding the result yields a different struct at "+strings.Join(d, ","))
				sigs = append(sigs, "redecode:"+ShapeAt(c.info, d[0]))
			}
		}
		if len(fails) > 0 {
			c.Oracle("C08", id2, false, sigs[0], strings.Join(fails, "; "))
		} else {
			c.Oracle("C08", id2, true, "", "")
		}
	}
}

// ---------------------------------------------------------------------------------------
// history: C09

// mixGV takes every struct field from a or b at random (recursively for structs).
func mixGV(r *Rnd, a, b *GV) *GV {
	if a.K != "st" || b.K != "st" {
		if r.P(1, 2) {
			return CloneGV(a)
		}
		return CloneGV(b)
	}
	o := &GV{K: "st"}
	base := r.U64()
	for _, k := range sortedCopy(a.Keys) {
		af := a.Field(k)
		i := 0
		for j, kk := range a.Keys {
			if kk == k {
				i = j
			}
		}
		_ = af
		bf := b.Field(k)
		o.Keys = append(o.Keys, k)
		if bf == nil {
			o.Elems = append(o.Elems, CloneGV(a.Elems[i]))
			continue
		}
		switch NewRnd(base ^ hashName(k)).N(4) {
		case 0:
			o.Elems = append(o.Elems, CloneGV(a.Elems[i]))
		case 1:
			o.Elems = append(o.Elems, mixGV(NewRnd(base^hashName(k)^0x5555), a.Elems[i], bf))
		default:
			o.Elems = append(o.Elems, CloneGV(bf))
		}
	}
	return o
}

func (c *ctx) follow(info *spec.EMsg, st *GV, got, ref *TV, path string, fails *[]string, sigs *[]string) {
	if info == nil || got == nil || ref == nil {
		return
	}
	for _, f := range info.Fields {
		if f.Shape == "custom" || f.Placeholder {
			continue
		}
		a, oka := got.Attr(f.Attr)
		e, oke := ref.Attr(f.Attr)
		if !oka || !oke {
			continue
		}
		bad := func(what string) {
			*fails = append(*fails, path+"."+f.Attr+": "+what)
			*sigs = append(*sigs, DescribeField(f))
		}
		v, state := FieldOf(f, st)
		if state == fsViaNil && f.Oneof == "" {
			// promoted from a nullable embedded message that is nil in the new source: the message's
			// attributes are this object's, and they become null as in a copy into an empty object
			// (a list or map is then like a nil one: no elements; its null flag is as sticky as any list's)
			switch f.Shape {
			case "list", "objlist", "map", "objmap":
				if len(a.Elems) != 0 {
					bad(fmt.Sprintf("embedded message is nil in the source but %d elements are kept", len(a.Elems)))
				}
			default:
				if a.Null != e.Null {
					bad(fmt.Sprintf("embedded message is nil in the source: null=%v, in a fresh copy null=%v", a.Null, e.Null))
				}
			}
			continue
		}
		if state == fsInactive && f.Oneof != "" && f.Shape == "prim" && !f.Ptr {
			// a scalar branch of a oneof that the new source does not select: the source's value is the zero value
			// (what the getter returns), and an attribute that is not null carries it
			if !a.Null && a.K == "pv" && e.K == "pv" && !EqualGV(a.Pay, e.Pay) {
				bad("non-null attribute of an unselected oneof branch does not carry the source's (zero) value")
			}
			continue
		}
		if state != fsOK {
			continue
		}
		switch f.Shape {
		case "list", "objlist":
			if a.K != "lv" || len(a.Elems) != len(v.Elems) {
				bad(fmt.Sprintf("list has %d elements, source has %d", len(a.Elems), len(v.Elems)))
				continue
			}
			for i := range a.Elems {
				if i < len(e.Elems) && !EqualTV(a.Elems[i], e.Elems[i]) {
					bad(fmt.Sprintf("element %d differs from the source's", i))
					break
				}
			}
		case "map", "objmap":
			if a.K != "mv" || strings.Join(a.Keys, "\x00") != strings.Join(sortedCopy(v.Keys), "\x00") {
				bad(fmt.Sprintf("map has keys %q, source has %q", a.Keys, v.Keys))
				continue
			}
			for i, k := range a.Keys {
				if ev, ok := e.Attr(k); ok && !EqualTV(a.Elems[i], ev) {
					bad("value of key " + k + " differs from the source's")
					break
				}
			}
		case "prim":
			if f.Ptr {
				if a.Null != v.Nil {
					bad(fmt.Sprintf("pointer nil=%v but null=%v", v.Nil, a.Null))
				} else if !v.Nil && !EqualGV(a.Pay, e.Pay) {
					bad("value differs from the source's")
				}
			} else if !a.Null && !EqualGV(a.Pay, e.Pay) {
				bad("non-null scalar does not carry the source's value")
			}
		case "obj":
			if f.Ptr && v.Nil {
				if !a.Null {
					bad("nullable message is nil in the source but not null")
				}
				continue
			}
			inner := v
			if inner.K == "p" {
				inner = inner.Elems[0]
			}
			if a.K == "ov" && e.K == "ov" && !a.NilC && !e.NilC {
				c.follow(f.Msg, inner, a, e, path+"."+f.Attr, fails, sigs)
			}
		}
	}
}

// withoutCustom drops the attributes of custom-type fields (their content is the user's hook's business).
func (c *ctx) withoutCustom(t *TV) *TV {
	if c.info == nil || t == nil {
		return t
	}
	o := CloneTV(t)
	for _, f := range c.info.Fields {
		if f.Shape == "custom" {
			o.DelAttr(f.Attr)
		}
	}
	return o
}

func recipeHistory(c *ctx) {
	for i := 0; i < c.n; i++ {
		r := c.rnd.Fork(uint64(i))
		v := c.p.b.GenGo(c.rt, r.Fork(0), MRand, 0)
		if i%2 == 0 {
			v = c.p.b.GenGo(c.rt, r.Fork(0), MFull, 0)
		}
		_, tr := c.To("history-first", v, EmptyOf(c.objTy))
		if tr.Panic != "" || len(tr.Diags) > 0 {
			continue
		}
		cur := tr.Obj
		steps := 2 + r.N(3)
		for s := 1; s <= steps; s++ {
			var nv *GV
			switch r.N(4) {
			case 0:
				nv = c.p.b.GenGo(c.rt, r.Fork(uint64(100+s)), MRand, 0)
			case 1:
				nv = mixGV(r, v, c.zero())
			default:
				nv = mixGV(r, v, c.p.b.GenGo(c.rt, r.Fork(uint64(100+s)), MRand, 0))
			}
			id, t2 := c.To("history-step", nv, cur)
			if t2.Panic != "" || len(t2.Diags) > 0 {
				c.Oracle("C09", id, false, "failed", fmt.Sprintf("in-place CopyTo failed: %s %v", t2.Panic, t2.Diags))
				break
			}
			_, ref := c.To("history-ref", nv, EmptyOf(c.objTy))
			if ref.Panic != "" {
				break
			}
			var fails, sigs, unk []string
			noUnknown(t2.Obj, c.info, c.r.Name, &unk)
			if len(unk) > 0 {
				fails = append(fails, "unknown values: "+strings.Join(unk, ","))
				sigs = append(sigs, "unknown")
			}
			c.follow(c.info, nv, t2.Obj, ref.Obj, c.r.Name, &fails, &sigs)
			_, t3 := c.To("history-again", nv, t2.Obj)
			if t3.Panic != "" || !EqualTV(c.withoutCustom(t3.Obj), c.withoutCustom(t2.Obj)) {
				fails = append(fails, "repeating the call changes the object")
				sigs = append(sigs, "not-idempotent")
			}
			if len(fails) > 0 {
				c.Oracle("C09", id, false, sigs[0], strings.Join(fails, "; "))
			} else {
				c.Oracle("C09", id, true, "", "")
			}
			cur, v = t2.Obj, nv
		}
	}
}

// ---------------------------------------------------------------------------------------
// probe: C02 (one distinctive field at a time)

func (c *ctx) fieldType(f *spec.EField) (reflect.Type, bool) {
	t := c.rt
	for _, p := range f.Via {
		sf, ok := t.FieldByName(p)
		if !ok {
			return nil, false
		}
		t = sf.Type
		if t.Kind() == reflect.Ptr {
			t = t.Elem()
		}
	}
	name := f.GoName
	if f.Oneof != "" {
		name = f.Oneof
	}
	sf, ok := t.FieldByName(name)
	if !ok {
		return nil, false
	}
	if f.Oneof != "" {
		w, ok := c.p.b.wrapperFor(sf.Type, f.GoName)
		if !ok {
			return nil, false
		}
		return w.Field(0).Type, true
	}
	return sf.Type, true
}

// withField returns base with the field set to val (via parents allocated, oneof holder set).
func (c *ctx) withField(base *GV, f *spec.EField, val *GV) *GV {
	out := CloneGV(base)
	cur := out
	t := c.rt
	for _, p := range f.Via {
		sf, _ := t.FieldByName(p)
		et := sf.Type
		if et.Kind() == reflect.Ptr {
			et = et.Elem()
		}
		pf := cur.Field(p)
		if pf == nil {
			return out
		}
		if pf.Nil {
			pf.Nil = false
			pf.Elems = []*GV{c.p.b.ZeroGo(et)}
		}
		cur = pf.Elems[0]
		t = et
	}
	if f.Oneof != "" {
		cur.SetField(f.Oneof, &GV{K: "o", Keys: []string{f.GoName}, Elems: []*GV{val}})
	} else {
		cur.SetField(f.GoName, val)
	}
	return out
}

func diffAttrs(a, b *TV) []string {
	set := map[string]bool{}
	for i, k := range a.Keys {
		if o, ok := b.Attr(k); !ok || !EqualTV(a.Elems[i], o) {
			set[k] = true
		}
	}
	for _, k := range b.Keys {
		if _, ok := a.Attr(k); !ok {
			set[k] = true
		}
	}
	return spec.SortedKeys(set)
}

func recipeProbe(c *ctx) {
	if c.info == nil {
		return
	}
	for fi, f := range c.info.Fields {
		if f.Placeholder {
			continue
		}
		ft, ok := c.fieldType(f)
		if !ok {
			c.Oracle("C02", c.id("probe"), false, "no-go-field", "struct has no field for "+f.Path)
			continue
		}
		_ = fi
		r := c.rnd.Fork(hashName(f.Path))
		val := c.p.b.GenGo(ft, r, MFull, 1)
		base := c.withField(c.zero(), f, c.p.b.ZeroGo(ft))
		if f.Oneof != "" {
			// base: the via parents allocated, the oneof unset
			base = c.withField(c.zero(), f, c.p.b.ZeroGo(ft))
			if h, okv := ResolveVia(base, f.Via); okv {
				h.SetField(f.Oneof, &GV{K: "o", Nil: true})
			}
		}
		probe := c.withField(base, f, val)
		if EqualGV(probe, base) || EqualGV(Described(c.info, c.p.b.NF(probe, c.rt)), Described(c.info, c.p.b.NF(base, c.rt))) {
			continue // the field's type has a single value as far as the schema describes it (message without fields held by value)
		}
		_, ta := c.To("probe-base", base, EmptyOf(c.objTy))
		id, tb := c.To("probe-to", probe, EmptyOf(c.objTy))
		if ta.Panic != "" || tb.Panic != "" {
			sig := "panic:" + DescribeField(f)
			if nilEmbeddedParent(c.info, base) || nilEmbeddedParent(c.info, probe) {
				sig = "panic:nil-embedded-pointer"
			}
			c.Oracle("C02", id, false, sig, "CopyTo panicked while probing "+f.Path)
			continue
		}
		d := diffAttrs(ta.Obj, tb.Obj)
		if f.Shape == "custom" && len(d) == 0 {
			d = []string{f.Attr}
		}
		if len(d) != 1 || d[0] != f.Attr {
			c.Oracle("C02", id, false, "to-attr:"+DescribeField(f), fmt.Sprintf("writing %s changed attributes %v, expected exactly [%s]", f.Path, d, f.Attr))
			continue
		}
		_, fa := c.From("probe-from-base", ta.Obj, c.zero())
		id2, fb := c.From("probe-from", tb.Obj, c.zero())
		if fa.Panic != "" || fb.Panic != "" {
			sig := "panic:" + DescribeField(f)
			if hasEmbeddedPtr(c.info, 0) {
				sig = "panic:embedded-pointer"
			}
			c.Oracle("C02", id2, false, sig, "CopyFrom panicked while probing "+f.Path)
			continue
		}
		var dg []string
		for i, k := range fa.Val.Keys {
			if o := fb.Val.Field(k); o == nil || !EqualGV(fa.Val.Elems[i], o) {
				dg = append(dg, k)
			}
		}
		want := f.GoName
		if f.Oneof != "" {
			want = f.Oneof
		}
		if len(f.Via) > 0 {
			want = f.Via[0]
		}
		if len(dg) != 1 || dg[0] != want {
			c.Oracle("C02", id2, false, "from-field:"+DescribeField(f), fmt.Sprintf("reading %s changed fields %v, expected exactly [%s]", f.Attr, dg, want))
			continue
		}
		c.Oracle("C02", id2, true, "", "")
	}
}

// ---------------------------------------------------------------------------------------
// schemacheck: C02 (names, types) and C10 (flags, metadata)

func expectedLeafTy(f *spec.EField) *TY {
	p := &TY{K: f.PK}
	switch f.Shape {
	case "prim":
		return p
	case "list":
		return &TY{K: "list", E: p}
	case "map":
		return &TY{K: "map", E: p}
	}
	return nil
}

func (c *ctx) checkSchema(info *spec.EMsg, attrs []*SAttr, path string, c02, c10 *[]string) {
	if info == nil {
		return
	}
	byName := map[string]*SAttr{}
	for _, a := range attrs {
		byName[a.Name] = a
	}
	expected := map[string]bool{}
	for _, f := range info.Fields {
		expected[f.Attr] = true
		a := byName[f.Attr]
		p := path + "." + f.Attr
		if a == nil {
			*c02 = append(*c02, p+": no attribute for field "+f.Path)
			continue
		}
		// C02: type
		switch f.Shape {
		case "prim", "list", "map":
			if a.Nest != "" || a.Ty == nil || !tyEqual(a.Ty, expectedLeafTy(f)) {
				*c02 = append(*c02, p+": type differs from the documented table")
			}
		case "obj", "objlist", "objmap":
			want := map[string]string{"obj": "single", "objlist": "list", "objmap": "map"}[f.Shape]
			if a.Nest != want {
				*c02 = append(*c02, fmt.Sprintf("%s: nesting %q, expected %q", p, a.Nest, want))
			} else {
				c.checkSchema(f.Msg, a.Attrs, p, c02, c10)
			}
		}
		// C10: flags and metadata
		desc := f.Desc
		if f.Shape == "custom" {
			desc = "hook:" + f.Suffix + ":" + f.Desc
			if a.Ty == nil || a.Ty.K != "hook" || a.Ty.Suffix != f.Suffix {
				*c10 = append(*c10, p+": schema entry is not the result of GenSchema"+f.Suffix)
			}
		}
		if a.Required == a.Optional {
			*c10 = append(*c10, fmt.Sprintf("%s: required=%v optional=%v", p, a.Required, a.Optional))
		}
		if a.Required != f.Required {
			*c10 = append(*c10, fmt.Sprintf("%s: required=%v, configured %v", p, a.Required, f.Required))
		}
		if a.Computed != f.Computed {
			*c10 = append(*c10, fmt.Sprintf("%s: computed=%v, configured %v", p, a.Computed, f.Computed))
		}
		if a.Sensitive != f.Sensitive {
			*c10 = append(*c10, fmt.Sprintf("%s: sensitive=%v, configured %v", p, a.Sensitive, f.Sensitive))
		}
		if strings.Join(a.Validators, "\x00") != strings.Join(f.Validators, "\x00") {
			*c10 = append(*c10, fmt.Sprintf("%s: validators %q, configured %q", p, a.Validators, f.Validators))
		}
		if strings.Join(a.PlanModifiers, "\x00") != strings.Join(f.PlanModifiers, "\x00") {
			*c10 = append(*c10, fmt.Sprintf("%s: plan modifiers %q, expected %q", p, a.PlanModifiers, f.PlanModifiers))
		}
		if a.Desc != desc {
			*c10 = append(*c10, fmt.Sprintf("%s: description %q, expected %q", p, a.Desc, desc))
		}
		if f.Placeholder && (a.Ty == nil || a.Ty.K != "bool" || !a.Computed) {
			*c10 = append(*c10, p+": placeholder is not a computed boolean")
		}
	}
	for _, j := range info.Injected {
		expected[j.Name] = true
		a := byName[j.Name]
		p := path + "." + j.Name
		if a == nil {
			*c10 = append(*c10, p+": injected field missing from the schema")
			continue
		}
		if a.Ty == nil || a.Ty.K != j.TyAbs || a.Required != j.Required || a.Computed != j.Computed || a.Optional != j.Optional ||
			strings.Join(a.Validators, "\x00") != strings.Join(j.Validators, "\x00") || strings.Join(a.PlanModifiers, "\x00") != strings.Join(j.PlanModifiers, "\x00") {
			*c10 = append(*c10, p+": injected field differs from its configuration")
		}
	}
	for _, a := range attrs {
		if !expected[a.Name] {
			*c02 = append(*c02, path+"."+a.Name+": attribute without a field")
		}
	}
	if info.Empty && (len(attrs) != 1+len(info.Injected)) {
		*c10 = append(*c10, path+": a message without fields must be exactly {active}")
	}
}

func recipeSchemaCheck(c *ctx) {
	recipeSchema(c)
	if c.info == nil {
		return
	}
	var c02, c10 []string
	c.checkSchema(c.info, c.attrs, c.r.Name, &c02, &c10)
	id := c.p.ID + "/" + c.r.Name + "/schema"
	c.Oracle("C02", id, len(c02) == 0, "schema", strings.Join(c02, "; "))
	c.Oracle("C10", id, len(c10) == 0, "schema", strings.Join(c10, "; "))
	// injected fields appear in the schema only: the converters never touch them
	inj := injectedNames(c.info)
	if len(inj) > 0 {
		v := c.p.b.GenGo(c.rt, c.rnd.Fork(77), MFull, 0)
		_, tr := c.To("injected-to", v, EmptyOf(c.objTy))
		if tr.Panic == "" {
			ok := true
			for k := range inj {
				if _, has := tr.Obj.Attr(k); has {
					ok = false
				}
			}
			c.Oracle("C10", id+"/injected", ok, "injected-touched", "CopyTo wrote an injected attribute")
		}
	}
}

// ---------------------------------------------------------------------------------------
// hooks: C17

func recipeHooks(c *ctx) {
	if c.info == nil {
		return
	}
	var customs []*spec.EField
	for _, f := range c.info.Fields {
		if f.Shape == "custom" && len(f.Via) == 0 && f.Oneof == "" {
			customs = append(customs, f)
		}
	}
	recipeHooksPromoted(c)
	if len(customs) == 0 {
		return
	}
	sort.Slice(customs, func(i, j int) bool { return customs[i].GoName < customs[j].GoName })
	id := c.p.ID + "/" + c.r.Name + "/hooks"
	// schema hook: called once per custom field with the attribute the field would otherwise get
	_, _, log, err := c.r.SchemaOf()
	if err != nil {
		c.Oracle("C17", id, false, "schema", err.Error())
		return
	}
	var fails []string
	for _, f := range customs {
		n := 0
		for _, call := range log {
			if call.Hook == "schema" && call.Suffix == f.Suffix && call.Attr.Description == f.Desc {
				n++
				if call.Attr.Required != f.Required || call.Attr.Optional == f.Required || call.Attr.Computed != f.Computed || call.Attr.Sensitive != f.Sensitive {
					fails = append(fails, f.Path+": GenSchema"+f.Suffix+" was given other flags than the field would get")
				}
			}
		}
		if n < 1 {
			fails = append(fails, fmt.Sprintf("%s: GenSchema%s not called with the field's attribute", f.Path, f.Suffix))
		}
	}
	c.Oracle("C17", id+"/schema", len(fails) == 0, "schema-hook", strings.Join(fails, "; "))

	for i := 0; i < c.n; i++ {
		r := c.rnd.Fork(uint64(i))
		v := c.p.b.GenGo(c.rt, r, MRand, 0)
		target := EmptyOf(c.objTy)
		if i%2 == 1 {
			// a target that already holds attribute values
			_, pre := c.To("hooks-pre", c.p.b.GenGo(c.rt, r.Fork(1), MFull, 0), EmptyOf(c.objTy))
			if pre.Panic == "" {
				target = pre.Obj
			}
		}
		idt, tr := c.To("hooks-to", v, target)
		fails = nil
		if tr.Panic != "" {
			c.Oracle("C17", idt, false, "panic", "CopyTo panicked")
			continue
		}
		for _, f := range customs {
			var calls []support.HookCall
			for _, call := range tr.Hooks {
				if call.Hook == "to" && call.Suffix == f.Suffix && EqualGV(DumpGo(call.Field), v.Field(f.GoName)) {
					calls = append(calls, call)
				}
			}
			if len(calls) < 1 {
				fails = append(fails, fmt.Sprintf("%s: CopyTo%s not called with the field value", f.Path, f.Suffix))
				continue
			}
			call := calls[0]
			if !tyEqual(DumpTy(call.Type), c.objTy.AttrTy(f.Attr)) {
				fails = append(fails, f.Path+": hook not given the attribute type")
			}
			cur, had := target.Attr(f.Attr)
			if had != call.HasCur || (had && !EqualTV(DumpTF(call.Cur), cur)) {
				fails = append(fails, f.Path+": hook not given the current attribute value")
			}
			got, ok := tr.Obj.Attr(f.Attr)
			if !ok || got.K != "hv" || got.Suffix != f.Suffix || got.HField == nil || !EqualGV(got.HField, v.Field(f.GoName)) {
				fails = append(fails, f.Path+": attribute is not the value returned by the hook")
			}
		}
		c.Oracle("C17", idt, len(fails) == 0, "to-hook", strings.Join(fails, "; "))

		// from: the attribute value (or nil when missing) and a pointer to the field
		obj := CloneTV(tr.Obj)
		missing := customs[r.N(len(customs))]
		if i%3 == 0 {
			obj.DelAttr(missing.Attr)
		} else {
			missing = nil
		}
		prior := c.p.b.GenGo(c.rt, r.Fork(5), MFull, 0)
		idf, fr := c.From("hooks-from", obj, prior)
		fails = nil
		if fr.Panic != "" {
			c.Oracle("C17", idf, false, "panic", "CopyFrom panicked")
			continue
		}
		for _, f := range customs {
			n := 0
			for _, call := range fr.Hooks {
				if call.Hook != "from" || call.Suffix != f.Suffix || !call.Before.IsValid() {
					continue
				}
				if !EqualGV(DumpGo(call.Before), prior.Field(f.GoName)) {
					continue
				}
				a, had := obj.Attr(f.Attr)
				if had != call.HasA || (had && !EqualTV(DumpTF(call.A), a)) {
					continue
				}
				n++
			}
			if n < 1 {
				fails = append(fails, fmt.Sprintf("%s: CopyFrom%s not called with the attribute value and a pointer to the field", f.Path, f.Suffix))
			}
			want := v.Field(f.GoName)
			if f == missing {
				want = prior.Field(f.GoName)
				found := false
				for _, d := range fr.Diags {
					if d.Kind == "ReadMissing" && lastSeg(d.Path) == lastSeg(f.Path) {
						found = true
					}
				}
				if !found {
					fails = append(fails, f.Path+": missing attribute not reported")
				}
			}
			if got := fr.Val.Field(f.GoName); got == nil || !EqualGV(got, want) {
				fails = append(fails, f.Path+": field does not hold what the hook stored")
			}
		}
		c.Oracle("C17", idf, len(fails) == 0, "from-hook", strings.Join(fails, "; "))
	}
}

// recipeHooksPromoted: custom-type fields promoted from nullable embedded messages. The hooks are still
// called — CopyTo with the field value (the zero value when the embedded message is not set), CopyFrom with the
// attribute or nil when it is missing, which is reported — and nothing panics, whatever the other promoted
// attributes hold.
func recipeHooksPromoted(c *ctx) {
	var customs []*spec.EField
	for _, f := range c.info.Fields {
		if f.Shape == "custom" && len(f.Via) > 0 && f.Oneof == "" {
			customs = append(customs, f)
		}
	}
	if len(customs) == 0 {
		return
	}
	sort.Slice(customs, func(i, j int) bool { return customs[i].GoName < customs[j].GoName })
	for i := 0; i < c.n; i++ {
		r := c.rnd.Fork(uint64(1000 + i))
		mode := MRand
		if i%3 == 2 {
			mode = MZero // the embedded messages are nil
		}
		v := c.p.b.GenGo(c.rt, r, mode, 0)
		idt, tr := c.To("hooks-to", v, EmptyOf(c.objTy))
		if tr.Panic != "" {
			c.Oracle("C17", idt, false, "panic", "CopyTo panicked with a custom-type field promoted from an embedded message")
			continue
		}
		var fails []string
		for _, f := range customs {
			n := 0
			for _, call := range tr.Hooks {
				if call.Hook == "to" && call.Suffix == f.Suffix {
					n++
				}
			}
			if n < 1 {
				fails = append(fails, fmt.Sprintf("%s: CopyTo%s not called", f.Path, f.Suffix))
			}
		}
		c.Oracle("C17", idt, len(fails) == 0, "to-hook-promoted", strings.Join(fails, "; "))

		// from: every custom attribute deleted in turn, the other attributes null (so that nothing else allocates
		// the embedded message) or as written
		obj := CloneTV(tr.Obj)
		missing := customs[i%len(customs)]
		if i%2 == 0 {
			for _, f := range c.info.Fields {
				if len(f.Via) > 0 && f.Shape != "custom" {
					if a, ok := obj.Attr(f.Attr); ok {
						obj.SetAttr(f.Attr, NullOf(a))
					}
				}
			}
		}
		obj.DelAttr(missing.Attr)
		prior := c.p.b.GenGo(c.rt, r.Fork(5), MFull, 0)
		idf, fr := c.From("hooks-from", obj, prior)
		if fr.Panic != "" {
			c.Oracle("C17", idf, false, "panic", "CopyFrom panicked with the attribute of a promoted custom-type field missing: "+fr.Panic)
			continue
		}
		fails = nil
		for _, f := range customs {
			n := 0
			for _, call := range fr.Hooks {
				if call.Hook == "from" && call.Suffix == f.Suffix && call.HasA == (f != missing) {
					n++
				}
			}
			if n < 1 {
				fails = append(fails, fmt.Sprintf("%s: CopyFrom%s not called with the attribute (nil when missing)", f.Path, f.Suffix))
			}
		}
		found := false
		for _, d := range fr.Diags {
			if d.Kind == "ReadMissing" && lastSeg(d.Path) == lastSeg(missing.Path) {
				found = true
			}
		}
		if !found {
			fails = append(fails, missing.Path+": missing attribute not reported")
		}
		c.Oracle("C17", idf, len(fails) == 0, "from-hook-promoted", strings.Join(fails, "; "))
	}
}

// NullOf returns the value with the null flag set (payload kept: a payload under null is never read).
func NullOf(a *TV) *TV {
	n := CloneTV(a)
	n.Null, n.Unknown = true, false
	return n
}
