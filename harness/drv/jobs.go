package drv

import (
	"bufio"
	"fmt"
	"io/ioutil"
	"os"

	"verifharness/spec"
)

// Out writes the observables of one driver run.
type Out struct {
	w  *bufio.Writer
	tt *TypeTable
	n  int
}

func (o *Out) flushDefs() {
	for _, d := range o.tt.Defs {
		fmt.Fprintln(o.w, d.String())
	}
	o.tt.Defs = nil
}

// Emit writes one record (type definitions it needs first).
func (o *Out) Emit(s *spec.Sx) {
	line := s.String()
	o.flushDefs()
	fmt.Fprintln(o.w, line)
	o.n++
}

// RunJobs executes the jobs file.
func RunJobs(path string, w *bufio.Writer) int {
	b, err := ioutil.ReadFile(path)
	if err != nil {
		fmt.Fprintln(os.Stderr, err)
		return 2
	}
	jobs, err := spec.ParseAll(string(b))
	if err != nil {
		fmt.Fprintln(os.Stderr, "jobs:", err)
		return 2
	}
	o := &Out{w: w, tt: NewTypeTable()}
	for _, j := range jobs {
		runJob(o, j)
	}
	return 0
}
