package drv

import (
	"bufio"
	"fmt"
	"os"
	"sort"
)

// Main is the entry point of the linked driver binary.
//
//	driver list                      -> registered programs and roots
//	driver run <jobs.sexp> <out>     -> executes jobs (see jobs.go)
func Main() {
	if len(os.Args) < 2 {
		fmt.Fprintln(os.Stderr, "usage: driver list | run <jobs> <out>")
		os.Exit(2)
	}
	switch os.Args[1] {
	case "list":
		var ids []string
		for id := range programs {
			ids = append(ids, id)
		}
		sort.Strings(ids)
		for _, id := range ids {
			for _, r := range programs[id].Roots {
				fmt.Printf("%s %s\n", id, r.Name)
			}
		}
	case "run":
		if len(os.Args) < 4 {
			fmt.Fprintln(os.Stderr, "usage: driver run <jobs> <out>")
			os.Exit(2)
		}
		f, err := os.Create(os.Args[3])
		if err != nil {
			fmt.Fprintln(os.Stderr, err)
			os.Exit(2)
		}
		w := bufio.NewWriterSize(f, 1<<20)
		code := RunJobs(os.Args[2], w)
		w.Flush()
		f.Close()
		os.Exit(code)
	default:
		fmt.Fprintln(os.Stderr, "unknown command", os.Args[1])
		os.Exit(2)
	}
}
