// Package support supplies what a user of the generator supplies: the time and duration
// attr.Type/attr.Value pairs (time_duration.go is the repository's test/time_duration.go with
// the package clause changed), tagged validators and plan modifiers, and instrumented
// custom-type hooks whose return value records the arguments they were called with.
package support

import (
	"context"
	"fmt"
	"reflect"
	"sync"

	"github.com/hashicorp/terraform-plugin-framework/attr"
	"github.com/hashicorp/terraform-plugin-framework/diag"
	"github.com/hashicorp/terraform-plugin-framework/tfsdk"
	"github.com/hashicorp/terraform-plugin-go/tftypes"
)

// TagValidator is a validator that only carries a tag.
type TagValidator struct{ Tag string }

// V returns a tagged validator.
func V(tag string) tfsdk.AttributeValidator { return TagValidator{tag} }

func (v TagValidator) Description(context.Context) string         { return "tag " + v.Tag }
func (v TagValidator) MarkdownDescription(context.Context) string { return "tag " + v.Tag }
func (v TagValidator) Validate(context.Context, tfsdk.ValidateAttributeRequest, *tfsdk.ValidateAttributeResponse) {
}

// Expr is the configuration expression that produces the validator.
func (v TagValidator) Expr() string { return fmt.Sprintf("verifharness/support.V(%q)", v.Tag) }

// TagPlanModifier is a plan modifier that only carries a tag.
type TagPlanModifier struct{ Tag string }

// PM returns a tagged plan modifier.
func PM(tag string) tfsdk.AttributePlanModifier { return TagPlanModifier{tag} }

func (v TagPlanModifier) Description(context.Context) string         { return "tag " + v.Tag }
func (v TagPlanModifier) MarkdownDescription(context.Context) string { return "tag " + v.Tag }
func (v TagPlanModifier) Modify(context.Context, tfsdk.ModifyAttributePlanRequest, *tfsdk.ModifyAttributePlanResponse) {
}

// Expr is the configuration expression that produces the plan modifier.
func (v TagPlanModifier) Expr() string { return fmt.Sprintf("verifharness/support.PM(%q)", v.Tag) }

// ---------------------------------------------------------------------------------------
// custom-type hooks

// HookType is the attr.Type returned by the schema hook.
type HookType struct {
	attr.Type
	Suffix string
}

func (t HookType) TerraformType(context.Context) tftypes.Type { return tftypes.String }
func (t HookType) ValueFromTerraform(_ context.Context, in tftypes.Value) (attr.Value, error) {
	return HookValue{Suffix: t.Suffix, FromTF: true, Null: in.IsNull(), Unknown: !in.IsKnown()}, nil
}
func (t HookType) Equal(o attr.Type) bool {
	ot, ok := o.(HookType)
	return ok && ot.Suffix == t.Suffix
}
func (t HookType) String() string { return "HookType(" + t.Suffix + ")" }
func (t HookType) ApplyTerraform5AttributePathStep(step tftypes.AttributePathStep) (interface{}, error) {
	return nil, fmt.Errorf("cannot apply AttributePathStep %T to %s", step, t.String())
}

// HookValue is the attr.Value returned by the CopyTo hook: it records the arguments of the call.
type HookValue struct {
	Suffix  string
	Field   interface{} // abstract dump (see Dump) of the field value the hook was given
	AType   attr.Type   // attribute type the hook was given
	Cur     attr.Value  // current attribute value the hook was given (nil interface when absent)
	HasCur  bool
	FromTF  bool
	Null    bool
	Unknown bool
}

func (v HookValue) Type(context.Context) attr.Type { return HookType{Suffix: v.Suffix} }
func (v HookValue) ToTerraformValue(context.Context) (tftypes.Value, error) {
	if v.Null {
		return tftypes.NewValue(tftypes.String, nil), nil
	}
	if v.Unknown {
		return tftypes.NewValue(tftypes.String, tftypes.UnknownValue), nil
	}
	return tftypes.NewValue(tftypes.String, "hook:"+v.Suffix), nil
}
func (v HookValue) Equal(o attr.Value) bool {
	ov, ok := o.(HookValue)
	return ok && ov.Suffix == v.Suffix
}
func (v HookValue) IsNull() bool    { return v.Null }
func (v HookValue) IsUnknown() bool { return v.Unknown }
func (v HookValue) String() string  { return "hook:" + v.Suffix }

// HookCall is one logged hook invocation.
type HookCall struct {
	Hook   string // schema | from | to
	Suffix string
	// schema: the attribute passed in
	Attr tfsdk.Attribute
	// from: attribute value passed (nil interface when absent) and pointer to the field
	A      attr.Value
	HasA   bool
	Ptr    reflect.Value
	Before reflect.Value // copy of *ptr at call time
	// to: field value, attribute type and current attribute value
	Field  reflect.Value
	Type   attr.Type
	Cur    attr.Value
	HasCur bool
}

var (
	mu  sync.Mutex
	log []HookCall
)

// Dump and Restore are installed by the driver: Dump turns a field value into an abstract value,
// Restore stores an abstract value into a settable field and reports whether the shapes matched.
var (
	Dump    func(reflect.Value) interface{}
	Restore func(interface{}, reflect.Value) bool
)

// ResetLog clears the hook log.
func ResetLog() { mu.Lock(); log = nil; mu.Unlock() }

// Log returns the hook log.
func Log() []HookCall { mu.Lock(); defer mu.Unlock(); return append([]HookCall(nil), log...) }

func add(c HookCall) { mu.Lock(); log = append(log, c); mu.Unlock() }

func copyValue(v reflect.Value) reflect.Value {
	c := reflect.New(v.Type()).Elem()
	c.Set(v)
	return c
}

// HookSchema is the body of every GenSchema<S> hook: it returns the attribute it was given
// with the type replaced by HookType{S} and the description prefixed.
func HookSchema(suffix string, _ context.Context, a tfsdk.Attribute) tfsdk.Attribute {
	add(HookCall{Hook: "schema", Suffix: suffix, Attr: a})
	out := a
	out.Type = HookType{Suffix: suffix}
	out.Attributes = nil
	out.Description = "hook:" + suffix + ":" + a.Description
	return out
}

// HookFrom is the body of every CopyFrom<S> hook. When the attribute is a HookValue that
// records a field value of the right Go type the field is restored from it; otherwise the field
// is left as it is.
func HookFrom(suffix string, _ diag.Diagnostics, a attr.Value, ptr interface{}) {
	p := reflect.ValueOf(ptr)
	c := HookCall{Hook: "from", Suffix: suffix, A: a, HasA: a != nil, Ptr: p}
	if p.Kind() == reflect.Ptr && !p.IsNil() {
		c.Before = copyValue(p.Elem())
	}
	add(c)
	if hv, ok := a.(HookValue); ok && hv.Field != nil && p.Kind() == reflect.Ptr && !p.IsNil() {
		Restore(hv.Field, p.Elem())
	}
}

// HookTo is the body of every CopyTo<S> hook: the returned value records the arguments.
func HookTo(suffix string, _ diag.Diagnostics, field interface{}, t attr.Type, cur attr.Value) attr.Value {
	fv := copyValue(reflect.ValueOf(&field).Elem().Elem())
	add(HookCall{Hook: "to", Suffix: suffix, Field: fv, Type: t, Cur: cur, HasCur: cur != nil})
	return HookValue{Suffix: suffix, Field: Dump(fv), AType: t, Cur: cur, HasCur: cur != nil}
}
