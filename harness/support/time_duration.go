package support

import (
	"context"
	fmt "fmt"
	time "time"

	"github.com/hashicorp/terraform-plugin-framework/attr"
	tftypes "github.com/hashicorp/terraform-plugin-go/tftypes"
)

const (
	timeThreshold = time.Nanosecond
)

// TimeType represents time.Time Terraform type which is stored in RFC3339 format, nanoseconds truncated
type TimeType struct {
	attr.Type
	Format string
}

// UseRFC3339Time creates TimeType for rfc3339
func UseRFC3339Time() TimeType {
	return TimeType{Format: time.RFC3339}
}

// ApplyTerraform5AttributePathStep is not implemented for TimeType
func (t TimeType) ApplyTerraform5AttributePathStep(step tftypes.AttributePathStep) (interface{}, error) {
	return nil, fmt.Errorf("cannot apply AttributePathStep %T to %s", step, t.String())
}

// String returns string representation of TimeType
func (t TimeType) String() string {
	return "TimeType"
}

// Equal returns type equality
func (t TimeType) Equal(o attr.Type) bool {
	other, ok := o.(TimeType)
	if !ok {
		return false
	}
	return t == other
}

// TerraformType returns type which is used in Terraform status (time is stored as string)
func (t TimeType) TerraformType(_ context.Context) tftypes.Type {
	return tftypes.String
}

// ValueFromTerraform decodes terraform value and returns it as TimeType
func (t TimeType) ValueFromTerraform(ctx context.Context, in tftypes.Value) (attr.Value, error) {
	if !in.IsKnown() {
		return TimeValue{Unknown: true, Format: t.Format}, nil
	}
	if in.IsNull() {
		return TimeValue{Null: true, Format: t.Format}, nil
	}
	var raw string
	err := in.As(&raw)
	if err != nil {
		return nil, err
	}

	// Error is deliberately silenced here. If a value is corrupted, this would be caught in Validate() method which
	// for some reason is called after ValueFromTerraform().
	current, err := time.Parse(t.Format, raw)
	if err != nil {
		return nil, err
	}

	return TimeValue{Value: current, Format: t.Format}, nil
}

// TimeValue represents Terraform value of type TimeType
type TimeValue struct {
	// Unknown will be true if the value is not yet known.
	Unknown bool
	// Null will be true if the value was not set, or was explicitly set to
	// null.
	Null bool
	// Value contains the set value, as long as Unknown and Null are both
	// false.
	Value time.Time
	// Format time format
	Format string
}

// Type returns value type
func (t TimeValue) Type(_ context.Context) attr.Type {
	return TimeType{Format: t.Format}
}

// ToTerraformValue returns the data contained in the *String as a string. If
// Unknown is true, it returns a tftypes.UnknownValue. If Null is true, it
// returns nil.
func (t TimeValue) ToTerraformValue(_ context.Context) (tftypes.Value, error) {
	if t.Null {
		return tftypes.NewValue(tftypes.String, nil), nil
	}
	if t.Unknown {
		return tftypes.NewValue(tftypes.String, tftypes.UnknownValue), nil
	}

	return tftypes.NewValue(tftypes.String, t.Value.Truncate(timeThreshold).Format(t.Format)), nil
}

// Equal returns true if `other` is a *String and has the same value as `s`.
func (t TimeValue) Equal(other attr.Value) bool {
	o, ok := other.(TimeValue)
	if !ok {
		return false
	}
	if t.Unknown != o.Unknown {
		return false
	}
	if t.Null != o.Null {
		return false
	}
	return t.Value == o.Value
}

// IsNull returns true if receiver is null
func (t TimeValue) IsNull() bool {
	return t.Null
}

// IsUnknown returns true if receiver is unknown
func (t TimeValue) IsUnknown() bool {
	return t.Unknown
}

// String returns the string representation of the receiver
func (t TimeValue) String() string {
	if t.Unknown {
		return attr.UnknownValueString
	}

	if t.Null {
		return attr.NullValueString
	}

	return t.Value.String()
}

// DurationType represents time.Time Terraform type which is stored in RFC3339 format, nanoseconds truncated
type DurationType struct {
	attr.Type
}

// ApplyTerraform5AttributePathStep is not implemented for TimeType
func (t DurationType) ApplyTerraform5AttributePathStep(step tftypes.AttributePathStep) (interface{}, error) {
	return tftypes.Value{}, fmt.Errorf("cannot apply AttributePathStep %T to %s", step, t.String())
}

// String returns string representation of TimeType
func (t DurationType) String() string {
	return "DurationType"
}

// Equal returns type equality
func (t DurationType) Equal(o attr.Type) bool {
	other, ok := o.(DurationType)
	if !ok {
		return false
	}
	return t == other
}

// TerraformType returns type which is used in Terraform status (time is stored as string)
func (t DurationType) TerraformType(_ context.Context) tftypes.Type {
	return tftypes.String
}

// ValueFromTerraform decodes terraform value and returns it as TimeType
func (t DurationType) ValueFromTerraform(ctx context.Context, in tftypes.Value) (attr.Value, error) {
	if !in.IsKnown() {
		return DurationValue{Unknown: true}, nil
	}
	if in.IsNull() {
		return DurationValue{Null: true}, nil
	}
	var raw string
	err := in.As(&raw)
	if err != nil {
		return nil, err
	}

	// Error is deliberately silenced here. If a value is corrupted, this would be caught in Validate() method which
	// for some reason is called after ValueFromTerraform().
	current, err := time.ParseDuration(raw)
	if err != nil {
		return nil, err
	}

	return DurationValue{Value: current}, nil
}

// DurationValue represents Terraform value of type TimeType
type DurationValue struct {
	// Unknown will be true if the value is not yet known.
	Unknown bool
	// Null will be true if the value was not set, or was explicitly set to
	// null.
	Null bool
	// Value contains the set value, as long as Unknown and Null are both
	// false.
	Value time.Duration
}

// Type returns value type
func (t DurationValue) Type(_ context.Context) attr.Type {
	return TimeType{}
}

// ToTerraformValue returns the data contained in the *String as a string. If
// Unknown is true, it returns a tftypes.UnknownValue. If Null is true, it
// returns nil.
func (t DurationValue) ToTerraformValue(_ context.Context) (tftypes.Value, error) {
	if t.Null {
		return tftypes.NewValue(tftypes.String, nil), nil
	}
	if t.Unknown {
		return tftypes.NewValue(tftypes.String, tftypes.UnknownValue), nil
	}
	return tftypes.NewValue(tftypes.String, t.Value.String()), nil
}

// Equal returns true if `other` is a *String and has the same value as `s`.
func (t DurationValue) Equal(other attr.Value) bool {
	o, ok := other.(DurationValue)
	if !ok {
		return false
	}
	if t.Unknown != o.Unknown {
		return false
	}
	if t.Null != o.Null {
		return false
	}
	return t.Value == o.Value
}

// IsNull returns true if receiver is null
func (t DurationValue) IsNull() bool {
	return t.Null
}

// IsUnknown returns true if receiver is unknown
func (t DurationValue) IsUnknown() bool {
	return t.Unknown
}

// String returns the string representation of the receiver
func (t DurationValue) String() string {
	if t.Unknown {
		return attr.UnknownValueString
	}

	if t.Null {
		return attr.NullValueString
	}

	return t.Value.String()
}
