package pipeline

import (
	"bytes"
	"encoding/json"
	"fmt"
	"io/ioutil"
	"os"
	"path/filepath"
	"sort"
	"strings"

	strcase "github.com/stoewer/go-strcase"

	"verifharness/spec"
)

// Text probes: the pure text functions of the plugin (Comment.ToSingleLine, replacePackageName,
// GetJSONName, Imports.WithType / WithPackage / PrependPackageNameIfMissing) are run through the
// hook /repo/verif_probe.go (build tag verif) and the naming library on generated ASCII inputs; the
// records are replayed by the extracted model (Model/Names, Model/Build.json_name, Model/GoTypes).
// Every choice derives from the run seed.

type tprng struct{ s uint64 }

func (r *tprng) u64() uint64 {
	r.s += 0x9E3779B97F4A7C15
	z := r.s
	z = (z ^ (z >> 30)) * 0xBF58476D1CE4E5B9
	z = (z ^ (z >> 27)) * 0x94D049BB133111EB
	return z ^ (z >> 31)
}
func (r *tprng) n(n int) int {
	if n <= 0 {
		return 0
	}
	return int(r.u64() % uint64(n))
}
func (r *tprng) pick(l []string) string { return l[r.n(len(l))] }
func (r *tprng) str(alphabet string, max int) string {
	n := r.n(max + 1)
	b := make([]byte, n)
	for i := range b {
		b[i] = alphabet[r.n(len(alphabet))]
	}
	return string(b)
}
func (r *tprng) pieces(ps []string, max int) string {
	var b strings.Builder
	for i, n := 0, r.n(max+1); i < n; i++ {
		b.WriteString(r.pick(ps))
	}
	return b.String()
}

type textReq struct {
	F   string            `json:"f"`
	A   []string          `json:"a,omitempty"`
	Ov  map[string]string `json:"ov,omitempty"`
	Ops [][]string        `json:"ops,omitempty"`
}

var (
	tpMods  = []string{"", "", "*", "[]", "[]*", "map[string]", "map[string]*", "[][]", "[4]", "map[string][]*", "**"}
	tpPaths = []string{"", "types", "context", "github.com/x/api/types", "github.com/gravitational/teleport/api/types", "a.b/c-d", "9p", "go", "type", "package",
		"x_y", "github_com_x_api_types", "types_", "a(b", "time", "structs", "verifcorpus/p/pk", "_", "x.y", "wrappers", "UPPER/Case"}
	tpNames = []string{"Server", "byte", "string", "int64", "bool", "float32", "uintptr", "rune", "Foo", "Duration", "T(x.y)", "BoolCustom", "Time", "Labels", "int", "error", "Int64", "complex128", "Metadata_v2", "bytes", "Byte"}
)

func (r *tprng) typeString() string {
	switch r.n(10) {
	case 0:
		return r.str("[]*().ab/_ T", 10) // arbitrary
	case 1, 2, 3:
		return r.pick(tpMods) + r.pick(tpNames) // unqualified
	case 4:
		return r.pick(tpMods) + r.pick(tpNames) + "(" + r.pick(tpPaths) + "." + r.pick(tpNames) + ")"
	}
	p := r.pick(tpPaths)
	if p == "" {
		return r.pick(tpMods) + r.pick(tpNames)
	}
	return r.pick(tpMods) + p + "." + r.pick(tpNames)
}

// TextCases generates the requests.
func TextCases(tier string, seed int64) []textReq {
	r := &tprng{s: uint64(seed)*0x51ED27 + 0x7E47}
	n := 400
	if tier == "thorough" {
		n = 6000
	}
	var out []textReq
	commentPieces := []string{" ", "  ", "\t", "\n", "\n", "\r\n", "\r", "\v", "\f", "a", "word", "two words", "\"", "\\", "*", "//", "x"}
	for i := 0; i < n; i++ {
		out = append(out, textReq{F: "comment", A: []string{r.pieces(commentPieces, 12)}})
	}
	namePieces := []string{"a", "b", "id", "ID", "HTTP", "Server", "URL", "x", "X", "foo", "Bar", "_", "__", "-", ".", " ", "\t", "1", "22", "v", "V2", "s"}
	for i := 0; i < n; i++ {
		s := r.pieces(namePieces, 7)
		if r.n(4) == 0 {
			s = r.str("abXY_-. 019", 12)
		}
		out = append(out, textReq{F: "snake", A: []string{s}}, textReq{F: "camel", A: []string{s}})
	}
	tagPieces := []string{"a", "name", "x_y", "-", ",", ",", "omitempty", " ", "", "string", "A"}
	out = append(out, textReq{F: "jsonname"})
	for i := 0; i < n/2; i++ {
		out = append(out, textReq{F: "jsonname", A: []string{r.pieces(tagPieces, 5)}})
	}
	pkgPieces := []string{"package ", "package", "package main", " ", "\n", "\n", "x", "main", "// ", "\"", "pack", "age ", "\r", "tf", "import (\n", "Description: \"the package of it\",\n", "\t"}
	for i := 0; i < n; i++ {
		out = append(out, textReq{F: "pkgclause", A: []string{r.pieces(pkgPieces, 12), r.pick([]string{"tf", "tfgen", "pk", "main", "x"})}})
	}
	for i := 0; i < n; i++ {
		q := textReq{F: "imports", Ov: map[string]string{}}
		for j, m := 0, r.n(3); j < m; j++ {
			q.Ov[r.pick(tpPaths)] = r.pick(tpPaths)
		}
		for j, m := 0, 1+r.n(6); j < m; j++ {
			switch r.n(3) {
			case 0:
				q.Ops = append(q.Ops, []string{"T", r.typeString()})
			case 1:
				q.Ops = append(q.Ops, []string{"P", r.pick(tpPaths), r.pick(tpNames)})
			default:
				q.Ops = append(q.Ops, []string{"N", r.typeString(), r.pick(tpPaths)})
			}
		}
		out = append(out, q)
	}
	return out
}

func sxStrs(l []string) *spec.Sx {
	x := spec.L()
	for _, s := range l {
		x.Add(spec.Q(s))
	}
	return x
}

// TextProbe builds the hooked plugin, runs the requests and writes <run>/text.sexp. A failure to build or
// run the hook is recorded as a (texterror ...) record: the correspondence of the text layer then no
// longer checks, which the properties relying on it report.
func TextProbe(e *Env, tier string, seed int64) (int, error) {
	path := filepath.Join(e.Run, "text.sexp")
	fail := func(f string, a ...interface{}) (int, error) {
		msg := fmt.Sprintf(f, a...)
		ioutil.WriteFile(path, []byte(spec.L(spec.A("texterror"), spec.Q(msg)).String()+"\n"), 0o644)
		return 0, fmt.Errorf("%s", msg)
	}
	bin := filepath.Join(e.Run, "bin", "pgt-verif")
	_, se, ex, err := run(e.Repo, GoEnv, nil, "go", "build", "-tags", "verif", "-o", bin, ".")
	if err != nil || ex != 0 {
		return fail("building the plugin with the verif hook failed: %v %s", err, firstLines(string(se), 6))
	}
	reqs := TextCases(tier, seed)
	var in bytes.Buffer
	for _, q := range reqs {
		if q.F == "snake" || q.F == "camel" {
			continue
		}
		b, _ := json.Marshal(q)
		in.Write(b)
		in.WriteByte('\n')
	}
	so, se, ex, err := run(e.Run, append(append([]string{}, os.Environ()...), "PGT_VERIF_PROBE=text"), in.Bytes(), bin)
	if err != nil || ex != 0 {
		return fail("running the verif hook failed: exit %d %v %s", ex, err, firstLines(string(se), 6))
	}
	lines := strings.Split(strings.TrimRight(string(so), "\n"), "\n")
	var b strings.Builder
	li := 0
	counts := map[string]int{}
	for i, q := range reqs {
		var res []*string
		switch q.F {
		case "snake":
			s := strcase.SnakeCase(q.A[0])
			res = []*string{&s}
		case "camel":
			s := strcase.UpperCamelCase(q.A[0])
			res = []*string{&s}
		default:
			if li >= len(lines) {
				return fail("the verif hook answered %d of the requests", li)
			}
			var a struct {
				R     []*string `json:"r"`
				Error string    `json:"error"`
			}
			if err := json.Unmarshal([]byte(lines[li]), &a); err != nil || a.Error != "" {
				return fail("the verif hook answered %q to %v", lines[li], q)
			}
			li++
			res = a.R
		}
		args := spec.L()
		if q.F == "imports" {
			ov := spec.L()
			keys := []string{}
			for k := range q.Ov {
				keys = append(keys, k)
			}
			sort.Strings(keys)
			for _, k := range keys {
				ov.Add(spec.L(spec.Q(k), spec.Q(q.Ov[k])))
			}
			ops := spec.L()
			for _, op := range q.Ops {
				o := spec.L(spec.A(op[0]))
				for _, s := range op[1:] {
					o.Add(spec.Q(s))
				}
				ops.Add(o)
			}
			args.Add(ov, ops)
		} else {
			args = sxStrs(q.A)
		}
		rs := spec.L()
		for _, s := range res {
			if s == nil {
				rs.Add(spec.A("nil"))
			} else {
				rs.Add(spec.Q(*s))
			}
		}
		counts[q.F]++
		id := fmt.Sprintf("text/%s/text-%s/%d", q.F, q.F, i)
		b.WriteString(spec.L(spec.A("strfn"), spec.Q(id), spec.A(q.F), args, rs).String())
		b.WriteByte('\n')
	}
	var ks []string
	for k := range counts {
		ks = append(ks, k)
	}
	sort.Strings(ks)
	for _, k := range ks {
		b.WriteString(spec.L(spec.A("textcount"), spec.A(k), spec.I(int64(counts[k]))).String() + "\n")
	}
	return len(reqs), ioutil.WriteFile(path, []byte(b.String()), 0o644)
}

func firstLines(s string, n int) string {
	l := strings.Split(strings.TrimSpace(s), "\n")
	if len(l) > n {
		l = l[:n]
	}
	return strings.Join(l, " | ")
}
