// Package pipeline runs the real generator (built from /repo's working tree) and
// protoc-gen-gogo on the corpus programs, lays the outputs out as a Go module, compiles them
// and links the reflective driver.
package pipeline

import (
	"bytes"
	"crypto/sha256"
	"encoding/hex"
	"fmt"
	"go/ast"
	"go/parser"
	"go/printer"
	"go/token"
	"io/ioutil"
	"os"
	"os/exec"
	"path/filepath"
	"reflect"
	"regexp"
	"sort"
	"strings"
	"sync"
	"time"

	"github.com/gogo/protobuf/protoc-gen-gogo/generator"
	"google.golang.org/protobuf/encoding/protowire"
	"google.golang.org/protobuf/proto"
	"google.golang.org/protobuf/types/pluginpb"

	"verifharness/mkreq"
	"verifharness/spec"
)

// GenResult is what one run of the plugin produced.
type GenResult struct {
	Prog       *spec.Program
	Exit       int
	Stderr     string
	StdoutLen  int
	ParseErr   string // stdout is not exactly one CodeGeneratorResponse
	RespError  string
	Features   uint64
	NFiles     int
	FileName   string
	Content    string
	SHA        string
	ExtraBytes bool // unknown fields / trailing garbage in stdout
	// derived by Analyse
	Package string
	License bool
	Funcs   map[string]string // top-level func name -> signature text
	FuncSrc map[string]string // top-level func name -> source text
	Types   []string          // top-level type names
	Imports map[string]string // import path -> name
	AstErr  string
	DepPb   map[string]string // Go package of a dependency file -> protoc-gen-gogo's output for it
	// gogo
	PbName       string
	PbContent    string
	GogoErr      string
	CompileErr   string
	RootsOrdered []string // roots in the order of their GenSchema functions
	Dir          string   // package dir (relative to module) of the struct package
	TfDir        string   // package dir of the terraform package
	Roots        []string
}

// Env holds paths of one prepared run.
type Env struct {
	Run     string // run directory
	Src     string // module root of the corpus
	Pgt     string
	Gogo    string
	Repo    string
	Harness string
	License string
}

func run(dir string, env []string, stdin []byte, name string, args ...string) (stdout, stderr []byte, exit int, err error) {
	cmd := exec.Command(name, args...)
	cmd.Dir = dir
	cmd.Env = append(os.Environ(), env...)
	if stdin != nil {
		cmd.Stdin = bytes.NewReader(stdin)
	}
	var so, se bytes.Buffer
	cmd.Stdout = &so
	cmd.Stderr = &se
	err = cmd.Run()
	exit = 0
	if err != nil {
		if ee, ok := err.(*exec.ExitError); ok {
			exit = ee.ExitCode()
			err = nil
		} else {
			exit = -1
		}
	}
	return so.Bytes(), se.Bytes(), exit, err
}

var goEnvCache sync.Map

// goEnvValue is `go env <name>` of the harness process (kept for the pristine runs, which must still find the
// toolchain's caches: only what the plugin itself may have written is hidden from them).
func goEnvValue(name string) string {
	if v, ok := goEnvCache.Load(name); ok {
		return v.(string)
	}
	out, _, _, _ := run("", GoEnv, nil, "go", "env", name)
	v := strings.TrimSpace(string(out))
	goEnvCache.Store(name, v)
	return v
}

// GoEnv is the offline Go environment.
var GoEnv = []string{"GOFLAGS=-mod=mod", "GOPROXY=off", "GOSUMDB=off", "GOTOOLCHAIN=local"}

// BuildTools builds the plugin from the repository working tree and protoc-gen-gogo from the module cache.
func BuildTools(e *Env) error {
	if err := os.MkdirAll(filepath.Join(e.Run, "bin"), 0o755); err != nil {
		return err
	}
	e.Pgt = filepath.Join(e.Run, "bin", "pgt")
	e.Gogo = filepath.Join(e.Run, "bin", "protoc-gen-gogo")
	_, se, ex, err := run(e.Repo, GoEnv, nil, "go", "build", "-o", e.Pgt, ".")
	if err != nil || ex != 0 {
		return fmt.Errorf("building the plugin from %s failed: %v\n%s", e.Repo, err, se)
	}
	_, se, ex, err = run(e.Harness, GoEnv, nil, "go", "build", "-o", e.Gogo, "github.com/gogo/protobuf/protoc-gen-gogo")
	if err != nil || ex != 0 {
		return fmt.Errorf("building protoc-gen-gogo failed: %v\n%s", err, se)
	}
	lic, err := ioutil.ReadFile(filepath.Join(e.Repo, "license.txt"))
	if err == nil {
		e.License = string(lic)
	}
	return nil
}

// ParamFor returns the full parameter string of a program given the YAML path.
func ParamFor(p *spec.Program, yamlPath string) string {
	params, _ := p.Channels()
	s := spec.ParamString(params)
	if !p.Delivery.NoYAML {
		if s != "" {
			s += ","
		}
		s += "config=" + yamlPath
	}
	return s
}

// WriteYAML writes the configuration file of a program (unless faulted) and returns its path.
func WriteYAML(e *Env, p *spec.Program) string {
	dir := filepath.Join(e.Run, "cfg")
	os.MkdirAll(dir, 0o755)
	path := filepath.Join(dir, p.ID+".yaml")
	_, doc := p.Channels()
	switch p.Delivery.YAMLFault {
	case "missing":
		os.Remove(path)
	case "malformed":
		ioutil.WriteFile(path, []byte("types: [unclosed\n  - : :\n\t bad"), 0o644)
	case "mistyped":
		// well-formed YAML that does not decode into the configuration (a scalar where a list is expected)
		ioutil.WriteFile(path, []byte("sort: true\nexclude_fields: not-a-list\nname_overrides: [a, b]\n"), 0o644)
	case "directory":
		os.Remove(path)
		os.MkdirAll(path, 0o755)
	default:
		ioutil.WriteFile(path, []byte(doc.YAMLText(p.Delivery.Perm)), 0o644)
	}
	return path
}

// RunPlugin runs the real plugin once on a program.
func RunPlugin(e *Env, p *spec.Program) *GenResult { return RunPluginEnv(e, p, nil) }

// RunPluginEnv is RunPlugin with extra environment variables for the plugin process.
func RunPluginEnv(e *Env, p *spec.Program, env []string) *GenResult {
	r := &GenResult{Prog: p}
	yamlPath := WriteYAML(e, p)
	req := mkreq.Build(&p.Spec, ParamFor(p, yamlPath))
	so, se, ex, err := run(e.Run, env, req, e.Pgt)
	r.Exit = ex
	if err != nil {
		r.Exit = -1
		r.Stderr = err.Error()
	}
	r.Stderr += string(se)
	r.StdoutLen = len(so)
	if len(so) == 0 {
		return r
	}
	resp := &pluginpb.CodeGeneratorResponse{}
	if err := (proto.UnmarshalOptions{DiscardUnknown: false}).Unmarshal(so, resp); err != nil {
		r.ParseErr = err.Error()
		return r
	}
	if len(resp.ProtoReflect().GetUnknown()) > 0 {
		r.ExtraBytes = true
	}
	// the response must re-encode to exactly the bytes read (nothing else on stdout)
	if !wireWellFormed(so) {
		r.ExtraBytes = true
	}
	r.RespError = resp.GetError()
	r.Features = resp.GetSupportedFeatures()
	r.NFiles = len(resp.File)
	if len(resp.File) > 0 {
		r.FileName = resp.File[0].GetName()
		r.Content = resp.File[0].GetContent()
		h := sha256.Sum256([]byte(r.Content))
		r.SHA = hex.EncodeToString(h[:])
	}
	return r
}

func wireWellFormed(b []byte) bool {
	for len(b) > 0 {
		num, typ, n := protowire.ConsumeTag(b)
		if n < 0 {
			return false
		}
		b = b[n:]
		m := protowire.ConsumeFieldValue(num, typ, b)
		if m < 0 {
			return false
		}
		// fields of CodeGeneratorResponse: 1 error, 2 supported_features, 15 file
		if num != 1 && num != 2 && num != 15 {
			return false
		}
		b = b[m:]
	}
	return true
}

// RunGogo runs protoc-gen-gogo for a program.
func RunGogo(e *Env, r *GenResult) {
	// one invocation per dependency file (one Go package each), then the file of the program
	r.DepPb = map[string]string{}
	for _, d := range r.Prog.Spec.Deps {
		so, se, ex, err := run(e.Run, nil, mkreq.BuildFor(&r.Prog.Spec, "", d.File), e.Gogo)
		dresp := &pluginpb.CodeGeneratorResponse{}
		if err != nil || ex != 0 || proto.Unmarshal(so, dresp) != nil || dresp.GetError() != "" || len(dresp.File) == 0 {
			r.GogoErr = fmt.Sprintf("dependency %s: exit %d %v %s %s", d.File, ex, err, se, dresp.GetError())
			return
		}
		r.DepPb[d.GoPackage] = dresp.File[0].GetContent()
	}
	req := mkreq.Build(&r.Prog.Spec, "")
	so, se, ex, err := run(e.Run, nil, req, e.Gogo)
	if err != nil || ex != 0 {
		r.GogoErr = fmt.Sprintf("exit %d %v %s", ex, err, se)
		return
	}
	resp := &pluginpb.CodeGeneratorResponse{}
	if err := proto.Unmarshal(so, resp); err != nil {
		r.GogoErr = err.Error()
		return
	}
	if resp.GetError() != "" || len(resp.File) == 0 {
		r.GogoErr = "gogo: " + resp.GetError()
		return
	}
	r.PbName = resp.File[0].GetName()
	r.PbContent = resp.File[0].GetContent()
}

var sigSpace = regexp.MustCompile(`\s+`)

// Analyse parses the generated file with go/ast.
func Analyse(e *Env, r *GenResult) {
	r.Funcs = map[string]string{}
	r.FuncSrc = map[string]string{}
	r.Imports = map[string]string{}
	if r.Content == "" {
		return
	}
	r.License = e.License != "" && strings.HasPrefix(r.Content, e.License)
	fset := token.NewFileSet()
	f, err := parser.ParseFile(fset, "gen.go", r.Content, parser.ParseComments)
	if err != nil {
		r.AstErr = err.Error()
		return
	}
	r.Package = f.Name.Name
	for _, im := range f.Imports {
		path := strings.Trim(im.Path.Value, `"`)
		name := ""
		if im.Name != nil {
			name = im.Name.Name
		}
		r.Imports[path] = name
	}
	for _, d := range f.Decls {
		switch d := d.(type) {
		case *ast.FuncDecl:
			var b bytes.Buffer
			printer.Fprint(&b, fset, d.Type)
			name := d.Name.Name
			if d.Recv != nil && len(d.Recv.List) > 0 {
				var rb bytes.Buffer
				printer.Fprint(&rb, fset, d.Recv.List[0].Type)
				name = rb.String() + "." + name
			}
			r.Funcs[name] = sigSpace.ReplaceAllString(b.String(), " ")
			if d.Recv == nil && strings.HasPrefix(name, "GenSchema") {
				r.RootsOrdered = append(r.RootsOrdered, strings.TrimPrefix(name, "GenSchema"))
			}
			start := d.Pos()
			if d.Doc != nil {
				start = d.Doc.Pos()
			}
			r.FuncSrc[name] = r.Content[fset.Position(start).Offset:fset.Position(d.End()).Offset]
		case *ast.GenDecl:
			for _, s := range d.Specs {
				if ts, ok := s.(*ast.TypeSpec); ok {
					r.Types = append(r.Types, ts.Name.Name)
				}
			}
		}
	}
	for name := range r.Funcs {
		if strings.HasPrefix(name, "GenSchema") && !strings.Contains(name, ".") {
			r.Roots = append(r.Roots, strings.TrimPrefix(name, "GenSchema"))
		}
	}
	sort.Strings(r.Roots)
}

// castsGo is added to every struct package: cast types, custom types and the custom duration type.
const castsGo = `package %s

import "time"

type CastInt32 int32
type CastInt64 int64
type CastUint32 uint32
type CastUint64 uint64
type CastFloat32 float32
type CastFloat64 float64
type CastBool bool
type CastString string
type CastBytes []byte

// Duration is the configurable custom duration type.
type Duration int64

// LeaseDuration and XDuration are ordinary integer cast types whose names merely end with "Duration".
type LeaseDuration int64
type XDuration int32

func (d Duration) String() string { return time.Duration(d).String() }

type CustomStr string
type CustomBool bool
type CustomBytes []byte
type CustomInt int64
`

// Suffixes returns the hook suffixes a program needs (derived from spec and configuration the
// way the README documents: configured suffix, else the type name without dots and slashes).
func Suffixes(p *spec.Program) []string {
	set := map[string]bool{}
	addT := func(t string) {
		if t == "" {
			return
		}
		if s, ok := p.Config.Suffixes[t]; ok {
			set[s] = true
			return
		}
		set[strings.ReplaceAll(strings.ReplaceAll(t, "/", ""), ".", "")] = true
	}
	for _, m := range p.Spec.Messages {
		for _, f := range m.Fields {
			addT(f.CustomType)
		}
	}
	for _, t := range p.Config.CustomTypes {
		addT(t)
	}
	var out []string
	for s := range set {
		out = append(out, s)
	}
	sort.Strings(out)
	return out
}

// Layout writes the module files of one program. Returns false when nothing can be laid out.
func Layout(e *Env, r *GenResult) bool {
	p := r.Prog
	if r.Exit != 0 || r.Content == "" || r.PbContent == "" {
		return false
	}
	os.RemoveAll(filepath.Join(e.Src, p.ID)) // nothing stale from an earlier preparation of this directory
	r.Dir = p.ID + "/pk"
	r.TfDir = r.Dir
	sep := p.Config.TargetPackageName != "" && p.Config.DefaultPackageName != ""
	if sep {
		r.TfDir = p.ID + "/tf"
	}
	pkdir := filepath.Join(e.Src, r.Dir)
	tfdir := filepath.Join(e.Src, r.TfDir)
	os.MkdirAll(pkdir, 0o755)
	os.MkdirAll(tfdir, 0o755)
	ioutil.WriteFile(filepath.Join(pkdir, "x.pb.go"), []byte(r.PbContent), 0o644)
	ioutil.WriteFile(filepath.Join(pkdir, "casts.go"), []byte(fmt.Sprintf(castsGo, "pk")), 0o644)
	ioutil.WriteFile(filepath.Join(tfdir, "x_terraform.go"), []byte(r.Content), 0o644)
	// unrelated dependency files are imported by the struct package: give them an (empty) Go package
	for _, d := range p.Spec.Deps {
		if strings.HasPrefix(d.GoPackage, "verifcorpus/") {
			dd := filepath.Join(e.Src, strings.TrimPrefix(d.GoPackage, "verifcorpus/"))
			os.MkdirAll(dd, 0o755)
			base := d.GoPackage[strings.LastIndex(d.GoPackage, "/")+1:]
			if pb := r.DepPb[d.GoPackage]; pb != "" {
				ioutil.WriteFile(filepath.Join(dd, "dep.pb.go"), []byte(pb), 0o644)
			} else {
				ioutil.WriteFile(filepath.Join(dd, "stub.go"), []byte("package "+base+"\n"), 0o644)
			}
		}
	}
	tfpkg := r.Package
	if tfpkg == "" {
		tfpkg = "pk"
	}
	var hb strings.Builder
	fmt.Fprintf(&hb, "package %s\n\nimport (\n\t\"context\"\n\n\t\"github.com/hashicorp/terraform-plugin-framework/attr\"\n\t\"github.com/hashicorp/terraform-plugin-framework/diag\"\n\t\"github.com/hashicorp/terraform-plugin-framework/tfsdk\"\n\t\"verifharness/support\"\n)\n\n", tfpkg)
	fmt.Fprintf(&hb, "var _ = context.Background\nvar _ attr.Value\nvar _ diag.Diagnostics\nvar _ tfsdk.Attribute\nvar _ = support.ResetLog\n\n")
	for _, s := range Suffixes(p) {
		fmt.Fprintf(&hb, "func GenSchema%[1]s(ctx context.Context, a tfsdk.Attribute) tfsdk.Attribute { return support.HookSchema(%[1]q, ctx, a) }\n", s)
		fmt.Fprintf(&hb, "func CopyFrom%[1]s(diags diag.Diagnostics, a attr.Value, obj interface{}) { support.HookFrom(%[1]q, diags, a, obj) }\n", s)
		fmt.Fprintf(&hb, "func CopyTo%[1]s(diags diag.Diagnostics, obj interface{}, t attr.Type, v attr.Value) attr.Value { return support.HookTo(%[1]q, diags, obj, t, v) }\n\n", s)
	}
	ioutil.WriteFile(filepath.Join(tfdir, "hooks.go"), []byte(hb.String()), 0o644)

	// registry (only for programs the driver runs)
	if p.NoRun {
		return true
	}
	regdir := filepath.Join(e.Src, p.ID, "reg")
	os.MkdirAll(regdir, 0o755)
	var rb strings.Builder
	fmt.Fprintf(&rb, "package reg\n\nimport (\n\t\"context\"\n\n\t\"github.com/hashicorp/terraform-plugin-framework/diag\"\n\t\"github.com/hashicorp/terraform-plugin-framework/tfsdk\"\n\t\"github.com/hashicorp/terraform-plugin-framework/types\"\n\tpk \"verifcorpus/%s\"\n", r.Dir)
	if sep {
		fmt.Fprintf(&rb, "\ttf \"verifcorpus/%s\"\n", r.TfDir)
	}
	fmt.Fprintf(&rb, "\t\"verifharness/drv\"\n)\n\n")
	tfq := "pk"
	if sep {
		tfq = "tf"
	}
	fmt.Fprintf(&rb, "var _ tfsdk.Schema\nvar _ diag.Diagnostics\nvar _ types.Object\nvar _ context.Context\n\nfunc init() {\n\tdrv.Register(&drv.Program{ID: %q,\n\t\tRoots: []drv.Root{\n", p.ID)
	for _, root := range r.Roots {
		fmt.Fprintf(&rb, "\t\t\t{Name: %q, New: func() interface{} { return &pk.%s{} },\n", root, root)
		fmt.Fprintf(&rb, "\t\t\t\tSchema: %s.GenSchema%s,\n", tfq, root)
		fmt.Fprintf(&rb, "\t\t\t\tFrom: func(ctx context.Context, o types.Object, v interface{}) diag.Diagnostics { return %s.Copy%sFromTerraform(ctx, o, v.(*pk.%s)) },\n", tfq, root, root)
		fmt.Fprintf(&rb, "\t\t\t\tTo: func(ctx context.Context, v interface{}, o *types.Object) diag.Diagnostics { return %s.Copy%sToTerraform(ctx, v.(*pk.%s), o) }},\n", tfq, root, root)
	}
	fmt.Fprintf(&rb, "\t\t},\n\t\tWrappers: []interface{}{\n")
	for _, m := range p.Spec.Messages {
		for _, f := range m.Fields {
			if f.Oneof != nil {
				fmt.Fprintf(&rb, "\t\t\t&pk.%s_%s{},\n", m.Name, generator.CamelCase(f.Name))
			}
		}
	}
	fmt.Fprintf(&rb, "\t\t},\n\t})\n}\n")
	ioutil.WriteFile(filepath.Join(regdir, "reg.go"), []byte(rb.String()), 0o644)
	return true
}

// WriteModule writes go.mod/go.sum of the corpus module.
func WriteModule(e *Env) error {
	os.MkdirAll(e.Src, 0o755)
	gm, err := ioutil.ReadFile(filepath.Join(e.Harness, "go.mod"))
	if err != nil {
		return err
	}
	s := strings.Replace(string(gm), "module verifharness", "module verifcorpus", 1)
	s += "\nrequire verifharness v0.0.0\n\nreplace verifharness => " + e.Harness + "\n"
	if err := ioutil.WriteFile(filepath.Join(e.Src, "go.mod"), []byte(s), 0o644); err != nil {
		return err
	}
	gs, err := ioutil.ReadFile(filepath.Join(e.Harness, "go.sum"))
	if err != nil {
		return err
	}
	return ioutil.WriteFile(filepath.Join(e.Src, "go.sum"), gs, 0o644)
}

var errPkgRe = regexp.MustCompile(`(?m)^# verifcorpus/([0-9A-Za-z_]+)/`)

// Compile compiles all laid out programs and links the driver with those that compile.
// It fills CompileErr of programs whose packages do not compile.
func Compile(e *Env, rs []*GenResult, cover bool) (driver string, log string, err error) {
	byID := map[string]*GenResult{}
	var ids []string
	for _, r := range rs {
		if r.Dir != "" {
			byID[r.Prog.ID] = r
			ids = append(ids, r.Prog.ID)
		}
	}
	sort.Strings(ids)
	var logb strings.Builder
	for _, id := range ids {
		// a generated file that does not parse cannot be laid out reliably (its package clause is unknown)
		if r := byID[id]; r.AstErr != "" && r.CompileErr == "" {
			r.CompileErr = "generated file does not parse: " + r.AstErr
		}
	}
	for attempt := 0; attempt < 6; attempt++ {
		args := []string{"build", "-gcflags=-e"}
		var pkgs []string
		for _, id := range ids {
			if byID[id].CompileErr == "" {
				pkgs = append(pkgs, "./"+id+"/...")
			}
		}
		if len(pkgs) == 0 {
			break
		}
		_, se, ex, rerr := run(e.Src, GoEnv, nil, "go", append(args, pkgs...)...)
		if rerr != nil {
			return "", logb.String(), rerr
		}
		if ex == 0 {
			break
		}
		logb.Write(se)
		// attribute errors to programs
		out := string(se)
		locs := errPkgRe.FindAllStringSubmatchIndex(out, -1)
		if len(locs) == 0 {
			// errors reported before compilation proper (package clause clashes, import cycles): attribute by path
			hit := false
			for _, line := range strings.Split(out, "\n") {
				for _, id := range ids {
					if r := byID[id]; r.CompileErr == "" && (strings.HasPrefix(line, id+"/") || strings.Contains(line, "/src/"+id+"/")) {
						r.CompileErr += line + "\n"
						hit = true
					}
				}
			}
			if hit {
				continue
			}
			return "", logb.String(), fmt.Errorf("go build failed without attributable package:\n%s", out)
		}
		for i, loc := range locs {
			id := out[loc[2]:loc[3]]
			end := len(out)
			if i+1 < len(locs) {
				end = locs[i+1][0]
			}
			if r := byID[id]; r != nil {
				r.CompileErr += out[loc[0]:end]
			}
		}
	}
	// driver main
	ddir := filepath.Join(e.Src, "cmd", "driver")
	os.MkdirAll(ddir, 0o755)
	var mb strings.Builder
	mb.WriteString("package main\n\nimport (\n\t\"verifharness/drv\"\n")
	n := 0
	for _, id := range ids {
		r := byID[id]
		if r.CompileErr == "" && !r.Prog.NoRun {
			fmt.Fprintf(&mb, "\t_ \"verifcorpus/%s/reg\"\n", id)
			n++
		}
	}
	mb.WriteString(")\n\nfunc main() { drv.Main() }\n")
	ioutil.WriteFile(filepath.Join(ddir, "main.go"), []byte(mb.String()), 0o644)
	driver = filepath.Join(e.Run, "bin", "driver")
	args := []string{"build", "-o", driver}
	if cover {
		args = append(args, "-cover", "-coverpkg=verifcorpus/...")
	}
	args = append(args, "./cmd/driver")
	_, se, ex, rerr := run(e.Src, GoEnv, nil, "go", args...)
	if rerr != nil || ex != 0 {
		return "", logb.String() + string(se), fmt.Errorf("linking the driver failed: %v\n%s", rerr, se)
	}
	return driver, logb.String(), nil
}

// Generate runs plugin and gogo for all programs in parallel and analyses the results.
func Generate(e *Env, progs []*spec.Program) []*GenResult {
	rs := make([]*GenResult, len(progs))
	var wg sync.WaitGroup
	sem := make(chan struct{}, 16)
	for i, p := range progs {
		wg.Add(1)
		go func(i int, p *spec.Program) {
			defer wg.Done()
			sem <- struct{}{}
			defer func() { <-sem }()
			r := RunPlugin(e, p)
			Analyse(e, r)
			if r.Exit == 0 && r.Content != "" {
				RunGogo(e, r)
			}
			rs[i] = r
		}(i, p)
	}
	wg.Wait()
	return rs
}

// Since reports elapsed seconds.
func Since(t time.Time) float64 { return float64(time.Since(t).Milliseconds()) / 1000 }

// Repeat runs the plugin n more times on every program and returns the content hashes (C14).
func Repeat(e *Env, progs []*spec.Program, n int) map[string][]string {
	out := map[string][]string{}
	var mu sync.Mutex
	var wg sync.WaitGroup
	sem := make(chan struct{}, 16)
	for _, p := range progs {
		if p.ExpectFail {
			continue
		}
		wg.Add(1)
		go func(p *spec.Program) {
			defer wg.Done()
			sem <- struct{}{}
			defer func() { <-sem }()
			for k := 0; k < n; k++ { // sequential per program: the runs share the configuration file
				var env []string
				if k == n-1 && n > 1 {
					// the last run sees a pristine home, cache and temporary directory: the response is a function of
					// the request (C14), not of what earlier runs of the plugin left on disk
					d, err := os.MkdirTemp(e.Run, "pristine")
					if err == nil {
						defer os.RemoveAll(d)
						for _, sub := range []string{"home", "cache", "config", "tmp"} {
							os.MkdirAll(filepath.Join(d, sub), 0o755)
						}
						gocache, gomod := goEnvValue("GOCACHE"), goEnvValue("GOMODCACHE")
						env = []string{"HOME=" + filepath.Join(d, "home"), "XDG_CACHE_HOME=" + filepath.Join(d, "cache"),
							"XDG_CONFIG_HOME=" + filepath.Join(d, "config"), "TMPDIR=" + filepath.Join(d, "tmp"),
							"GOCACHE=" + gocache, "GOMODCACHE=" + gomod, "GOPATH=" + goEnvValue("GOPATH")}
					}
				}
				r := RunPluginEnv(e, p, env)
				h := r.SHA
				if r.Exit != 0 {
					h = fmt.Sprintf("exit%d", r.Exit)
				}
				mu.Lock()
				out[p.ID] = append(out[p.ID], h)
				mu.Unlock()
			}
			// the target package probe: the same request under target_package_name vpa, then vpb, then vpb again with
			// a pristine home / cache / temporary directory. The two vpb responses are one request's responses and
			// carry `package vpb`; anything an earlier run (of another configuration) left behind must not show.
			if n > 1 {
				q := *p
				q.Config.TargetPackageName = "vpa"
				RunPlugin(e, &q)
				q.Config.TargetPackageName = "vpb"
				shared := RunPlugin(e, &q)
				mark := ""
				if d, err := os.MkdirTemp(e.Run, "pristine"); err == nil {
					for _, sub := range []string{"home", "cache", "config", "tmp"} {
						os.MkdirAll(filepath.Join(d, sub), 0o755)
					}
					env := []string{"HOME=" + filepath.Join(d, "home"), "XDG_CACHE_HOME=" + filepath.Join(d, "cache"),
						"XDG_CONFIG_HOME=" + filepath.Join(d, "config"), "TMPDIR=" + filepath.Join(d, "tmp"),
						"GOCACHE=" + goEnvValue("GOCACHE"), "GOMODCACHE=" + goEnvValue("GOMODCACHE"), "GOPATH=" + goEnvValue("GOPATH")}
					fresh := RunPluginEnv(e, &q, env)
					os.RemoveAll(d)
					if fresh.Exit != shared.Exit || fresh.SHA != shared.SHA {
						mark = "target-package-probe:stale-state"
					}
				}
				if reflect.DeepEqual(p.Delivery, spec.Delivery{}) && shared.Exit == 0 && shared.Content != "" && !strings.Contains("\n"+shared.Content, "\npackage vpb\n") {
					mark = "target-package-probe:package-clause"
				}
				RunPlugin(e, p) // leaves the program's own configuration file behind
				if mark != "" {
					mu.Lock()
					out[p.ID] = append(out[p.ID], mark)
					mu.Unlock()
				}
			}
		}(p)
	}
	wg.Wait()
	return out
}
