// Package mkreq builds a CodeGeneratorRequest directly from a spec (there is no protoc in
// the sandbox). gogo.proto, descriptor.proto, timestamp.proto and duration.proto come from
// the descriptors registered by the gogo packages.
package mkreq

import (
	"bytes"
	"compress/gzip"
	"io/ioutil"
	"strings"

	"github.com/gogo/protobuf/gogoproto"
	"github.com/gogo/protobuf/proto"
	descriptor "github.com/gogo/protobuf/protoc-gen-gogo/descriptor"
	plugin "github.com/gogo/protobuf/protoc-gen-gogo/plugin"
	_ "github.com/gogo/protobuf/types"

	"verifharness/spec"
)

func load(reg, as string) *descriptor.FileDescriptorProto {
	gz := proto.FileDescriptor(reg)
	if gz == nil {
		panic("descriptor not registered: " + reg)
	}
	r, err := gzip.NewReader(bytes.NewReader(gz))
	if err != nil {
		panic(err)
	}
	b, _ := ioutil.ReadAll(r)
	fd := &descriptor.FileDescriptorProto{}
	if err := proto.Unmarshal(b, fd); err != nil {
		panic(err)
	}
	if as != "" {
		fd.Name = &as
	}
	return fd
}

var scalars = map[string]descriptor.FieldDescriptorProto_Type{
	"double": 1, "float": 2, "int64": 3, "uint64": 4, "int32": 5, "fixed64": 6, "fixed32": 7, "bool": 8, "string": 9,
	"group": 10, "bytes": 12, "uint32": 13, "sfixed32": 15, "sfixed64": 16, "sint32": 17, "sint64": 18,
}

func setType(pkg string, fd *descriptor.FieldDescriptorProto, typ string) {
	switch {
	case typ == "timestamp":
		t := descriptor.FieldDescriptorProto_TYPE_MESSAGE
		fd.Type = &t
		fd.TypeName = proto.String(".google.protobuf.Timestamp")
	case typ == "duration":
		t := descriptor.FieldDescriptorProto_TYPE_MESSAGE
		fd.Type = &t
		fd.TypeName = proto.String(".google.protobuf.Duration")
	case strings.HasPrefix(typ, "enum:"):
		t := descriptor.FieldDescriptorProto_TYPE_ENUM
		fd.Type = &t
		fd.TypeName = proto.String("." + pkg + "." + typ[5:])
	case strings.HasPrefix(typ, "msg:"):
		t := descriptor.FieldDescriptorProto_TYPE_MESSAGE
		fd.Type = &t
		n := typ[4:]
		if strings.HasPrefix(n, ".") {
			fd.TypeName = proto.String(n)
		} else {
			fd.TypeName = proto.String("." + pkg + "." + n)
		}
	default:
		t, ok := scalars[typ]
		if !ok {
			panic("bad type " + typ)
		}
		fd.Type = &t
	}
}

// Camel is protoc's map-entry naming (underscore-separated parts capitalised).
func Camel(s string) string {
	out := ""
	for _, p := range strings.Split(s, "_") {
		if p == "" {
			continue
		}
		out += strings.ToUpper(p[:1]) + p[1:]
	}
	return out
}

func buildMsg(pkg string, m *spec.Msg, mi int, sci *descriptor.SourceCodeInfo) *descriptor.DescriptorProto {
	md := &descriptor.DescriptorProto{Name: proto.String(m.Name)}
	if m.Comment != "" && sci != nil {
		sci.Location = append(sci.Location, &descriptor.SourceCodeInfo_Location{Path: []int32{4, int32(mi)}, LeadingComments: proto.String(m.Comment)})
	}
	for _, o := range m.Oneofs {
		md.OneofDecl = append(md.OneofDecl, &descriptor.OneofDescriptorProto{Name: proto.String(o)})
	}
	for fi := range m.Fields {
		fl := &m.Fields[fi]
		fd := &descriptor.FieldDescriptorProto{Name: proto.String(fl.Name), Number: proto.Int32(fl.Num), JsonName: proto.String(fl.Name)}
		lab := descriptor.FieldDescriptorProto_LABEL_OPTIONAL
		if fl.Repeated {
			lab = descriptor.FieldDescriptorProto_LABEL_REPEATED
		}
		fd.Label = &lab
		fd.OneofIndex = fl.Oneof
		if strings.HasPrefix(fl.Type, "map:") {
			en := Camel(fl.Name) + "Entry"
			entry := &descriptor.DescriptorProto{Name: proto.String(en), Options: &descriptor.MessageOptions{MapEntry: proto.Bool(true)}}
			k := &descriptor.FieldDescriptorProto{Name: proto.String("key"), Number: proto.Int32(1), JsonName: proto.String("key")}
			kt := "string"
			vt := fl.Type[4:]
			if i := strings.Index(vt, ","); i >= 0 {
				kt = vt[:i]
				vt = vt[i+1:]
			}
			setType(pkg, k, kt)
			ol := descriptor.FieldDescriptorProto_LABEL_OPTIONAL
			k.Label = &ol
			v := &descriptor.FieldDescriptorProto{Name: proto.String("value"), Number: proto.Int32(2), JsonName: proto.String("value"), Label: &ol}
			setType(pkg, v, vt)
			entry.Field = []*descriptor.FieldDescriptorProto{k, v}
			md.NestedType = append(md.NestedType, entry)
			t := descriptor.FieldDescriptorProto_TYPE_MESSAGE
			fd.Type = &t
			fd.TypeName = proto.String("." + pkg + "." + m.Name + "." + en)
			lab = descriptor.FieldDescriptorProto_LABEL_REPEATED
			fd.Label = &lab
		} else {
			setType(pkg, fd, fl.Type)
		}
		opts := &descriptor.FieldOptions{}
		has := false
		set := func(e *proto.ExtensionDesc, v interface{}) {
			if err := proto.SetExtension(opts, e, v); err != nil {
				panic(err)
			}
			has = true
		}
		if fl.Nullable != nil {
			set(gogoproto.E_Nullable, fl.Nullable)
		}
		if fl.Embed {
			set(gogoproto.E_Embed, proto.Bool(true))
		}
		if fl.CastType != "" {
			set(gogoproto.E_Casttype, proto.String(fl.CastType))
		}
		if fl.CustomType != "" {
			set(gogoproto.E_Customtype, proto.String(fl.CustomType))
		}
		if fl.StdTime {
			set(gogoproto.E_Stdtime, proto.Bool(true))
		}
		if fl.StdDuration {
			set(gogoproto.E_Stdduration, proto.Bool(true))
		}
		if fl.JSONTag != nil {
			set(gogoproto.E_Jsontag, fl.JSONTag)
		}
		if has {
			fd.Options = opts
		}
		if fl.Comment != "" && sci != nil {
			sci.Location = append(sci.Location, &descriptor.SourceCodeInfo_Location{Path: []int32{4, int32(mi), 2, int32(fi)}, LeadingComments: proto.String(fl.Comment)})
		}
		md.Field = append(md.Field, fd)
	}
	return md
}

// Build returns the serialized CodeGeneratorRequest for a program. param is the complete
// plugin parameter string.
func Build(s *spec.Spec, param string) []byte { return build(s, param, "") }

// BuildFor is Build with the given file of the request (a dependency file) as the file to generate: for
// protoc-gen-gogo, which produces one Go package per invocation.
func BuildFor(s *spec.Spec, param string, file string) []byte { return build(s, param, file) }

func build(s *spec.Spec, param string, only string) []byte {
	var gen []string
	f := &descriptor.FileDescriptorProto{
		Name:       proto.String(s.File),
		Package:    proto.String(s.Package),
		Syntax:     proto.String("proto3"),
		Dependency: []string{"gogoproto/gogo.proto", "google/protobuf/timestamp.proto", "google/protobuf/duration.proto"},
		Options:    &descriptor.FileOptions{GoPackage: proto.String(s.GoPackage)},
	}
	if err := proto.SetExtension(f.Options, gogoproto.E_GoprotoGettersAll, proto.Bool(false)); err != nil {
		panic(err)
	}
	sci := &descriptor.SourceCodeInfo{}
	for _, e := range s.Enums {
		ed := &descriptor.EnumDescriptorProto{Name: proto.String(e.Name)}
		for i, v := range e.Values {
			ed.Value = append(ed.Value, &descriptor.EnumValueDescriptorProto{Name: proto.String(v), Number: proto.Int32(int32(i))})
		}
		f.EnumType = append(f.EnumType, ed)
	}
	for mi := range s.Messages {
		f.MessageType = append(f.MessageType, buildMsg(s.Package, &s.Messages[mi], mi, sci))
	}
	f.SourceCodeInfo = sci
	ts := load("google/protobuf/timestamp.proto", "")
	ts.Options.GoPackage = proto.String("github.com/gogo/protobuf/types")
	du := load("google/protobuf/duration.proto", "")
	du.Options.GoPackage = proto.String("github.com/gogo/protobuf/types")
	files := []*descriptor.FileDescriptorProto{
		load("descriptor.proto", "google/protobuf/descriptor.proto"),
		load("gogo.proto", "gogoproto/gogo.proto"),
		ts, du,
	}
	for _, d := range s.Deps {
		df := &descriptor.FileDescriptorProto{
			Name:    proto.String(d.File),
			Package: proto.String(d.Package),
			Syntax:  proto.String("proto3"),
			Options: &descriptor.FileOptions{GoPackage: proto.String(d.GoPackage)},
		}
		dsci := &descriptor.SourceCodeInfo{}
		for mi := range d.Messages {
			df.MessageType = append(df.MessageType, buildMsg(d.Package, &d.Messages[mi], mi, dsci))
		}
		df.SourceCodeInfo = dsci
		df.Dependency = []string{"gogoproto/gogo.proto"}
		if err := proto.SetExtension(df.Options, gogoproto.E_GoprotoGettersAll, proto.Bool(false)); err != nil {
			panic(err)
		}
		files = append(files, df)
		f.Dependency = append(f.Dependency, d.File)
	}
	files = append(files, f)
	gen = append(gen, s.File)
	if only != "" {
		gen = []string{only}
	}
	req := &plugin.CodeGeneratorRequest{
		FileToGenerate: gen,
		Parameter:      proto.String(param),
		ProtoFile:      files,
	}
	b, err := proto.Marshal(req)
	if err != nil {
		panic(err)
	}
	return b
}
