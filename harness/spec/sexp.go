// Package spec holds the abstract descriptions exchanged between the harness, the
// implementation driver and the extracted Rocq model: S-expressions, descriptor specs,
// configurations.
package spec

import (
	"fmt"
	"sort"
	"strings"
)

// Sx is an S-expression: an atom (bare or quoted string) or a list.
type Sx struct {
	Atom   string
	Quoted bool
	List   []*Sx
	IsList bool
}

// A returns a bare atom.
func A(s string) *Sx { return &Sx{Atom: s} }

// Q returns a quoted string atom.
func Q(s string) *Sx { return &Sx{Atom: s, Quoted: true} }

// L returns a list.
func L(xs ...*Sx) *Sx { return &Sx{List: xs, IsList: true} }

// I returns an integer atom.
func I(n int64) *Sx { return A(fmt.Sprintf("%d", n)) }

// B returns 0/1.
func B(b bool) *Sx {
	if b {
		return A("1")
	}
	return A("0")
}

// Add appends to a list.
func (s *Sx) Add(xs ...*Sx) *Sx { s.List = append(s.List, xs...); return s }

// Head returns the leading atom of a list ("" otherwise).
func (s *Sx) Head() string {
	if s == nil || !s.IsList || len(s.List) == 0 || s.List[0].IsList {
		return ""
	}
	return s.List[0].Atom
}

// Nth returns the n-th element of a list or nil.
func (s *Sx) Nth(n int) *Sx {
	if s == nil || !s.IsList || n >= len(s.List) {
		return nil
	}
	return s.List[n]
}

func quote(s string) string {
	var b strings.Builder
	b.WriteByte('"')
	for i := 0; i < len(s); i++ {
		c := s[i]
		switch {
		case c == '"' || c == '\\':
			b.WriteByte('\\')
			b.WriteByte(c)
		case c < 0x20 || c > 0x7e:
			fmt.Fprintf(&b, "\\x%02x", c)
		default:
			b.WriteByte(c)
		}
	}
	b.WriteByte('"')
	return b.String()
}

func (s *Sx) write(b *strings.Builder) {
	if s == nil {
		b.WriteString("()")
		return
	}
	if !s.IsList {
		if s.Quoted {
			b.WriteString(quote(s.Atom))
		} else {
			b.WriteString(s.Atom)
		}
		return
	}
	b.WriteByte('(')
	for i, x := range s.List {
		if i > 0 {
			b.WriteByte(' ')
		}
		x.write(b)
	}
	b.WriteByte(')')
}

// String renders the S-expression on one line.
func (s *Sx) String() string {
	var b strings.Builder
	s.write(&b)
	return b.String()
}

// Parse parses one S-expression.
func Parse(in string) (*Sx, error) {
	p := &parser{s: in}
	x, err := p.parse()
	if err != nil {
		return nil, err
	}
	p.skip()
	if p.i != len(p.s) {
		return nil, fmt.Errorf("trailing input at %d", p.i)
	}
	return x, nil
}

// ParseAll parses a sequence of S-expressions.
func ParseAll(in string) ([]*Sx, error) {
	p := &parser{s: in}
	var out []*Sx
	for {
		p.skip()
		if p.i >= len(p.s) {
			return out, nil
		}
		x, err := p.parse()
		if err != nil {
			return nil, err
		}
		out = append(out, x)
	}
}

type parser struct {
	s string
	i int
}

func (p *parser) skip() {
	for p.i < len(p.s) {
		c := p.s[p.i]
		if c == ' ' || c == '\n' || c == '\t' || c == '\r' {
			p.i++
			continue
		}
		if c == ';' {
			for p.i < len(p.s) && p.s[p.i] != '\n' {
				p.i++
			}
			continue
		}
		break
	}
}

func hexv(c byte) int {
	switch {
	case c >= '0' && c <= '9':
		return int(c - '0')
	case c >= 'a' && c <= 'f':
		return int(c-'a') + 10
	case c >= 'A' && c <= 'F':
		return int(c-'A') + 10
	}
	return -1
}

func (p *parser) parse() (*Sx, error) {
	p.skip()
	if p.i >= len(p.s) {
		return nil, fmt.Errorf("unexpected end")
	}
	c := p.s[p.i]
	switch {
	case c == '(':
		p.i++
		l := L()
		for {
			p.skip()
			if p.i >= len(p.s) {
				return nil, fmt.Errorf("unclosed list")
			}
			if p.s[p.i] == ')' {
				p.i++
				return l, nil
			}
			x, err := p.parse()
			if err != nil {
				return nil, err
			}
			l.List = append(l.List, x)
		}
	case c == ')':
		return nil, fmt.Errorf("unexpected ) at %d", p.i)
	case c == '"':
		p.i++
		var b strings.Builder
		for {
			if p.i >= len(p.s) {
				return nil, fmt.Errorf("unclosed string")
			}
			c := p.s[p.i]
			if c == '"' {
				p.i++
				return Q(b.String()), nil
			}
			if c == '\\' {
				if p.i+1 >= len(p.s) {
					return nil, fmt.Errorf("bad escape")
				}
				n := p.s[p.i+1]
				if n == 'x' {
					if p.i+3 >= len(p.s) {
						return nil, fmt.Errorf("bad hex escape")
					}
					h, l := hexv(p.s[p.i+2]), hexv(p.s[p.i+3])
					if h < 0 || l < 0 {
						return nil, fmt.Errorf("bad hex escape")
					}
					b.WriteByte(byte(h*16 + l))
					p.i += 4
					continue
				}
				b.WriteByte(n)
				p.i += 2
				continue
			}
			b.WriteByte(c)
			p.i++
		}
	default:
		st := p.i
		for p.i < len(p.s) {
			c := p.s[p.i]
			if c == ' ' || c == '\n' || c == '\t' || c == '\r' || c == '(' || c == ')' || c == '"' {
				break
			}
			p.i++
		}
		return A(p.s[st:p.i]), nil
	}
}

// SortedKeys returns the sorted keys of a string-keyed map.
func SortedKeys[V any](m map[string]V) []string {
	ks := make([]string, 0, len(m))
	for k := range m {
		ks = append(ks, k)
	}
	sort.Strings(ks)
	return ks
}
