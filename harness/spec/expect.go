package spec

import (
	"sort"
	"strings"

	"github.com/gogo/protobuf/protoc-gen-gogo/generator"
	strcase "github.com/stoewer/go-strcase"
)

// This file is the *independent oracle* of DESIGN.md §3.4/§3.5: what the documentation says the
// generator produces for a spec and a configuration, computed from the spec alone, without looking
// at the generator's code or output. It also steers the value generators of the driver.

// EField is the expectation for one field occurrence.
type EField struct {
	Proto                         string   `json:"proto"`   // proto field name
	GoName                        string   `json:"go_name"` // Go struct field name
	Attr                          string   `json:"attr"`    // expected attribute name
	Path                          string   `json:"path"`    // Root.f1...fn
	MsgKey                        string   `json:"msg_key"` // Msg.Field
	Shape                         string   `json:"shape"`   // prim list map obj objlist objmap custom
	PK                            string   `json:"pk"`      // i64 f64 str bool time dur (leaf or element kind), "" for objects
	Scalar                        string   `json:"scalar"`  // int32 int64 uint32 uint64 float32 float64 bool string bytes enum time duration
	Ptr                           bool     `json:"ptr"`     // pointer-backed (nullable message / *time.Time / *time.Duration / []*M / map[string]*M)
	Temporal                      bool     `json:"temporal"`
	Msg                           *EMsg    `json:"msg,omitempty"`
	Oneof                         string   `json:"oneof,omitempty"` // Go name of the oneof holder
	Via                           []string `json:"via,omitempty"`   // chain of pointer-embedded parents through which Go reaches the field
	Required, Computed, Sensitive bool
	Validators                    []string `json:"validators"`
	PlanModifiers                 []string `json:"plan_modifiers"`
	Desc                          string   `json:"desc"`
	Suffix                        string   `json:"suffix,omitempty"`
	Placeholder                   bool     `json:"placeholder,omitempty"`
}

// EMsg is the expectation for one message occurrence.
type EMsg struct {
	Name     string     `json:"name"`
	Path     string     `json:"path"`
	Fields   []*EField  `json:"fields"` // embedded messages flattened
	Oneofs   []string   `json:"oneofs"` // Go names of the oneof holders declared by the message itself
	Injected []Injected `json:"injected,omitempty"`
	Empty    bool       `json:"empty"`
}

// ToSingleLine is the documented comment flattening: lines trimmed, joined by one blank, trimmed.
func ToSingleLine(s string) string {
	lines := strings.Split(s, "\n")
	for i, l := range lines {
		lines[i] = strings.TrimSpace(l)
	}
	return strings.TrimSpace(strings.Join(lines, " "))
}

// CommentOf is what the generator is documented to show for a leading comment.
func CommentOf(raw string) string {
	return ToSingleLine(strings.TrimSpace(strings.Trim(raw, "\n")))
}

func has(xs []string, k ...string) bool {
	for _, x := range xs {
		for _, y := range k {
			if x == y {
				return true
			}
		}
	}
	return false
}

// GoFieldName is the Go name of a proto field (gogo's CamelCase; on D it agrees with the
// generator's own rule).
func GoFieldName(n string) string { return generator.CamelCase(n) }

var scalarInfo = map[string][2]string{
	"double": {"f64", "float64"}, "float": {"f64", "float32"},
	"int64": {"i64", "int64"}, "uint64": {"i64", "uint64"}, "int32": {"i64", "int32"}, "uint32": {"i64", "uint32"},
	"fixed64": {"i64", "uint64"}, "fixed32": {"i64", "uint32"}, "sfixed32": {"i64", "int32"}, "sfixed64": {"i64", "int64"},
	"sint32": {"i64", "int32"}, "sint64": {"i64", "int64"},
	"bool": {"bool", "bool"}, "string": {"str", "string"}, "bytes": {"str", "bytes"},
}

func splitMap(t string) (string, string) {
	vt := t[4:]
	kt := "string"
	if i := strings.Index(vt, ","); i >= 0 {
		kt, vt = vt[:i], vt[i+1:]
	}
	return kt, vt
}

// IsTemporal classifies a field (time / duration / neither) as §3.3 defines it.
func IsTemporal(f *Field, c *Config) string {
	t := f.Type
	if strings.HasPrefix(t, "map:") {
		_, t = splitMap(t)
	}
	switch {
	case f.StdTime || t == "timestamp" || f.CastType == "time.Time":
		return "time"
	case f.StdDuration || t == "duration" || f.CastType == "time.Duration" || (c.DurationCustomType != "" && f.CastType == c.DurationCustomType):
		return "dur"
	}
	return ""
}

// Expect computes the expectation tree of a root message.
func Expect(p *Program, root string) *EMsg {
	return expectMsg(p, p.Spec.MsgByName(root), root, 0)
}

func expectMsg(p *Program, m *Msg, path string, depth int) *EMsg {
	if m == nil || depth > 16 {
		return nil
	}
	c := &p.Config
	em := &EMsg{Name: m.Name, Path: path, Empty: len(m.Fields) == 0, Oneofs: []string{}, Fields: []*EField{}}
	for _, o := range m.Oneofs {
		em.Oneofs = append(em.Oneofs, GoFieldName(o))
	}
	if inj, ok := c.InjectedFields[path]; ok {
		em.Injected = inj
	}
	placeholder := func() {
		em.Fields = append(em.Fields, &EField{Proto: "active", GoName: "active", Attr: "active", Path: path + ".active", Shape: "prim", PK: "bool", Scalar: "bool",
			Computed: true, Desc: "Automatically generated field preventing empty message errors", Placeholder: true, Validators: []string{}, PlanModifiers: []string{}})
	}
	if em.Empty {
		placeholder()
		return em
	}
	for i := range m.Fields {
		f := &m.Fields[i]
		fpath := path + "." + f.Name
		key := m.Name + "." + f.Name
		if f.Embed {
			// an embedded field contributes no path segment; its own options are addressed by Msg.Field
			if has(c.ExcludeFields, key) {
				continue
			}
			sub := expectMsg(p, p.Spec.MsgByName(strings.TrimPrefix(f.Type, "msg:")), path, depth+1)
			if sub == nil {
				continue
			}
			nullable := f.Nullable == nil || *f.Nullable
			for _, sf := range sub.Fields {
				if nullable {
					sf.Via = append([]string{BareMsg(strings.TrimPrefix(f.Type, "msg:"))}, sf.Via...)
				}
				em.Fields = append(em.Fields, sf)
			}
			continue
		}
		if has(c.ExcludeFields, fpath, key) {
			continue
		}
		ef := &EField{Proto: f.Name, GoName: GoFieldName(f.Name), Path: fpath, MsgKey: key,
			Required: has(c.RequiredFields, fpath, key), Computed: has(c.ComputedFields, fpath, key), Sensitive: has(c.SensitiveFields, fpath, key),
			Desc: CommentOf(f.Comment), Validators: []string{}, PlanModifiers: []string{}}
		// name
		if v, ok := c.NameOverrides[fpath]; ok {
			ef.Attr = v
		} else if v, ok := c.NameOverrides[key]; ok {
			ef.Attr = v
		} else if f.JSONTag != nil && strings.Split(*f.JSONTag, ",")[0] != "" && strings.Split(*f.JSONTag, ",")[0] != "-" {
			ef.Attr = strings.Split(*f.JSONTag, ",")[0]
		} else {
			ef.Attr = strcase.SnakeCase(f.Name)
		}
		if v, ok := c.Validators[fpath]; ok {
			ef.Validators = v
		} else if v, ok := c.Validators[key]; ok {
			ef.Validators = v
		}
		if v, ok := c.PlanModifiers[fpath]; ok {
			ef.PlanModifiers = v
		} else if v, ok := c.PlanModifiers[key]; ok {
			ef.PlanModifiers = v
		} else if c.UseStateForUnknownByDefault && ef.Computed {
			ef.PlanModifiers = []string{"github.com/hashicorp/terraform-plugin-framework/tfsdk.UseStateForUnknown()"}
		}
		if f.Oneof != nil && int(*f.Oneof) < len(m.Oneofs) {
			ef.Oneof = GoFieldName(m.Oneofs[*f.Oneof])
		}
		// type
		t := f.Type
		isMap := strings.HasPrefix(t, "map:")
		if isMap {
			_, t = splitMap(t)
		}
		nullableOpt := f.Nullable == nil || *f.Nullable
		temporal := IsTemporal(f, c)
		switch {
		case temporal != "":
			ef.PK, ef.Scalar, ef.Temporal = temporal, map[string]string{"time": "time", "dur": "duration"}[temporal], true
			// message-typed std time/duration are pointers unless nullable=false; int64-backed durations are values
			ef.Ptr = (t == "timestamp" || t == "duration") && nullableOpt
		case strings.HasPrefix(t, "enum:"):
			ef.PK, ef.Scalar = "i64", "enum"
		case strings.HasPrefix(t, "msg:"):
			ef.Msg = expectMsg(p, p.Spec.MsgByName(t[4:]), fpath, depth+1)
			ef.Ptr = nullableOpt || f.Oneof != nil
		default:
			si := scalarInfo[t]
			ef.PK, ef.Scalar = si[0], si[1]
		}
		switch {
		case ef.Msg != nil && isMap:
			ef.Shape = "objmap"
		case ef.Msg != nil && f.Repeated:
			ef.Shape = "objlist"
		case ef.Msg != nil:
			ef.Shape = "obj"
		case isMap:
			ef.Shape = "map"
		case f.Repeated:
			ef.Shape = "list"
		default:
			ef.Shape = "prim"
		}
		// custom types override everything
		ct := f.CustomType
		if v, ok := c.CustomTypes[fpath]; ok {
			ct = v
		}
		if ct != "" {
			ef.Shape = "custom"
			if s, ok := c.Suffixes[ct]; ok {
				ef.Suffix = s
			} else {
				ef.Suffix = strings.ReplaceAll(strings.ReplaceAll(ct, "/", ""), ".", "")
			}
			ef.Msg = nil
		}
		em.Fields = append(em.Fields, ef)
	}
	if len(em.Fields) == 0 {
		// every field is excluded: the message is like one without fields (F16)
		em.Empty = true
		placeholder()
		return em
	}
	if len(em.Fields) == 1 && em.Fields[0].Placeholder {
		// nothing but the placeholder promoted from an embedded message without fields: nothing to convert either
		em.Empty = true
	}
	if c.Sort {
		sort.SliceStable(em.Fields, func(i, j int) bool { return em.Fields[i].GoName < em.Fields[j].GoName })
	}
	return em
}

// Roots returns the messages of the file selected by types, in output order.
func ExpectedRoots(p *Program) []string {
	var out []string
	for _, m := range p.Spec.Messages {
		if has(p.Config.Types, m.Name) {
			out = append(out, m.Name)
		}
	}
	if p.Config.Sort {
		sort.Strings(out)
	}
	return out
}
