package spec

import (
	"encoding/json"
	"fmt"
	"sort"
	"strings"
)

// Field is one proto field of the supported fragment (DESIGN.md §3).
type Field struct {
	Name string `json:"name"`
	Num  int32  `json:"num"`
	// Type: a proto scalar name, "enum:E", "msg:M", "map:<vt>" / "map:<kt>,<vt>" (vt as Type),
	// "timestamp", "duration" (google.protobuf.Timestamp / Duration messages), "group".
	Type        string  `json:"type"`
	Repeated    bool    `json:"repeated,omitempty"`
	Nullable    *bool   `json:"nullable,omitempty"`
	Embed       bool    `json:"embed,omitempty"`
	CastType    string  `json:"casttype,omitempty"`
	CustomType  string  `json:"customtype,omitempty"`
	StdTime     bool    `json:"stdtime,omitempty"`
	StdDuration bool    `json:"stdduration,omitempty"`
	JSONTag     *string `json:"jsontag,omitempty"`
	Oneof       *int32  `json:"oneof,omitempty"`
	Comment     string  `json:"comment,omitempty"`
}

// Msg is a top-level message.
type Msg struct {
	Name    string   `json:"name"`
	Comment string   `json:"comment,omitempty"`
	Oneofs  []string `json:"oneofs,omitempty"`
	Fields  []Field  `json:"fields"`
}

// Enum is a top-level enum.
type Enum struct {
	Name   string   `json:"name"`
	Values []string `json:"values"`
}

// Dep is an unrelated dependency file of the request.
type Dep struct {
	File      string `json:"file"`
	Package   string `json:"package"`
	GoPackage string `json:"go_package"`
	Messages  []Msg  `json:"messages"`
}

// Spec is the file to generate plus unrelated dependencies.
type Spec struct {
	File      string `json:"file"`
	Package   string `json:"package"`
	GoPackage string `json:"go_package"`
	Enums     []Enum `json:"enums,omitempty"`
	Messages  []Msg  `json:"messages"`
	Deps      []Dep  `json:"deps,omitempty"`
}

// Injected is an injected schema field.
type Injected struct {
	Name          string   `json:"name"`
	Type          string   `json:"type"` // Go expression
	TyAbs         string   `json:"ty_abs"`
	Required      bool     `json:"required,omitempty"`
	Computed      bool     `json:"computed,omitempty"`
	Optional      bool     `json:"optional,omitempty"`
	PlanModifiers []string `json:"plan_modifiers,omitempty"`
	Validators    []string `json:"validators,omitempty"`
}

// Config is the logical configuration (independent of the delivery channel).
type Config struct {
	Types                       []string              `json:"types"`
	DurationCustomType          string                `json:"duration_custom_type,omitempty"`
	ExcludeFields               []string              `json:"exclude_fields,omitempty"`
	ComputedFields              []string              `json:"computed_fields,omitempty"`
	RequiredFields              []string              `json:"required_fields,omitempty"`
	SensitiveFields             []string              `json:"sensitive_fields,omitempty"`
	TargetPackageName           string                `json:"target_package_name,omitempty"`
	DefaultPackageName          string                `json:"default_package_name,omitempty"`
	Sort                        bool                  `json:"sort,omitempty"`
	UseStateForUnknownByDefault bool                  `json:"use_state_for_unknown_by_default,omitempty"`
	Suffixes                    map[string]string     `json:"suffixes,omitempty"`
	NameOverrides               map[string]string     `json:"name_overrides,omitempty"`
	Validators                  map[string][]string   `json:"validators,omitempty"`
	PlanModifiers               map[string][]string   `json:"plan_modifiers,omitempty"`
	TimeType                    bool                  `json:"time_type,omitempty"`
	DurationType                bool                  `json:"duration_type,omitempty"`
	InjectedFields              map[string][]Injected `json:"injected_fields,omitempty"`
	ImportPathOverrides         map[string]string     `json:"import_path_overrides,omitempty"`
	CustomTypes                 map[string]string     `json:"custom_types,omitempty"`
}

// Delivery says how the logical configuration reaches the plugin.
type Delivery struct {
	// CLI lists the dual-channel options delivered as plugin parameters (the others go to YAML):
	// types exclude_fields computed_fields required_fields sensitive default_package_name
	// target_package_name custom_duration sort
	CLI []string `json:"cli,omitempty"`
	// Decoy lists options of CLI which additionally get a *different* value in the YAML file.
	Decoy []string `json:"decoy,omitempty"`
	// Perm permutes YAML keys, YAML list entries and +-separated lists (0 = canonical order).
	Perm int64 `json:"perm,omitempty"`
	// NoYAML: no config parameter at all (everything that can must be in CLI).
	NoYAML bool `json:"no_yaml,omitempty"`
	// YAMLFault: "" | "missing" (file does not exist) | "malformed" | "mistyped" (YAML of the wrong shape) | "directory"
	YAMLFault string `json:"yaml_fault,omitempty"`
	// SortSpelling is the spelling of the sort parameter when delivered by CLI ("true", "TRUE", "1", "T", ...).
	SortSpelling string `json:"sort_spelling,omitempty"`
	// DecoyReal: the decoy entries of the YAML lists name real fields (other than the real entries), so that a
	// command-line list that is merged with the file's list instead of replacing it changes the output.
	DecoyReal bool `json:"decoy_real,omitempty"`
	// Pad adds blanks around CLI values (TrimSpace must remove them).
	Pad bool `json:"pad,omitempty"`
}

// Program is one run of the generator.
type Program struct {
	ID       string   `json:"id"`
	Spec     Spec     `json:"spec"`
	Config   Config   `json:"config"`
	Delivery Delivery `json:"delivery"`
	// Family groups programs that are compared with each other; Role names the relation to the base.
	Family string `json:"family,omitempty"`
	Role   string `json:"role,omitempty"`
	// Props lists the properties whose slice uses this program.
	Props []string `json:"props,omitempty"`
	// Note is free text for reports.
	Note string `json:"note,omitempty"`
	// ExpectFail: the plugin must fail (C16 negative cases).
	ExpectFail bool `json:"expect_fail,omitempty"`
	// Unmappable: for C18, "Msg.Field" of the injected unmappable field ("" otherwise), and the roots that reach it.
	Unmappable      string   `json:"unmappable,omitempty"`
	UnmappableRoots []string `json:"unmappable_roots,omitempty"`
	// NoRun: generation/compilation only, no converter execution.
	NoRun bool `json:"no_run,omitempty"`
}

// JSON renders a value as JSON.
func JSON(v interface{}) string {
	b, err := json.MarshalIndent(v, "", " ")
	if err != nil {
		panic(err)
	}
	return string(b)
}

// Clone deep-copies a program through JSON.
func (p *Program) Clone() *Program {
	b, _ := json.Marshal(p)
	q := &Program{}
	if err := json.Unmarshal(b, q); err != nil {
		panic(err)
	}
	return q
}

// MsgByName finds a message.
func (s *Spec) MsgByName(n string) *Msg {
	n = BareMsg(n)
	for i := range s.Messages {
		if s.Messages[i].Name == n {
			return &s.Messages[i]
		}
	}
	// messages of the dependency files (referred to as msg:.<package>.<Name>)
	for di := range s.Deps {
		for i := range s.Deps[di].Messages {
			if s.Deps[di].Messages[i].Name == n {
				return &s.Deps[di].Messages[i]
			}
		}
	}
	return nil
}

// BareMsg strips the proto package from a fully qualified message reference (".pkg.Name" -> "Name").
// Message names are unique across the files of a program.
func BareMsg(n string) string {
	if strings.HasPrefix(n, ".") {
		return n[strings.LastIndex(n, ".")+1:]
	}
	return n
}

// ---------------------------------------------------------------------------------------
// S-expression rendering for the model

func optBool(b *bool) *Sx {
	if b == nil {
		return A("none")
	}
	return B(*b)
}

// TypeSx renders a field type.
func TypeSx(t string) *Sx {
	switch {
	case strings.HasPrefix(t, "enum:"):
		return L(A("enum"), Q(t[5:]))
	case strings.HasPrefix(t, "msg:"):
		return L(A("msg"), Q(BareMsg(t[4:])))
	case strings.HasPrefix(t, "map:"):
		kt, vt := "string", t[4:]
		if i := strings.Index(vt, ","); i >= 0 {
			kt, vt = vt[:i], vt[i+1:]
		}
		return L(A("map"), TypeSx(kt), TypeSx(vt))
	default:
		return A(t)
	}
}

func fieldSx(f *Field) *Sx {
	lab := "opt"
	if f.Repeated {
		lab = "rep"
	}
	jt := A("none")
	if f.JSONTag != nil {
		jt = Q(*f.JSONTag)
	}
	oo := A("none")
	if f.Oneof != nil {
		oo = I(int64(*f.Oneof))
	}
	return L(A("field"), Q(f.Name), I(int64(f.Num)), TypeSx(f.Type), A(lab), optBool(f.Nullable), B(f.Embed),
		Q(f.CastType), Q(f.CustomType), B(f.StdTime), B(f.StdDuration), jt, oo, Q(f.Comment))
}

func msgSx(m *Msg) *Sx {
	oo := L(A("oneofs"))
	for _, o := range m.Oneofs {
		oo.Add(Q(o))
	}
	fs := L(A("fields"))
	for i := range m.Fields {
		fs.Add(fieldSx(&m.Fields[i]))
	}
	return L(A("msg"), Q(m.Name), Q(m.Comment), oo, fs)
}

// Sx renders the spec for the model.
func (s *Spec) Sx() *Sx {
	en := L(A("enums"))
	for _, e := range s.Enums {
		x := L(Q(e.Name))
		for _, v := range e.Values {
			x.Add(Q(v))
		}
		en.Add(x)
	}
	ms := L(A("messages"))
	for i := range s.Messages {
		ms.Add(msgSx(&s.Messages[i]))
	}
	ds := L(A("deps"))
	for _, d := range s.Deps {
		dm := L(A("messages"))
		for i := range d.Messages {
			dm.Add(msgSx(&d.Messages[i]))
		}
		ds.Add(L(A("dep"), Q(d.File), Q(d.Package), Q(d.GoPackage), dm))
	}
	return L(A("spec"), Q(s.File), Q(s.Package), Q(s.GoPackage), en, ms, ds)
}

func strList(head string, xs []string) *Sx {
	l := L(A(head))
	for _, x := range xs {
		l.Add(Q(x))
	}
	return l
}

// permute returns a deterministic permutation of xs for perm != 0.
func permute(xs []string, perm int64) []string {
	out := append([]string(nil), xs...)
	if perm == 0 || len(out) < 2 {
		return out
	}
	st := uint64(perm)*6364136223846793005 + 1442695040888963407
	for i := len(out) - 1; i > 0; i-- {
		st = st*6364136223846793005 + 1442695040888963407
		j := int((st >> 33) % uint64(i+1))
		out[i], out[j] = out[j], out[i]
	}
	return out
}

// YAMLDoc is the structured content of the YAML file: ordered (key, value) pairs.
type YAMLDoc struct {
	Keys []string
	Vals map[string]interface{}
}

func (d *YAMLDoc) set(k string, v interface{}) {
	if _, ok := d.Vals[k]; !ok {
		d.Keys = append(d.Keys, k)
	}
	d.Vals[k] = v
}

// Channels computes what the plugin gets: the parameter pairs (without config=) and the YAML document.
func (p *Program) Channels() (params [][2]string, doc *YAMLDoc) {
	c := &p.Config
	d := &p.Delivery
	cli := map[string]bool{}
	for _, k := range d.CLI {
		cli[k] = true
	}
	decoy := map[string]bool{}
	for _, k := range d.Decoy {
		decoy[k] = true
	}
	doc = &YAMLDoc{Vals: map[string]interface{}{}}
	pad := func(s string) string {
		if d.Pad {
			return "  " + s + " "
		}
		return s
	}
	list := func(name, yamlKey string, vals []string) {
		if len(vals) == 0 {
			return
		}
		if cli[name] || d.NoYAML {
			params = append(params, [2]string{name, pad(strings.Join(permute(vals, d.Perm), "+"))})
			if decoy[name] {
				dv := []string{"Decoy.Entry", "Other.Decoy"}
				if d.DecoyReal {
					dv = map[string][]string{"exclude_fields": {"Beta.Ratio", "Leaf.Tags"}, "computed_fields": {"Alpha.Id"}, "required_fields": {"Beta.Id"}, "sensitive": {"Beta.Id", "Alpha.Id"}}[name]
				}
				doc.set(yamlKey, dv)
			}
			return
		}
		doc.set(yamlKey, permute(vals, d.Perm))
	}
	str := func(name, yamlKey, val string) {
		if val == "" {
			return
		}
		if cli[name] || d.NoYAML {
			params = append(params, [2]string{name, pad(val)})
			if decoy[name] {
				doc.set(yamlKey, "decoy_"+val)
			}
			return
		}
		doc.set(yamlKey, val)
	}
	list("types", "types", c.Types)
	list("exclude_fields", "exclude_fields", c.ExcludeFields)
	list("computed_fields", "computed_fields", c.ComputedFields)
	list("required_fields", "required_fields", c.RequiredFields)
	list("sensitive", "sensitive_fields", c.SensitiveFields)
	str("default_package_name", "default_package_name", c.DefaultPackageName)
	str("target_package_name", "target_package_name", c.TargetPackageName)
	str("custom_duration", "duration_custom_type", c.DurationCustomType)
	if cli["sort"] || d.NoYAML {
		sp := d.SortSpelling
		if sp == "" {
			if c.Sort {
				sp = "true"
			} else {
				sp = "false"
			}
		}
		if c.Sort || decoy["sort"] {
			params = append(params, [2]string{"sort", pad(sp)})
		}
		if decoy["sort"] {
			doc.set("sort", !c.Sort)
		}
	} else if c.Sort {
		doc.set("sort", true)
	}
	// YAML-only options
	if c.UseStateForUnknownByDefault {
		doc.set("use_state_for_unknown_by_default", true)
	}
	if len(c.Suffixes) > 0 {
		doc.set("suffixes", c.Suffixes)
	}
	if len(c.NameOverrides) > 0 {
		doc.set("name_overrides", c.NameOverrides)
	}
	if len(c.Validators) > 0 {
		doc.set("validators", c.Validators)
	}
	if len(c.PlanModifiers) > 0 {
		doc.set("plan_modifiers", c.PlanModifiers)
	}
	if c.TimeType {
		doc.set("time_type", "std")
	}
	if c.DurationType {
		doc.set("duration_type", "std")
	}
	if len(c.InjectedFields) > 0 {
		doc.set("injected_fields", c.InjectedFields)
	}
	if len(c.ImportPathOverrides) > 0 {
		doc.set("import_path_overrides", c.ImportPathOverrides)
	}
	if len(c.CustomTypes) > 0 {
		doc.set("custom_types", c.CustomTypes)
	}
	doc.Keys = permute(doc.Keys, d.Perm)
	return params, doc
}

// SupportPkg is the import path of the harness support package referenced from configurations.
const SupportPkg = "verifharness/support"

func yq(s string) string {
	b, _ := json.Marshal(s) // JSON strings are valid YAML double-quoted scalars
	return string(b)
}

// YAMLText renders the YAML document as text.
func (d *YAMLDoc) YAMLText(perm int64) string {
	var b strings.Builder
	for _, k := range d.Keys {
		switch v := d.Vals[k].(type) {
		case bool:
			fmt.Fprintf(&b, "%s: %v\n", k, v)
		case string:
			switch k {
			case "time_type":
				fmt.Fprintf(&b, "time_type:\n  type: %s\n  value_type: %s\n  cast_to_type: %s\n  cast_from_type: %s\n  type_constructor: %s\n",
					yq(SupportPkg+".TimeType"), yq(SupportPkg+".TimeValue"), yq("time.Time"), yq("time.Time"), yq(SupportPkg+".UseRFC3339Time()"))
			case "duration_type":
				fmt.Fprintf(&b, "duration_type:\n  type: %s\n  value_type: %s\n  cast_to_type: %s\n  cast_from_type: %s\n",
					yq(SupportPkg+".DurationType"), yq(SupportPkg+".DurationValue"), yq("time.Duration"), yq("time.Duration"))
			default:
				fmt.Fprintf(&b, "%s: %s\n", k, yq(v))
			}
		case []string:
			fmt.Fprintf(&b, "%s:\n", k)
			for _, x := range v {
				fmt.Fprintf(&b, "  - %s\n", yq(x))
			}
		case map[string]string:
			fmt.Fprintf(&b, "%s:\n", k)
			for _, kk := range permute(SortedKeys(v), perm) {
				fmt.Fprintf(&b, "  %s: %s\n", yq(kk), yq(v[kk]))
			}
		case map[string][]string:
			fmt.Fprintf(&b, "%s:\n", k)
			for _, kk := range permute(SortedKeys(v), perm) {
				fmt.Fprintf(&b, "  %s:\n", yq(kk))
				for _, x := range v[kk] {
					fmt.Fprintf(&b, "    - %s\n", yq(x))
				}
			}
		case map[string][]Injected:
			fmt.Fprintf(&b, "%s:\n", k)
			for _, kk := range permute(SortedKeys(v), perm) {
				fmt.Fprintf(&b, "  %s:\n", yq(kk))
				// (the injected attributes of a message form a set: their order in the list is a configuration order too)
				idx := make([]string, len(v[kk]))
				for i := range idx {
					idx[i] = fmt.Sprintf("%03d", i)
				}
				for _, is := range permute(idx, perm) {
					var xi int
					fmt.Sscanf(is, "%d", &xi)
					x := v[kk][xi]
					fmt.Fprintf(&b, "    - name: %s\n      type: %s\n", yq(x.Name), yq(x.Type))
					if x.Required {
						fmt.Fprintf(&b, "      required: true\n")
					}
					if x.Computed {
						fmt.Fprintf(&b, "      computed: true\n")
					}
					if x.Optional {
						fmt.Fprintf(&b, "      optional: true\n")
					}
					if len(x.PlanModifiers) > 0 {
						fmt.Fprintf(&b, "      plan_modifiers:\n")
						for _, y := range x.PlanModifiers {
							fmt.Fprintf(&b, "        - %s\n", yq(y))
						}
					}
					if len(x.Validators) > 0 {
						fmt.Fprintf(&b, "      validators:\n")
						for _, y := range x.Validators {
							fmt.Fprintf(&b, "        - %s\n", yq(y))
						}
					}
				}
			}
		default:
			panic(fmt.Sprintf("yaml: unsupported %T", v))
		}
	}
	return b.String()
}

// Sx renders the YAML document for the model (the model does not parse YAML text).
func (d *YAMLDoc) Sx() *Sx {
	out := L(A("doc"))
	for _, k := range d.Keys {
		switch v := d.Vals[k].(type) {
		case bool:
			out.Add(L(A(k), B(v)))
		case string:
			out.Add(L(A(k), Q(v)))
		case []string:
			out.Add(strList(k, v))
		case map[string]string:
			l := L(A(k))
			for _, kk := range SortedKeys(v) {
				l.Add(L(Q(kk), Q(v[kk])))
			}
			out.Add(l)
		case map[string][]string:
			l := L(A(k))
			for _, kk := range SortedKeys(v) {
				l.Add(strList("", v[kk]).prepend(Q(kk)))
			}
			out.Add(l)
		case map[string][]Injected:
			l := L(A(k))
			for _, kk := range SortedKeys(v) {
				e := L(Q(kk))
				for _, x := range v[kk] {
					e.Add(L(Q(x.Name), A(x.TyAbs), B(x.Required), B(x.Computed), B(x.Optional), strList("pms", x.PlanModifiers), strList("vals", x.Validators)))
				}
				l.Add(e)
			}
			out.Add(l)
		}
	}
	return out
}

func (s *Sx) prepend(x *Sx) *Sx {
	// replaces the head atom of a list built by strList("") with x
	s.List[0] = x
	return s
}

// ParamString renders the plugin parameter (without the config entry).
func ParamString(params [][2]string) string {
	var parts []string
	for _, kv := range params {
		parts = append(parts, kv[0]+"="+kv[1])
	}
	return strings.Join(parts, ",")
}

// ModelInput renders the whole program for the model.
func (p *Program) ModelInput() *Sx {
	params, doc := p.Channels()
	ps := L(A("params"))
	for _, kv := range params {
		ps.Add(L(Q(kv[0]), Q(kv[1])))
	}
	var y *Sx
	switch {
	case p.Delivery.NoYAML:
		y = A("absent")
	case p.Delivery.YAMLFault != "":
		// the model knows two kinds of unusable file: one that cannot be read and one that cannot be decoded
		fault := map[string]string{"mistyped": "malformed", "directory": "missing"}[p.Delivery.YAMLFault]
		if fault == "" {
			fault = p.Delivery.YAMLFault
		}
		y = A(fault)
		ps.Add(L(Q("config"), Q("config.yaml")))
	default:
		y = doc.Sx()
		ps.Add(L(Q("config"), Q("config.yaml")))
	}
	return L(A("program"), Q(p.ID), p.Spec.Sx(), ps, L(A("yaml"), y))
}

// Paths of all field occurrences below the roots (proto names; embedded fields contribute no segment),
// used by generators of field-addressed options.
type Occ struct {
	Path    string // Root.f1...fn as DESIGN §3.5 defines it
	MsgKey  string // Msg.Field
	Msg     string
	Field   *Field
	Depth   int
	InOneof bool
}

// Occurrences enumerates field occurrences below root (acyclic specs only).
func (s *Spec) Occurrences(root string) []Occ {
	var out []Occ
	var walk func(m *Msg, prefix string, depth int)
	walk = func(m *Msg, prefix string, depth int) {
		if depth > 12 {
			return
		}
		for i := range m.Fields {
			f := &m.Fields[i]
			path := prefix + "." + f.Name
			if !f.Embed {
				out = append(out, Occ{Path: path, MsgKey: m.Name + "." + f.Name, Msg: m.Name, Field: f, Depth: depth, InOneof: f.Oneof != nil})
			}
			t := f.Type
			if strings.HasPrefix(t, "map:") {
				t = t[4:]
				if i := strings.Index(t, ","); i >= 0 {
					t = t[i+1:]
				}
			}
			if strings.HasPrefix(t, "msg:") {
				if sub := s.MsgByName(t[4:]); sub != nil {
					if f.Embed {
						walk(sub, prefix, depth)
					} else {
						walk(sub, path, depth+1)
					}
				}
			}
		}
	}
	if m := s.MsgByName(root); m != nil {
		walk(m, root, 0)
	}
	sort.SliceStable(out, func(i, j int) bool { return out[i].Path < out[j].Path })
	return out
}
