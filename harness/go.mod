module verifharness

go 1.18

require (
	github.com/dave/jennifer v1.4.1
	github.com/gogo/protobuf v1.3.2
	github.com/gravitational/trace v1.2.1
	github.com/hashicorp/terraform-plugin-framework v0.10.0
	github.com/hashicorp/terraform-plugin-go v0.12.0
	github.com/sirupsen/logrus v1.9.0
	github.com/stoewer/go-strcase v1.2.0
	github.com/stretchr/testify v1.7.2
	golang.org/x/tools v0.1.7
	google.golang.org/protobuf v1.28.0
	gopkg.in/yaml.v3 v3.0.1
)

require (
	github.com/davecgh/go-spew v1.1.1 // indirect
	github.com/fatih/color v1.13.0 // indirect
	github.com/golang/protobuf v1.5.2 // indirect
	github.com/google/go-cmp v0.5.8 // indirect
	github.com/hashicorp/go-hclog v1.2.1 // indirect
	github.com/hashicorp/terraform-plugin-log v0.6.0 // indirect
	github.com/jonboulle/clockwork v0.3.0 // indirect
	github.com/kr/text v0.2.0 // indirect
	github.com/mattn/go-colorable v0.1.12 // indirect
	github.com/mattn/go-isatty v0.0.14 // indirect
	github.com/mitchellh/go-testing-interface v1.14.1 // indirect
	github.com/pmezard/go-difflib v1.0.0 // indirect
	github.com/vmihailenco/msgpack/v4 v4.3.12 // indirect
	github.com/vmihailenco/tagparser v0.1.1 // indirect
	golang.org/x/crypto v0.17.0 // indirect
	golang.org/x/mod v0.5.1 // indirect
	golang.org/x/net v0.17.0 // indirect
	golang.org/x/sys v0.15.0 // indirect
	golang.org/x/term v0.15.0 // indirect
	golang.org/x/xerrors v0.0.0-20200804184101-5ec99f83aff1 // indirect
	google.golang.org/appengine v1.6.7 // indirect
	gopkg.in/check.v1 v1.0.0-20201130134442-10cb98267c6c // indirect
)
