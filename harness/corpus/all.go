package corpus

import "verifharness/spec"

// All returns the corpus of a tier: fixed corpus first, then families and random programs.
func All(tier string, seed int64) []*spec.Program {
	out := Atlas()
	out = append(out, Families(tier, seed)...)
	n := 12
	if tier == "thorough" {
		n = 120
	}
	out = append(out, Random(n, seed)...)
	return out
}
