package corpus

import "verifharness/spec"

// All returns the corpus of a tier: fixed corpus first, then families and random programs.
func All(tier string, seed int64) []*spec.Program {
	out := Atlas()
	out = append(out, Families(tier, seed)...)
	return out
}
