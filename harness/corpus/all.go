package corpus

import "verifharness/spec"

// All returns the corpus of a tier: fixed corpus first, then random programs and families.
func All(tier string, seed int64) []*spec.Program {
	out := Atlas()
	return out
}
