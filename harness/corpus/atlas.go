// Package corpus generates the corpus programs: the fixed atlas (every atom of DESIGN §3.3),
// a replica of the repository's test schema, regressions, random programs and the
// families of related programs that the relational properties compare.
package corpus

import (
	"fmt"
	"strings"

	"verifharness/spec"
)

type fopt func(*spec.Field)

func nn() fopt              { return func(f *spec.Field) { b := false; f.Nullable = &b } }
func nullable() fopt        { return func(f *spec.Field) { b := true; f.Nullable = &b } }
func rep() fopt             { return func(f *spec.Field) { f.Repeated = true } }
func cast(t string) fopt    { return func(f *spec.Field) { f.CastType = t } }
func custom(t string) fopt  { return func(f *spec.Field) { f.CustomType = t } }
func embed() fopt           { return func(f *spec.Field) { f.Embed = true; s := ""; f.JSONTag = &s } }
func stdtime() fopt         { return func(f *spec.Field) { f.StdTime = true } }
func stddur() fopt          { return func(f *spec.Field) { f.StdDuration = true } }
func jsontag(t string) fopt { return func(f *spec.Field) { f.JSONTag = &t } }
func oneof(i int32) fopt    { return func(f *spec.Field) { f.Oneof = &i } }
func comment(c string) fopt { return func(f *spec.Field) { f.Comment = c } }

// F builds a field; numbers are assigned by M.
func F(name, typ string, opts ...fopt) spec.Field {
	f := spec.Field{Name: name, Type: typ}
	for _, o := range opts {
		o(&f)
	}
	return f
}

// M builds a message and numbers its fields.
func M(name string, oneofs []string, fields ...spec.Field) spec.Msg {
	for i := range fields {
		if fields[i].Num == 0 {
			fields[i].Num = int32(i + 1)
		}
		if fields[i].Comment == "" && !fields[i].Embed {
			fields[i].Comment = " " + fields[i].Name + " is a field of " + name + "\n"
			if i%3 == 1 {
				// the word "package" followed by text, as the package clause of a Go file has it
				fields[i].Comment = " " + fields[i].Name + " is a field of " + name + " in package pk\n package " + name + "\n"
			}
		}
	}
	return spec.Msg{Name: name, Oneofs: oneofs, Fields: fields, Comment: " " + name + " message\n"}
}

var modeEnum = spec.Enum{Name: "Mode", Values: []string{"UNKNOWN", "ON", "OFF"}}

// Scalars lists the 15 proto scalar types.
var Scalars = []string{"double", "float", "int32", "int64", "uint32", "uint64", "sint32", "sint64", "fixed32", "fixed64", "sfixed32", "sfixed64", "bool", "string", "bytes"}

func title(s string) string { return strings.ToUpper(s[:1]) + s[1:] }

var castOf = map[string]string{"int32": "CastInt32", "int64": "CastInt64", "uint32": "CastUint32", "uint64": "CastUint64", "float": "CastFloat32", "double": "CastFloat64", "bool": "CastBool", "string": "CastString", "bytes": "CastBytes"}

func baseConfig(types ...string) spec.Config {
	return spec.Config{Types: types, TimeType: true, DurationType: true, DurationCustomType: "Duration"}
}

func prog(id string, props []string, cfg spec.Config, enums []spec.Enum, msgs ...spec.Msg) *spec.Program {
	return &spec.Program{ID: id, Props: props,
		Spec:   spec.Spec{File: id + ".proto", Package: "pk_" + id, GoPackage: "verifcorpus/" + id + "/pk", Enums: enums, Messages: msgs},
		Config: cfg}
}

// wrap returns a root that holds leaf in every context: by value, by pointer, in lists and in maps.
func wrap(root, leaf string) spec.Msg {
	return M(root, nil,
		F("Direct", "msg:"+leaf, nn()),
		F("Ptr", "msg:"+leaf),
		F("List", "msg:"+leaf, rep()),
		F("ListV", "msg:"+leaf, rep(), nn()),
		F("Map", "map:msg:"+leaf),
		F("MapV", "map:msg:"+leaf, nn()),
	)
}

var convProps = []string{"C01", "C02", "C03", "C04", "C05", "C06", "C08", "C09", "C19", "C20"}

// Atlas returns the fixed corpus.
func Atlas() []*spec.Program {
	var out []*spec.Program
	en := []spec.Enum{modeEnum}

	// --- scalars, singular
	{
		var fs []spec.Field
		for _, s := range Scalars {
			fs = append(fs, F(title(s)+"Val", s))
		}
		fs = append(fs, F("EnumVal", "enum:Mode"), F("lower_snake_name", "string"), F("another_one", "int32"), F("Int32", "int32"), F("HTTPServer", "string"))
		out = append(out, prog("a_scalars", convProps, baseConfig("Scalars", "Wrap"), en, M("Scalars", nil, fs...), wrap("Wrap", "Scalars")))
	}
	// --- repeated scalars
	{
		var fs []spec.Field
		for _, s := range Scalars {
			fs = append(fs, F(title(s)+"List", s, rep()))
		}
		fs = append(fs, F("EnumList", "enum:Mode", rep()), F("snake_list", "string", rep()))
		out = append(out, prog("a_lists", convProps, baseConfig("Lists", "Wrap"), en, M("Lists", nil, fs...), wrap("Wrap", "Lists")))
	}
	// --- maps of scalars (bytes separately: F1)
	{
		var fs []spec.Field
		for _, s := range Scalars {
			if s == "bytes" {
				continue
			}
			fs = append(fs, F(title(s)+"Map", "map:"+s))
		}
		fs = append(fs, F("EnumMap", "map:enum:Mode"), F("snake_map", "map:string"))
		out = append(out, prog("a_maps", convProps, baseConfig("Maps", "Wrap"), en, M("Maps", nil, fs...), wrap("Wrap", "Maps")))
	}
	out = append(out, prog("a_mapbytes", convProps, baseConfig("MapBytes"), nil, M("MapBytes", nil, F("BytesMap", "map:bytes"), F("Str", "string"))))
	// --- cast types
	{
		var fs []spec.Field
		for _, s := range []string{"int32", "int64", "uint32", "uint64", "float", "double", "bool", "string", "bytes"} {
			fs = append(fs, F(title(s)+"Cast", s, cast(castOf[s])))
			if s == "int64" {
				// a cast type that is not the configured custom duration although its name ends with it
				fs = append(fs, F("LeaseCast", s, cast("LeaseDuration")), F("LeaseCastList", s, rep(), cast("LeaseDuration")))
			}
			if s == "int32" {
				fs = append(fs, F("XDurCast", s, cast("XDuration")))
			}
			fs = append(fs, F(title(s)+"CastList", s, rep(), cast(castOf[s])))
		}
		out = append(out, prog("a_casts", convProps, baseConfig("Casts", "Wrap"), nil, M("Casts", nil, fs...), wrap("Wrap", "Casts")))
	}
	// --- time and duration
	{
		fs := []spec.Field{
			F("TimeV", "timestamp", stdtime(), nn()),
			F("TimeP", "timestamp", stdtime()),
			F("DurMsgV", "duration", stddur(), nn()),
			F("DurMsgP", "duration", stddur()),
			F("DurStd", "int64", stddur()),
			F("DurCastStd", "int64", cast("time.Duration")),
			F("DurCustom", "int64", cast("Duration")),
			F("TimeList", "timestamp", rep(), stdtime()),
			F("TimeListV", "timestamp", rep(), stdtime(), nn()),
			F("DurMsgList", "duration", rep(), stddur()),
			F("DurMsgListV", "duration", rep(), stddur(), nn()),
			F("DurCustomList", "int64", rep(), cast("Duration")),
			F("TimeMap", "map:timestamp", stdtime()),
			F("TimeMapV", "map:timestamp", stdtime(), nn()),
			F("DurMsgMap", "map:duration", stddur()),
			F("DurMsgMapV", "map:duration", stddur(), nn()),
		}
		out = append(out, prog("a_temporal", convProps, baseConfig("Temporal", "Wrap"), nil, M("Temporal", nil, fs...), wrap("Wrap", "Temporal")))
	}
	// --- messages at depth
	{
		leaf := M("Leaf", nil, F("Str", "string"), F("Num", "int32"), F("Tags", "string", rep()), F("Attrs", "map:string"))
		mid := M("Mid", nil, F("Name", "string"), F("Leaf", "msg:Leaf", nn()), F("LeafP", "msg:Leaf"), F("Leaves", "msg:Leaf", rep()), F("LeavesV", "msg:Leaf", rep(), nn()),
			F("LeafMap", "map:msg:Leaf"), F("LeafMapV", "map:msg:Leaf", nn()))
		out = append(out, prog("a_msgs", convProps, baseConfig("Top", "Mid"), nil, leaf, mid, wrap("Top", "Mid")))
	}
	// --- empty messages
	{
		ecfg := baseConfig("HasEmpty")
		ecfg.InjectedFields = map[string][]spec.Injected{
			"HasEmpty.EmptyP": {{Name: "revision", Type: "github.com/hashicorp/terraform-plugin-framework/types.StringType", TyAbs: "str", Computed: true}},
			"HasEmpty":        {{Name: "id", Type: "github.com/hashicorp/terraform-plugin-framework/types.StringType", TyAbs: "str", Computed: true}},
		}
		out = append(out, prog("a_empty", convProps, ecfg, nil, M("Empty", nil),
			M("HasEmpty", nil, F("EmptyP", "msg:Empty"), F("EmptyV", "msg:Empty", nn()), F("Str", "string"))))
		out = append(out, prog("a_emptycoll", convProps, baseConfig("HasEmptyColl"), nil, M("Empty", nil),
			M("HasEmptyColl", nil, F("EmptyList", "msg:Empty", rep()), F("EmptyListV", "msg:Empty", rep(), nn()), F("EmptyMap", "map:msg:Empty"), F("EmptyMapV", "map:msg:Empty", nn()), F("Str", "string"))))
	}
	// --- oneofs
	{
		b1 := M("Branch1", nil, F("Str", "string"), F("Nums", "int64", rep()))
		b2 := M("Branch2", nil, F("Int32", "int32"))
		em := M("EmptyBranch", nil)
		oo := M("OneOfs", []string{"OneOf", "lower_snake_oneof", "Third"},
			F("Before", "string"),
			F("Branch1", "msg:Branch1", oneof(0)), F("Branch2", "msg:Branch2", oneof(0)), F("Branch3", "string", oneof(0)),
			F("foo", "string", oneof(1)), F("bar_baz", "int64", oneof(1)), F("EnumBranch", "enum:Mode", oneof(1)),
			F("EmptyMessageBranch", "msg:EmptyBranch", oneof(2)), F("BoolBranch", "bool", oneof(2)), F("BytesBranch", "bytes", oneof(2)),
			F("FloatBranch", "float", oneof(2)), F("DoubleBranch", "double", oneof(2)), F("Uint64Branch", "uint64", oneof(2)),
			// a plain field whose name sorts between a branch of Third (BoolBranch) and a branch of OneOf (Branch1)
			F("Bpm", "int32"),
			F("After", "int32"))
		{
			// the LAST declared branch of two of the groups is excluded: the groups are still reset and read
			xcfg := baseConfig("OneOfs", "Wrap")
			xcfg.ExcludeFields = []string{"OneOfs.Branch3", "OneOfs.EnumBranch"}
			out = append(out, prog("a_oneof_exlast", append([]string{"C07"}, convProps...), xcfg, en, b1, b2, em, oo, wrap("Wrap", "OneOfs")))
		}
		out = append(out, prog("a_oneof", append([]string{"C07"}, convProps...), baseConfig("OneOfs", "Wrap"), en, b1, b2, em, oo, wrap("Wrap", "OneOfs")))
	}
	// --- embedded, non nullable
	{
		leaf := M("Leaf", nil, F("Str", "string"))
		emb := M("Emb", nil, F("EmbStr", "string", jsontag("emb_str")), F("EmbInt", "int64"), F("EmbLeaf", "msg:Leaf"), F("EmbLeafV", "msg:Leaf", nn()), F("EmbList", "string", rep()), F("EmbMap", "map:int32"), F("EmbLeaves", "msg:Leaf", rep()))
		root := M("HasEmb", nil, F("Own", "string"), F("Emb", "msg:Emb", nn(), embed()), F("Tail", "bool"))
		embCfg := baseConfig("HasEmb", "Wrap")
		// options addressed by <Message>.<field> to fields of the embedded message: they hold where it is embedded in a
		// root (path HasEmb.<field>) and where the root is nested (path Wrap.<...>.<field>)
		embCfg.ExcludeFields = []string{"Emb.EmbMap"}
		embCfg.SensitiveFields = []string{"Emb.EmbStr"}
		embCfg.RequiredFields = []string{"Emb.EmbInt"}
		embCfg.ComputedFields = []string{"Emb.EmbList", "HasEmb.EmbLeaves"}
		embCfg.UseStateForUnknownByDefault = true
		embCfg.NameOverrides = map[string]string{"Emb.EmbLeafV": "leaf_by_value"}
		embCfg.Validators = map[string][]string{"Emb.EmbInt": {spec.SupportPkg + `.V("embint")`}}
		out = append(out, prog("a_embed", convProps, embCfg, nil, leaf, emb, root, wrap("Wrap", "HasEmb")))
	}
	// --- embedded, nullable, scalar children (F3, F6)
	{
		emb := M("EmbN", nil, F("EmbNInt", "int64"), F("EmbNStr", "string"), F("EmbNBool", "bool"), F("EmbNFloat", "float"), F("Value", "int64", jsontag("max_age"), cast("Duration")))
		root := M("HasEmbN", nil, F("Own", "string"), F("EmbN", "msg:EmbN", embed()))
		out = append(out, prog("a_embedn", convProps, baseConfig("HasEmbN"), nil, emb, root))
	}
	// --- embedded, nullable, container children (F4)
	{
		leaf := M("Leaf", nil, F("Str", "string"))
		emb := M("EmbC", nil, F("EmbCStr", "string"), F("EmbCLeaf", "msg:Leaf"), F("EmbCList", "string", rep()), F("EmbCMap", "map:string"))
		root := M("HasEmbC", nil, F("Own", "string"), F("EmbC", "msg:EmbC", embed()))
		out = append(out, prog("a_embednc", convProps, baseConfig("HasEmbC"), nil, leaf, emb, root))
	}
	// --- attribute names that coincide with names the generator uses itself (map entry fields key/value,
	// the placeholder "active") next to maps and lists of messages
	{
		leaf := M("Leaf", nil, F("Str", "string"), F("Num", "int32"))
		other := M("Other", nil, F("Flag", "bool"), F("Note", "string"), F("Value", "msg:Leaf"))
		root := M("ValueNames", nil,
			F("Active", "bool"), F("Key", "string"), F("Value", "msg:Leaf"), F("Entry", "msg:Leaf", nn()),
			F("Items", "map:msg:Other"), F("ItemsV", "map:msg:Other", nn()), F("Others", "msg:Other", rep()), F("Values", "map:string"),
			F("Elems", "string", rep()), F("Attrs", "map:int64"))
		out = append(out, prog("a_valuenames", convProps, baseConfig("ValueNames", "Other"), nil, leaf, other, root))
	}
	// --- embedded messages that declare a oneof (holder promoted through the embedding)
	{
		br := M("Br", nil, F("S", "string"))
		emb := M("EmbO", []string{"Choice"}, F("Plain", "string"), F("A", "string", oneof(0)), F("B", "msg:Br", oneof(0)), F("N", "int64", oneof(0)))
		out = append(out, prog("a_embedoneof", append([]string{"C07"}, convProps...), baseConfig("HasEmbO"), nil, br, emb,
			M("HasEmbO", nil, F("Own", "string"), F("EmbO", "msg:EmbO", nn(), embed()))))
		emb2 := M("EmbP", []string{"Pick"}, F("Plain", "string"), F("A", "string", oneof(0)), F("B", "msg:Br", oneof(0)))
		out = append(out, prog("a_embednoneof", append([]string{"C07"}, convProps...), baseConfig("HasEmbP"), nil, br, emb2,
			M("HasEmbP", nil, F("Own", "string"), F("EmbP", "msg:EmbP", embed()))))
	}
	// --- sort: the fields promoted from nullable embedded messages interleave, by name, with each other and with
	// the fields of the containing message
	{
		lim := M("Limits", nil, F("Alpha", "string"), F("Gamma", "int64"), F("Kappa", "string", rep()))
		quo := M("Quota", nil, F("Beta2", "bool"), F("Eta", "string"))
		scfg := baseConfig("Server")
		scfg.Sort = true
		out = append(out, prog("a_embedsort", convProps, scfg, nil, lim, quo,
			M("Server", nil, F("Beta", "string"), F("Limits", "msg:Limits", embed()), F("Delta", "int32"), F("Quota", "msg:Quota", embed()), F("Zeta", "string"))))
	}
	// --- a nullable embedded message all of whose fields are oneof branches
	{
		ch := M("Choice", []string{"Kind"}, F("ChName", "string", oneof(0)), F("ChNumber", "int64", oneof(0)))
		out = append(out, prog("a_embedonlyoneof", append([]string{"C07"}, convProps...), baseConfig("HasChoice"), nil, ch,
			M("HasChoice", nil, F("Id", "string"), F("Choice", "msg:Choice", embed()))))
	}
	// --- field-less messages promoted from a nullable embedded message (by value, by pointer, repeated, map value)
	{
		nothing := M("Nothing", nil)
		en := M("EmbE", nil, F("EStr", "string"), F("ByValue", "msg:Nothing", nn()), F("ByPtr", "msg:Nothing"), F("Many", "msg:Nothing", rep()), F("Keyed", "map:msg:Nothing"))
		out = append(out, prog("a_embednempty", convProps, baseConfig("HasEmbE"), nil, nothing, en,
			M("HasEmbE", nil, F("Own", "string"), F("EmbE", "msg:EmbE", embed()))))
	}
	// --- several nullable embedded messages and several oneofs promoted from by-value embedded messages in one message
	{
		ea := M("EmbA", nil, F("AStr", "string"), F("AInt", "int64"))
		eb := M("EmbB", nil, F("BStr", "string"))
		ec := M("EmbC3", nil, F("CList", "string", rep()))
		ed := M("EmbD", nil, F("DBool", "bool"))
		oa := M("EmbOA", []string{"PickA"}, F("OaPlain", "string"), F("OaX", "string", oneof(0)), F("OaY", "int32", oneof(0)))
		ob := M("EmbOB", []string{"PickB"}, F("ObX", "string", oneof(0)), F("ObY", "bool", oneof(0)))
		oc := M("EmbOC", []string{"PickC"}, F("OcX", "int64", oneof(0)), F("OcY", "string", oneof(0)))
		out = append(out, prog("a_embedmulti", append([]string{"C07", "C14"}, convProps...), baseConfig("HasMany"), nil, ea, eb, ec, ed, oa, ob, oc,
			M("HasMany", []string{"Own"}, F("Head", "string"),
				F("EmbA", "msg:EmbA", embed()), F("EmbOA", "msg:EmbOA", nn(), embed()), F("EmbB", "msg:EmbB", embed()),
				F("EmbOB", "msg:EmbOB", nn(), embed()), F("EmbC3", "msg:EmbC3", embed()), F("EmbOC", "msg:EmbOC", nn(), embed()),
				F("EmbD", "msg:EmbD", embed()), F("OwnX", "string", oneof(0)), F("OwnY", "int32", oneof(0)), F("Tail", "bool"))))
	}
	// --- a nullable embedded message inside a nullable embedded message
	{
		q := M("EmbQ", nil, F("QStr", "string"), F("QList", "int64", rep()))
		p2 := M("EmbP2", nil, F("PStr", "string"), F("EmbQ", "msg:EmbQ", embed()))
		out = append(out, prog("a_embednn", convProps, baseConfig("HasEmbNN"), nil, q, p2,
			M("HasEmbNN", nil, F("Own", "string"), F("EmbP2", "msg:EmbP2", embed()))))
		// three levels, with a by-value embedded message in between
		d3 := M("EmbD3", nil, F("DStr", "string"), F("DList", "string", rep()), F("DLeaf", "msg:EmbLeaf3"), F("DInt", "int64"))
		leaf3 := M("EmbLeaf3", nil, F("LStr", "string"))
		c3 := M("EmbC4", nil, F("CStr", "string"), F("EmbD3", "msg:EmbD3", embed()))
		v3 := M("EmbV3", nil, F("VStr", "string"), F("EmbC4", "msg:EmbC4", embed()))
		b3 := M("EmbB3", nil, F("BInt", "int32"), F("EmbV3", "msg:EmbV3", nn(), embed()))
		out = append(out, prog("a_embednnn", convProps, baseConfig("HasEmb3"), nil, leaf3, d3, c3, v3, b3,
			M("HasEmb3", nil, F("Own", "string"), F("EmbB3", "msg:EmbB3", embed()))))
	}
	// --- embedded below the root (F7: option paths)
	{
		emb := M("Emb", nil, F("X", "string"), F("Y", "int32"))
		sub := M("Sub", nil, F("Emb", "msg:Emb", nn(), embed()), F("Z", "string"))
		root := M("Root", nil, F("S", "msg:Sub"), F("T", "msg:Sub", nn()))
		out = append(out, prog("a_embedsub", convProps, baseConfig("Root"), nil, emb, sub, root))
	}
	// --- a nested message all of whose fields are excluded (no attribute left, no placeholder either)
	{
		leaf := M("Bare", nil, F("A", "string"), F("B", "int64"))
		root := M("HasBare", nil, F("Name", "string"), F("One", "msg:Bare"), F("OneV", "msg:Bare", nn()), F("Many", "msg:Bare", rep()), F("ByKey", "map:msg:Bare"), F("ByKeyV", "map:msg:Bare", nn()))
		cfg := baseConfig("HasBare")
		cfg.ExcludeFields = []string{"Bare.A", "Bare.B"}
		out = append(out, prog("a_allexcl", convProps, cfg, nil, leaf, root))
		// a message whose only field is an embedded message without fields: its one attribute is the promoted placeholder
		out = append(out, prog("a_embedonlyempty", convProps, baseConfig("HasWrap"), nil, M("Nothing", nil),
			M("WrapV", nil, F("Nothing", "msg:Nothing", embed(), nn())), M("WrapP", nil, F("Nothing", "msg:Nothing", embed())),
			M("HasWrap", nil, F("Name", "string"), F("V", "msg:WrapV"), F("Vs", "msg:WrapV", rep()), F("P", "msg:WrapP", nn()), F("Pm", "map:msg:WrapP"))))
	}
	// --- custom types
	{
		root := M("Customs", nil,
			F("CustP", "bytes", custom("CustomBytes")),
			F("CustV", "bytes", custom("CustomBytes"), nn()),
			F("CustList", "bool", rep(), custom("CustomBool")),
			F("CustStr", "string", custom("CustomStr"), nn()),
			F("ByConfig", "string"),
			F("ByConfigList", "int64", rep()),
			// cast-typed fields that the configuration declares custom: the hooks decide, not the cast
			F("CastCfg", "string", cast("CastString")),
			F("CastCfgList", "int64", rep(), cast("CastInt64")),
			// custom by proto option and by configuration at once: the configuration's type (and its suffix) counts
			F("ByConfigMap", "map:string"),
			F("Both", "bytes", custom("CustomBytes"), nn()),
			F("BothList", "bool", rep(), custom("CustomBool")),
			F("Plain", "string"))
		cfg := baseConfig("Customs")
		// near-miss keys: only an exact key is a suffix entry / a custom type entry
		cfg.Suffixes = map[string]string{"CustomBool": "Bool_Special", "CastLabel": "Lbl_v2", "FlagSet": "Flg", "IntList": "DecoyA", "pkg.IntList": "DecoyB", "custombool": "DecoyCase", "Custom": "DecoyPrefix"}
		cfg.CustomTypes = map[string]string{"Customs.ByConfig": "StringCustom", "Customs.ByConfigList": "some/pkg.IntList", "Customs.CastCfg": "CastLabel", "Customs.CastCfgList": "CastInts", "Customs.Both": "OtherFamily", "Customs.ByConfigMap": "LabelsMap", "Customs.BothList": "FlagSet", "ByConfig": "DecoyType", "Customs.Plain.": "DecoyType", "customs.plain": "DecoyType"}
		cfg.ComputedFields = []string{"Customs.CustP", "Customs.ByConfig"}
		cfg.RequiredFields = []string{"Customs.CustStr"}
		cfg.SensitiveFields = []string{"Customs.CustList", "Customs.ByConfig"}
		cfg.UseStateForUnknownByDefault = true
		cfg.Validators = map[string][]string{"Customs.CustV": {spec.SupportPkg + `.V("custom")`}}
		cfg.PlanModifiers = map[string][]string{"Customs.ByConfigList": {spec.SupportPkg + `.PM("custom")`}}
		out = append(out, prog("a_custom", append([]string{"C17"}, convProps...), cfg, nil, root))
		// a custom-type field promoted from a nullable (pointer) embedded message
		embcu := M("EmbCu", nil, F("CuStr", "string", custom("CustomStr"), nn()), F("CuPlain", "string"))
		out = append(out, prog("a_embedncustom", append([]string{"C17"}, convProps...), baseConfig("HasEmbCu"), nil, embcu,
			M("HasEmbCu", nil, F("Own", "string"), F("EmbCu", "msg:EmbCu", embed()))))
	}
	// --- json tags and name overrides
	{
		leaf := M("Leaf", nil, F("LeafName", "string"), F("Other", "int32", jsontag("other_tag,omitempty")))
		root := M("Names", nil,
			F("Plain", "string"),
			F("Tagged", "string", jsontag("tagged_name")),
			F("TaggedOmit", "string", jsontag("tagged_omit,omitempty")),
			F("Dash", "string", jsontag("-")),
			F("EmptyTag", "string", jsontag("")),
			F("OnlyOmit", "string", jsontag(",omitempty")),
			F("ByPath", "int32"),
			F("ByKey", "int32", jsontag("ignored_by_override")),
			F("Sub", "msg:Leaf"),
			F("Subs", "msg:Leaf", rep()),
			F("HTTPServerURL", "string"),
			F("lower_snake", "string"),
			F("x_y", "string"),
			F("CamelTag", "string", jsontag("camelTag,omitempty")),
			F("CamelList", "string", rep(), jsontag("camelList")),
			F("port_a_b", "int32"),
			F("a", "bool"),
		)
		cfg := baseConfig("Names")
		cfg.NameOverrides = map[string]string{"Names.ByPath": "by_path_override", "Names.ByKey": "byKeyOverride", "Names.Sub.LeafName": "only_in_sub", "Leaf.Other": "everywhere",
			"Plain": "decoy_bare", "Sub.LeafName": "decoy_rootless", "names.tagged": "decoy_case", "Names.Subs.LeafNam": "decoy_prefix"}
		out = append(out, prog("a_names", convProps, cfg, nil, leaf, root))
	}
	// --- flags, validators, plan modifiers, injected fields, comments
	{
		leaf := M("Leaf", nil, F("A", "string", comment(" first line\n   second line, indented  \r\n third\n\n")), F("B", "int32", comment("\n\n  \n")), F("C", "bool"))
		leaf.Comment = ""
		root := M("Flags", nil,
			F("Req", "string"), F("Comp", "string"), F("Sens", "string"), F("All", "string"),
			F("Val", "int32"), F("Pm", "int32"), F("CompPm", "int32"),
			F("L1", "msg:Leaf"), F("L2", "msg:Leaf", nn()), F("Ls", "msg:Leaf", rep()), F("Lm", "map:msg:Leaf"),
			F("NoComment", "string", comment("")),
			F("Multi", "string", comment(" line one\n line two\n")),
		)
		root.Fields[11].Comment = ""
		for i, n := range []int32{1, 2, 7, 4, 3, 12, 13, 20, 21, 22, 30, 31, 9} {
			root.Fields[i].Num = n // gaps and numbers out of declaration order
		}
		leaf.Fields[0].Num, leaf.Fields[1].Num, leaf.Fields[2].Num = 5, 1, 3
		cfg := baseConfig("Flags")
		// besides the real keys, near-miss keys which must not match anything: bare field names, paths
		// without the root, other letter case, prefixes
		cfg.RequiredFields = []string{"Flags.Req", "Flags.All", "Leaf.A", "Val", "L1.B", "flags.comp", "Flags.Re"}
		// ("Leaf.C": computed by the message-qualified key on a nested message, no explicit plan modifiers: the default
		// UseStateForUnknown applies at every occurrence; "Flags.L1.A": by path, at one occurrence)
		cfg.ComputedFields = []string{"Flags.Comp", "Flags.All", "Flags.CompPm", "Flags.L1.B", "Flags.L1.A", "Leaf.C", "Flags.Ls", "Sens", "L2.A", "Flags.L1" + ".", "Leaf"}
		cfg.SensitiveFields = []string{"Flags.Sens", "Flags.All", "Leaf.C", "Req", "Flags.Ls.", "FLAGS.VAL"}
		cfg.UseStateForUnknownByDefault = true
		// excluded fields in the middle of their messages: the fields declared after them keep their own comments
		cfg.ExcludeFields = []string{"Flags.Sens", "Leaf.B"}
		cfg.Validators = map[string][]string{"Flags.Val": {spec.SupportPkg + `.V("v1")`, spec.SupportPkg + `.V("v2")`}, "Leaf.B": {spec.SupportPkg + `.V("leafb")`},
			"Val": {spec.SupportPkg + `.V("decoy1")`}, "L1.A": {spec.SupportPkg + `.V("decoy2")`}, "flags.pm": {spec.SupportPkg + `.V("decoy3")`}}
		cfg.PlanModifiers = map[string][]string{"Flags.Pm": {spec.SupportPkg + `.PM("p1")`}, "Flags.CompPm": {spec.SupportPkg + `.PM("explicit")`}, "Flags.L2.A": {"github.com/hashicorp/terraform-plugin-framework/tfsdk.UseStateForUnknown()", spec.SupportPkg + `.PM("p2")`}}
		cfg.InjectedFields = map[string][]spec.Injected{
			"Flags": {{Name: "id", Type: "github.com/hashicorp/terraform-plugin-framework/types.StringType", TyAbs: "str", Computed: true, PlanModifiers: []string{"github.com/hashicorp/terraform-plugin-framework/tfsdk.UseStateForUnknown()"}}, {Name: "extra", Type: "github.com/hashicorp/terraform-plugin-framework/types.Int64Type", TyAbs: "i64", Optional: true, Validators: []string{spec.SupportPkg + `.V("inj")`}},
				{Name: "another", Type: "github.com/hashicorp/terraform-plugin-framework/types.BoolType", TyAbs: "bool", Optional: true}, {Name: "zz_last", Type: "github.com/hashicorp/terraform-plugin-framework/types.StringType", TyAbs: "str", Computed: true}},
			"Flags.L1": {{Name: "nested_injected", Type: "github.com/hashicorp/terraform-plugin-framework/types.BoolType", TyAbs: "bool", Required: true}},
		}
		out = append(out, prog("a_flags", append([]string{"C10"}, convProps...), cfg, nil, leaf, root))
	}
	out = append(out, Replica())
	for _, p := range out {
		p.Family = p.ID
		p.Role = "base"
	}
	return out
}

// Replica reproduces test/test.proto and test/config.yaml.
func Replica() *spec.Program {
	test := M("Test", []string{"OneOf", "OneOfWithEmptyMessage", "lower_snake_oneof"},
		F("Str", "string", jsontag("str1")), F("Int32", "int32"), F("Int64", "int64"), F("Float", "float"), F("Double", "double"), F("Bool", "bool"), F("bytes", "bytes"),
		F("Timestamp", "timestamp", stdtime(), nn()), F("TimestampMissing", "timestamp", stdtime(), nn()),
		F("TimestampNullable", "timestamp", stdtime(), nullable()), F("TimestampNullableWithNilValue", "timestamp", stdtime(), nullable()),
		F("DurationStandard", "int64", stddur()), F("DurationStandardMissing", "int64", stddur()),
		F("DurationCustom", "int64", cast("Duration")), F("DurationCustomMissing", "int64", cast("Duration")),
		F("StringList", "string", rep()), F("StringListEmpty", "string", rep()),
		F("BoolCustomList", "bool", rep(), custom("CustomBool")), F("BytesList", "bytes", rep()),
		F("TimestampList", "timestamp", rep(), stdtime()), F("DurationCustomList", "int64", rep(), cast("Duration")),
		F("Nested", "msg:Nested", nn()), F("NestedNullable", "msg:Nested", nullable()), F("NestedNullableWithNilValue", "msg:Nested", nullable()),
		F("NestedList", "msg:Nested", rep(), nn()), F("NestedListNullable", "msg:Nested", rep(), nullable()),
		F("Map", "map:string"), F("MapObject", "map:msg:Nested", nn()), F("MapObjectNullable", "map:msg:Nested", nullable()),
		F("Mode", "enum:Mode"), F("Excluded", "bool"),
		F("Branch1", "msg:Branch1", oneof(0)), F("Branch2", "msg:Branch2", oneof(0)), F("Branch3", "string", oneof(0)),
		F("EmptyMessageBranch", "msg:EmptyMessageBranch", oneof(1)), F("StringBranch", "string", oneof(1)),
		F("EmbeddedField", "msg:EmbeddedField", nn(), embed()),
		F("EmbedNullable", "msg:MaxAgeDuration", embed()),
		F("StringOverride", "string"),
		F("foo", "string", oneof(2)), F("bar", "string", oneof(2)),
	)
	nums := []int32{1, 2, 3, 4, 5, 6, 7, 8, 9, 10, 11, 12, 13, 14, 15, 16, 17, 18, 19, 20, 21, 22, 23, 24, 25, 26, 27, 29, 30, 31, 32, 33, 34, 35, 36, 37, 38, 39, 40, 41, 42}
	for i := range test.Fields {
		test.Fields[i].Num = nums[i]
	}
	cfg := baseConfig("Test")
	cfg.UseStateForUnknownByDefault = true
	cfg.Sort = true
	cfg.TargetPackageName = "pk"
	cfg.ExcludeFields = []string{"Test.Excluded"}
	cfg.ComputedFields = []string{"Test.Str"}
	cfg.RequiredFields = []string{"Test.Str"}
	cfg.SensitiveFields = []string{"Test.Str"}
	cfg.Suffixes = map[string]string{"CustomBool": "BoolSpecial"}
	cfg.NameOverrides = map[string]string{"Test.Str": "str"}
	cfg.InjectedFields = map[string][]spec.Injected{"Test": {{Name: "id", Type: "github.com/hashicorp/terraform-plugin-framework/types.StringType", TyAbs: "str", Computed: true}}}
	cfg.PlanModifiers = map[string][]string{"Test.Str": {"github.com/hashicorp/terraform-plugin-framework/tfsdk.UseStateForUnknown()"}}
	cfg.Validators = map[string][]string{"Test.Str": {spec.SupportPkg + `.V("mock")`}}
	cfg.CustomTypes = map[string]string{"Test.StringOverride": "StringCustom"}
	p := prog("t_replica", append([]string{"C07", "C10", "C17"}, convProps...), cfg, []spec.Enum{modeEnum},
		test,
		M("MaxAgeDuration", nil, F("Value", "int64", jsontag("max_age"), cast("Duration"))),
		M("EmptyMessageBranch", nil),
		M("Nested", nil, F("Str", "string"), F("NestedList", "msg:OtherNested", rep()), F("Map", "map:string"), F("MapObjectNested", "map:msg:OtherNested", nn())),
		M("OtherNested", nil, F("Str", "string")),
		M("Branch1", nil, F("Str", "string")),
		M("Branch2", nil, F("Int32", "int32")),
		M("EmbeddedField", nil, F("EmbeddedString", "string", jsontag("embedded_string")), F("EmbeddedNestedField", "msg:EmbeddedNestedField")),
		M("EmbeddedNestedField", nil, F("EmbeddedNestedString", "string", jsontag("embedded_nested_string"))),
	)
	return p
}

var _ = fmt.Sprintf
