package corpus

import (
	"fmt"
	"sort"
	"strings"

	"verifharness/spec"
)

// prng is the corpus generator's PRNG (splitmix64).
type prng struct{ s uint64 }

func newPrng(seed uint64) *prng { return &prng{s: seed*0x9E3779B97F4A7C15 + 0x9e37} }
func (r *prng) u64() uint64 {
	r.s += 0x9E3779B97F4A7C15
	z := r.s
	z = (z ^ (z >> 30)) * 0xBF58476D1CE4E5B9
	z = (z ^ (z >> 27)) * 0x94D049BB133111EB
	return z ^ (z >> 31)
}
func (r *prng) n(n int) int {
	if n <= 0 {
		return 0
	}
	return int(r.u64() % uint64(n))
}
func (r *prng) p(num, den int) bool { return r.n(den) < num }

func variant(base *spec.Program, id, role string, props ...string) *spec.Program {
	v := base.Clone()
	v.ID = id
	v.Family = base.ID
	v.Role = role
	v.Props = props
	// the proto file name is kept: it shows up in the generated header, and members of a family are
	// compared byte for byte
	v.Spec.Package = "pk_" + id
	v.Spec.GoPackage = "verifcorpus/" + id + "/pk"
	return v
}

// baseMulti is the base of several families: a file with several messages, one of which occurs at
// several paths, with a mixed configuration.
func baseMulti() *spec.Program {
	leaf := M("Leaf", nil, F("Str", "string"), F("Num", "int32"), F("Tags", "string", rep()))
	mid := M("Mid", nil, F("Name", "string"), F("Leaf", "msg:Leaf"), F("Leaves", "msg:Leaf", rep()), F("LeafMap", "map:msg:Leaf", nn()))
	a := M("Alpha", []string{"Pick"}, F("Id", "string"), F("M1", "msg:Mid"), F("M2", "msg:Mid", nn()), F("L", "msg:Leaf"), F("When", "timestamp", stdtime()),
		F("PickStr", "string", oneof(0)), F("PickLeaf", "msg:Leaf", oneof(0)), F("Mode", "enum:Mode"))
	// Beta.L mirrors Alpha.L: the same message type under the same field name in two selected types (the
	// shape of the README's exclude_fields example)
	b := M("Beta", nil, F("Id", "string"), F("Mids", "msg:Mid", rep()), F("Count", "int64"), F("Ratio", "double"), F("L", "msg:Leaf"), F("M1", "msg:Mid"))
	g := M("Gamma", nil, F("Label", "string"), F("Leaf", "msg:Leaf", nn()))
	cfg := baseConfig("Alpha", "Beta")
	cfg.RequiredFields = []string{"Alpha.Id"}
	cfg.ComputedFields = []string{"Beta.Count"}
	p := prog("f_multi", convProps, cfg, []spec.Enum{modeEnum}, leaf, mid, a, b, g)
	p.Family, p.Role = p.ID, "base"
	return p
}

// permuteSpec permutes fields within messages and messages within the file (numbers, names, oneof
// membership and oneof declarations kept).
func permuteSpec(s *spec.Spec, r *prng) {
	for mi := range s.Messages {
		fs := s.Messages[mi].Fields
		for i := len(fs) - 1; i > 0; i-- {
			j := r.n(i + 1)
			fs[i], fs[j] = fs[j], fs[i]
		}
	}
	ms := s.Messages
	for i := len(ms) - 1; i > 0; i-- {
		j := r.n(i + 1)
		ms[i], ms[j] = ms[j], ms[i]
	}
}

// Families returns the programs of the relational properties.
func Families(tier string, seed int64) []*spec.Program {
	var out []*spec.Program
	r := newPrng(uint64(seed))
	base := baseMulti()
	out = append(out, base)
	thorough := tier == "thorough"

	// ---- C12: selections and unrelated extensions
	sels := [][]string{{"Alpha"}, {"Beta"}, {"Gamma"}, {"Alpha", "Beta", "Gamma"}, {"Beta", "Alpha"}, {"Leaf", "Alpha"}}
	for i, sel := range sels {
		v := variant(base, fmt.Sprintf("f_multi_sel%d", i), "selection", "C01", "C12")
		v.Config.Types = sel
		v.Config.RequiredFields, v.Config.ComputedFields = base.Config.RequiredFields, base.Config.ComputedFields
		// a path-form key rooted at a type that only some of these selections contain, through a field named like
		// its message type: it addresses Gamma's occurrence, whether or not Gamma is selected
		v.Config.SensitiveFields = []string{"Gamma.Leaf.Str"}
		v.Config.ExcludeFields = []string{"Gamma.Leaf.Num"}
		v.NoRun = true
		out = append(out, v)
	}
	{
		// one list of plan modifiers (general key) shared by every place Leaf is nested, the field computed by path
		// under the later root only: what is generated for Beta does not depend on Alpha being built first
		pb := variant(base, "f_multipm", "base", "C01", "C12")
		pb.Family = "f_multipm"
		pb.Config.PlanModifiers = map[string][]string{"Leaf.Num": {"github.com/hashicorp/terraform-plugin-framework/tfsdk.UseStateForUnknown()", spec.SupportPkg + `.PM("shared")`}}
		pb.Config.ComputedFields = append(append([]string{}, pb.Config.ComputedFields...), "Beta.L.Num")
		pb.NoRun = true
		out = append(out, pb)
		for i, sel := range [][]string{{"Beta"}, {"Alpha"}, {"Beta", "Alpha", "Gamma"}} {
			v := variant(pb, fmt.Sprintf("f_multipm_sel%d", i), "selection", "C01", "C12")
			v.Family = "f_multipm"
			v.Config.Types = sel
			v.NoRun = true
			out = append(out, v)
		}
	}
	{
		// "Gamma" is not selected, "XGamma" and "AlphaBeta" are: a name that is a suffix / prefix of a selected one
		v := variant(base, "f_multi_selsfx", "selection", "C01", "C12")
		v.Spec.Messages = append(v.Spec.Messages, M("XGamma", nil, F("Label", "string"), F("N", "int32")), M("AlphaBeta", nil, F("Q", "string")),
			// the field Holder.Meta has the name of the selected type declared after it
			M("Holder", nil, F("Name", "string"), F("Meta", "msg:Meta"), F("Metas", "msg:Meta", rep())), M("Meta", nil, F("K", "string"), F("V", "int64")))
		v.Config.Types = []string{"XGamma", "AlphaBeta", "Holder", "Meta"}
		v.Config.RequiredFields, v.Config.ComputedFields = nil, nil
		v.NoRun = true
		out = append(out, v)
	}
	{
		// two selected types that each hold a message without fields (the placeholder attribute is built once
		// per occurrence): alone and together
		for i, sel := range [][]string{{"MarkA"}, {"MarkB"}, {"MarkA", "MarkB"}, {"MarkB", "MarkA", "Marker"}} {
			v := variant(base, fmt.Sprintf("f_multi_mark%d", i), "selection", "C01", "C12")
			v.Spec.Messages = append(v.Spec.Messages, M("Marker", nil),
				M("MarkA", nil, F("Name", "string"), F("Marker", "msg:Marker")),
				M("MarkB", nil, F("Count", "int64"), F("Flag", "msg:Marker", nn()), F("Flags", "msg:Marker", rep())))
			v.Config.Types = sel
			v.Config.RequiredFields, v.Config.ComputedFields = nil, nil
			v.NoRun = true
			out = append(out, v)
		}
	}
	{
		v := variant(base, "f_multi_extra", "extension", "C01", "C12")
		v.Spec.Messages = append([]spec.Msg{M("Unrelated1", nil, F("X", "string"), F("Y", "map:int64"))}, v.Spec.Messages...)
		v.Spec.Messages = append(v.Spec.Messages, M("Unrelated2", []string{"Z"}, F("A", "bool", oneof(0)), F("B", "msg:Unrelated1", oneof(0))))
		v.Spec.Deps = []spec.Dep{{File: "other/dep.proto", Package: "otherdep", GoPackage: "verifcorpus/f_multi_extra/otherdep", Messages: []spec.Msg{M("DepMsg", nil, F("Q", "string")), M("DepOther", nil, F("R", "msg:DepMsg"))}}}
		v.NoRun = true
		out = append(out, v)
	}

	// ---- C12 (and C02/C10): a selected type whose nested message types are defined in another file of the
	// request, with their own comments; extensions add a documented message at the same index to the file
	// being generated
	{
		depPk := "pkdep_f_cross"
		dep := spec.Dep{File: "common/common.proto", Package: depPk, GoPackage: "verifcorpus/f_cross/dep", Messages: []spec.Msg{
			M("Paging", nil, F("Page", "int32"), F("PerPage", "int32")),
			M("Labels", nil, F("Key", "string"), F("Value", "string"), F("More", "string", rep())),
		}}
		order := M("Order", nil, F("Id", "string"), F("Labels", "msg:."+depPk+".Labels"), F("Paging", "msg:."+depPk+".Paging", nn()),
			F("LabelList", "msg:."+depPk+".Labels", rep()), F("Tags", "string", rep()))
		cb := prog("f_cross", append([]string{"C12"}, convProps...), baseConfig("Order"), nil, order)
		cb.Spec.Deps = []spec.Dep{dep}
		// gogo refers to the other package by its name; the import path is the user's to give (README)
		cb.Config.ImportPathOverrides = map[string]string{"dep": dep.GoPackage}
		cb.Family, cb.Role = "f_cross", "base"
		out = append(out, cb)
		invoice := M("Invoice", nil, F("Number", "string"), F("Amount", "int64"))
		ext := variant(cb, "f_cross_ext", "extension", "C01", "C12")
		ext.Spec.Messages = append(ext.Spec.Messages, invoice)
		ext.NoRun = true
		out = append(out, ext)
		sel := variant(cb, "f_cross_sel", "selection", "C01", "C12")
		sel.Spec.Messages = append(sel.Spec.Messages, invoice)
		sel.Config.Types = []string{"Order", "Invoice"}
		sel.NoRun = true
		out = append(out, sel)
		pre := variant(cb, "f_cross_pre", "extension", "C01", "C12")
		pre.Spec.Messages = append([]spec.Msg{M("Receipt", nil, F("Total", "int64"), F("Note", "string"), F("Paid", "bool"))}, pre.Spec.Messages...)
		pre.NoRun = true
		out = append(out, pre)
	}

	// ---- C13: separate package
	sepBases := []*spec.Program{base}
	for _, a := range Atlas() {
		switch a.ID {
		case "a_scalars", "a_lists", "a_casts", "a_oneof", "a_embed", "a_embedn", "a_embednc", "a_msgs", "a_temporal", "a_custom", "a_empty", "a_embednoneof", "a_maps", "a_mapbytes", "a_valuenames":
			if thorough || a.ID == "a_scalars" || a.ID == "a_lists" || a.ID == "a_mapbytes" || a.ID == "a_casts" || a.ID == "a_oneof" || a.ID == "a_embednc" || a.ID == "a_msgs" || a.ID == "a_custom" || a.ID == "a_temporal" || a.ID == "a_maps" {
				sepBases = append(sepBases, a)
			}
		}
	}
	{
		// a base with map options under plain keys, and its separate-package twin that carries the same keys once more,
		// qualified with the package name and with other values: only the documented key forms count (a
		// "normalisation" of such keys would make two entries of a map collide)
		kb := variant(base, "f_keys", "base", "C01", "C13")
		kb.Family = "f_keys"
		// "Leaf.Str" in general, and an exception at one place it is reached: the path form wins there
		kb.Config.NameOverrides = map[string]string{"Alpha.Id": "ident", "Beta.Count": "how_many", "Leaf.Str": "text", "Alpha.M1.Leaf.Str": "text_of_m1", "Beta.L.Str": "text_of_beta"}
		kb.Config.Validators = map[string][]string{"Alpha.Id": {spec.SupportPkg + `.V("real")`}, "Leaf.Num": {spec.SupportPkg + `.V("general")`}, "Alpha.M1.Leaf.Num": {spec.SupportPkg + `.V("specific")`}}
		kb.Config.PlanModifiers = map[string][]string{"Leaf.Tags": {spec.SupportPkg + `.PM("general")`}, "Beta.L.Tags": {spec.SupportPkg + `.PM("specific")`}}
		out = append(out, kb)
		kv := variant(kb, "f_keys_sep", "separate-package", "C01", "C13", "C14")
		kv.Family = "f_keys"
		kv.Config.DefaultPackageName = "verifcorpus/f_keys_sep/pk"
		kv.Config.TargetPackageName = "tf"
		kv.Config.Validators = map[string][]string{}
		for k, v := range kb.Config.Validators {
			kv.Config.Validators[k] = v
		}
		for _, k := range []string{"Alpha.Id", "Beta.Count", "Leaf.Str"} {
			kv.Config.NameOverrides["pk."+k] = "decoy_" + strings.ToLower(strings.ReplaceAll(k, ".", "_"))
		}
		kv.Config.Validators["pk.Alpha.Id"] = []string{spec.SupportPkg + `.V("decoy-pk")`}
		out = append(out, kv)
	}
	for _, b := range sepBases {
		v := variant(b, b.ID+"_sep", "separate-package", "C01", "C13")
		v.Config.DefaultPackageName = "verifcorpus/" + v.ID + "/pk"
		v.Config.TargetPackageName = "tf"
		out = append(out, v)
		if b == base || thorough {
			w := variant(b, b.ID+"_sepov", "separate-package-override", "C01", "C13")
			w.Config.DefaultPackageName = "structs"
			w.Config.TargetPackageName = "tfgen"
			w.Config.ImportPathOverrides = map[string]string{"structs": "verifcorpus/" + w.ID + "/pk"}
			out = append(out, w)
		}
	}

	// ---- C14: permuted configuration entries (and repeated runs, done by prepare for every program)
	flags := Atlas()
	var flagsP *spec.Program
	for _, a := range flags {
		if a.ID == "a_flags" {
			flagsP = a
		}
	}
	nperm := 3
	if thorough {
		nperm = 12
	}
	for i := 1; i <= nperm; i++ {
		v := variant(flagsP, fmt.Sprintf("a_flags_perm%d", i), "config-permutation", "C14")
		v.Delivery.Perm = int64(r.u64()>>1) | 1
		v.NoRun = true
		out = append(out, v)
		w := variant(base, fmt.Sprintf("f_multi_perm%d", i), "config-permutation", "C14")
		w.Delivery.Perm = int64(r.u64()>>1) | 1
		w.Delivery.CLI = []string{"types", "required_fields"}
		w.NoRun = true
		out = append(out, w)
	}

	// ---- C15: declaration order
	orderBases := []*spec.Program{base, flagsP}
	for _, p := range out {
		if p.ID == "f_cross_sel" {
			// documented messages of ANOTHER file below messages of this one: permuting this file must not move them
			ob := variant(p, "f_crossord", "base", append([]string{"C15"}, convProps...)...)
			ob.Family = "f_crossord"
			ob.NoRun = false
			out = append(out, ob)
			orderBases = append(orderBases, ob)
		}
	}
	for _, a := range Atlas() {
		if a.ID == "a_oneof" || a.ID == "a_embed" || a.ID == "a_embedncustom" || a.ID == "a_embedsort" || (thorough && (a.ID == "a_msgs" || a.ID == "a_temporal" || a.ID == "a_names")) {
			orderBases = append(orderBases, a)
		}
	}
	for _, b := range orderBases {
		// sorted twin of the base, then permutations of both
		s0 := variant(b, b.ID+"_sorted", "sorted-base", "C15")
		s0.Config.Sort = true
		s0.NoRun = true
		out = append(out, s0)
		np := 2
		if thorough {
			np = 5
		}
		for i := 0; i <= np; i++ {
			pr := newPrng(r.u64())
			v := variant(b, fmt.Sprintf("%s_ord%d", b.ID, i), "order-unsorted", "C15")
			if i == 0 {
				// the reversal of every field list and of the message list (deterministic: every pair of fields swaps)
				for mi := range v.Spec.Messages {
					fs := v.Spec.Messages[mi].Fields
					for a, z := 0, len(fs)-1; a < z; a, z = a+1, z-1 {
						fs[a], fs[z] = fs[z], fs[a]
					}
				}
				ms := v.Spec.Messages
				for a, z := 0, len(ms)-1; a < z; a, z = a+1, z-1 {
					ms[a], ms[z] = ms[z], ms[a]
				}
			} else {
				permuteSpec(&v.Spec, pr)
			}
			out = append(out, v)
			w := variant(s0, fmt.Sprintf("%s_sord%d", b.ID, i), "order-sorted", "C15")
			w.Family = b.ID
			w.Spec.Messages = nil
			w.Spec = v.Clone().Spec
			w.Spec.Package, w.Spec.GoPackage = "pk_"+w.ID, "verifcorpus/"+w.ID+"/pk"
			w.Config.Sort = true
			w.NoRun = true
			out = append(out, w)
		}
	}

	// ---- C16: channels
	{
		cb := variant(base, "f_chan_base", "channel-base", "C16")
		cb.Family = "f_chan_base"
		cb.Config.ExcludeFields = []string{"Alpha.When", "Leaf.Num"}
		cb.Config.SensitiveFields = []string{"Leaf.Str"}
		cb.Config.RequiredFields = []string{"Alpha.Id", "Beta.Id"}
		cb.Config.ComputedFields = []string{"Beta.Count", "Alpha.M1.Name"}
		cb.Config.Sort = true
		cb.Config.DurationCustomType = "Duration"
		// fields whose treatment depends on the custom duration type (the decoy value in the file must lose)
		if m := cb.Spec.MsgByName("Beta"); m != nil {
			m.Fields = append(m.Fields, spec.Field{Name: "Ttl", Type: "int64", CastType: "Duration", Num: 60}, spec.Field{Name: "Grace", Type: "int64", CastType: "LeaseDuration", Num: 61},
				// list elements with underscores ("+" is the only separator)
				spec.Field{Name: "secret_token", Type: "string", Num: 62}, spec.Field{Name: "api_key_id", Type: "string", Num: 63}, spec.Field{Name: "old_note", Type: "string", Num: 64})
		}
		cb.Config.SensitiveFields = append(cb.Config.SensitiveFields, "Beta.secret_token")
		cb.Config.ComputedFields = append(cb.Config.ComputedFields, "Beta.api_key_id")
		cb.Config.ExcludeFields = append(cb.Config.ExcludeFields, "Beta.old_note")
		cb.NoRun = true
		out = append(out, cb)
		dual := []string{"types", "exclude_fields", "computed_fields", "required_fields", "sensitive", "custom_duration", "sort"}
		mk := func(id string, d spec.Delivery) {
			v := variant(cb, id, "channel", "C16")
			v.Family = "f_chan_base"
			v.Delivery = d
			v.NoRun = true
			out = append(out, v)
		}
		mk("f_chan_allcli", spec.Delivery{CLI: dual})
		mk("f_chan_pad", spec.Delivery{CLI: dual, Pad: true, SortSpelling: "TRUE"})
		mk("f_chan_decoy", spec.Delivery{CLI: dual, Decoy: dual})
		mk("f_chan_sort1", spec.Delivery{CLI: []string{"sort"}, SortSpelling: "1"})
		mk("f_chan_sortT", spec.Delivery{CLI: []string{"sort", "types"}, SortSpelling: "T", Decoy: []string{"sort"}})
		ns := 3
		if thorough {
			ns = 16
		}
		for i := 0; i < ns; i++ {
			var cli, decoy []string
			for _, k := range dual {
				if r.p(1, 2) {
					cli = append(cli, k)
					if r.p(1, 3) {
						decoy = append(decoy, k)
					}
				}
			}
			mk(fmt.Sprintf("f_chan_split%d", i), spec.Delivery{CLI: cli, Decoy: decoy, Perm: int64(r.n(1000))})
		}
		// single-element lists on the command line against OTHER real entries in the file: the command line replaces
		{
			ob := variant(base, "f_chan1_base", "channel-base", "C16")
			ob.Family = "f_chan1_base"
			ob.Config.Types = []string{"Alpha", "Beta"}
			ob.Config.ExcludeFields = []string{"Alpha.When"}
			ob.Config.ComputedFields = []string{"Beta.Count"}
			ob.Config.RequiredFields = []string{"Alpha.Id"}
			ob.Config.SensitiveFields = []string{"Leaf.Str"}
			ob.NoRun = true
			out = append(out, ob)
			ov := variant(ob, "f_chan1_cli", "channel", "C16")
			ov.Family = "f_chan1_base"
			ov.Delivery = spec.Delivery{CLI: []string{"exclude_fields", "computed_fields", "required_fields", "sensitive"}, Decoy: []string{"exclude_fields", "computed_fields", "required_fields", "sensitive"}, DecoyReal: true}
			ov.NoRun = true
			out = append(out, ov)
		}
		// the unsorted twin: a command line sort=false must win over sort: true in the file
		ub := variant(base, "f_chanuns_base", "channel-base", "C16")
		ub.Family = "f_chanuns_base"
		ub.Config.Sort = false
		ub.Config.RequiredFields = []string{"Beta.Id"}
		ub.NoRun = true
		out = append(out, ub)
		for i, d := range []spec.Delivery{
			{CLI: []string{"sort"}, Decoy: []string{"sort"}},
			{CLI: []string{"sort", "types", "required_fields"}, Decoy: []string{"sort", "required_fields"}, SortSpelling: "FALSE"},
			{CLI: []string{"sort"}, Decoy: []string{"sort"}, SortSpelling: "0", Pad: true},
		} {
			v := variant(ub, fmt.Sprintf("f_chanuns_%d", i), "channel", "C16")
			v.Family = "f_chanuns_base"
			v.Delivery = d
			v.NoRun = true
			out = append(out, v)
		}
		// package options through both channels (the output lands in another package: compared among themselves)
		pb := variant(base, "f_chanpkg_base", "channel-base", "C16")
		pb.Family = "f_chanpkg_base"
		pb.Config.DefaultPackageName = "verifcorpus/f_chanpkg_base/pk"
		pb.Config.TargetPackageName = "tf"
		pb.NoRun = true
		out = append(out, pb)
		pv := variant(pb, "f_chanpkg_cli", "channel", "C16")
		pv.Family = "f_chanpkg_base"
		pv.Spec.GoPackage = pb.Spec.GoPackage // same struct package so that the outputs are comparable byte for byte
		pv.Spec.Package = pb.Spec.Package
		pv.Delivery = spec.Delivery{CLI: []string{"default_package_name", "target_package_name", "types"}, Decoy: []string{"target_package_name"}}
		pv.NoRun = true
		out = append(out, pv)
		// everything on the command line, no YAML at all
		nb := variant(base, "f_noyaml_base", "channel-base", "C16")
		nb.Family = "f_noyaml_base"
		nb.Config = spec.Config{Types: []string{"Beta", "Gamma"}, RequiredFields: []string{"Beta.Id"}, Sort: true}
		nb.NoRun = true
		out = append(out, nb)
		nv := variant(nb, "f_noyaml_cli", "channel", "C16")
		nv.Family = "f_noyaml_base"
		nv.Delivery = spec.Delivery{NoYAML: true}
		nv.NoRun = true
		out = append(out, nv)
		// failures
		f1 := variant(nb, "f_fail_notypes", "must-fail", "C16")
		f1.Config.Types = nil
		f1.ExpectFail, f1.NoRun = true, true
		out = append(out, f1)
		f2 := variant(nb, "f_fail_notypes_cli", "must-fail", "C16")
		f2.Config.Types = nil
		f2.Delivery = spec.Delivery{NoYAML: true}
		f2.ExpectFail, f2.NoRun = true, true
		out = append(out, f2)
		f3 := variant(nb, "f_fail_missing", "must-fail", "C16")
		f3.Delivery = spec.Delivery{YAMLFault: "missing"}
		f3.ExpectFail, f3.NoRun = true, true
		out = append(out, f3)
		f4 := variant(nb, "f_fail_malformed", "must-fail", "C16")
		f4.Delivery = spec.Delivery{YAMLFault: "malformed"}
		f4.ExpectFail, f4.NoRun = true, true
		out = append(out, f4)
		// a file that exists but cannot be parsed / decoded / read, with everything the generator needs on the
		// command line: the run must still fail
		for _, fault := range []string{"malformed", "mistyped", "directory"} {
			fx := variant(nb, "f_fail_"+fault+"_cli", "must-fail", "C16")
			fx.Delivery = spec.Delivery{YAMLFault: fault, CLI: []string{"types", "required_fields", "sort"}}
			fx.ExpectFail, fx.NoRun = true, true
			out = append(out, fx)
		}
		f5 := variant(nb, "f_fail_missing_cli", "must-fail", "C16")
		f5.Delivery = spec.Delivery{YAMLFault: "missing", CLI: []string{"types", "required_fields", "sort"}}
		f5.ExpectFail, f5.NoRun = true, true
		out = append(out, f5)
	}

	// ---- C18: one unmappable field at some depth
	{
		type inj struct {
			msg           string
			field         spec.Field
			notime, nodur bool
			roots         []string
		}
		injs := []inj{
			{"Leaf", F("BadTime", "timestamp", stdtime()), true, false, []string{"Alpha", "Beta"}},
			{"Mid", F("BadDur", "duration", stddur()), false, true, []string{"Alpha", "Beta"}},
			{"Beta", F("BadMap", "map:int32,string"), false, false, []string{"Beta"}},
			{"Gamma", F("BadTop", "timestamp", stdtime(), nn()), true, false, []string{"Gamma"}},
			// an int64 cast to the configured custom duration type is a duration too: unmappable without duration_type
			{"Leaf", F("BadCastDur", "int64", cast("Duration")), false, true, []string{"Alpha", "Beta"}},
			// the unmappable field is the ONLY field of its message (which the reference declares without fields)
			{"Solo", F("BadOnly", "timestamp", stdtime()), true, false, []string{"Alpha"}},
			// time.Duration stays a duration when a custom duration type is configured as well
			{"Mid", F("BadStdCast", "int64", cast("time.Duration")), false, true, []string{"Alpha", "Beta"}},
			// the unmappable field is a BRANCH of the selected type's oneof
			{"Alpha", F("BadPick", "int64", cast("time.Duration"), oneof(0)), false, true, []string{"Alpha"}},
			// ... or sits in a message that is reached through a oneof branch only
			{"PickOnly", F("BadDeep", "int64", cast("time.Duration")), false, true, []string{"Alpha"}},
		}
		if thorough {
			injs = append(injs, inj{"Leaf", F("BadKey", "map:bool,msg:Leaf"), false, false, []string{"Alpha", "Beta"}},
				inj{"Mid", F("BadTimeList", "timestamp", rep(), stdtime()), true, false, []string{"Alpha", "Beta"}})
		}
		for i, in := range injs {
			// reference: the same configuration without the field
			ref := variant(base, fmt.Sprintf("f_unmap%d_ref", i), "unmappable-ref", "C18")
			ref.Family = ref.ID
			ref.Config.Types = []string{"Alpha", "Beta", "Gamma"}
			if in.notime {
				ref.Config.TimeType = false
				// no other time field may exist
				ref.Spec.Messages[2].Fields = removeField(ref.Spec.Messages[2].Fields, "When")
			}
			if in.nodur {
				ref.Config.DurationType = false
			}
			if in.msg == "Solo" {
				ref.Spec.Messages = append(ref.Spec.Messages, M("Solo", nil))
				if a := ref.Spec.MsgByName("Alpha"); a != nil {
					a.Fields = append(a.Fields, spec.Field{Name: "Solo", Type: "msg:Solo", Num: 70}, spec.Field{Name: "Solos", Type: "map:msg:Solo", Num: 71})
				}
			}
			if in.msg == "PickOnly" {
				ref.Spec.Messages = append(ref.Spec.Messages, M("PickOnly", nil, F("Note", "string")))
				if a := ref.Spec.MsgByName("Alpha"); a != nil {
					zero := int32(0)
					a.Fields = append(a.Fields, spec.Field{Name: "PickOnly", Type: "msg:PickOnly", Num: 72, Oneof: &zero})
				}
			}
			if in.msg == "Gamma" {
				// a mappable selected type, declared before the failing one, whose name starts with the failing
				// type's name: it must not share the failing type's fate
				var ms []spec.Msg
				for _, m := range ref.Spec.Messages {
					if m.Name == "Gamma" {
						ms = append(ms, M("GammaV2", nil, F("Name", "string"), F("Count", "int32")))
					}
					ms = append(ms, m)
				}
				ref.Spec.Messages = ms
				ref.Config.Types = append(ref.Config.Types, "GammaV2")
			}
			ref.NoRun = true
			out = append(out, ref)
			bad := variant(ref, fmt.Sprintf("f_unmap%d_bad", i), "unmappable", "C18")
			bad.Family = ref.Family
			m := bad.Spec.MsgByName(in.msg)
			f := in.field
			f.Num = 90
			m.Fields = append(m.Fields, f)
			bad.Unmappable = in.msg + "." + f.Name
			bad.UnmappableRoots = reaching(&bad.Spec, bad.Config.Types, in.msg)
			bad.NoRun = true
			out = append(out, bad)
			ex := variant(bad, fmt.Sprintf("f_unmap%d_excl", i), "unmappable-excluded", "C18")
			ex.Family = ref.Family
			ex.Config.ExcludeFields = append(ex.Config.ExcludeFields, in.msg+"."+f.Name)
			ex.Unmappable, ex.UnmappableRoots = "", nil
			ex.NoRun = true
			out = append(out, ex)
			// the field excluded by PATH at the first place only where its message is reached: the other places still
			// reach it, so the selected types stay unmappable
			if in.msg == "Leaf" || in.msg == "Mid" {
				px := variant(bad, fmt.Sprintf("f_unmap%d_pexcl", i), "unmappable", "C18")
				px.Family = ref.Family
				excluded := ""
				for _, root := range px.Config.Types {
					for _, o := range px.Spec.Occurrences(root) {
						if o.MsgKey == in.msg+"."+f.Name && excluded == "" {
							excluded = o.Path
						}
					}
				}
				px.Config.ExcludeFields = append(px.Config.ExcludeFields, excluded)
				px.UnmappableRoots = nil
				for _, root := range px.Config.Types {
					for _, o := range px.Spec.Occurrences(root) {
						if o.MsgKey == in.msg+"."+f.Name && o.Path != excluded {
							px.UnmappableRoots = append(px.UnmappableRoots, root)
							break
						}
					}
				}
				px.NoRun = true
				out = append(out, px)
			}
		}
	}

	// ---- C11: options addressed by <Message>.<field> to the fields of a message embedded directly in a root
	for _, a := range Atlas() {
		if a.ID == "a_embed" {
			v := variant(a, "a_embed_opt", "option-embedded", "C11")
			out = append(out, v)
		}
	}

	// ---- C11: field-addressed options, both key forms, several occurrences
	{
		cb := variant(base, "f_opt_base", "option-base", "C11")
		cb.Family = "f_opt_base"
		cb.Config.Types = []string{"Alpha", "Beta"}
		cb.Config.RequiredFields, cb.Config.ComputedFields = nil, nil
		out = append(out, cb)
		type ov struct {
			id  string
			set func(c *spec.Config)
			key string
		}
		vtag := spec.SupportPkg + `.V("c11")`
		ptag := spec.SupportPkg + `.PM("c11")`
		keys := []string{"Alpha.M1.Leaf.Str", "Leaf.Str", "Beta.Mids.Name", "Mid.Leaves", "Alpha.M2.LeafMap.Num", "Beta.L.Num", "Alpha.L.Str", "Beta.M1.Leaf.Tags", "Alpha.PickLeaf.Tags", "Alpha.L", "Leaf.Tags"}
		if !thorough {
			keys = keys[:8]
		}
		var ovs []ov
		for ki, k := range keys {
			k := k
			ovs = append(ovs,
				ov{fmt.Sprintf("excl%d", ki), func(c *spec.Config) { c.ExcludeFields = append(c.ExcludeFields, k) }, k},
				ov{fmt.Sprintf("req%d", ki), func(c *spec.Config) { c.RequiredFields = append(c.RequiredFields, k) }, k},
				ov{fmt.Sprintf("name%d", ki), func(c *spec.Config) {
					if c.NameOverrides == nil {
						c.NameOverrides = map[string]string{}
					}
					c.NameOverrides[k] = "renamed_c11"
				}, k},
			)
			if thorough || ki < 2 {
				ovs = append(ovs,
					ov{fmt.Sprintf("comp%d", ki), func(c *spec.Config) { c.ComputedFields = append(c.ComputedFields, k) }, k},
					ov{fmt.Sprintf("sens%d", ki), func(c *spec.Config) { c.SensitiveFields = append(c.SensitiveFields, k) }, k},
					ov{fmt.Sprintf("val%d", ki), func(c *spec.Config) {
						if c.Validators == nil {
							c.Validators = map[string][]string{}
						}
						c.Validators[k] = []string{vtag}
					}, k},
					ov{fmt.Sprintf("pm%d", ki), func(c *spec.Config) {
						if c.PlanModifiers == nil {
							c.PlanModifiers = map[string][]string{}
						}
						c.PlanModifiers[k] = []string{ptag}
					}, k},
				)
			}
		}
		for _, o := range ovs {
			v := variant(cb, "f_opt_"+o.id, "option:"+o.key, "C11")
			v.Family = "f_opt_base"
			o.set(&v.Config)
			v.Note = o.key
			out = append(out, v)
			if strings.HasPrefix(o.id, "excl") {
				// twin: the field does not exist at all where the key addresses every occurrence (Message.Field form)
				parts := strings.Split(o.key, ".")
				if len(parts) == 2 {
					w := variant(cb, "f_opt_"+o.id+"_absent", "absent:"+o.key, "C11")
					w.Family = "f_opt_base"
					if m := w.Spec.MsgByName(parts[0]); m != nil {
						m.Fields = removeField(m.Fields, parts[1])
					}
					w.Note = o.key
					w.NoRun = true
					out = append(out, w)
				}
			}
		}
		// the same options when the nested message types are selected types themselves (types=Alpha+Beta+Mid+Leaf):
		// a path-form key through Alpha or Beta still addresses that occurrence only, and a path-form key
		// rooted at the nested type addresses the nested type's own schema only
		{
			sb := variant(base, "f_optsel_base", "option-base", "C11")
			sb.Family = "f_optsel_base"
			sb.Config.Types = []string{"Alpha", "Beta", "Mid", "Leaf"}
			sb.Config.RequiredFields, sb.Config.ComputedFields = nil, nil
			out = append(out, sb)
			selKeys := []string{"Alpha.M1.Leaf.Str", "Beta.Mids.Name", "Mid.Leaf.Num", "Beta.L.Num", "Mid.Leaves.Tags"}
			for ki, k := range selKeys {
				k := k
				for _, o := range []ov{
					{fmt.Sprintf("excl%d", ki), func(c *spec.Config) { c.ExcludeFields = append(c.ExcludeFields, k) }, k},
					{fmt.Sprintf("sens%d", ki), func(c *spec.Config) { c.SensitiveFields = append(c.SensitiveFields, k) }, k},
					{fmt.Sprintf("name%d", ki), func(c *spec.Config) {
						if c.NameOverrides == nil {
							c.NameOverrides = map[string]string{}
						}
						c.NameOverrides[k] = "renamed_c11"
					}, k},
				} {
					if !thorough && ki >= 3 && !strings.HasPrefix(o.id, "excl") {
						continue
					}
					v := variant(sb, "f_optsel_"+o.id, "option:"+o.key, "C11")
					v.Family = "f_optsel_base"
					o.set(&v.Config)
					v.Note = o.key
					out = append(out, v)
				}
			}
		}
		// embedded below the root: the documented path semantics (F7)
		for _, a := range Atlas() {
			if a.ID == "a_embedsub" {
				e1 := variant(a, "a_embedsub_exclpath", "option:Root.S.X", "C11")
				e1.Config.ExcludeFields = []string{"Root.S.X"}
				out = append(out, e1)
				// a flag addressed to the nested message field itself: the attribute of that field, not the attributes
				// promoted into its message from an embedded one
				for i, key := range []string{"Root.S", "Root.T"} {
					e3 := variant(a, fmt.Sprintf("a_embedsub_flag%d", i), "option:"+key, "C11")
					e3.Config.SensitiveFields = []string{key}
					e3.Config.ComputedFields = []string{key}
					out = append(out, e3)
				}
				e2 := variant(a, "a_embedsub_exclkey", "option:Emb.X", "C11")
				e2.Config.ExcludeFields = []string{"Emb.X"}
				out = append(out, e2)
			}
		}
	}
	sort.SliceStable(out, func(i, j int) bool { return false })
	return out
}

func removeField(fs []spec.Field, name string) []spec.Field {
	var o []spec.Field
	for _, f := range fs {
		if f.Name != name {
			o = append(o, f)
		}
	}
	return o
}

// reaching lists the selected roots from which message target is reachable.
func reaching(s *spec.Spec, types []string, target string) []string {
	var out []string
	var reach func(m string, seen map[string]bool) bool
	reach = func(m string, seen map[string]bool) bool {
		if m == target {
			return true
		}
		if seen[m] {
			return false
		}
		seen[m] = true
		msg := s.MsgByName(m)
		if msg == nil {
			return false
		}
		for _, f := range msg.Fields {
			t := f.Type
			if strings.HasPrefix(t, "map:") {
				t = t[4:]
				if i := strings.Index(t, ","); i >= 0 {
					t = t[i+1:]
				}
			}
			if strings.HasPrefix(t, "msg:") && reach(t[4:], seen) {
				return true
			}
		}
		return false
	}
	for _, t := range types {
		if reach(t, map[string]bool{}) {
			out = append(out, t)
		}
	}
	sort.Strings(out)
	return out
}
