package corpus

import (
	"fmt"
	"strings"

	strcase "github.com/stoewer/go-strcase"

	"verifharness/spec"
)

// Random programs: random message DAGs over the atoms of DESIGN §3.3 with random names (§3.2),
// comments, declaration orders and configurations (§3.5). Everything derives from one PRNG state.

var words = []string{"alpha", "beta", "gamma", "delta", "eps", "zeta", "eta", "theta", "iota", "kappa", "lam", "mu", "nu", "xi", "omi", "pi", "rho", "sigma", "tau", "ups", "phi", "chi", "psi", "omega", "http", "id", "url", "spec", "meta", "v"}

type namer struct {
	r    *prng
	goNm map[string]bool
	attr map[string]bool
}

func (n *namer) fresh() string {
	for tries := 0; ; tries++ {
		k := 1 + n.r.n(3)
		var parts []string
		for i := 0; i < k; i++ {
			parts = append(parts, words[n.r.n(len(words))])
		}
		var name string
		if n.r.p(1, 3) {
			name = strings.Join(parts, "_") // lower_snake
		} else {
			for _, p := range parts {
				if n.r.p(1, 8) {
					name += strings.ToUpper(p) // acronym: HTTPServer
				} else {
					name += strings.ToUpper(p[:1]) + p[1:]
				}
			}
			if n.r.p(1, 6) {
				name += fmt.Sprintf("%d", 1+n.r.n(64)) // digits only at the end
			}
		}
		g := spec.GoFieldName(name)
		a := strcase.SnakeCase(name)
		// both naming functions must agree (DESIGN §3.2) and the names must be free
		if strcase.UpperCamelCase(name) != g && name[:1] == strings.ToLower(name[:1]) {
			continue
		}
		if n.goNm[g] || n.attr[a] || g == "Descriptor" || g == "Reset" || g == "String" || g == "ProtoMessage" || strings.HasPrefix(g, "XXX") {
			continue
		}
		n.goNm[g], n.attr[a] = true, true
		return name
	}
}

var randScalars = []string{"double", "float", "int32", "int64", "uint32", "uint64", "sint32", "sint64", "fixed32", "fixed64", "sfixed32", "sfixed64", "bool", "string", "bytes"}

func randComment(r *prng) string {
	switch r.n(7) {
	case 0:
		return ""
	case 5:
		return " the package holding it\n package main\n"
	case 1:
		return " one line\n"
	case 2:
		return " first\n   second, indented  \n third\n"
	case 3:
		return " windows line\r\n next\r\n"
	case 4:
		return "\n\n  padded  \n\n"
	}
	return " describes \"it\" with quotes and a \\ backslash\n"
}

// RandomProgram generates one program.
func RandomProgram(id string, seed uint64) *spec.Program {
	r := newPrng(seed)
	nm := &namer{r: r, goNm: map[string]bool{}, attr: map[string]bool{}}
	nmsg := 3 + r.n(5)
	var msgs []spec.Msg
	msgNames := []string{}
	hasTime, hasDur := false, false
	nonEmpty := []string{}
	embeddable := []string{} // messages without embedded fields and without oneofs of their own
	for mi := 0; mi < nmsg; mi++ {
		name := fmt.Sprintf("Msg%c%d", 'A'+mi, r.n(90))
		if mi == 1 && r.p(1, 3) {
			msgs = append(msgs, M(name, nil))
			msgNames = append(msgNames, name)
			continue
		}
		var fs []spec.Field
		var oneofs []string
		nf := 1 + r.n(8)
		simpleOnly := true
		for fi := 0; fi < nf; fi++ {
			fname := nm.fresh()
			var f spec.Field
			switch k := r.n(20); {
			case k < 6:
				f = F(fname, randScalars[r.n(len(randScalars))])
			case k < 7:
				f = F(fname, "enum:Mode")
			case k < 9:
				f = F(fname, randScalars[r.n(len(randScalars))], rep())
			case k < 11:
				s := randScalars[r.n(len(randScalars))]
				f = F(fname, "map:"+s)
			case k < 12:
				base := []string{"int32", "int64", "uint32", "uint64", "float", "double", "bool", "string"}[r.n(8)]
				f = F(fname, base, cast(castOf[base]))
				if r.p(1, 3) {
					f.Repeated = true
				}
			case k < 14:
				hasTime = true
				f = F(fname, "timestamp", stdtime())
				switch r.n(4) {
				case 0:
					f.Nullable = boolp(false)
				case 1:
					f.Repeated = true
				case 2:
					f = F(fname, "map:timestamp", stdtime())
				}
			case k < 15:
				hasDur = true
				switch r.n(4) {
				case 0:
					f = F(fname, "duration", stddur())
				case 1:
					f = F(fname, "duration", stddur(), nn())
				case 2:
					f = F(fname, "int64", stddur())
				default:
					f = F(fname, "int64", cast("Duration"))
				}
			default:
				if len(msgNames) == 0 {
					f = F(fname, "string")
					break
				}
				target := msgNames[r.n(len(msgNames))]
				switch r.n(6) {
				case 0:
					f = F(fname, "msg:"+target)
				case 1:
					f = F(fname, "msg:"+target, nn())
				case 2:
					f = F(fname, "msg:"+target, rep())
				case 3:
					f = F(fname, "msg:"+target, rep(), nn())
				case 4:
					f = F(fname, "map:msg:"+target)
				default:
					f = F(fname, "map:msg:"+target, nn())
				}
			}
			if r.p(1, 6) && f.JSONTag == nil {
				tag := []string{strcase.SnakeCase(fname) + "_tag", strcase.SnakeCase(fname) + "_t,omitempty", "-", "", ",omitempty"}[r.n(5)]
				if !nm.attr[strings.Split(tag, ",")[0]] {
					f.JSONTag = &tag
					if h := strings.Split(tag, ",")[0]; h != "" && h != "-" {
						nm.attr[h] = true
					}
				}
			}
			f.Comment = randComment(r)
			fs = append(fs, f)
		}
		// oneof groups
		if r.p(1, 3) {
			ng := 1 + r.n(2)
			for g := 0; g < ng; g++ {
				oname := nm.fresh()
				oneofs = append(oneofs, oname)
				nb := 2 + r.n(3)
				for b := 0; b < nb; b++ {
					bname := nm.fresh()
					var f spec.Field
					switch k := r.n(6); {
					case k < 3:
						f = F(bname, randScalars[r.n(len(randScalars))], oneof(int32(g)))
					case k < 4:
						f = F(bname, "enum:Mode", oneof(int32(g)))
					default:
						if len(msgNames) > 0 {
							f = F(bname, "msg:"+msgNames[r.n(len(msgNames))], oneof(int32(g)))
						} else {
							f = F(bname, "string", oneof(int32(g)))
						}
					}
					f.Comment = randComment(r)
					fs = append(fs, f)
				}
			}
			simpleOnly = false
		}
		// embedded message
		if len(embeddable) > 0 && r.p(1, 4) {
			target := embeddable[r.n(len(embeddable))]
			e := F(target, "msg:"+target, embed())
			if r.p(1, 2) {
				e.Nullable = boolp(false)
			}
			// every embeddable message is embedded at most once per program (names are global)
			var rest []string
			for _, x := range embeddable {
				if x != target {
					rest = append(rest, x)
				}
			}
			embeddable = rest
			fs = append(fs, e)
			simpleOnly = false
		}
		// field numbers are assigned before the declaration order is shuffled, with gaps (retired tags),
		// so that a field's number is unrelated to its position
		num := int32(0)
		for i := range fs {
			num += 1 + int32(r.n(3))
			fs[i].Num = num
		}
		// shuffle declaration order
		for i := len(fs) - 1; i > 0; i-- {
			j := r.n(i + 1)
			fs[i], fs[j] = fs[j], fs[i]
		}
		m := M(name, oneofs, fs...)
		for i := range m.Fields {
			m.Fields[i].Comment = fs[i].Comment
		}
		m.Comment = randComment(r)
		msgs = append(msgs, m)
		msgNames = append(msgNames, name)
		nonEmpty = append(nonEmpty, name)
		if simpleOnly {
			embeddable = append(embeddable, name)
		}
	}
	// configuration
	cfg := spec.Config{TimeType: true, DurationType: true, DurationCustomType: "Duration"}
	_ = hasTime
	_ = hasDur
	for _, n := range msgNames {
		if r.p(1, 2) {
			cfg.Types = append(cfg.Types, n)
		}
	}
	if len(cfg.Types) == 0 {
		cfg.Types = []string{msgNames[len(msgNames)-1]}
	}
	cfg.Sort = r.p(1, 2)
	cfg.UseStateForUnknownByDefault = r.p(1, 2)
	p := prog(id, convProps, cfg, []spec.Enum{modeEnum}, msgs...)
	p.Family, p.Role = id, "base"
	// per-field options at random occurrences, both key forms
	var occs []spec.Occ
	for _, t := range cfg.Types {
		occs = append(occs, p.Spec.Occurrences(t)...)
	}
	pick := func() string {
		o := occs[r.n(len(occs))]
		if r.p(1, 2) {
			return o.MsgKey
		}
		return o.Path
	}
	if len(occs) > 0 {
		for i := 0; i < r.n(4); i++ {
			p.Config.RequiredFields = append(p.Config.RequiredFields, pick())
		}
		for i := 0; i < r.n(4); i++ {
			p.Config.ComputedFields = append(p.Config.ComputedFields, pick())
		}
		for i := 0; i < r.n(3); i++ {
			p.Config.SensitiveFields = append(p.Config.SensitiveFields, pick())
		}
		if r.p(1, 2) {
			p.Config.Validators = map[string][]string{pick(): {spec.SupportPkg + `.V("r1")`}, pick(): {spec.SupportPkg + `.V("r2")`, spec.SupportPkg + `.V("r3")`}}
		}
		if r.p(1, 2) {
			p.Config.PlanModifiers = map[string][]string{pick(): {spec.SupportPkg + `.PM("m1")`}}
		}
		if r.p(1, 3) {
			p.Config.NameOverrides = map[string]string{}
			for i := 0; i < 1+r.n(2); i++ {
				o := occs[r.n(len(occs))]
				if o.Field.Embed {
					continue
				}
				p.Config.NameOverrides[o.Path] = fmt.Sprintf("renamed_%d", i)
			}
		}
		if r.p(1, 3) {
			o := occs[r.n(len(occs))]
			// exclusions that would leave a message without any field are outside D
			if m := p.Spec.MsgByName(o.Msg); m != nil && len(m.Fields) > 2 && !o.Field.Embed {
				p.Config.ExcludeFields = append(p.Config.ExcludeFields, o.Path)
			}
		}
		if r.p(1, 3) {
			root := cfg.Types[r.n(len(cfg.Types))]
			p.Config.InjectedFields = map[string][]spec.Injected{root: {{Name: "injected_id", Type: "github.com/hashicorp/terraform-plugin-framework/types.StringType", TyAbs: "str", Computed: true}}}
		}
	}
	if r.p(1, 4) {
		p.Config.DefaultPackageName = "verifcorpus/" + id + "/pk"
		p.Config.TargetPackageName = "tfgen"
	}
	return p
}

func boolp(b bool) *bool { return &b }

// Random returns n random programs.
func Random(n int, seed int64) []*spec.Program {
	var out []*spec.Program
	for i := 0; i < n; i++ {
		out = append(out, RandomProgram(fmt.Sprintf("r%03d", i), uint64(seed)*7919+uint64(i)*104729+17))
	}
	return out
}
