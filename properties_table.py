# property -> (header, [(property theorem name, proved lemma, gloss)])
# Read by gen_properties.py. Names ending in _partial cover a restricted class, named in the gloss.

T['C01'] = ("""C01 Generated file is a complete Go unit (partial: "type-checks and compiles" is decided by compiling
every generated file of the corpus, not by a theorem; see DESIGN.md section 7).""", [
    ('C01_response_shape', 'run_shape', 'a readable configuration yields exactly one response: file <go_package>/<base>_terraform.go, package = target_package_name else the proto\'s Go package, roots = the selected types that build'),
    ('C01_failure', 'run_fails', 'no response at all when the configuration cannot be read or names no type'),
    ('C01_roots_selected', 'C12_selected', 'the emitted roots are exactly the messages of the request named in types whose build succeeds'),
    ('C01_package_clause_shape', 'replace_package_name_shape', 'target_package_name: the text is returned unchanged or with exactly one line "package x" rewritten; everything before and after that line is kept'),
    ('C01_package_clause_first', 'replace_package_name_first', 'it is the first such line that is rewritten (string literals and comments further down that mention the word package are not)'),
    ('C01_package_clause_absent', 'replace_package_name_absent', 'a text without a package line is returned as it is'),
    ('C01_source_regexp', 'src_constants_agree', 'tie to the source: the regular expression of the package-clause rewrite and the import path constants, as read from main.go / imports.go / config.go on this run, are the ones the model uses'),
    ('C01_placeholder_only_flag_irrelevant_to', 'C01_placeholder_only_flag_irrelevant_to', 'a nested message whose only field is the placeholder (its own, or promoted from an embedded message without fields): CopyTo does the same whether the message counts as empty or not — the generator\'s IsEmpty and the model\'s m_empty may differ there (F16) without any observable difference'),
    ('C01_placeholder_only_flag_irrelevant_from', 'C01_placeholder_only_flag_irrelevant_from', 'the same for CopyFrom (the recorded zero value has nil holders and embedded pointers, as the front end always records)'),
    ('C01_go_flags_copy_to', 'C01_go_flags_copy_to', 'whole messages: raising the flag on every placeholder-only message at every depth, as the generator does, leaves CopyTo unchanged'),
    ('C01_go_flags_copy_from', 'C01_go_flags_copy_from', 'and CopyFrom'),
])

T['C02'] = ("""C02 Each field maps to one attribute, named and typed as documented, everywhere.""", [
    ('C02_to_local', 'to_fields_local', 'CopyTo: the fields of a message write only their own attributes (every other key of the target is untouched)'),
    ('C02_to_field_local', 'to_field_local', 'CopyTo: one field changes at most the attribute named fi_snake'),
    ('C02_from_local', 'from_fields_untouched', 'CopyFrom: a Go field that is not the target of some field of the message is left as it was'),
    ('C02_from_field_local', 'from_field_untouched', 'CopyFrom: one field writes only its own Go field (oneof holder / embedded pointer)'),
    ('C02_schema_type_partial', 'schema_ty_msg_ty', 'the schema\'s attribute types are the documented table applied field by field (class tf_ok without injected fields)'),
    ('C02_value_type_partial', 'copy_to_conforms_partial', 'what CopyTo writes has exactly the type the schema gives the attribute, at every depth (class tf_ok)'),
    ('C02_name_rule', 'build_view_single', 'front end: a declared field that is not an expanded embed yields exactly one attribute; its name is the override, else the JSON tag name (when neither empty nor "-"), else snake_case of the proto name; flags, validators, plan modifiers and the one-line description follow the configuration'),
    ('C02_declared_field_present', 'declared_field_in_message', 'every declared, not excluded, not embedded field of a message that builds has its attribute in the message'),
    ('C02_embedded_promoted', 'build_view_embedded', 'an embedded message contributes the attributes of its fields (same names and paths), not an attribute of its own'),
    ('C02_json_name', 'json_name_spec', 'the JSON tag name is the text before the first comma; "-" and absence mean none'),
    ('C02_source_type_table', 'src_type_table_agrees', 'tie to the source: for every proto scalar type, the row of GetTerraformType as read from field_build_context.go on this run gives the attribute type, value type, element types, cast-to type, zero literal and cast-from type of the model'),
    ('C02_source_type_rows_unique', 'src_type_rows_unique', 'each proto type constant occurs in exactly one row of that switch'),
    ('C02_source_type_special', 'src_type_special_agrees', 'enum, time, duration, message and default rows'),
    ('C02_schema_entry_of_declared_field', 'schema_entry_of_declared_field', "end to end, descriptor + configuration -> schema: every declared, not excluded, not embedded field of a message that builds has exactly one schema entry, under the documented name (override, JSON tag, snake case), with the documented type (scalar table, list, map, nested block single/list/map with the nested message's own entries, hook for custom types), provided the name is not used twice"),
    ('C02_schema_entry_origin', 'schema_entry_origin', 'and conversely every schema entry stems from a declared field (directly or promoted from an embedded message), is the placeholder of a message with no field left (none declared, or every declared field excluded), or is an injected attribute: no stray attributes'),
    ('C02_schema_names', 'schema_names_distinct', 'the attribute names of a schema are pairwise distinct and are exactly the documented names'),
    ('C02_schema_through_run', 'schema_entry_through_run', 'the same stated for the roots the plugin emits for a request (through run)'),
    ('C02_source_kind_rules', 'src_kind_rules_agree', "tie to the source: the decision rules of field.go getKind, as read on this run, give for all 32 combinations of the five flags the kind the model's front end decides"),
    ('C02_kind_from_source', 'build_view_kind_from_source', "and the kind of every field the front end builds is what those rules give for the field's flags (custom type, map, map of messages, repeated, message)"),
    ('C02_front_end_kind_spec', 'build_view_kind_spec', 'front end, complete characterisation of the single field built for a declared field: kind (custom / map / list / object / primitive, time and duration being primitives), element Terraform kind, Go cast, pointer-ness, zero literal, suffix'),
    ('C02_time_duration_primitive', 'build_view_time_duration_primitive', 'a time or duration field is a primitive (or list of primitives) of the configured type with no zero literal'),
])

T['C03'] = ("""C03 CopyTo into an empty schema-typed object is total and schema-conformant (proved for the class tf_ok:
every kind except custom types and nullable embedded messages, oneofs and nesting at any depth).""", [
    ('C03_total_partial', 'copy_to_total_partial', 'no panic and no diagnostic for every typed value'),
    ('C03_conforms_partial', 'copy_to_conforms_partial', 'the result conforms to the schema type recursively and holds nothing unknown'),
    ('C03_schema_partial', 'copy_to_schema_partial', 'the same, stated against the attribute types of the generated schema'),
    ('C03_no_unknown', 'copy_to_clean', 'for EVERY message and value: if the target holds nothing unknown, neither does the result (any depth)'),
    ('C03_total_embedded_partial', 'copy_to_total_embedded_partial', 'the same for messages with fields promoted from nullable (pointer) embedded messages (class emb_ok: one embedded pointer per promoted field, any of the six kinds below it), whether the embedded message is set or nil'),
    ('C03_conforms_embedded_partial', 'copy_to_conforms_embedded_partial', 'and the result conforms to the schema type, without diagnostics'),
    ('C03_total_chain_partial', 'copy_to_total_chain_partial', 'and for chains of nullable embedded messages of any length (each pointer nil or set): total, no diagnostics, schema-conformant'),
])

T['C04'] = ("""C04 Object -> Terraform -> object round trip is lossless (proved for whole messages of the class rt_ok: every
kind except custom types and fields promoted from nullable embedded messages; those are decided by the oracle).""", [
    ('C04_scalar_round_trip', 'scalar_round_trip', 'every scalar value of every Go field type survives cast to the attribute payload and back, up to the normal form'),
    ('C04_field_round_trip_partial', 'prim_field_round_trip', 'one scalar field: CopyTo on the empty target then CopyFrom gives the value back (zero <-> null included)'),
    ('C04_ptr_field_round_trip_partial', 'prim_ptr_round_trip', 'pointer-backed scalar field: nil <-> null, contents preserved'),
    ('C04_zero_is_null', 'scalar_zero_null', 'the attribute is null exactly when the field holds its zero value, so reading null back loses nothing'),
    ('C04_payload_round_trip', 'payload_round_trip', 'conversely every in-range attribute payload decodes to a Go value that encodes to the same payload'),
    ('C04_message_round_trip_partial', 'copy_round_trip_partial', 'the whole message: CopyTo into the empty schema-typed object succeeds without diagnostics, CopyFrom of the result into a zero struct succeeds without diagnostics, and gives the original back up to the normal form (nil = empty, -0 = 0, zero-payload oneof = nil holder), at every depth, for every message of the class rt_ok (all kinds except custom types and nullable embedded messages; nested messages, lists and maps of them, oneofs) and every typed value'),
    ('C04_message_round_trip_nofloat32', 'copy_round_trip_nofloat32', 'the same without float32 fields, free of the classical axioms Flocq brings in'),
    ('C04_promoted_scalar_round_trip_partial', 'promoted_scalar_round_trip_partial', 'round trip of a scalar promoted from a nullable embedded message: nil stays nil, a set message whose promoted field is zero comes back nil (normal form), any other value comes back exactly'),
    ('C04_embedded_allocated', 'copy_from_allocates_parent', 'a known non-null promoted attribute allocates the embedded message'),
    ('C04_message_round_trip_embedded_partial', 'copy_round_trip_embedded_partial', 'the whole-message round trip WITH fields promoted from a nullable embedded message (all six kinds below the pointer): no diagnostics either way, and the value comes back up to the normal form, in which a nil embedded message and one all of whose promoted fields are absent are the same (class rte_ok)'),
    ('C04_message_round_trip_embedded_nofloat32', 'copy_round_trip_embedded_nofloat32', 'the same without float32 fields, free of the classical axioms'),
])

T['C05'] = ("""C05 Null and unknown Terraform values reset the target to zero or nil.""", [
    ('C05_reset', 'from_field_reset', 'a null or unknown attribute leaves the field at zero / nil / empty and adds no diagnostic, whatever the target held'),
    ('C05_payload_irrelevant', 'from_field_reset_payload', 'the payload carried by a null or unknown value does not influence the result'),
    ('C05_prior_irrelevant', 'from_field_reset_target', 'nor does the prior content of the target'),
    ('C05_untouched', 'from_fields_untouched', 'Go fields the schema does not describe are left untouched'),
    ('C05_oneof_reset', 'from_fields_oneof_none', 'a oneof all of whose branches are null or unknown is nil even if the target held a branch'),
    ('C05_prior_independent_partial', 'copy_from_prior_independent_partial', 'message level: the whole result of CopyFrom (value and diagnostics) does not depend on what the target struct held before — longer or shorter lists, other map keys, set pointers, other oneof branches — provided every top-level attribute is present with the right constructor (null, unknown or known; nested content arbitrary); class: no custom type and no field promoted from a nullable embedded message at top level'),
    ('C05_prior_independent_lookup_partial', 'copy_from_prior_independent_lookup_partial', 'the same field by field for targets whose Go fields come in different orders'),
    ('C05_prior_independent_rt_partial', 'copy_from_prior_independent_rt_partial', 'instance for the class of the round trip theorem'),
    ('C05_all_null_resets_partial', 'copy_from_all_null_resets_partial', 'an object all of whose attributes are null or unknown yields the zero message (scalars zero, pointers and oneofs nil, lists and maps empty, by-value messages zero recursively) without diagnostics, whatever the target held'),
    ('C05_missing_keeps_prior', 'from_field_unshaped_keeps_prior', "boundary: an attribute that is missing or of another constructor is reported and leaves the field as the target had it (that is C06's business)"),
    ('C05_embedded_reset', 'copy_from_resets_parent', 'a nullable embedded message all of whose promoted attributes are null, unknown or missing is nil after CopyFrom, whatever the target held'),
    ('C05_embedded_state', 'copy_from_parent_state', 'in general it is allocated exactly when some promoted attribute is known and non-null'),
    ('C05_prior_independent_embedded_partial', 'copy_from_prior_independent_embedded_partial', 'prior independence WITH fields promoted from nullable embedded messages (chains of any length, oneofs and custom types below the pointer included): diagnostics and every Go field of the result are the same for any two targets, whatever their embedded messages held; a missing promoted attribute cannot keep prior content'),
    ('C05_prior_independent_embedded_eq_partial', 'copy_from_prior_independent_embedded_eq_partial', 'as an equality of results for targets with the same field order'),
    ('C05_all_null_resets_embedded_partial', 'copy_from_all_null_resets_embedded_partial', 'an all-null/unknown object yields the zero message with every embedded pointer nil, whatever the target held'),
])

T['C06'] = ("""C06 Malformed input becomes diagnostics, never a panic.""", [
    ('C06_from_total_partial', 'copy_from_total_partial', 'CopyFrom returns (never panics) on EVERY object: missing attributes, wrong kinds, nil values, nil containers at any depth (class flat_ok: no nullable embedded message)'),
    ('C06_from_fields_total_partial', 'from_fields_total_partial', 'the same for the field loop, preserving the shape of the target struct'),
    ('C06_to_missing_type', 'to_field_custom_missing', 'a field whose attribute type is missing from the target yields exactly the WriteMissing diagnostic of its path and leaves the attributes alone'),
    ('C06_diag_once', 'diag_append_idem', 'a diagnostic is reported once however often it is raised'),
    ('C06_diag_present', 'diag_append_mem', 'and it is reported'),
    ('C06_to_missing_type_any_kind', 'to_field_missing_type', "CopyTo, every kind of field: an attribute type missing from the target yields exactly the WriteMissing diagnostic of the field's path, leaves every attribute alone, and the other fields are still written (the fold goes on)"),
    ('C06_to_never_panics_partial', 'copy_to_never_panics_partial', 'CopyTo returns (never panics) for every typed source on EVERY object target — types missing or of the wrong kind, held values of the wrong kind, null / unknown / attribute-less objects, at any depth — except where the element type of a list or map of messages is not an object type (class tf_ok)'),
    ('C06_to_no_diag_partial', 'copy_to_no_diag_partial', "and when the target carries the schema's types along every path that is written, whatever values it holds, no diagnostic is produced"),
    ('C06_to_boundary_list_elem', 'to_field_objlist_elem_panics', "boundary, outside the property's quantifier (types are removed there, never replaced): a list of messages whose target element type is not an object type panics (one-value type assertion o.ElemType.(types.ObjectType))"),
    ('C06_to_boundary_map_elem', 'to_field_objmap_elem_panics', 'the same for a map of messages'),
    ('C06_to_pruned_spec_partial', 'copy_to_pruned_spec', "CopyTo over exactly the property's quantifier: a target obtained from the schema-typed empty object by removing ANY set of attribute types at ANY level (nested objects, element types of lists and maps of messages): the call returns, every diagnostic is a WriteMissing, every top-level attribute whose type was removed is reported, and every top-level attribute whose type was kept is still written with a value of the schema's type (class tf_ok)"),
    ('C06_to_missing_reported', 'copy_to_missing_reported', 'for EVERY message, source and object target: a field whose attribute type is absent is reported with its path'),
    ('C06_to_repopulated_pruned_partial', 'copy_to_repopulated_pruned_partial', 'the same for a populated target: the object an earlier CopyTo produced, whose types (declared and carried by the held values) are then removed'),
    ('C06_to_diag_monotone', 'to_fields_diag_mono', 'diagnostics are never lost along the way'),
    ('C06_from_total_embedded_partial', 'copy_from_total_embedded_partial', 'CopyFrom returns on every payload-typed object also for messages with fields promoted from nullable embedded messages (class emb_ok)'),
    ('C06_from_missing_reported', 'copy_from_missing_reported', "CopyFrom, EVERY message: each attribute missing from the object is reported as ReadMissing with the field's path (all kinds, oneof branches, custom types, promoted fields)"),
    ('C06_from_wrong_kind_reported', 'copy_from_wrong_kind_reported', "an attribute of the wrong constructor is reported as ReadConv with the field's path"),
    ('C06_from_only_read_diags', 'copy_from_only_read_diags', 'nothing else is ever reported: every diagnostic is ReadMissing or ReadConv and carries the path of a field of the message or of a nested message'),
    ('C06_from_diags_once', 'copy_from_diags_nodup', 'each at most once'),
    ('C06_from_damage_is_local_partial', 'copy_from_damage_is_local_partial', 'all well-formed attributes are still copied: two objects that agree outside a set K of attribute names are read identically on every field whose attribute is outside K and on every oneof none of whose branches is in K (class: no promoted fields at top level)'),
    ('C06_from_deletions_local_partial', 'copy_from_deletions_local_partial', 'in particular after deleting attributes: the others are read exactly as from the intact object and every deleted one is reported, once'),
    ('C06_from_nil_attrs', 'copy_from_nil_attrs_all_reported', 'an object without attribute map reports every field'),
    ('C06_from_total_chain_partial', 'copy_from_total_chain_partial', 'CopyFrom with chains of nullable embedded messages of any length returns on every payload-typed object; an outermost pointer all of whose promoted attributes are null/unknown/missing ends nil; a known non-null promoted attribute ends with every pointer on its chain set'),
])

T['C06'][1].extend([
    ('C06_diag_kinds_independent', 'C06_diag_kinds_independent_exact', 'diagnostics: a second problem of another kind under the same path is appended, not merged with the first (Append drops only what is Equal in kind and path)'),
    ('C06_diag_fold_exact', 'C06_diag_fold_exact', 'appending any sequence of diagnostics keeps exactly its distinct members, none twice'),
    ('C06_from_diag_monotone', 'C06_from_diag_monotone', 'CopyFrom never loses a diagnostic it has already recorded (fields and messages, every kind of field)'),
    ('C06_from_twin_kinds', 'C06_from_twin_kinds', 'a list of objects in which one element lacks an attribute and another holds it with a wrong type: both the missing and the conversion diagnostic are reported for that path, wherever the two elements are and whatever else the list holds'),
    ('C06_from_twin_kinds_map', 'C06_from_twin_kinds_map', 'the same for a map of objects'),
    ('C06_copy_from_twin_kinds', 'C06_copy_from_twin_kinds', 'the same through the whole converter, from an empty diagnostics list, and no diagnostic is reported twice'),
])

T['C06'][1].extend([
    ('C06_to_diags_once', 'C06_to_diags_once', 'CopyTo reports every problem once: the diagnostics it returns hold no duplicate, however many list or map elements reach a missing type'),
    ('C06_to_fields_diags_once', 'C06_to_fields_diags_once', 'at every level, from any duplicate-free list of earlier diagnostics'),
])

T['C07'] = ("""C07 Oneof groups stay exclusive in both directions.""", [
    ('C07_from_none', 'from_fields_oneof_none', 'all branch attributes null / unknown / missing: the oneof is nil whatever the target held'),
    ('C07_from_one', 'from_fields_oneof_some', 'the last known scalar branch wins: the holder is that branch with the decoded value'),
    ('C07_to_conforms_partial', 'copy_to_conforms_partial', 'CopyTo renders every branch attribute with its schema type (class tf_ok, which includes oneofs)'),
    ('C07_to_inactive', 'to_field_oneof_inactive', 'CopyTo: a scalar branch that is not the active one (or whose oneof is nil) is rendered null'),
    ('C07_to_active', 'to_field_oneof_active', 'CopyTo: the active scalar branch is rendered with its value'),
    ('C07_to_msg_inactive', 'to_field_oneof_msg_inactive', 'CopyTo: a message branch that is not active (or holds nil) is rendered as a null object'),
    ('C07_to_msg_active', 'to_field_oneof_msg_active', 'CopyTo: the active message branch is rendered as a non-null object'),
    ('C07_to_exclusive_partial', 'copy_to_oneof_exclusive_partial', 'message level, CopyTo: of two different branches of one oneof at least one is rendered null'),
    ('C07_to_at_most_one_partial', 'copy_to_oneof_count_partial', 'at most one branch attribute per oneof is non-null'),
    ('C07_to_branches_partial', 'copy_to_oneof_branches_partial', 'exactly: every branch attribute has the null flag the holder dictates (nil holder: all null; set holder: the other branches null, the active one null iff zero payload / nil message)'),
    ('C07_to_every_depth_partial', 'copy_to_excl_partial', 'and so in every nested object, list element and map value'),
    ('C07_from_holders_partial', 'copy_from_holders_ok_partial', 'message level, CopyFrom, any object and any prior target: every holder ends up nil or set to ONE branch of its oneof — the last branch in field order whose attribute is present, of the right kind, known and non-null — with the decoded payload'),
    ('C07_round_trip_nofloat32', 'oneof_round_trip_nofloat32', 'an active branch with a non-zero payload survives CopyTo then CopyFrom'),
    ('C07_from_none_promoted', 'C07_from_none_promoted', 'a oneof promoted from nullable embedded message(s): when no branch attribute sets the holder, CopyFrom leaves no branch — an embedded pointer on the way is nil or the holder is nil — whatever the target held before (the embedded pointer is reset up front, unconditionally)'),
    ('C07_copy_from_none_promoted', 'C07_copy_from_none_promoted', 'the same through the whole converter'),
    ('C07_from_one_promoted', 'C07_from_one_promoted', 'when exactly one branch attribute sets the holder, the embedded pointers are allocated and the holder holds that branch with the decoded payload (scalar and message branches), whatever the target held'),
    ('C07_to_promoted_nil_parent', 'C07_to_promoted_nil_parent', 'CopyTo into an empty object: the branches of a oneof promoted from a nil embedded message are all null'),
    ('C07_promoted_none_end_to_end', 'C07_promoted_none_end_to_end', 'both directions chained'),
    ('C07_to_nil_parent_nozero_refuted', 'HasChoiceExample.to_nil_parent_nozero_refuted', 'limit: a by-value branch of a type without zero literal (a nullable=false time in a oneof, which gogo does not generate) would be rendered non-null; the class excludes it'),
])

T['C08'] = ("""C08 Apply echo (whole-plan theorems, with and without oneofs, for the class rt_ok; custom types and fields promoted
from nullable embedded messages are decided by the oracle on every run).""", [
    ('C08_no_unknown', 'copy_to_clean', 'copying back into the plan leaves nothing unknown where the plan object is written'),
    ('C08_scalar_fixpoint', 'to_prim_value_idem', 'a scalar attribute written from a value is a fixpoint of writing that value again'),
    ('C08_reset_roundtrip', 'from_prim_value_null', 'a null or unknown scalar decodes to the zero value'),
    ('C08_echo_scalar', 'echo_prim', 'apply echo of one scalar attribute: reading a planned known value and writing it back into the plan reproduces the attribute (null stays null)'),
    ('C08_echo_pointer', 'echo_prim_ptr', 'the same for pointer-backed scalars'),
    ('C08_echo_unknown', 'echo_prim_unknown', 'an unknown planned scalar is read as zero and written back as a known null: nothing stays unknown'),
    ('C08_echo_message_partial', 'copy_echo_partial', 'whole plans: for every plan of the class (every attribute present with its type, known scalars within the range of the Go field, distinct map keys, by-value messages known) CopyFrom into the zero struct and CopyTo back INTO THE PLAN both succeed without diagnostics, and the result relates to the plan attribute by attribute at every depth: nothing unknown; what the plan knew as null stays null; what it knew as a value comes back with the same payload, not null (in place); inside re-made list and map elements a zero element may come back null and vice versa (class: rt_ok without oneofs and field-less messages)'),
    ('C08_echo_message_nofloat32', 'copy_echo_nofloat32', 'the same without float32 fields, free of the classical axioms'),
    ('C08_plan_read_quiet', 'copy_from_plan_quiet', 'reading a plan never produces a diagnostic'),
    ('C08_echo_known_exact', 'echo_prim_exact', 'what the relation says of a known non-null scalar: it comes back identical'),
    ('C08_echo_unknown_known', 'echo_prim_unknown', 'and of an unknown one: it comes back known'),
    ('C08_echo_message_oneof_partial', 'copy_echo_oneof_partial', 'whole plans WITH oneofs (scalar and message branches, at most one branch not null) and field-less messages: same conclusion as C08_echo_message_partial (class: rt_ok, field-less messages reached through message attributes only)'),
    ('C08_echo_message_oneof_nofloat32', 'copy_echo_oneof_nofloat32', 'the same without float32 fields, free of the classical axioms'),
    ('C08_echo_attrs_known', 'copy_echo_oneof_attrs_known', 'every attribute of the result is known'),
])

T['C09'] = ("""C09 Refresh: in-place CopyTo makes collections and known values follow the source.""", [
    ('C09_list_length', 'to_field_list_length', 'a list attribute has exactly the source\'s length after CopyTo, whatever it held'),
    ('C09_list_nil', 'to_field_list_nil', 'a nil source leaves no stale element'),
    ('C09_map_keys', 'to_field_map_keys', 'a map attribute has exactly the source\'s keys, whatever it held'),
    ('C09_map_nil', 'to_field_map_nil', 'a nil source map leaves no stale key'),
    ('C09_idempotent_scalar', 'to_field_prim_idem', 'repeating the call changes nothing (scalar fields)'),
    ('C09_no_unknown', 'copy_to_clean', 'nothing unknown is left when the earlier state was fully known'),
    ('C09_refresh_rel_partial', 'copy_to_refresh_rel_partial', 'message level: copying a second value into the object an earlier copy produced never fails and relates earlier object, fresh copy and in-place result attribute by attribute at every depth: lists and maps hold exactly the elements of a fresh copy, every payload is the fresh one wherever the fresh value is non-null, every null flag is the fresh one or the earlier one, nothing is unknown (class tf_ok)'),
    ('C09_prior_rel_partial', 'copy_to_prior_rel_partial', 'the same for any well-formed earlier object (schema types at every depth, arbitrary flags, payloads and elements, e.g. read from state), and the result is well-formed again, so refreshes chain'),
    ('C09_idempotent_partial', 'copy_to_idem_partial', 'repeating the same call on its own result changes nothing (syntactic equality, message level)'),
    ('C09_refresh_embedded_scalar', 'C09_refresh_embedded_scalar', 'a nullable embedded message that is nil in the new source: each scalar promoted from it becomes null and known whatever the object held before (no panic: the read expression is not evaluated), the other attributes are untouched'),
    ('C09_refresh_embedded_list', 'C09_refresh_embedded_list', 'a list promoted from it holds no element afterwards, whatever it held (the null flag is the earlier one when there was an earlier list, as for any list that becomes nil)'),
    ('C09_refresh_embedded_map', 'C09_refresh_embedded_map', 'likewise a promoted map: no key survives'),
    ('C09_refresh_embedded_message', 'C09_refresh_embedded_message', 'a nullable message promoted from it becomes null; a message held by value is rebuilt from the zero struct (never null, as C20 says)'),
    ('C09_refresh_embedded_idempotent', 'C09_refresh_embedded_idempotent', 'and repeating that call changes nothing'),
    ('C09_refresh_embedded_oneof_refuted', 'RefreshEmbedded.Counter.to_field_prim_chain_nil_oneof_refuted', 'the scalar statement does not extend to a value-typed oneof branch of the embedded message: the oneof stub reads the branch as the zero value, and an earlier non-null attribute stays non-null with the zero payload (the branch attributes of an absent oneof are C07\'s business: null on a fresh copy)'),
    ('C09_fresh_equality_refuted', 'Counter.refresh_equality_false', 'the stronger reading "in-place equals fresh" is false of the code: null flags are sticky (a scalar that was zero keeps Null when it becomes non-zero; a nullable message that was nil keeps Null when set) — the property is worded accordingly'),
])

T['C10'] = ("""C10 Schema flags and metadata follow the configuration.""", [
    ('C10_flags', 'schema_field_flags', 'the schema entry carries the field\'s required / computed / sensitive flags, description, validators and plan modifiers'),
    ('C10_required_xor_optional', 'schema_field_required_xor_optional', 'exactly one of Required and Optional'),
    ('C10_injected', 'inj_attr_as_configured', 'an injected field appears with its configured type and flags'),
    ('C10_injected_schema_only', 'copy_to_untouched', 'CopyTo never touches an attribute that is not a field\'s (injected attributes)'),
    ('C10_placeholder_null', 'to_prim_value_placeholder', 'the placeholder attribute of a message without fields is always null'),
    ('C10_description_one_line', 'field_comment_one_line', 'a description is one line: no newline, trimmed, and a fixpoint of the flattening'),
    ('C10_front_end_flags', 'build_view_single', 'the front end sets the flags, validators, plan modifiers (UseStateForUnknown by default for computed fields when configured) and description from the configuration'),
    ('C10_placeholder_schema', 'build_message_placeholder', 'a message without fields gets exactly the placeholder field'),
    ('C10_placeholder_iff', 'build_message_empty_iff', 'and only a message with no field left: a message counts as empty, and then has exactly the placeholder, iff every declared field is excluded (in particular when none is declared), iff nothing comes out of BuildFields'),
    ('C10_placeholder_all_excluded', 'build_message_all_excluded_placeholder', 'a message whose fields are all excluded gets exactly the placeholder field, like a message without fields'),
    ('C10_schema_entry_flags', 'schema_entry_of_declared_field', 'end to end: that one entry carries Required / Optional = not Required / Computed / Sensitive from the configuration lookups (path key first, then message-qualified key), the one-line description, the configured validators, and the configured plan modifiers or else UseStateForUnknown for computed fields when the default is on'),
    ('C10_schema_roots_through_run', 'schema_roots_through_run', 'for the roots of a request: origin of every entry, distinct names, documented name set'),
    ('C10_injected_block', 'schema_block_has_injected', 'every injected field configured for a message is in that message\'s schema block under its name (the last entry of a name wins)'),
    ('C10_injected_every_depth', 'schema_nested_block_has_injected', 'at every depth: for every nested message reached through single, list or map attributes, its injected fields are in the block found by walking those attributes from the root schema'),
    ('C10_injected_complete', 'C10_injected_complete', 'front end to schema: an injected field configured for the path Root.field of a nested message (single, repeated or map value) appears, as configured, in the block of that field\'s attribute in the schema of the root'),
    ('C10_injected_complete_deep', 'C10_injected_complete_deep', 'the same through any chain of declared message-typed fields'),
    ('C10_injected_through_run', 'C10_injected_through_run', 'and through the whole plugin run, from the injected_fields map of the configuration'),
    ('C10_injected_name_clash_refuted', 'Clashes.schema_block_has_injected_naive_refuted', 'limit: two injected entries of one name under one path — the later one wins (the hypotheses above say "last")'),
])

T['C11'] = ("""C11 Field-addressed options hit exactly the addressed fields; exclusion is surgical.""", [
    ('C11_excluded_no_field', 'build_view_excluded', 'an excluded field contributes no field at all to the intermediate representation'),
    ('C11_to_untouched', 'to_fields_local', 'hence CopyTo emits nothing for it'),
    ('C11_from_untouched', 'from_fields_untouched', 'and CopyFrom never writes it'),
    ('C11_options_by_lookup', 'obs_of_perm', 'options reach the front end only through lookups by key'),
    ('C11_flag_iff', 'flag_iff', 'a boolean option holds for a field exactly when its message-qualified name or its path is listed'),
    ('C11_path_first', 'by_keys_path_first', 'valued options: the entry under the path wins'),
    ('C11_then_type_name', 'by_keys_type_name', 'otherwise the entry under the message-qualified name, if any'),
    ('C11_exclusion_is_deletion_roots', 'ok_roots_excl_lit', 'exclusion is surgical: generating with the key "D.f" in exclude_fields gives, for every selected root, literally the IR generated from the file with field f deleted from message D and the key removed from the list (Go zero values recomputed from the original structs, which keep the field) — every other field, name, flag, nested message, at every depth and occurrence, syntactically equal; a message that loses its last field gets the placeholder on both sides'),
    ('C11_exclusion_schemas_equal', 'schemas_excl', 'hence the schemas are equal for any hook'),
    ('C11_exclusion_converters_equal', 'converters_excl', 'and both converters coincide'),
    ('C11_exclusion_message_level', 'build_message_excl_cfg_lit', 'the same for every message of the request at every path from which the key cannot be formed'),
    ('C11_exclusion_field_level', 'build_fields_excl_lit', 'and for the field list of one message'),
    ('C11_path_form_elsewhere', 'build_message_off_path_cfg', 'path form "Root.a.b": away from that path nothing changes at all'),
    ('C11_path_form_at_path', 'build_message_at_path_cfg', 'and at the parent path the message is built as from its descriptor without the field (this one occurrence only)'),
    ('C11_converters_ignore_schema_options_to', 'C11_converters_ignore_schema_options_copy_to', 'schema-only options — required, computed, sensitive, validators, plan modifiers, descriptions, injected fields — leave CopyTo unchanged: erasing them at every depth gives the same converter, for any user functions'),
    ('C11_converters_ignore_schema_options_from', 'C11_converters_ignore_schema_options_copy_from', 'and CopyFrom (in particular the up-front reset of a repeated field does not depend on its being required)'),
    ('C11_same_converters', 'C11_same_converters_copy_to', 'two configurations that differ only in such options give identical CopyTo'),
    ('C11_injected_fields_leave_converters', 'C11_injected_fields_leave_converters', 'injected fields never reach the converters'),
])

T['C12'] = ("""C12 Only selected types are emitted, independent of the rest of the request.""", [
    ('C12_selected', 'C12_selected', 'roots = messages named in types that build'),
    ('C12_independent', 'C12_independent', 'what is generated for a selected type does not depend on which other types are selected'),
    ('C12_roots_in_types', 'build_roots_selected', 'nothing is built as a root for an unselected message'),
    ('C12_unrelated_messages_partial', 'C12_unrelated_messages_partial', 'a request extended by messages or dependency files whose names do not clash: every type generated before is generated again, from an intermediate representation that is equal up to the Go zero values recorded in it, and equal outright when by-value nesting resolves within the request (partial: that hypothesis)'),
    ('C12_unrelated_messages_acyclic_partial', 'C12_unrelated_messages_acyclic_partial', 'with the hypothesis stated on the descriptors: by-value message references resolve and are well founded (Go rejects a struct that contains itself by value), then the generated root is literally the same'),
    ('C12_extra_dependency_partial', 'C12_extra_dependency_partial', 'instance: one more dependency file anywhere among the dependencies, its message names fresh for what follows it'),
    ('C12_extra_messages_partial', 'C12_extra_messages_partial', 'instance: more messages at the end of the generated file (no freshness needed: the first declaration of a name wins)'),
    ('C12_unrelated_errors_kept', 'build_message_ext_err', 'a type that fails to build keeps failing with the same error in the larger request, unless the error was an unresolved message name the extension supplies'),
    ('C12_unrelated_messages_converse_partial', 'C12_unrelated_messages_converse', 'conversely a type generated from the larger request is generated identically from the smaller one, or fails there on a name only the extension declares, or runs out of the model\'s fuel (recursive types under deep path exclusions, outside D)'),
    ('C12_zero_value_leak_refuted', 'C12_unrelated_messages_refuted', 'without the hypothesis on by-value nesting literal equality is false OF THE MODEL: a (Go-invalid) struct containing itself by value is unrolled to the fuel, which is the number of messages; the real generator has no such artefact (it does not compute zero values), so this marks a limit of the model, not of the code'),
])

T['C13'] = ("""C13 Separate-package generation behaves like same-package generation (partial: "compiles there" is decided
by go build of the two-package layout).""", [
    ('C13_sem_equal', 'C13_sem_equal', 'the intermediate representation, hence schema and both converters, does not depend on default_package_name / target_package_name / import_path_overrides'),
    ('C13_obs_equal', 'obs_of_with_pkgs', 'the package options are not among the questions the front end asks the configuration'),
    ('C13_same_package_unqualified', 'prepend_same_package', 'type strings: without default_package_name every Go type string is left as gogo gives it'),
    ('C13_builtin_unqualified', 'prepend_builtin', 'with it, builtin types (under any pointer / slice / map modifiers) are never qualified'),
    ('C13_qualified', 'prepend_qualifies', 'every other unqualified type name gets the alias of the (possibly overridden) import path, modifiers kept in front'),
    ('C13_qualified_once', 'prepend_idempotent', 'an already qualified type string is not qualified again'),
    ('C13_already_qualified', 'prepend_already_qualified', 'nor is a type that came qualified from the descriptor (cast types of other packages)'),
    ('C13_alias_identifier', 'clean_package_name_ident', 'the alias is a Go identifier'),
    ('C13_alias_not_keyword', 'clean_package_name_not_keyword', 'and never a Go keyword'),
    ('C13_with_type', 'with_type_qualifies', 'references to support packages (types, diag, attr, ...) are qualified the same way'),
    ('C13_no_panic', 'no_panic_prepend', 'qualification never fails at run time unless the package path contains an opening bracket'),
    ('C13_source_builtin_types', 'src_builtin_types_agree', "tie to the source: the list of builtin type names of imports.go isBuiltinType, as read on this run, is the model's"),
])

T['C14'] = ("""C14 Output is a deterministic function of descriptor and configuration (partial: Go's per-run map iteration
order cannot be exhibited by the model; decided by repeated runs of the real plugin).""", [
    ('C14_perm', 'C14_perm', 'permuting list entries and map entries of the configuration leaves the roots (and their whole IR) unchanged'),
    ('C14_lookup_perm', 'lookup_perm', 'lookups do not see the order of entries with distinct keys'),
    ('C14_obs_perm', 'obs_of_perm', 'everything the front end asks the configuration is invariant under such permutations'),
])

T['C15'] = ("""C15 Declaration order never changes behaviour; sort makes output order-free.""", [
    ('C15_sorted_fields', 'C15_sorted_fields', 'with sort, permuting the declared fields of a message leaves its IR fields unchanged'),
    ('C15_sort_canonical', 'sort_by_perm_eq', 'sorting by pairwise distinct keys is canonical'),
    ('C15_fields_perm', 'build_field_list_perm', 'without sort, the fields of a permuted message are a permutation of the original ones (each field is built independently)'),
    ('C15_schema_order_unsorted', 'schema_order_unsorted', 'without sort the schema entries follow declaration order (promoted fields in place of the embedded field, injected attributes last)'),
    ('C15_schema_order_sorted', 'schema_order_sorted', 'with sort they are a permutation of the documented names, sorted by Go field name'),
])

T['C16'] = ("""C16 Command-line and YAML configuration are equivalent channels.""", [
    ('C16_channel_types', 'C16_channel_types', 'types given as a + separated parameter = types given in the YAML document'),
    ('C16_channel_exclude', 'C16_channel_exclude', 'same for exclude_fields'),
    ('C16_channel_computed', 'C16_channel_computed', 'same for computed_fields'),
    ('C16_channel_required', 'C16_channel_required', 'same for required_fields'),
    ('C16_channel_sensitive', 'C16_channel_sensitive', 'same for sensitive'),
    ('C16_channel_target_pkg', 'C16_channel_target_pkg', 'same for target_package_name'),
    ('C16_channel_default_pkg', 'C16_channel_default_pkg', 'same for default_package_name'),
    ('C16_channel_duration', 'C16_channel_duration_custom_type', 'same for custom_duration'),
    ('C16_channel_sort', 'C16_channel_sort', 'same for sort'),
    ('C16_precedence_types', 'C16_precedence_types', 'a command-line value takes precedence over the YAML value'),
    ('C16_precedence_sort', 'C16_precedence_sort', 'also for sort, in both directions'),
    ('C16_precedence_target_pkg', 'C16_precedence_target_pkg', 'and for the package name'),
    ('C16_plus_split', 'split_on_join', 'list parameters use + as separator'),
    ('C16_no_types', 'C16_no_types', 'without any type the plugin fails'),
    ('C16_bad_file', 'C16_bad_file', 'an unreadable or malformed configuration file makes the plugin fail'),
    ('C16_source_cli_stage', 'src_read_from_cli_agrees', "tie to the source: the function regenerated from config.go readFromCLI on this run is the command-line stage of the model's read_config"),
    ('C16_source_cli_stage_used', 'read_config_cli_after_yaml', 'and read_config returns only configurations produced by that stage'),
    ('C16_source_cli_params', 'src_cli_params_documented', 'the nine (field, getter, parameter name) rows of readFromCLI'),
    ('C16_source_yaml_keys', 'src_yaml_keys_documented', 'the yaml keys of Config, SchemaType and InjectedField as read from the struct tags are the documented ones (the ones the harness writes)'),
])

T['C17'] = ("""C17 Custom-type fields are delegated to the user's three hooks.""", [
    ('C17_schema', 'schema_field_custom', 'the schema entry is GenSchema<S> applied to the attribute the field would otherwise get'),
    ('C17_copy_to', 'to_field_custom', 'CopyTo stores CopyTo<S>(field value, attribute type, current attribute value)'),
    ('C17_copy_to_missing', 'to_field_custom_missing', 'a missing attribute type is reported'),
    ('C17_copy_from', 'from_field_custom', 'CopyFrom calls CopyFrom<S>(attribute value or nil, field) and reports a missing attribute'),
    ('C17_default_suffix', 'default_suffix_clean', 'the default suffix is the type name without dots and slashes'),
    ('C17_to_delegated_message', 'copy_to_custom_delegated', 'message level, any hook: CopyTo of a message WITH custom-type fields never fails, every custom attribute is exactly what CopyTo<S> returned for the field value, the attribute type and no current value, and every other attribute conforms to its schema type (class tf_ok extended by custom fields)'),
    ('C17_from_delegated_message', 'copy_from_custom_delegated', 'message level: after CopyFrom the custom field holds what CopyFrom<S> returned for the attribute (nil when missing, which is reported) and the value the target held; nothing else writes it'),
    ('C17_from_total_message', 'copy_from_total_custom_partial', 'CopyFrom with custom fields returns on every payload-typed object'),
    ('C17_round_trip', 'copy_custom_round_trip_partial', "if the user's two functions are inverse on a value, the field survives CopyTo then CopyFrom"),
    ('C17_custom_by_configuration', 'C17_custom_by_configuration', 'front end: a field with a custom_types entry for its path is a custom field with the configured (else default) suffix, whatever its proto type, cardinality or cast type'),
    ('C17_custom_over_cast', 'C17_custom_over_cast', 'in particular a cast type does not stop a field from being custom'),
    ('C17_custom_by_descriptor', 'C17_custom_by_descriptor', 'without a configuration entry the gogoproto.customtype option decides'),
    ('C17_custom_iff', 'build_view_custom_iff', 'and a field is custom only for one of these two reasons'),
    ('C17_custom_in_message', 'C17_custom_in_message', 'lifted to the message: the built message contains that field as a custom field'),
])

T['C18'] = ("""C18 A selected type is generated whole or not at all.""", [
    ('C18_no_partial_type', 'C18_no_partial_type', 'if some declared field cannot be mapped the message does not build'),
    ('C18_ok_means_all_fields', 'build_message_ok_fields', 'a message that builds has every declared field built'),
    ('C18_time_without_type', 'build_view_time_without_type', 'a time field without configured time_type is an error'),
    ('C18_duration_without_type', 'build_view_duration_without_type', 'a duration field without configured duration_type is an error'),
    ('C18_nested_error', 'build_view_nested_error', 'an error below a nested message is the field\'s error (propagated, not swallowed)'),
    ('C18_exclusion_restores', 'build_view_excluded', 'an excluded field is never looked at'),
    ('C18_cast_duration_without_type', 'C18_cast_duration_without_type', 'a field cast to the configured custom duration type (or to time.Duration) is a duration whatever its proto type: without duration_type it cannot be mapped'),
    ('C18_cast_duration_message', 'C18_cast_duration_message', 'so the message that declares it does not build'),
    ('C18_cast_duration_root', 'C18_cast_duration_root', 'and a selected type that declares it is not among the generated roots'),
    ('C18_cast_duration_root_skipped', 'C18_cast_duration_root_skipped', 'but among the types reported as skipped'),
    ('C18_cast_duration_with_type', 'C18_cast_duration_with_type', 'with duration_type the same field is a primitive of the duration type, not an int64'),
    ('C18_exclusion_beats_type_error', 'C18_exclusion_beats_type_error', 'an excluded field is never looked at: exclusion restores mappability'),
])

T['C19'] = ("""C19 Scalar and temporal values survive conversion exactly over their whole range.""", [
    ('C19_int', 'int_round_trip', 'all integer kinds over their whole range (uint64 above 2^63-1 included)'),
    ('C19_float32', 'float32_round_trip', 'every non-NaN float32 widens and narrows back without rounding'),
    ('C19_narrow_widen', 'narrow_widen', 'narrow (widen x) = x'),
    ('C19_float64', 'float64_round_trip', 'float64'),
    ('C19_bytes', 'bytes_round_trip', 'byte strings'),
    ('C19_string', 'string_round_trip', 'strings'),
    ('C19_bool', 'bool_round_trip', 'booleans'),
    ('C19_time', 'time_round_trip', 'time instants (seconds, nanoseconds, zone)'),
    ('C19_scalar', 'scalar_round_trip', 'every scalar type at once, up to the sign of zero and nil/empty byte strings'),
    ('C19_field_partial', 'prim_field_round_trip', 'through the generated code of one scalar field'),
    ('C19_source_cast_types', 'src_type_table_agrees', "tie to the source: the Go type each proto scalar type is cast from / to, as read from GetTerraformType on this run, is the model's (fixed32 -> uint32, sint64 -> int64, ...)"),
    ('C19_list_round_trip', 'C19_list_round_trip', 'repeated scalar field (every scalar type but float32): a non-empty list of in-range values is written as a non-null list of the same length and read back, into any target, element by element equal up to the sign of a float zero and nil/empty bytes — zero elements included'),
    ('C19_list_round_trip_float32', 'C19_list_round_trip_float32', 'the same including float32 elements (standard-library axioms through Flocq)'),
    ('C19_list_all_zero_survives', 'C19_list_all_zero_survives', 'a list that holds nothing but zero values is not null and comes back with all its elements (each is written as a null element under a non-null list)'),
    ('C19_list_empty', 'C19_list_empty', 'a nil or empty list is written as the null list and read back as the empty list'),
    ('C19_map_round_trip', 'C19_map_round_trip', 'map of scalars: same keys in the same order, every value equal up to normal form, zero values included'),
    ('C19_map_round_trip_float32', 'C19_map_round_trip_float32', 'the same including float32 values (standard-library axioms through Flocq)'),
    ('C19_map_all_zero_survives', 'C19_map_all_zero_survives', 'a map whose values are all zero keeps every key'),
])

T['C20'] = ("""C20 On an empty target, absence is rendered as null and presence as non-null.""", [
    ('C20_scalar_partial', 'copy_to_nullness_partial', 'a scalar attribute is null exactly when the cast field value is the zero literal (class tf_ok)'),
    ('C20_scalar_value', 'to_prim_value_absent', 'the value written for an absent scalar attribute'),
    ('C20_pointer', 'to_prim_value_absent_ptr', 'a pointer-backed scalar attribute is null exactly when the pointer is nil'),
    ('C20_placeholder', 'to_prim_value_placeholder', 'the placeholder attribute is always null'),
    ('C20_zero_iff', 'scalar_zero_null', 'zero literal test = the field holds its zero value'),
    ('C20_list_absent', 'to_field_list_absent_empty', 'a nil or empty list field is rendered as a null list'),
    ('C20_list_present', 'to_field_list_absent_nonempty', 'a non-empty list field as a non-null list'),
    ('C20_map_absent', 'to_field_map_absent_empty', 'a nil or empty map field as a null map'),
    ('C20_map_present', 'to_field_map_absent_nonempty', 'a non-empty map as a non-null map'),
    ('C20_object_nil', 'to_field_obj_absent_nil_lookup', 'a nil message pointer as a null object, without diagnostics'),
    ('C20_object_present', 'to_field_obj_absent_some', 'a set message pointer as a non-null object'),
    ('C20_object_value', 'to_field_obj_absent_value', 'a message held by value is always a non-null object'),
    ('C20_oneof_inactive', 'to_field_oneof_inactive', 'an inactive oneof branch is null'),
    ('C20_nil_embedded_renders_null', 'copy_to_nil_parent_renders_null', 'a nullable embedded message that is not set: every attribute of a field promoted from it is rendered null (scalars, lists, maps, nullable messages)'),
    ('C20_promoted_scalar', 'copy_to_promoted_scalar', 'and when it is set, a promoted scalar is null exactly when it is zero'),
    ('C20_message_nullness_partial', 'copy_to_nullness_message_partial', 'message level, every depth: the result of CopyTo into the empty schema-typed object has, attribute by attribute, exactly the documented null-ness (scalar: zero / nil pointer; list, map: nil or empty; nullable message: nil; by-value message: never; oneof branch: inactive or zero payload; placeholder: always), recursively in nested objects, list elements and map values, and nothing is unknown (class tf_ok)'),
    ('C20_absent_null', 'copy_to_absent_null', 'absence is rendered as null'),
    ('C20_present_not_null', 'copy_to_present_not_null', 'presence as non-null'),
    ('C20_every_depth', 'copy_to_nullness_every_depth', 'the same for every attribute of every nested object reached through non-null objects, list elements and map values'),
    ('C20_null_iff_absent', 'val_nl_iff', 'null if and only if absent, non-null if and only if present'),
    ('C20_broken_chain_renders_null', 'copy_to_broken_chain_renders_null', 'a field promoted through a chain of nullable embedded messages is rendered null as soon as one pointer on the chain is nil'),
])
