(* The Go type-string layer of the plugin: /repo/imports.go (Imports.WithType, WithPackage,
   PrependPackageNameIfMissing, appendQual, typAndMod, typBeforeBracket, isBuiltinType) together with
   cleanPackageName / badToUnderscore of gogo's generator, which gives an import its alias.

   This is the only code through which default_package_name and import_path_overrides influence the
   generated text (C13). Strings are byte strings; the model is exact on ASCII input (Go maps runes,
   not bytes, through badToUnderscore: the correspondence check feeds ASCII only, see DESIGN.md).

   Imports carries state: the qualifiers it has handed out (Go stores them in the map `qualifiers`
   under the QUALIFIER, and looks them up by PATH, exactly as modelled here). *)
From Coq Require Import List String Ascii Bool NArith.
From PGT Require Import Base.Strs Base.AList Model.Vals.
Import ListNotations.
Open Scope string_scope.

(* strings.LastIndexAny(t, "[]*") *)
Definition is_mod_char (c : ascii) : bool :=
  ascii_eqb c "["%char || ascii_eqb c "]"%char || ascii_eqb c "*"%char.

Fixpoint last_index_p_aux (p : ascii -> bool) (s : string) (i : nat) (last : option nat) : option nat :=
  match s with
  | EmptyString => last
  | String d r => last_index_p_aux p r (S i) (if p d then Some i else last)
  end.
Definition last_index_p p s := last_index_p_aux p s 0 None.

(* typAndMod: (type, modifiers) *)
Definition typ_and_mod (t : string) : string * string :=
  match last_index_p is_mod_char t with
  | Some i => (drop (S i) t, take (S i) t)
  | None => (t, "")
  end.

(* typBeforeBracket *)
Definition typ_before_bracket (typ : string) : string :=
  match index_char "("%char typ with
  | Some p => take p typ
  | None => typ
  end.

Definition builtin_types : list string :=
  ["bool"; "string"; "int"; "int8"; "int16"; "int32"; "int64";
   "uint"; "uint8"; "uint16"; "uint32"; "uint64"; "uintptr";
   "byte"; "rune"; "float32"; "float64"; "complex64"; "complex128"].
Definition is_builtin_type (t : string) : bool := mem_str t builtin_types.

(* gogo generator: badToUnderscore, isGoKeyword, cleanPackageName *)
Definition is_ident_char (c : ascii) : bool :=
  is_lower c || is_upper c || is_digit c || ascii_eqb c "_"%char.
Definition bad_to_underscore (c : ascii) : ascii := if is_ident_char c then c else "_"%char.

Definition go_keywords : list string :=
  ["break"; "case"; "chan"; "const"; "continue"; "default"; "else"; "defer"; "fallthrough"; "for";
   "func"; "go"; "goto"; "if"; "import"; "interface"; "map"; "package"; "range"; "return";
   "select"; "struct"; "switch"; "type"; "var"].

Definition clean_package_name (name : string) : string :=
  let n := map_str bad_to_underscore name in
  let n := if mem_str n go_keywords then "_" ++ n else n in
  match first_char n with
  | Some c => if is_digit c then "_" ++ n else n
  | None => n
  end.

(* the state of an Imports value: the qualifiers handed out so far *)
Definition istate := list string.

Record icfg := { ic_overrides : list (string * string) }.

(* appendQual. Go slices typ[0:pos] with pos = -1 when there is no dot: a run-time panic. *)
Definition append_qual (c : icfg) (st : istate) (typ md : string) : res (string * istate) :=
  match last_index_char "."%char (typ_before_bracket typ) with
  | None => Panic
  | Some pos =>
      let path := take pos typ in
      let name := drop (S pos) typ in
      if mem_str path st then Ok (md ++ path ++ "." ++ name, st)
      else
        let path' := match lookup path (ic_overrides c) with Some o => o | None => path end in
        let q := clean_package_name path' in
        Ok (md ++ q ++ "." ++ name, q :: st)
  end.

Definition with_type (c : icfg) (st : istate) (t : string) : res (string * istate) :=
  let '(typ, md) := typ_and_mod t in
  if negb (contains_char "."%char (typ_before_bracket typ)) then Ok (t, st)
  else append_qual c st typ md.

Definition with_package (c : icfg) (st : istate) (pkg typ : string) : res (string * istate) :=
  with_type c st (pkg ++ "." ++ typ).

Definition prepend_package (c : icfg) (st : istate) (t pkg : string) : res (string * istate) :=
  let '(typ, md) := typ_and_mod t in
  if contains_char "."%char (typ_before_bracket typ) || String.eqb pkg "" || is_builtin_type typ
  then Ok (t, st)
  else append_qual c st (pkg ++ "." ++ typ) md.

(* one operation of the probe (the correspondence check runs sequences of them on one Imports value) *)
Inductive iop :=
| OpWithType (t : string)
| OpWithPackage (pkg typ : string)
| OpPrepend (t pkg : string).

Definition run_iop (c : icfg) (st : istate) (o : iop) : res (string * istate) :=
  match o with
  | OpWithType t => with_type c st t
  | OpWithPackage p t => with_package c st p t
  | OpPrepend t p => prepend_package c st t p
  end.

(* a sequence: the results in order; a panic ends the sequence (the Go process dies) *)
Fixpoint run_iops (c : icfg) (st : istate) (os : list iop) : list (option string) :=
  match os with
  | [] => []
  | o :: r =>
      match run_iop c st o with
      | Ok (s, st') => Some s :: run_iops c st' r
      | Panic => [None]
      end
  end.

(* ---- main.go: replacePackageName. The regular expression is  package (.+)\n  : the text "package ",
   at least one character other than a newline up to the end of the line, and the newline. The first
   match is replaced by "package <target>\n"; without a match the text is returned as it is. *)
Fixpoint split_line (s : string) : option (string * string) :=
  match s with
  | EmptyString => None
  | String c r =>
      if is_nl c then Some (EmptyString, r)
      else match split_line r with
           | Some (x, rest) => Some (String c x, rest)
           | None => None
           end
  end.

Definition pkg_kw : string := "package ".

Fixpoint replace_package_name (s target : string) : string :=
  match s with
  | EmptyString => EmptyString
  | String c r =>
      if has_prefix pkg_kw s then
        match split_line (drop 8 s) with
        | Some (EmptyString, _) => String c (replace_package_name r target)   (* "package \n": no match here *)
        | Some (_, rest) => pkg_kw ++ target ++ nl ++ rest
        | None => s            (* no newline any more: no match here or later *)
        end
      else String c (replace_package_name r target)
  end.
