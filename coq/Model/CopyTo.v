(* Denotational semantics of the emitted Copy<T>ToTerraform (gen_copy_to.go), template by
   template. Panics of the emitted code are results. *)
From Coq Require Import List String Bool ZArith.
From PGT Require Import Base.Strs Base.AList Model.Vals Model.IR.
Import ListNotations.

Definition attrs_t := list (string * tfval).
Definition tstate := (attrs_t * list diag)%type.

(* the three-argument user hook CopyTo<S>(diags, field, type, current) *)
Definition hook_to_t := string -> goval -> tfty -> option tfval -> tfval.

(* obj.<Parent> == nil || obj.<Inner> == nil || ... : one of the nullable embedded messages the field is promoted
   from is not set (each is reached through the ones before it) *)
Fixpoint chain_nil (obj : goval) (ps : list string) : res bool :=
  match ps with
  | [] => Ok false
  | p :: r =>
      do pv <- gfield obj p;
      match pv with
      | GPtr None => Ok true
      | GPtr (Some inner) => chain_nil inner r
      | _ => Panic
      end
  end.

Definition parent_is_nil (i : finfo) (obj : goval) : res (option bool) :=
  match fi_parent i with
  | None => Ok None
  | Some (p, _) => do b <- chain_nil obj (p :: map fst (fi_inner i)); Ok (Some b)
  end.

(* the oneof stub (type assertion of obj.<OneOf> to the wrapper pointer), the holder being read only when the nullable embedded
   message it is promoted from is set *)
Definition read_holder (i : finfo) (h : string) (obj : goval) : res goval :=
  do pn <- parent_is_nil i obj;
  match pn with
  | Some true => Ok (GOneof None)
  | _ => gget_via obj (fi_via i) h
  end.

(* obj.<Name>, through the oneof stub when the field is a oneof branch *)
Definition read_field (i : finfo) (branch_zero : goval) (obj : goval) : res goval :=
  match fi_oneof i with
  | None => gget_via obj (fi_via i) (fi_name i)
  | Some h =>
      do hv <- read_holder i h obj;
      match hv with
      | GOneof (Some (b, payload)) => if String.eqb b (fi_name i) then Ok payload else Ok branch_zero
      | GOneof None => Ok branch_zero
      | _ => Panic
      end
  end.

(* genEmbeddedSource: a message, list or map field promoted from a nullable embedded message is read
   into a local variable which holds the zero value when the embedded message is nil *)
Definition read_source (i : finfo) (zero : goval) (obj : goval) : res goval :=
  match fi_oneof i with
  | Some _ => read_field i zero obj
  | None =>
      do pn <- parent_is_nil i obj;
      match pn with
      | Some true => Ok zero
      | _ => gget_via obj (fi_via i) (fi_name i)
      end
  end.

Definition make_nils (n : nat) : list tfval := repeat VNil n.

(* genPrimitiveBody: cur is tf.Attrs[snake] of the enclosing object, t the attribute (element) type,
   rd the value of the Go expression that is read *)
Definition to_prim_value (i : finfo) (rd : res goval) (obj : goval) (t : tfty) (cur : option tfval)
           (ds : list diag) : res (tfval * list diag) :=
  let k := fi_tk i in
  (* v, ok := tf.Attrs[snake].(T) ; if !ok { genZeroValue } *)
  do st <-
    match (match cur with
           | Some (VPrim k' n u p) => if tfkind_eqb k k' then Some (n, u, p) else None
           | _ => None
           end) with
    | Some (n, u, p) => Ok (n, u, p, ds)
    | None =>
        let '(n0, u0, p0, ds0) :=
          match null_value t with
          | VPrim k' n u p =>
              if tfkind_eqb k k' then (n, u, p, ds)
              else (false, false, zero_prim_of_kind k, diag_append ds (WriteConv, fi_path i))
          | _ => (false, false, zero_prim_of_kind k, diag_append ds (WriteConv, fi_path i))
          end in
        if fi_placeholder i then Ok (true, u0, p0, ds0)
        else if fi_zero i then
          (* obj.<Parent> == nil || <cast>(field) == <zero> *)
          do pn <- (match fi_oneof i with Some _ => Ok None | None => parent_is_nil i obj end);
          match pn with
          | Some true => Ok (true, u0, p0, ds0)
          | _ => do g <- rd; do c <- cast_to k g; Ok (prim_is_zero c, u0, p0, ds0)
          end
        else Ok (false, u0, p0, ds0)
    end;
  let '(n1, u1, p1, ds1) := st in
  let assign : res (bool * prim) :=
    if fi_nullable i then
      do g <- rd;
      match g with
      | GPtr None => Ok (true, p1)
      | GPtr (Some x) => do c <- cast_to k x; Ok (false, c)
      | _ => Panic
      end
    else
      do g <- rd; do c <- cast_to k g; Ok (n1, c) in
  do np <-
    (if fi_placeholder i then Ok (n1, p1)
     else
       do pn <- (match fi_oneof i with Some _ => Ok None | None => parent_is_nil i obj end);
       match pn with
       | Some true => Ok (true, p1)
       | _ => assign
       end);
  let '(n2, p2) := np in
  Ok (VPrim k n2 false p2, ds1).

Section CopyTo.
  Variable hook_to : hook_to_t.

  Fixpoint to_fields (m : message) (obj : goval) (atys : list (string * tfty)) (st : tstate) {struct m}
    : res tstate :=
    match m with
    | Msg _ fs _ _ _ _ =>
        (fix go (l : list field) (st : tstate) {struct l} : res tstate :=
           match l with
           | [] => Ok st
           | f :: r => do st' <- to_field f obj atys st; go r st'
           end) fs st
    end

  with to_field (f : field) (obj : goval) (atys : list (string * tfty)) (st : tstate) {struct f}
    : res tstate :=
    let '(attrs, ds) := st in
    match f with
    | Field i om =>
        let s := fi_snake i in
        let path := fi_path i in
        match lookup s atys with
        | None => Ok (attrs, diag_append ds (WriteMissing, path))
        | Some t =>
            let cur := lookup s attrs in
            (* genObjectBody for message m' reading expression rd *)
            let obj_value (m' : message) (rd : res goval) (ats : list (string * tfty)) (ds : list diag)
                : res (tfval * list diag) :=
              let '(oatys, n0, attrs0) :=
                match cur with
                | Some (VObj a n u at0) => (a, n, match at0 with Some x => x | None => [] end)
                | _ => (ats, false, [])
                end in
              let copy (g : goval) : res (tfval * list diag) :=
                do st' <- to_fields m' g oatys (attrs0, ds);
                let '(attrs', ds') := st' in
                Ok (VObj oatys n0 false (Some attrs'), ds') in
              if fi_nullable i then
                do g <- rd;
                match g with
                | GPtr None => Ok (VObj oatys true false (Some attrs0), ds)
                | GPtr (Some inner) => copy (if m_empty m' then obj else inner)
                | _ => Panic
                end
              else if m_empty m' then copy obj
              else do g <- rd; copy g in
            match fi_kind i, om with
            | PrimitiveKind, _ =>
                let bz := zero_of_prim i in
                do _u <- (match fi_oneof i with Some h => do _u <- read_holder i h obj; Ok tt | None => Ok tt end);
                do vd <- to_prim_value i (read_field i bz obj) obj t cur ds;
                let '(v, ds') := vd in
                Ok (update s v attrs, ds')
            | ObjectKind, Some m' =>
                (* the oneof stub is evaluated before the type assertion *)
                let rd := read_source i (if fi_nullable i then GPtr None else m_zero m') obj in
                do _u <- rd;
                match t with
                | TyObj ats =>
                    do vd <- obj_value m' rd ats ds;
                    let '(v, ds') := vd in
                    Ok (update s v attrs, ds')
                | _ => Ok (attrs, diag_append ds (WriteConv, path))
                end
            | PrimitiveListKind, _ | ObjectListKind, _ =>
                match t with
                | TyList ety =>
                    do g <- read_source i (GSlice None) obj;
                    match g with
                    | GSlice src =>
                        let n := match src with Some l => List.length l | None => O end in
                        let '(cety, cn, celems) :=
                          match cur with
                          | Some (VList e n0 u0 el) =>
                              (e, n0, match el with
                                      | Some x => if Nat.eqb (List.length x) n then x else make_nils n
                                      | None => make_nils n
                                      end)
                          | _ => (ety, true, make_nils n)
                          end in
                        match src with
                        | None => Ok (update s (VList cety cn false (Some celems)) attrs, ds)
                        | Some l =>
                            do r <-
                              (match fi_kind i, om with
                               | ObjectListKind, Some m' =>
                                   match ety with
                                   | TyObj ats =>
                                       fold_left (fun acc a =>
                                                    do '(vs, ds1) <- acc;
                                                    do '(v, ds2) <- obj_value m' (Ok a) ats ds1;
                                                    Ok (vs ++ [v], ds2)) l (Ok ([], ds))
                                   | _ => Panic
                                   end
                               | _, _ =>
                                   fold_left (fun acc a =>
                                                do '(vs, ds1) <- acc;
                                                do '(v, ds2) <- to_prim_value i (Ok a) obj ety cur ds1;
                                                Ok (vs ++ [v], ds2)) l (Ok ([], ds))
                               end);
                            let '(vs, ds') := r in
                            Ok (update s (VList cety (if Nat.ltb 0 n then false else cn) false (Some vs)) attrs, ds')
                        end
                    | _ => Panic
                    end
                | _ => Ok (attrs, diag_append ds (WriteConv, path))
                end
            | PrimitiveMapKind, _ | ObjectMapKind, _ =>
                match t with
                | TyMap ety =>
                    do g <- read_source i (GMap None) obj;
                    match g with
                    | GMap src =>
                        let '(cety, cn, celems) :=
                          match cur with
                          | Some (VMap e n0 u0 el) => (e, n0, [])      (* an existing map is re-made *)
                          | _ => (ety, true, [])
                          end in
                        match src with
                        | None => Ok (update s (VMap cety cn false (Some celems)) attrs, ds)
                        | Some l =>
                            do r <-
                              (match fi_kind i, om with
                               | ObjectMapKind, Some m' =>
                                   match ety with
                                   | TyObj ats =>
                                       fold_left (fun acc ka =>
                                                    do '(es, ds1) <- acc;
                                                    do '(v, ds2) <- obj_value m' (Ok (snd ka)) ats ds1;
                                                    Ok (update (fst ka) v es, ds2)) l (Ok (celems, ds))
                                   | _ => Panic
                                   end
                               | _, _ =>
                                   fold_left (fun acc ka =>
                                                do '(es, ds1) <- acc;
                                                do '(v, ds2) <- to_prim_value i (Ok (snd ka)) obj ety cur ds1;
                                                Ok (update (fst ka) v es, ds2)) l (Ok (celems, ds))
                               end);
                            let '(es, ds') := r in
                            Ok (update s (VMap cety (match l with [] => cn | _ => false end) false (Some es)) attrs, ds')
                        end
                    | _ => Panic
                    end
                | _ => Ok (attrs, diag_append ds (WriteConv, path))
                end
            | CustomKind, _ =>
                (* genEmbeddedSource: a field promoted from a nullable embedded message that is not set is
                   read as the zero value of its Go type (the one the embedded message's zero struct holds) *)
                do g <- (match fi_parent i with
                         | Some (_, pzero) => do z <- gfield pzero (fi_name i); read_source i z obj
                         | None => gget_via obj (fi_via i) (fi_name i)
                         end);
                Ok (update s (hook_to (fi_suffix i) g t cur) attrs, ds)
            | _, None => Panic    (* ill-formed IR: object kind without a message *)
            end
        end
    end.

  (* Copy<T>ToTerraform(ctx, obj, tf): tf must be an object *)
  Definition copy_to (m : message) (obj : goval) (tf : tfval) : res (tfval * list diag) :=
    match tf with
    | VObj atys _ _ at0 =>
        let attrs0 := match at0 with Some x => x | None => [] end in
        do st <- to_fields m obj atys (attrs0, []);
        let '(attrs, ds) := st in
        Ok (VObj atys false false (Some attrs), ds)
    | _ => Panic
    end.
End CopyTo.

(* the instrumented hook of the harness: the returned value records the call *)
Definition std_hook_to : hook_to_t :=
  fun s g t cur => VHook s false false false (Some g) (Some t) (Some cur).
