(* The generator's intermediate representation (Message / Field of message.go, field.go),
   reduced to what decides the meaning of the emitted code. *)
From Coq Require Import List String Bool ZArith.
From PGT Require Import Base.Strs Base.AList Model.Vals.
Import ListNotations.

Inductive kind :=
| PrimitiveKind | PrimitiveListKind | ObjectKind | ObjectListKind | PrimitiveMapKind | ObjectMapKind | CustomKind.

Inductive injected := Injected (name : string) (ty : tfty) (required computed optional : bool) (pms vals : list string).

Record finfo := {
  fi_name : string;            (* Field.Name: Go field name *)
  fi_snake : string;           (* Field.NameSnake: attribute name *)
  fi_path : string;            (* Field.Path: used in diagnostics *)
  fi_kind : kind;
  fi_tk : tfkind;              (* ElemValueType of a primitive (element); irrelevant for objects *)
  fi_cast : goscalar;          (* ValueCastFromType *)
  fi_nullable : bool;          (* IsNullable *)
  fi_zero : bool;              (* ZeroValue <> "" *)
  fi_placeholder : bool;       (* IsPlaceholder *)
  fi_oneof : option string;    (* OneOfName: Go name of the holder *)
  fi_via : list string;        (* pointer-embedded fields through which Go resolves obj.<Name> *)
  fi_parent : option (string * goval); (* ParentIsOptionalEmbedFieldName, zero value of its struct *)
  fi_inner : list (string * goval);    (* ParentIsOptionalEmbedInner: the nullable embedded messages between fi_parent
                                          and the field, outermost first, with the zero values of their structs *)
  fi_required : bool;
  fi_computed : bool;
  fi_sensitive : bool;
  fi_validators : list string;
  fi_planmods : list string;
  fi_comment : string;
  fi_suffix : string;          (* custom type suffix *)
}.

(* nested inductive: a field may carry the message of its value / element *)
Inductive field :=
| Field (i : finfo) (msg : option message)
with message :=
| Msg (name : string) (fields : list field) (oneofs : list string) (inj : list injected)
      (is_empty : bool) (zero : goval).   (* zero: the zero value of the Go struct *)

Definition f_info (f : field) : finfo := match f with Field i _ => i end.
Definition f_msg (f : field) : option message := match f with Field _ m => m end.
Definition m_name (m : message) := match m with Msg n _ _ _ _ _ => n end.
Definition m_fields (m : message) := match m with Msg _ fs _ _ _ _ => fs end.
Definition m_oneofs (m : message) := match m with Msg _ _ os _ _ _ => os end.
Definition m_inj (m : message) := match m with Msg _ _ _ i _ _ => i end.
Definition m_empty (m : message) := match m with Msg _ _ _ _ e _ => e end.
Definition m_zero (m : message) := match m with Msg _ _ _ _ _ z => z end.

(* strong induction principle for the nested inductive *)
Section Ind.
  Variables (P : field -> Prop) (Q : message -> Prop).
  Hypothesis Hf_none : forall i, P (Field i None).
  Hypothesis Hf_some : forall i m, Q m -> P (Field i (Some m)).
  Hypothesis Hm : forall n fs os inj e z, Forall P fs -> Q (Msg n fs os inj e z).

  Fixpoint field_ind' (f : field) : P f :=
    match f with
    | Field i None => Hf_none i
    | Field i (Some m) => Hf_some i m (message_ind' m)
    end
  with message_ind' (m : message) : Q m :=
    match m with
    | Msg n fs os inj e z =>
        Hm n fs os inj e z
          ((fix go (l : list field) : Forall P l :=
              match l with
              | [] => Forall_nil _
              | f :: r => Forall_cons f (field_ind' f) (go r)
              end) fs)
    end.
End Ind.

Definition kind_eqb (a b : kind) : bool :=
  match a, b with
  | PrimitiveKind, PrimitiveKind | PrimitiveListKind, PrimitiveListKind | ObjectKind, ObjectKind
  | ObjectListKind, ObjectListKind | PrimitiveMapKind, PrimitiveMapKind | ObjectMapKind, ObjectMapKind
  | CustomKind, CustomKind => true
  | _, _ => false
  end.

(* zero value of the Go field a primitive IR field (or element) stands for *)
Definition zero_of_prim (i : finfo) : goval :=
  if fi_nullable i then GPtr None else zero_scalar (fi_cast i).
