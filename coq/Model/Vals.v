(* Values of the model: Go values of the gogo-generated structs, Terraform types and values,
   diagnostics, results; the conversions the generated code performs. *)
From Coq Require Import List String Bool ZArith Lia.
From Coq Require Import Floats.SpecFloat.
From PGT Require Import Base.Strs Base.AList.
Import ListNotations.
Local Open Scope Z_scope.

(* ------------------------------------------------------------------------------------- *)
(* results *)

Inductive res (A : Type) : Type :=
| Ok (x : A)
| Panic.
Arguments Ok {A} x.
Arguments Panic {A}.

Definition bind {A B} (r : res A) (f : A -> res B) : res B :=
  match r with Ok x => f x | Panic => Panic end.
Notation "'do' x <- r ; k" := (bind r (fun x => k)) (at level 200, x name, r at level 100, k at level 200).
Notation "'do' ' p <- r ; k" := (bind r (fun x => match x with p => k end)) (at level 200, p pattern, r at level 100, k at level 200).

(* ------------------------------------------------------------------------------------- *)
(* integer conversions: every Go conversion is written out *)

Definition wrap_s (bits : Z) (x : Z) : Z :=
  let m := 2 ^ bits in
  let r := x mod m in
  if r <? 2 ^ (bits - 1) then r else r - m.
Definition wrap_u (bits : Z) (x : Z) : Z := x mod 2 ^ bits.

(* ------------------------------------------------------------------------------------- *)
(* floats: IEEE binary32/binary64 as spec_float (standard library, proof free); exchanged as bit
   patterns *)

Definition sf_of_bits (mw ew : Z) (bits : Z) : spec_float :=
  let s := Z.odd (bits / 2 ^ (mw + ew)) in
  let e := (bits / 2 ^ mw) mod 2 ^ ew in
  let m := bits mod 2 ^ mw in
  let emin := 3 - 2 ^ (ew - 1) - (mw + 1) in
  if e =? 0 then
    match m with Zpos p => S754_finite s p emin | _ => S754_zero s end
  else if e =? 2 ^ ew - 1 then
    match m with Z0 => S754_infinity s | _ => S754_nan end
  else
    match m + 2 ^ mw with Zpos p => S754_finite s p (e + emin - 1) | _ => S754_nan end.

Definition bits_of_sf (mw ew : Z) (x : spec_float) : Z :=
  let sb (s : bool) := if s then 2 ^ (mw + ew) else 0 in
  let emin := 3 - 2 ^ (ew - 1) - (mw + 1) in
  match x with
  | S754_zero s => sb s
  | S754_infinity s => sb s + (2 ^ ew - 1) * 2 ^ mw
  | S754_nan => (2 ^ ew - 1) * 2 ^ mw + 2 ^ (mw - 1)
  | S754_finite s m e =>
      if Zpos m <? 2 ^ mw then sb s + Zpos m
      else sb s + (e - emin + 1) * 2 ^ mw + (Zpos m - 2 ^ mw)
  end.

Definition sf32_of_bits := sf_of_bits 23 8.
Definition sf64_of_bits := sf_of_bits 52 11.
Definition bits_of_sf32 := bits_of_sf 23 8.
Definition bits_of_sf64 := bits_of_sf 52 11.

(* float64(x) for x : float32 and float32(v) for v : float64, round to nearest even *)
Definition sf_convert (prec emax : Z) (x : spec_float) : spec_float :=
  match x with
  | S754_finite s m e => SpecFloat.binary_normalize prec emax (if s then Zneg m else Zpos m) e s
  | _ => x
  end.
Definition widen (x : spec_float) : spec_float := sf_convert 53 1024 x.
Definition narrow (x : spec_float) : spec_float := sf_convert 24 128 x.

Definition sf_is_zero (x : spec_float) : bool :=
  match x with S754_zero _ => true | _ => false end.

(* ------------------------------------------------------------------------------------- *)
(* Go values *)

Inductive prim :=
| PInt (z : Z)                 (* all integer kinds, enums, durations *)
| PF32 (x : spec_float)
| PF64 (x : spec_float)
| PBool (b : bool)
| PStr (s : string)
| PTime (sec nsec off : Z).

Inductive goval :=
| GPrim (p : prim)
| GBytes (o : option string)                      (* nil or a byte string *)
| GPtr (o : option goval)
| GSlice (o : option (list goval))
| GMap (o : option (list (string * goval)))
| GStruct (fs : list (string * goval))            (* by-value embedded structs flattened *)
| GOneof (o : option (string * goval)).           (* wrapper field name, payload *)

(* the Go scalar type of a field or element: decides the conversions *)
Inductive goscalar :=
| GsInt32 | GsInt64 | GsUint32 | GsUint64 | GsFloat32 | GsFloat64 | GsBool | GsString | GsBytes
| GsEnum | GsTime | GsDuration.

(* ------------------------------------------------------------------------------------- *)
(* Terraform types and values *)

Inductive tfkind := KI64 | KF64 | KStr | KBool | KTime | KDur.

Inductive tfty :=
| TyPrim (k : tfkind)
| TyList (e : tfty)
| TyMap (e : tfty)
| TyObj (ats : list (string * tfty))
| TyHook (suffix : string).

Inductive tfval :=
| VPrim (k : tfkind) (null unknown : bool) (p : prim)
| VList (ety : tfty) (null unknown : bool) (elems : option (list tfval))
| VMap (ety : tfty) (null unknown : bool) (elems : option (list (string * tfval)))
| VObj (atys : list (string * tfty)) (null unknown : bool) (attrs : option (list (string * tfval)))
| VNil
| VHook (suffix : string) (fromtf null unknown : bool) (field : option goval) (ty : option tfty) (cur : option (option tfval)).
(* VHook: the value a custom-type hook returns records the call: field value, attribute type and
   current attribute value (Some None: a nil interface was passed; None: not produced by CopyTo) *)

Definition tfkind_eqb (a b : tfkind) : bool :=
  match a, b with
  | KI64, KI64 | KF64, KF64 | KStr, KStr | KBool, KBool | KTime, KTime | KDur, KDur => true
  | _, _ => false
  end.

Definition zero_prim_of_kind (k : tfkind) : prim :=
  match k with
  | KI64 => PInt 0
  | KF64 => PF64 (S754_zero false)
  | KStr => PStr EmptyString
  | KBool => PBool false
  | KTime => PTime (-62135596800) 0 0
  | KDur => PInt 0
  end.

(* t.ValueFromTerraform(ctx, tftypes.NewValue(t.TerraformType(ctx), nil)) *)
Definition null_value (t : tfty) : tfval :=
  match t with
  | TyPrim k => VPrim k true false (zero_prim_of_kind k)
  | TyList e => VList e true false None
  | TyMap e => VMap e true false None
  | TyObj ats => VObj ats true false None
  | TyHook s => VHook s true true false None None None
  end.

(* ------------------------------------------------------------------------------------- *)
(* diagnostics *)

Inductive dkind := ReadMissing | ReadConv | WriteMissing | WriteConv | WriteGeneral.
Definition diag := (dkind * string)%type.

Definition dkind_eqb (a b : dkind) : bool :=
  match a, b with
  | ReadMissing, ReadMissing | ReadConv, ReadConv | WriteMissing, WriteMissing
  | WriteConv, WriteConv | WriteGeneral, WriteGeneral => true
  | _, _ => false
  end.
Definition diag_eqb (a b : diag) : bool := dkind_eqb (fst a) (fst b) && String.eqb (snd a) (snd b).

Fixpoint diag_mem (d : diag) (l : list diag) : bool :=
  match l with [] => false | x :: r => diag_eqb d x || diag_mem d r end.

(* Diagnostics.Append de-duplicates equal diagnostics *)
Definition diag_append (l : list diag) (d : diag) : list diag :=
  if diag_mem d l then l else l ++ [d].

(* ------------------------------------------------------------------------------------- *)
(* casts of the generated code *)

(* <ValueCastToType>(field): Go value -> payload of the Terraform value *)
Definition cast_to (k : tfkind) (g : goval) : res prim :=
  match k, g with
  | KI64, GPrim (PInt z) => Ok (PInt (wrap_s 64 z))        (* int64(x) for every integer kind *)
  | KF64, GPrim (PF32 x) => Ok (PF64 (widen x))            (* float64(x) *)
  | KF64, GPrim (PF64 x) => Ok (PF64 x)
  | KStr, GPrim (PStr s) => Ok (PStr s)
  | KStr, GBytes None => Ok (PStr EmptyString)             (* string([]byte(nil)) *)
  | KStr, GBytes (Some s) => Ok (PStr s)
  | KBool, GPrim (PBool b) => Ok (PBool b)
  | KTime, GPrim (PTime a b c) => Ok (PTime a b c)
  | KDur, GPrim (PInt z) => Ok (PInt z)
  | _, _ => Panic
  end.

(* <ValueCastFromType>(v.Value): payload -> Go value of the field's scalar type *)
Definition cast_from (s : goscalar) (p : prim) : res goval :=
  match s, p with
  | GsInt32, PInt z => Ok (GPrim (PInt (wrap_s 32 z)))
  | GsInt64, PInt z => Ok (GPrim (PInt (wrap_s 64 z)))
  | GsUint32, PInt z => Ok (GPrim (PInt (wrap_u 32 z)))
  | GsUint64, PInt z => Ok (GPrim (PInt (wrap_u 64 z)))
  | GsEnum, PInt z => Ok (GPrim (PInt (wrap_s 32 z)))
  | GsDuration, PInt z => Ok (GPrim (PInt z))
  | GsFloat32, PF64 x => Ok (GPrim (PF32 (narrow x)))
  | GsFloat64, PF64 x => Ok (GPrim (PF64 x))
  | GsBool, PBool b => Ok (GPrim (PBool b))
  | GsString, PStr x => Ok (GPrim (PStr x))
  | GsBytes, PStr x => Ok (GBytes (Some x))                (* []byte(s) is never nil *)
  | GsTime, PTime a b c => Ok (GPrim (PTime a b c))
  | _, _ => Panic
  end.

(* <cast>(field) == <zero literal> *)
Definition prim_is_zero (p : prim) : bool :=
  match p with
  | PInt z => z =? 0
  | PF32 x | PF64 x => sf_is_zero x
  | PBool b => negb b
  | PStr s => match s with EmptyString => true | _ => false end
  | PTime _ _ _ => false
  end.

(* zero value of a scalar Go type *)
Definition zero_scalar (s : goscalar) : goval :=
  match s with
  | GsInt32 | GsInt64 | GsUint32 | GsUint64 | GsEnum | GsDuration => GPrim (PInt 0)
  | GsFloat32 => GPrim (PF32 (S754_zero false))
  | GsFloat64 => GPrim (PF64 (S754_zero false))
  | GsBool => GPrim (PBool false)
  | GsString => GPrim (PStr EmptyString)
  | GsBytes => GBytes None
  | GsTime => GPrim (PTime (-62135596800) 0 0)
  end.

(* ------------------------------------------------------------------------------------- *)
(* struct access *)

Definition gfield (obj : goval) (n : string) : res goval :=
  match obj with
  | GStruct fs => match lookup n fs with Some v => Ok v | None => Panic end
  | _ => Panic
  end.

Definition gset (obj : goval) (n : string) (v : goval) : res goval :=
  match obj with
  | GStruct fs => match lookup n fs with Some _ => Ok (GStruct (update n v fs)) | None => Panic end
  | _ => Panic
  end.

(* read obj.<n> where Go resolves the selector through the pointer-embedded fields [via] *)
Fixpoint gget_via (obj : goval) (via : list string) (n : string) : res goval :=
  match via with
  | [] => gfield obj n
  | p :: r =>
      do pv <- gfield obj p;
      match pv with
      | GPtr (Some inner) => gget_via inner r n
      | _ => Panic                       (* nil pointer dereference *)
      end
  end.

Fixpoint gset_via (obj : goval) (via : list string) (n : string) (v : goval) : res goval :=
  match via with
  | [] => gset obj n v
  | p :: r =>
      do pv <- gfield obj p;
      match pv with
      | GPtr (Some inner) => do inner' <- gset_via inner r n v; gset obj p (GPtr (Some inner'))
      | _ => Panic
      end
  end.
