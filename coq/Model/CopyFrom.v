(* Denotational semantics of the emitted Copy<T>FromTerraform (gen_copy_from.go). *)
From Coq Require Import List String Bool ZArith.
From PGT Require Import Base.Strs Base.AList Model.Vals Model.IR.
Import ListNotations.

Definition fstate := (goval * list diag)%type.

(* CopyFrom<S>(diags, attribute value or nil, &field): new content of the field *)
Definition hook_from_t := string -> option tfval -> goval -> goval.

Definition known (n u : bool) : bool := negb n && negb u.

(* genPrimitiveBody: the Go value t read from a primitive attribute value *)
Definition from_prim_value (i : finfo) (n u : bool) (p : prim) : res goval :=
  if known n u then
    do c <- cast_from (fi_cast i) p;
    Ok (if fi_nullable i then GPtr (Some c) else c)
  else Ok (zero_of_prim i).

Definition as_prim (i : finfo) (a : tfval) : option (bool * bool * prim) :=
  match a with
  | VPrim k n u p => if tfkind_eqb k (fi_tk i) then Some (n, u, p) else None
  | _ => None
  end.

(* allocateEmbedded: if obj.<Embedded> == nil { obj.<Embedded> = &Embedded{} } *)
(* allocateEmbedded: if obj.<Parent> == nil { obj.<Parent> = &Parent{} }, then the same for every nullable
   embedded message below it on the way to the field *)
Fixpoint alloc_chain (obj : goval) (ps : list (string * goval)) : res goval :=
  match ps with
  | [] => Ok obj
  | (pn, pzero) :: r =>
      do pv <- gfield obj pn;
      match pv with
      | GPtr None => do z <- alloc_chain pzero r; gset obj pn (GPtr (Some z))
      | GPtr (Some inner) =>
          match r with
          | [] => Ok obj
          | _ => do inner' <- alloc_chain inner r; gset obj pn (GPtr (Some inner'))
          end
      | _ => Panic
      end
  end.

Definition alloc_parent (i : finfo) (obj : goval) : res goval :=
  match fi_parent i with
  | None => Ok obj
  | Some pz => alloc_chain obj (pz :: fi_inner i)
  end.

Section CopyFrom.
  Variable hook_from : hook_from_t.

  Fixpoint from_fields (m : message) (attrs : option (list (string * tfval))) (st : fstate) {struct m}
    : res fstate :=
    match m with
    | Msg _ fs os _ _ _ =>
        (* obj.<OneOf> = nil for the message's own oneofs *)
        do obj000 <- fold_left (fun acc h => do o <- acc; gset o h (GOneof None)) os (Ok (fst st));
        (* ... and for the oneofs promoted from by-value embedded messages *)
        do obj00 <- fold_left (fun acc f => do o <- acc;
                                            match fi_oneof (f_info f), fi_parent (f_info f) with
                                            | Some h, None => gset o h (GOneof None)
                                            | _, _ => Ok o
                                            end) fs (Ok obj000);
        (* obj.<Embedded> = nil for every nullable embedded message the fields are promoted from *)
        do obj0 <- fold_left (fun acc f => do o <- acc;
                                           match fi_parent (f_info f) with
                                           | Some (pn, _) => gset o pn (GPtr None)
                                           | None => Ok o
                                           end) fs (Ok obj00);
        (fix go (l : list field) (st : fstate) {struct l} : res fstate :=
           match l with
           | [] => Ok st
           | f :: r =>
               (* the placeholder of a message without fields exists in the schema only *)
               if fi_placeholder (f_info f) then go r st
               else do st' <- from_field f attrs st; go r st'
           end) fs (obj0, snd st)
    end

  with from_field (f : field) (attrs : option (list (string * tfval))) (st : fstate) {struct f}
    : res fstate :=
    let '(obj, ds) := st in
    match f with
    | Field i om =>
        let s := fi_snake i in
        let path := fi_path i in
        let via := fi_via i in
        let name := fi_name i in
        let a0 := match attrs with Some l => lookup s l | None => None end in
        (* decoding of one message value into a fresh struct *)
        let decode (m' : message) (at0 : option (list (string * tfval))) (ds : list diag) : res fstate :=
          from_fields m' at0 (m_zero m', ds) in
        (* element of an object list / map *)
        let obj_elem (m' : message) (a : tfval) (ds : list diag) : res (option goval * list diag) :=
          match a with
          | VObj _ n u at0 =>
              if known n u then
                (* a message without fields has nothing to read *)
                do '(v, ds') <- (if m_empty m' then Ok (m_zero m', ds) else decode m' at0 ds);
                Ok (Some (if fi_nullable i then GPtr (Some v) else v), ds')
              else Ok (Some (if fi_nullable i then GPtr None else m_zero m'), ds)
          | _ => Ok (None, diag_append ds (ReadConv, path))
          end in
        let prim_elem (a : tfval) (ds : list diag) : res (option goval * list diag) :=
          match as_prim i a with
          | Some (n, u, p) => do t <- from_prim_value i n u p; Ok (Some t, ds)
          | None => Ok (None, diag_append ds (ReadConv, path))
          end in
        match fi_kind i with
        | CustomKind =>
            let ds1 := match a0 with None => diag_append ds (ReadMissing, path) | Some _ => ds end in
            (* the user function writes through a pointer to the field: a nullable embedded message the field
               is promoted from is allocated first *)
            do obj1 <- alloc_parent i obj;
            do cur <- gget_via obj1 via name;
            do obj' <- gset_via obj1 via name (hook_from (fi_suffix i) a0 cur);
            Ok (obj', ds1)
        | k =>
            match a0 with
            | None => Ok (obj, diag_append ds (ReadMissing, path))
            | Some a =>
                match k, om with
                | PrimitiveKind, _ =>
                    match as_prim i a with
                    | None => Ok (obj, diag_append ds (ReadConv, path))
                    | Some (n, u, p) =>
                        do t <- from_prim_value i n u p;
                        match fi_oneof i with
                        | Some h =>
                            if known n u then
                              do obj1 <- alloc_parent i obj;
                              do obj' <- gset_via obj1 via h (GOneof (Some (name, t))); Ok (obj', ds)
                            else Ok (obj, ds)
                        | None =>
                            match fi_parent i with
                            | Some _ =>
                                if known n u then
                                  do obj1 <- alloc_parent i obj;
                                  do obj' <- gset_via obj1 via name t; Ok (obj', ds)
                                else Ok (obj, ds)
                            | None => do obj' <- gset_via obj via name t; Ok (obj', ds)
                            end
                        end
                    end
                | ObjectKind, Some m' =>
                    match a with
                    | VObj _ n u at0 =>
                        match fi_oneof i with
                        | None =>
                            (* a field promoted from a nullable embedded message is not reset here *)
                            do obj1 <- (match fi_parent i with
                                        | Some _ => Ok obj
                                        | None => gset_via obj via name (if fi_nullable i then GPtr None else m_zero m')
                                        end);
                            if known n u then
                              do obj2 <- alloc_parent i obj1;
                              (* a message without fields has nothing to read, but a nullable one is allocated *)
                              do '(v, ds') <- (if m_empty m' then Ok (m_zero m', ds) else decode m' at0 ds);
                              do obj' <- gset_via obj2 via name (if fi_nullable i then GPtr (Some v) else v);
                              Ok (obj', ds')
                            else Ok (obj1, ds)
                        | Some h =>
                            if known n u then
                              do obj1 <- alloc_parent i obj;
                              do '(v, ds') <- (if m_empty m' then Ok (m_zero m', ds) else decode m' at0 ds);
                              do obj' <- gset_via obj1 via h (GOneof (Some (name, GPtr (Some v))));
                              Ok (obj', ds')
                            else Ok (obj, ds)
                        end
                    | _ => Ok (obj, diag_append ds (ReadConv, path))
                    end
                | PrimitiveListKind, _ | ObjectListKind, _ =>
                    match a with
                    | VList _ n u el =>
                        let l := match el with Some x => x | None => [] end in
                        let zero_elem :=
                          match k, om with
                          | ObjectListKind, Some m' => if fi_nullable i then GPtr None else m_zero m'
                          | _, _ => zero_of_prim i
                          end in
                        do r <-
                          (if known n u then
                             fold_left (fun acc a =>
                                          do '(vs, ds1) <- acc;
                                          do '(ov, ds2) <- (match k, om with
                                                            | ObjectListKind, Some m' => obj_elem m' a ds1
                                                            | _, _ => prim_elem a ds1
                                                            end);
                                          Ok (vs ++ [match ov with Some v => v | None => zero_elem end], ds2))
                                       l (Ok ([], ds))
                           else Ok ([], ds));
                        let '(vs, ds') := r in
                        match fi_parent i, known n u with
                        | Some _, false => Ok (obj, ds')
                        | _, _ =>
                            do obj1 <- alloc_parent i obj;
                            do obj' <- gset_via obj1 via name (GSlice (Some vs));
                            Ok (obj', ds')
                        end
                    | _ => Ok (obj, diag_append ds (ReadConv, path))
                    end
                | PrimitiveMapKind, _ | ObjectMapKind, _ =>
                    match a with
                    | VMap _ n u el =>
                        let l := match el with Some x => x | None => [] end in
                        do r <-
                          (if known n u then
                             fold_left (fun acc ka =>
                                          do '(es, ds1) <- acc;
                                          do '(ov, ds2) <- (match k, om with
                                                            | ObjectMapKind, Some m' => obj_elem m' (snd ka) ds1
                                                            | _, _ => prim_elem (snd ka) ds1
                                                            end);
                                          Ok (match ov with Some v => update (fst ka) v es | None => es end, ds2))
                                       l (Ok ([], ds))
                           else Ok ([], ds));
                        let '(es, ds') := r in
                        match fi_parent i, known n u with
                        | Some _, false => Ok (obj, ds')
                        | _, _ =>
                            do obj1 <- alloc_parent i obj;
                            do obj' <- gset_via obj1 via name (GMap (Some es));
                            Ok (obj', ds')
                        end
                    | _ => Ok (obj, diag_append ds (ReadConv, path))
                    end
                | _, _ => Panic
                end
            end
        end
    end.

  (* Copy<T>FromTerraform(ctx, tf, obj) *)
  Definition copy_from (m : message) (tf : tfval) (obj : goval) : res (goval * list diag) :=
    match tf with
    | VObj _ _ _ at0 => from_fields m at0 (obj, [])
    | _ => Panic
    end.
End CopyFrom.

Definition std_hook_from : hook_from_t :=
  fun _ a cur =>
    match a with
    | Some (VHook _ _ _ _ (Some fv) _ _) => fv
    | _ => cur
    end.
