(* Meaning of the emitted GenSchema<T> (gen_schema.go): the run-time tfsdk.Schema as a tree. *)
From Coq Require Import List String Bool ZArith.
From PGT Require Import Base.Strs Base.AList Model.Vals Model.IR.
Import ListNotations.

Inductive nest := NSingle | NList | NMap.

Inductive sattr :=
| SAttr (name : string) (required optional computed sensitive : bool) (desc : string)
        (vals pms : list string) (body : sbody)
with sbody :=
| SLeaf (t : tfty)
| SNoType
| SNested (mode : nest) (attrs : list sattr).

(* GenSchema<S>(ctx, attribute): user hook *)
Definition hook_schema_t := string -> sattr -> sattr.

Definition s_name (a : sattr) := match a with SAttr n _ _ _ _ _ _ _ _ => n end.

(* dictionary semantics of jen.Dict: a later entry with the same key replaces an earlier one *)
Fixpoint dict_put (a : sattr) (l : list sattr) : list sattr :=
  match l with
  | [] => [a]
  | b :: r => if String.eqb (s_name a) (s_name b) then a :: r else b :: dict_put a r
  end.

Definition prim_ty (i : finfo) : tfty := TyPrim (fi_tk i).

Section Schema.
  Variable hook_schema : hook_schema_t.

  Definition inj_attr (j : injected) : sattr :=
    match j with
    | Injected n t req comp opt pms vals => SAttr n req opt comp false EmptyString vals pms (SLeaf t)
    end.

  Fixpoint schema_attrs (m : message) {struct m} : list sattr :=
    match m with
    | Msg _ fs _ inj _ _ =>
        let own :=
          (fix go (l : list field) (acc : list sattr) {struct l} : list sattr :=
             match l with
             | [] => acc
             | f :: r => go r (dict_put (schema_field f) acc)
             end) fs [] in
        fold_left (fun acc j => dict_put (inj_attr j) acc) inj own
    end
  with schema_field (f : field) {struct f} : sattr :=
    match f with
    | Field i om =>
        let body :=
          match fi_kind i, om with
          | PrimitiveKind, _ => SLeaf (prim_ty i)
          | PrimitiveListKind, _ => SLeaf (TyList (prim_ty i))
          | PrimitiveMapKind, _ => SLeaf (TyMap (prim_ty i))
          | ObjectKind, Some m' => SNested NSingle (schema_attrs m')
          | ObjectListKind, Some m' => SNested NList (schema_attrs m')
          | ObjectMapKind, Some m' => SNested NMap (schema_attrs m')
          | _, _ => SNoType
          end in
        let a := SAttr (fi_snake i) (fi_required i) (negb (fi_required i)) (fi_computed i) (fi_sensitive i)
                       (fi_comment i) (fi_validators i) (fi_planmods i) body in
        match fi_kind i with
        | CustomKind => hook_schema (fi_suffix i) a
        | _ => a
        end
    end.

  (* schema.AttributeType(): the object type of the attributes *)
  Fixpoint attr_ty (a : sattr) : option (string * tfty) :=
    match a with
    | SAttr n _ _ _ _ _ _ _ b =>
        match b with
        | SLeaf t => Some (n, t)
        | SNoType => None
        | SNested mode l =>
            let o := TyObj ((fix go (l : list sattr) : list (string * tfty) :=
                               match l with
                               | [] => []
                               | x :: r => match attr_ty x with Some p => p :: go r | None => go r end
                               end) l) in
            Some (n, match mode with NSingle => o | NList => TyList o | NMap => TyMap o end)
        end
    end.

  Definition obj_ty_of (l : list sattr) : list (string * tfty) :=
    (fix go (l : list sattr) : list (string * tfty) :=
       match l with
       | [] => []
       | x :: r => match attr_ty x with Some p => p :: go r | None => go r end
       end) l.

  Definition schema_ty (m : message) : list (string * tfty) := obj_ty_of (schema_attrs m).
End Schema.

(* the harness hook: type replaced by HookType{S}, description prefixed *)
Definition std_hook_schema : hook_schema_t :=
  fun s a =>
    match a with
    | SAttr n req opt comp sens desc vals pms _ =>
        SAttr n req opt comp sens (String.append "hook:" (String.append s (String.append ":" desc))) vals pms (SLeaf (TyHook s))
    end.
