(* Name conversions: strcase.SnakeCase / UpperCamelCase (github.com/stoewer/go-strcase v1.2.0)
   and gogo's CamelCase, modelled character by character on ASCII input. *)
From Coq Require Import List String Ascii Bool NArith.
From PGT Require Import Base.Strs.
Import ListNotations.
Local Open Scope string_scope.

Definition is_delim (c : ascii) : bool :=
  (code c =? 45)%N (* - *) || (code c =? 95)%N (* _ *) || (code c =? 32)%N || (code c =? 9)%N || (code c =? 10)%N || (code c =? 13)%N.

Definition opt_is (p : ascii -> bool) (o : option ascii) : bool :=
  match o with Some c => p c | None => false end.

(* delimiterCase(s, '_', false): the loop looks at (prev, curr, next) *)
Fixpoint snake_loop (prev curr : option ascii) (s : string) : string :=
  let emit (next : option ascii) : string :=
    match curr with
    | None => EmptyString
    | Some c =>
        if is_delim c then
          (if opt_is is_delim prev then EmptyString
           else match prev with None => "_" | Some _ => "_" end)
        else if is_upper c then
          (if opt_is is_lower prev || (opt_is is_upper prev && opt_is is_lower next)
           then String "_" (String (to_lower c) EmptyString)
           else String (to_lower c) EmptyString)
        else String (to_lower c) EmptyString
    end in
  match s with
  | EmptyString =>
      (* after the loop: the last character *)
      match curr with
      | None => EmptyString
      | Some c =>
          (if is_upper c && opt_is is_lower prev then "_" else EmptyString) ++ String (to_lower c) EmptyString
      end
  | String n r => emit (Some n) ++ snake_loop curr (Some n) r
  end.

Definition snake_case (s : string) : string :=
  let s := trim_space s in
  match s with
  | EmptyString => EmptyString
  | _ => snake_loop None None s
  end.

(* camelCase(s, true) *)
Fixpoint camel_loop (prev : option ascii) (s : string) : string :=
  match s with
  | EmptyString => EmptyString
  | String c r =>
      (if is_delim c then EmptyString
       else if opt_is is_delim prev || (match prev with None => true | _ => false end) then String (to_upper c) EmptyString
       else if opt_is is_lower prev then String c EmptyString
       else String (to_lower c) EmptyString) ++ camel_loop (Some c) r
  end.

Definition upper_camel (s : string) : string := camel_loop None (trim_space s).

(* FieldBuildContext.GetName / GetOneOfFieldName: names starting with something that is not an
   upper-case letter are converted *)
Definition go_name (n : string) : string :=
  match n with
  | EmptyString => n
  | String c _ => if ascii_eqb c (to_lower c) then upper_camel n else n
  end.
