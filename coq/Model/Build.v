(* The generator's front end: descriptor + configuration -> IR
   (plugin.go, message.go, message_build_context.go, field.go, field_build_context.go,
   field_descriptor_proto_ext.go, comments.go). *)
From Coq Require Import List String Ascii Bool ZArith.
From PGT Require Import Base.Strs Base.AList Model.Vals Model.IR Model.Names Model.Desc.
Import ListNotations.
Local Open Scope string_scope.

Inductive bres (A : Type) :=
| BOk (x : A)
| BErr (what : string)            (* an error returned up to Plugin.build *)
| BFuel.                          (* recursion bound hit: excluded by acyclicity *)
Arguments BOk {A} x.
Arguments BErr {A} what.
Arguments BFuel {A}.

Definition bbind {A B} (r : bres A) (f : A -> bres B) : bres B :=
  match r with BOk x => f x | BErr e => BErr e | BFuel => BFuel end.
Notation "'bdo' x <- r ; k" := (bbind r (fun x => k)) (at level 200, x name, r at level 100, k at level 200).

(* Comment.ToSingleLine *)
Definition to_single_line (s : string) : string :=
  trim_space (join " " (map trim_space (split_on (ascii_of_nat 10) s))).

(* FieldBuildContext.GetComment *)
Definition field_comment (raw : string) : string := to_single_line (trim_space (trim_nl raw)).

(* FieldDescriptorProtoExt.GetJSONName *)
Definition json_name (t : option string) : string :=
  match t with
  | Some s => match split_on ","%char s with
              | j :: _ => if String.eqb j "-" then "" else j
              | [] => ""
              end
  | None => ""
  end.

Definition scalar_info (s : scalar) : tfkind * goscalar :=
  match s with
  | SDouble => (KF64, GsFloat64)
  | SFloat => (KF64, GsFloat32)
  | SInt64 | SSfixed64 | SSint64 => (KI64, GsInt64)
  | SUint64 | SFixed64 => (KI64, GsUint64)
  | SInt32 | SSfixed32 | SSint32 => (KI64, GsInt32)
  | SUint32 | SFixed32 => (KI64, GsUint32)
  | SBool => (KBool, GsBool)
  | SString => (KStr, GsString)
  | SBytes => (KStr, GsBytes)
  end.

Definition is_message_type (t : ptype) : bool :=
  match t with PMsg _ | PTimestamp | PDuration | PMap _ _ => true | _ => false end.

(* the view BuildField has of a field: a declared field, or the value field of a map entry *)
Record fview := {
  v_name : string;
  v_type : ptype;
  v_repeated : bool;
  v_embed : bool;
  v_cast : string;
  v_custom : string;
  v_stdtime : bool;
  v_stddur : bool;
  v_jsontag : option string;
  v_oneof : option nat;
  v_comment : string;
  v_star : bool;                  (* the Go type string the context holds contains "*" *)
}.

Definition nullable_opt (f : fdesc) : bool := match fd_nullable f with Some b => b | None => true end.

(* does gogo's GoType put a star (needsStar, proto3, oneofs allowed)? *)
Definition gogo_star (f : fdesc) : bool :=
  let msg := match fd_type f with PMsg _ | PTimestamp | PDuration | PMap _ _ | PGroup => true | _ => false end in
  let custom := negb (String.eqb (fd_custom f) "") in
  let bytes := match fd_type f with PScalar SBytes => true | _ => false end in
  negb (fd_repeated f && (negb msg || custom))
  && negb (bytes && negb custom)
  && nullable_opt f
  && negb (match fd_oneof f with Some _ => negb msg | None => false end)
  && (msg || custom).

(* NewFieldBuildContext: the Go type is the cast / custom type name when present (never starred) *)
Definition view_of_field (f : fdesc) : fview :=
  {| v_name := fd_name f; v_type := fd_type f;
     v_repeated := fd_repeated f || match fd_type f with PMap _ _ => true | _ => false end;
     v_embed := fd_embed f; v_cast := fd_cast f; v_custom := fd_custom f; v_stdtime := fd_stdtime f;
     v_stddur := fd_stddur f; v_jsontag := fd_jsontag f; v_oneof := fd_oneof f; v_comment := fd_comment f;
     v_star := if negb (String.eqb (fd_cast f) "") || negb (String.eqb (fd_custom f) "") then false
               else gogo_star f |}.

(* GoMapType: the value type is starred iff it is a message type and the map field is nullable *)
Definition map_value_star (f : fdesc) (vt : ptype) : bool :=
  match vt with PMsg _ | PTimestamp | PDuration => nullable_opt f | _ => false end.

(* NewMapValueFieldBuildContext: the raw value field of the entry message (no options) *)
Definition view_of_map_value (f : fdesc) (vt : ptype) : fview :=
  {| v_name := "value"; v_type := vt; v_repeated := false; v_embed := false; v_cast := ""; v_custom := "";
     v_stdtime := false; v_stddur := false; v_jsontag := None; v_oneof := None; v_comment := "";
     v_star := map_value_star f vt |}.

(* GetFlagValue *)
Definition flag (l : list string) (type_name path : string) : bool := mem_str type_name l || mem_str path l.

(* lookup by path, then by Message.Field *)
Definition by_keys {A} (m : list (string * A)) (type_name path : string) : option A :=
  match lookup path m with Some v => Some v | None => lookup type_name m end.

(* Everything the front end ever asks the configuration: the maps are only indexed by key, never
   ranged over (C14); the selection of types and the package options are not among the questions
   (C12, C13). *)
Record cfg_obs := {
  o_excluded : string -> string -> bool;        (* Message.Field, path *)
  o_required : string -> string -> bool;
  o_computed : string -> string -> bool;
  o_sensitive : string -> string -> bool;
  o_name_override : string -> string -> option string;
  o_validators : string -> string -> option (list string);
  o_planmods : string -> string -> option (list string);
  o_injected : string -> option (list injected); (* message path *)
  o_custom_type : string -> option string;      (* field path *)
  o_suffix : string -> option string;           (* custom type name *)
  o_sort : bool;
  o_use_state : bool;
  o_time_type : bool;
  o_duration_type : bool;
  o_duration_custom_type : string;
}.

Definition obs_of (cfg : config) : cfg_obs :=
  {| o_excluded := flag (c_exclude cfg);
     o_required := flag (c_required cfg);
     o_computed := flag (c_computed cfg);
     o_sensitive := flag (c_sensitive cfg);
     o_name_override := by_keys (c_name_overrides cfg);
     o_validators := by_keys (c_validators cfg);
     o_planmods := by_keys (c_planmods cfg);
     o_injected := fun p => lookup p (c_injected cfg);
     o_custom_type := fun p => lookup p (c_custom_types cfg);
     o_suffix := fun t => lookup t (c_suffixes cfg);
     o_sort := c_sort cfg;
     o_use_state := c_use_state cfg;
     o_time_type := c_time_type cfg;
     o_duration_type := c_duration_type cfg;
     o_duration_custom_type := c_duration_custom_type cfg |}.

Section Build.
  Variable cfg : cfg_obs.
  Variable table : list mdesc.      (* every message of the request, by name *)

  Definition find_msg (n : string) : option mdesc :=
    find (fun m => String.eqb (md_name m) n) table.

  Definition v_is_map (v : fview) : bool := match v_type v with PMap _ _ => true | _ => false end.
  Definition v_is_repeated (v : fview) : bool := negb (v_is_map v) && v_repeated v.

  (* FieldDescriptorProtoExt.IsTime / IsDuration *)
  Definition v_is_time (v : fview) : bool :=
    v_stdtime v || match v_type v with PTimestamp => true | _ => false end || String.eqb (v_cast v) "time.Time".
  Definition v_is_duration (v : fview) : bool :=
    v_stddur v || match v_type v with PDuration => true | _ => false end
    || String.eqb (v_cast v) "time.Duration"
    || (negb (String.eqb (o_duration_custom_type cfg) "") && String.eqb (v_cast v) (o_duration_custom_type cfg)).

  (* GetTerraformType: (is_message, tfkind, cast-from scalar, has zero literal) *)
  Definition terraform_type (v : fview) (path : string) : bres (bool * tfkind * goscalar * bool) :=
    if v_is_time v then
      (if o_time_type cfg then BOk (false, KTime, GsTime, false)
       else BErr (path ++ " field has time type, but config.time_type is not defined"))
    else if v_is_duration v then
      (if o_duration_type cfg then BOk (false, KDur, GsDuration, false)
       else BErr (path ++ " field has duration type, but config.duration_type is not defined"))
    else
      match v_type v with
      | PScalar s => let '(k, g) := scalar_info s in BOk (false, k, g, true)
      | PEnum _ => BOk (false, KI64, GsEnum, true)
      | PMsg _ | PMap _ _ | PTimestamp | PDuration => BOk (true, KI64, GsInt64, false)
      | PGroup => BErr ("unknown field type " ++ path)
      end.

  (* zero value of the Go struct gogo generates for a message (all declared fields) *)
  Fixpoint zero_struct (fuel : nat) (n : string) : goval :=
    match fuel with
    | O => GStruct []
    | S fuel' =>
        match find_msg n with
        | None => GStruct []
        | Some m =>
            let zero_field (f : fdesc) : list (string * goval) :=
              let gname := go_name (fd_name f) in
              match fd_oneof f with
              | Some _ => []           (* holders are added below *)
              | None =>
                  match fd_type f with
                  | PMap _ _ => [(gname, GMap None)]
                  | _ =>
                      if fd_repeated f then [(gname, GSlice None)]
                      else if gogo_star f then
                        (if fd_embed f then match fd_type f with PMsg mn => [(mn, GPtr None)] | _ => [(gname, GPtr None)] end
                         else [(gname, GPtr None)])
                      else
                        match fd_type f with
                        | PMsg mn =>
                            match zero_struct fuel' mn with
                            | GStruct fs => if fd_embed f then fs else [(gname, GStruct fs)]
                            | z => [(gname, z)]
                            end
                        | PTimestamp => [(gname, if fd_stdtime f then zero_scalar GsTime else GStruct [])]
                        | PDuration => [(gname, if fd_stddur f then zero_scalar GsDuration else GStruct [])]
                        | PScalar s => [(gname, zero_scalar (snd (scalar_info s)))]
                        | PEnum _ => [(gname, zero_scalar GsEnum)]
                        | _ => [(gname, GStruct [])]
                        end
                  end
              end in
            GStruct ((flat_map zero_field (md_fields m)
                     ++ map (fun o => (go_name o, GOneof None)) (md_oneofs m))%list)
        end
    end.

  Definition default_suffix (t : string) : string := remove_char "."%char (remove_char "/"%char t).

  (* BuildField for one view; returns the (possibly flattened) fields. [rec] builds a nested message. *)
  Definition build_view (rec : mdesc -> string -> bres message) (d : mdesc)
       (v : fview) (index_is_value : bool) (type_name fpath : string) (orig : option fdesc)
    : bres (list field) :=
    if o_excluded cfg type_name fpath then BOk []
    else
      bdo tt0 <- terraform_type v fpath;
      let '(is_msg, tk, gs, zero) := tt0 in
      let name := go_name (v_name v) in
      let snake :=
        match o_name_override cfg type_name fpath with
        | Some s => s
        | None => let j := json_name (v_jsontag v) in
                  if String.eqb j "" then snake_case (v_name v) else j
        end in
      let computed := o_computed cfg type_name fpath in
      let pms :=
        match o_planmods cfg type_name fpath with
        | Some l => l
        | None => if o_use_state cfg && computed
                  then ["github.com/hashicorp/terraform-plugin-framework/tfsdk.UseStateForUnknown()"]
                  else []
        end in
      let vals := match o_validators cfg type_name fpath with Some l => l | None => [] end in
      let base : finfo :=
        {| fi_name := name; fi_snake := snake; fi_path := fpath; fi_kind := PrimitiveKind;
           fi_tk := tk; fi_cast := gs; fi_nullable := v_star v; fi_zero := zero; fi_placeholder := false;
           fi_oneof := None; fi_via := []; fi_parent := None; fi_inner := [];
           fi_required := o_required cfg type_name fpath; fi_computed := computed;
           fi_sensitive := o_sensitive cfg type_name fpath;
           fi_validators := vals; fi_planmods := pms;
           fi_comment := if index_is_value then "" else field_comment (v_comment v);
           fi_suffix := "" |} in
      (* setMessage: nested message of a non-map message field *)
      bdo om <-
        (if is_msg && negb (v_is_map v) then
           match v_type v with
           | PMsg mn =>
               match find_msg mn with
               | Some d' => bdo m' <- rec d' fpath; BOk (Some m')
               | None => BErr ("failed to resolve message " ++ mn)
               end
           | _ => BOk None
           end
         else BOk None);
      match om, (is_msg && negb (v_is_map v) && v_embed v)%bool with
      | Some m', true =>
          (* embedded: the message's fields take the place of the field *)
          if negb (v_star v) then BOk (m_fields m')
          else
            BOk (map (fun c => match c with
                               | Field ci cm =>
                                   Field {| fi_name := fi_name ci; fi_snake := fi_snake ci; fi_path := fi_path ci;
                                            fi_kind := fi_kind ci; fi_tk := fi_tk ci; fi_cast := fi_cast ci;
                                            fi_nullable := fi_nullable ci; fi_zero := fi_zero ci;
                                            fi_placeholder := fi_placeholder ci; fi_oneof := fi_oneof ci;
                                            fi_via := m_name m' :: fi_via ci;
                                            fi_parent := Some (m_name m', m_zero m');
                                            fi_inner := match fi_parent ci with Some pq => pq :: fi_inner ci | None => [] end;
                                            fi_required := fi_required ci; fi_computed := fi_computed ci;
                                            fi_sensitive := fi_sensitive ci; fi_validators := fi_validators ci;
                                            fi_planmods := fi_planmods ci; fi_comment := fi_comment ci;
                                            fi_suffix := fi_suffix ci |} cm
                               end) (m_fields m'))
      | _, _ =>
          (* setMapValues *)
          bdo mv <-
            (match v_type v, orig with
             | PMap kt vt, Some f =>
                 match kt with
                 | PScalar SString =>
                     let vv := view_of_map_value f vt in
                     bdo tt1 <- terraform_type vv fpath;
                     let '(vmsg, vtk, vgs, _) := tt1 in
                     bdo vom <-
                       (if vmsg then
                          match vt with
                          | PMsg mn =>
                              match find_msg mn with
                              | Some d' => bdo m' <- rec d' fpath; BOk (Some m')
                              | None => BErr ("failed to resolve message " ++ mn)
                              end
                          | _ => BOk None
                          end
                        else BOk None);
                     BOk (Some (vmsg, vtk, vgs, v_star vv, vom))
                 | _ => BErr ("non-string map keys are not supported " ++ fpath)
                 end
             | _, _ => BOk None
             end);
          let custom_t :=
            match o_custom_type cfg fpath with
            | Some t => Some t
            | None => if String.eqb (v_custom v) "" then None else Some (v_custom v)
            end in
          let suffix :=
            match custom_t with
            | Some t => match o_suffix cfg t with Some s => s | None => default_suffix t end
            | None => ""
            end in
          let '(kd, tk', gs', nullable', zero', msg') :=
            match mv with
            | Some (vmsg, vtk, vgs, vstar, vom) =>
                ((if vmsg then ObjectMapKind else PrimitiveMapKind), vtk, vgs, vstar, false, vom)
            | None =>
                ((if v_is_repeated v then (if is_msg then ObjectListKind else PrimitiveListKind)
                  else if is_msg then ObjectKind else PrimitiveKind), tk, gs, v_star v, zero, om)
            end in
          let kd' := match custom_t with Some _ => CustomKind | None => kd end in
          let oneof :=
            match v_oneof v with
            | Some k => match nth_error (md_oneofs d) k with Some o => Some (go_name o) | None => Some "" end
            | None => None
            end in
          BOk [Field {| fi_name := name; fi_snake := snake; fi_path := fpath; fi_kind := kd';
                        fi_tk := tk'; fi_cast := gs'; fi_nullable := nullable'; fi_zero := zero';
                        fi_placeholder := false; fi_oneof := oneof; fi_via := []; fi_parent := None; fi_inner := [];
                        fi_required := fi_required base; fi_computed := computed;
                        fi_sensitive := fi_sensitive base; fi_validators := vals; fi_planmods := pms;
                        fi_comment := fi_comment base; fi_suffix := suffix |} msg']
      end.

  (* BuildFields: the fields of a message, in declaration order (embedded messages flattened) *)
  Fixpoint build_field_list (rec : mdesc -> string -> bres message) (d : mdesc) (path : string)
           (l : list fdesc) : bres (list field) :=
    match l with
    | [] => BOk []
    | f :: r =>
        let type_name := md_name d ++ "." ++ fd_name f in
        let fpath := if fd_embed f then path else path ++ "." ++ fd_name f in
        bdo x <- build_view rec d (view_of_field f) false type_name fpath (Some f);
        bdo y <- build_field_list rec d path r;
        BOk (x ++ y)%list
    end.

  Definition placeholder_field (path : string) : field :=
    Field {| fi_name := "active"; fi_snake := "active"; fi_path := path ++ ".active";
             fi_kind := PrimitiveKind; fi_tk := KBool; fi_cast := GsBool; fi_nullable := false;
             fi_zero := true; fi_placeholder := true; fi_oneof := None; fi_via := [];
             fi_parent := None; fi_inner := []; fi_required := false; fi_computed := true; fi_sensitive := false;
             fi_validators := []; fi_planmods := [];
             fi_comment := "Automatically generated field preventing empty message errors";
             fi_suffix := "" |} None.

  Fixpoint build_message (fuel : nat) (d : mdesc) (path : string) {struct fuel} : bres message :=
    match fuel with
    | O => BFuel
    | S fuel' =>
        let mname := md_name d in
        (* BuildFields: an excluded field contributes nothing; when no field is left (no field declared,
           or every field excluded) the placeholder is injected and the message counts as empty *)
        bdo l <- build_field_list (build_message fuel') d path (md_fields d);
        let fields := match l with
                      | [] => [placeholder_field path]
                      | _ :: _ => if o_sort cfg then sort_by (fun f => fi_name (f_info f)) l else l
                      end in
        let inj := match o_injected cfg path with Some l => l | None => [] end in
        BOk (Msg mname fields (map go_name (md_oneofs d)) inj
                 (match l with [] => true | _ :: _ => false end)
                 (zero_struct (S (List.length table)) mname))
    end.
End Build.

(* Plugin.build over every file of the request, then write: the root messages in output order *)
Definition all_msgs (f : file) : list mdesc := (flat_map dep_msgs (f_deps f) ++ f_msgs f)%list.

Definition build_roots (cfg : config) (f : file) : list (string * bres message) :=
  let table := all_msgs f in
  let fuel := S (List.length table) in
  flat_map (fun d => if mem_str (md_name d) (c_types cfg)
                     then [(md_name d, build_message (obs_of cfg) table fuel d (md_name d))]
                     else []) table.

Definition ok_roots (cfg : config) (f : file) : list (string * message) :=
  let l := flat_map (fun p => match snd p with BOk m => [(fst p, m)] | _ => [] end) (build_roots cfg f) in
  if c_sort cfg then sort_by fst l else l.

(* base name and directory of a slash separated path *)
Definition base_name (p : string) : string :=
  match last_index_char "/"%char p with Some i => drop (S i) p | None => p end.
Definition dir_name (p : string) : string :=
  match last_index_char "/"%char p with Some i => take i p | None => "" end.
Definition trim_suffix (suf s : string) : string :=
  if has_suffix suf s then take (String.length s - String.length suf) s else s.

Record response := {
  r_file_name : string;
  r_package : string;
  r_roots : list (string * message);
  r_failed : list string;           (* selected types that were skipped with a warning *)
}.

Inductive outcome := Fail | Response (r : response).

Definition run (ps : params) (y : yamlsrc) (f : file) : outcome :=
  match read_config ps y with
  | CfgFail => Fail
  | CfgOk cfg =>
      Response {|
        r_file_name := f_gopkg f ++ "/" ++ trim_suffix ".proto" (base_name (f_name f)) ++ "_terraform.go";
        r_package := if String.eqb (c_target_pkg cfg) "" then base_name (f_gopkg f) else c_target_pkg cfg;
        r_roots := ok_roots cfg f;
        r_failed := flat_map (fun p => match snd p with BOk _ => [] | _ => [fst p] end) (build_roots cfg f) |}
  end.
