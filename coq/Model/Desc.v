(* Descriptors of the supported fragment D (DESIGN.md §3) and the configuration. *)
From Coq Require Import List String Ascii Bool ZArith.
From PGT Require Import Base.Strs Base.AList Model.Vals Model.IR.
Import ListNotations.
Local Open Scope string_scope.

Inductive scalar :=
| SDouble | SFloat | SInt32 | SInt64 | SUint32 | SUint64 | SSint32 | SSint64
| SFixed32 | SFixed64 | SSfixed32 | SSfixed64 | SBool | SString | SBytes.

Inductive ptype :=
| PScalar (s : scalar)
| PEnum (n : string)
| PMsg (n : string)
| PTimestamp                      (* google.protobuf.Timestamp *)
| PDuration                       (* google.protobuf.Duration *)
| PGroup
| PMap (k v : ptype).

Record fdesc := {
  fd_name : string;
  fd_num : Z;
  fd_type : ptype;
  fd_repeated : bool;
  fd_nullable : option bool;      (* gogoproto.nullable *)
  fd_embed : bool;
  fd_cast : string;               (* gogoproto.casttype, "" when absent *)
  fd_custom : string;             (* gogoproto.customtype *)
  fd_stdtime : bool;
  fd_stddur : bool;
  fd_jsontag : option string;
  fd_oneof : option nat;
  fd_comment : string;            (* leading comment as SourceCodeInfo holds it *)
}.

Record mdesc := {
  md_name : string;
  md_comment : string;
  md_oneofs : list string;
  md_fields : list fdesc;
}.

Record depfile := { dep_name : string; dep_msgs : list mdesc }.

Record file := {
  f_name : string;
  f_package : string;
  f_gopkg : string;
  f_enums : list string;
  f_msgs : list mdesc;
  f_deps : list depfile;          (* unrelated dependency files, processed before the file itself *)
}.

(* ------------------------------------------------------------------------------------- *)
(* configuration (config.go: Config) *)

Record config := {
  c_types : list string;
  c_duration_custom_type : string;
  c_exclude : list string;
  c_computed : list string;
  c_required : list string;
  c_sensitive : list string;
  c_target_pkg : string;
  c_default_pkg : string;
  c_sort : bool;
  c_use_state : bool;
  c_suffixes : list (string * string);
  c_name_overrides : list (string * string);
  c_validators : list (string * list string);
  c_planmods : list (string * list string);
  c_time_type : bool;             (* time_type configured *)
  c_duration_type : bool;
  c_injected : list (string * list injected);
  c_import_overrides : list (string * string);
  c_custom_types : list (string * string);
}.

Definition empty_config : config :=
  {| c_types := []; c_duration_custom_type := ""; c_exclude := []; c_computed := []; c_required := [];
     c_sensitive := []; c_target_pkg := ""; c_default_pkg := ""; c_sort := false; c_use_state := false;
     c_suffixes := []; c_name_overrides := []; c_validators := []; c_planmods := []; c_time_type := false;
     c_duration_type := false; c_injected := []; c_import_overrides := []; c_custom_types := [] |}.

(* ------------------------------------------------------------------------------------- *)
(* the two configuration channels (config.go: ReadConfig) *)

(* The YAML *document* (yaml.v3's parser is not modelled): the keys present in the file. *)
Record yamldoc := {
  y_types : option (list string);
  y_duration_custom_type : option string;
  y_exclude : option (list string);
  y_computed : option (list string);
  y_required : option (list string);
  y_sensitive : option (list string);
  y_target_pkg : option string;
  y_default_pkg : option string;
  y_sort : option bool;
  y_rest : config;                (* the YAML-only options (taken from this record's YAML-only fields) *)
}.

Inductive yamlsrc :=
| YAbsent                         (* no config parameter *)
| YUnreadable                     (* file cannot be read *)
| YMalformed                      (* file cannot be parsed *)
| YDoc (d : yamldoc).

Definition params := list (string * string).

Definition get_string_param (ps : params) (name : string) (d : string) : string :=
  match lookup name ps with
  | Some v => let p := trim_space v in if String.eqb p "" then d else p
  | None => d
  end.

(* flag maps are sets: the list of keys; split on "+" *)
Definition get_slice_param (ps : params) (name : string) (d : list string) : list string :=
  let v := get_string_param ps name "" in
  if String.eqb v "" then d else split_on "+"%char v.

(* strconv.ParseBool *)
Definition parse_bool (s : string) : option bool :=
  if mem_str s ["1"; "t"; "T"; "TRUE"; "true"; "True"]%string then Some true
  else if mem_str s ["0"; "f"; "F"; "FALSE"; "false"; "False"]%string then Some false
  else None.

Definition get_bool_param (ps : params) (name : string) (d : bool) : bool :=
  let a := lower_str (get_string_param ps name "") in
  if String.eqb a "" then d
  else match parse_bool a with Some b => b | None => d end.

Definition opt_or {A} (o : option A) (d : A) : A := match o with Some x => x | None => d end.

Inductive cfgres := CfgOk (c : config) | CfgFail.

Definition read_config (ps : params) (y : yamlsrc) : cfgres :=
  let path := get_string_param ps "config" "" in
  let from_yaml : option config :=
    if String.eqb path "" then Some empty_config
    else match y with
         | YAbsent => Some empty_config
         | YUnreadable | YMalformed => None
         | YDoc d =>
             let r := y_rest d in
             Some {| c_types := opt_or (y_types d) [];
                     c_duration_custom_type := opt_or (y_duration_custom_type d) "";
                     c_exclude := opt_or (y_exclude d) [];
                     c_computed := opt_or (y_computed d) [];
                     c_required := opt_or (y_required d) [];
                     c_sensitive := opt_or (y_sensitive d) [];
                     c_target_pkg := opt_or (y_target_pkg d) "";
                     c_default_pkg := opt_or (y_default_pkg d) "";
                     c_sort := opt_or (y_sort d) false;
                     c_use_state := c_use_state r; c_suffixes := c_suffixes r;
                     c_name_overrides := c_name_overrides r; c_validators := c_validators r;
                     c_planmods := c_planmods r; c_time_type := c_time_type r;
                     c_duration_type := c_duration_type r; c_injected := c_injected r;
                     c_import_overrides := c_import_overrides r; c_custom_types := c_custom_types r |}
         end in
  match from_yaml with
  | None => CfgFail
  | Some c =>
      let c' :=
        {| c_types := get_slice_param ps "types" (c_types c);
           c_duration_custom_type := get_string_param ps "custom_duration" (c_duration_custom_type c);
           c_exclude := get_slice_param ps "exclude_fields" (c_exclude c);
           c_computed := get_slice_param ps "computed_fields" (c_computed c);
           c_required := get_slice_param ps "required_fields" (c_required c);
           c_sensitive := get_slice_param ps "sensitive" (c_sensitive c);
           c_target_pkg := get_string_param ps "target_package_name" (c_target_pkg c);
           c_default_pkg := get_string_param ps "default_package_name" (c_default_pkg c);
           c_sort := get_bool_param ps "sort" (c_sort c);
           c_use_state := c_use_state c; c_suffixes := c_suffixes c;
           c_name_overrides := c_name_overrides c; c_validators := c_validators c;
           c_planmods := c_planmods c; c_time_type := c_time_type c;
           c_duration_type := c_duration_type c; c_injected := c_injected c;
           c_import_overrides := c_import_overrides c; c_custom_types := c_custom_types c |} in
      match c_types c' with
      | [] => CfgFail
      | _ => CfgOk c'
      end
  end.
