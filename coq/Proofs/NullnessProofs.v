(* C20 at the level of the message, for the model of Copy<T>ToTerraform (Model/CopyTo.v): on the
   empty object of the schema's type, absence on the Go side is rendered as null and presence as
   non-null, for every attribute at every nesting depth, and nothing is unknown.

   [nullness_ok m obj t] states, by recursion over the IR and the Go value, the null flag of every
   attribute of t (copy_to_nullness_message_partial).  The rule, for a field i whose Go value g is
   read through the oneof stub for a oneof branch ([read_val]: the payload when the holder is set
   to this branch, the zero value of the branch otherwise):
   - value scalar with a zero literal: null iff the cast value is the zero value;
   - value scalar without zero literal (time, ...): never null;
   - pointer scalar: null iff the pointer is nil;
   - list, map: null iff nil or empty; the elements one by one (an element which is a scalar is
     rendered by the rule of scalars: a zero element of a list whose element type has a zero
     literal is rendered null, inside a list which is not null);
   - nullable message: null iff the pointer is nil, and recursively otherwise;
   - message by value: never null, recursively;
   - placeholder attribute of a message without fields: always null.

   The class of messages is tf_ok (CopyToTotal), the values are [typed]; both are implied by rt_ok
   and rt_typed (MsgRoundTrip), see copy_to_nullness_message_rt.  The correspondence between the
   entries of a Go map and the entries of the rendered map is stated for Go maps without repeated
   keys (the model represents a Go map by an association list; a genuine Go map has none).

   Corollaries: val_nl_absent / val_nl_present / val_nl_iff (one attribute), attrs_nl_absent /
   attrs_nl_present / attrs_nl_exact (a field of a message), copy_to_absent_null /
   copy_to_present_not_null (the message CopyTo is called on), attrs_nl_sub and
   copy_to_nullness_every_depth (every nested message reached through attributes which are not
   null, [sub_at]).

   Where the model is not "absent iff null" (computed in NullExamples):
   - a value scalar without zero literal (a time) is never null, the zero time included; as a
     oneof branch it is not null even when the oneof is not set (dev_all_nulls, outside rt_ok);
   - a zero element of a list or map of scalars with a zero literal is rendered null inside a list
     or map which is not null (tags of value_all_nulls, l of dev_all_nulls); map values as the
     generator builds them have no zero literal and are never null (labels "b");
   - a nil pointer in a list or map of nullable messages is a null object inside the list;
   - the active branch of a oneof with the zero payload is null (z);
   - a message by value is never null, whatever it holds, a message without fields included (its
     placeholder attribute is null); a set pointer to a message without fields is not null. *)
From Coq Require Import List String Bool ZArith Lia.
From Coq Require Import Floats.SpecFloat.
From PGT Require Import Base.Strs Base.AList Model.Vals Model.IR Model.CopyTo.
From PGT Require Import Proofs.CopyToProofs Proofs.CopyToTotal Proofs.MsgRoundTrip.
Import ListNotations.

(* ------------------------------------------------------------------------------------- *)
(* 1. the expected null-ness *)

Definition null_of (v : tfval) : option bool :=
  match v with
  | VPrim _ n _ _ | VList _ n _ _ | VMap _ n _ _ | VObj _ n _ _ => Some n
  | _ => None
  end.

Definition unknown_of (v : tfval) : option bool :=
  match v with
  | VPrim _ _ u _ | VList _ _ u _ | VMap _ _ u _ | VObj _ _ u _ => Some u
  | _ => None
  end.

Definition is_nil {A} (l : list A) : bool := match l with [] => true | _ => false end.

(* the value of the Go expression a field stands for *)
Definition read_val (i : finfo) (obj : goval) : option goval :=
  match obj with GStruct gs => read_go i gs | _ => None end.

(* the null flag of the attribute (element) of a scalar *)
Definition scalar_null (i : finfo) (g : goval) : option bool :=
  if fi_nullable i then
    match g with GPtr None => Some true | GPtr (Some _) => Some false | _ => None end
  else if fi_zero i then
    match cast_to (fi_tk i) g with Ok p => Some (prim_is_zero p) | Panic => None end
  else Some false.

Definition prim_nl (i : finfo) (g : goval) (v : tfval) : Prop :=
  exists n p, v = VPrim (fi_tk i) n false p /\ scalar_null i g = Some n.

(* a message value or element; N: the attributes of the message *)
Definition obj_nl (i : finfo) (N : goval -> list (string * tfval) -> Prop) (g : goval) (v : tfval) : Prop :=
  exists ats n attrs, v = VObj ats n false (Some attrs) /\
    if fi_nullable i
    then (g = GPtr None /\ n = true) \/ (exists x, g = GPtr (Some x) /\ n = false /\ N x attrs)
    else n = false /\ N g attrs.

Definition list_nl (E : goval -> tfval -> Prop) (g : goval) (v : tfval) : Prop :=
  exists o ety vs, g = GSlice o /\ v = VList ety (is_nil (olist o)) false (Some vs) /\ Forall2 E (olist o) vs.

Definition map_nl (E : goval -> tfval -> Prop) (g : goval) (v : tfval) : Prop :=
  exists o ety es, g = GMap o /\ v = VMap ety (is_nil (olist o)) false (Some es) /\
    (NoDup (map fst (olist o)) ->
     Forall2 (fun (ka : string * goval) (kv : string * tfval) => fst ka = fst kv /\ E (snd ka) (snd kv))
             (olist o) es).

Definition val_nl (i : finfo) (N : option (goval -> list (string * tfval) -> Prop)) (g : goval) (v : tfval)
  : Prop :=
  match fi_kind i with
  | PrimitiveKind => prim_nl i g v
  | PrimitiveListKind => list_nl (prim_nl i) g v
  | PrimitiveMapKind => map_nl (prim_nl i) g v
  | ObjectKind => match N with Some N => obj_nl i N g v | None => False end
  | ObjectListKind => match N with Some N => list_nl (obj_nl i N) g v | None => False end
  | ObjectMapKind => match N with Some N => map_nl (obj_nl i N) g v | None => False end
  | CustomKind => False
  end.

(* the attributes of a message: every field has its attribute, with the expected null flag *)
Fixpoint attrs_nl (m : message) (obj : goval) (attrs : list (string * tfval)) {struct m} : Prop :=
  match m with
  | Msg _ fs _ _ _ _ =>
      (fix go (l : list field) : Prop :=
         match l with
         | [] => True
         | f :: r => fattr_nl f obj attrs /\ go r
         end) fs
  end
with fattr_nl (f : field) (obj : goval) (attrs : list (string * tfval)) {struct f} : Prop :=
  match f with
  | Field i om =>
      exists v, lookup (fi_snake i) attrs = Some v /\
        if fi_placeholder i then exists p, v = VPrim (fi_tk i) true false p
        else exists g, read_val i obj = Some g /\
               val_nl i (match om with Some m' => Some (attrs_nl m') | None => None end) g v
  end.

Definition nullness_ok (m : message) (obj : goval) (t : tfval) : Prop :=
  exists attrs, t = VObj (msg_ty m) false false (Some attrs) /\ attrs_nl m obj attrs.

Definition N_of (om : option message) : option (goval -> list (string * tfval) -> Prop) :=
  match om with Some m' => Some (attrs_nl m') | None => None end.

Lemma attrs_nl_eq n fs os inj e z obj attrs :
  attrs_nl (Msg n fs os inj e z) obj attrs <-> Forall (fun f => fattr_nl f obj attrs) fs.
Proof.
  cbn [attrs_nl]. split.
  - intros H. induction fs as [|f r IH]; constructor; tauto.
  - intros H. induction H; tauto.
Qed.

Lemma fattr_nl_eq i om obj attrs :
  fattr_nl (Field i om) obj attrs =
  exists v, lookup (fi_snake i) attrs = Some v /\
    if fi_placeholder i then exists p, v = VPrim (fi_tk i) true false p
    else exists g, read_val i obj = Some g /\ val_nl i (N_of om) g v.
Proof. reflexivity. Qed.

(* what is said of the attribute value of one field *)
Definition fspec (f : field) (obj : goval) (v : tfval) : Prop :=
  if fi_placeholder (f_info f) then exists p, v = VPrim (fi_tk (f_info f)) true false p
  else exists g, read_val (f_info f) obj = Some g /\ val_nl (f_info f) (N_of (f_msg f)) g v.

Lemma fattr_nl_fspec f obj attrs :
  fattr_nl f obj attrs <-> exists v, lookup (snake f) attrs = Some v /\ fspec f obj v.
Proof. destruct f as [i om]. rewrite fattr_nl_eq. unfold fspec, snake. cbn [f_info f_msg]. reflexivity. Qed.

(* the attributes of a message without fields do not depend on the struct *)
Lemma attrs_nl_empty m x y attrs :
  tf_ok m = true -> m_empty m = true -> attrs_nl m x attrs -> attrs_nl m y attrs.
Proof.
  destruct m as [n fs os inj e z]. rewrite tf_ok_eq. cbn [m_empty]. intros T ->.
  apply andb_prop in T. destruct T as [T _]. apply andb_prop in T. destruct T as [_ T].
  cbn [negb orb] in T. rewrite forallb_forall in T. rewrite !attrs_nl_eq, !Forall_forall.
  intros H [i om] If. specialize (H _ If). specialize (T _ If). cbn [f_info] in T.
  rewrite fattr_nl_eq in *. now rewrite T in *.
Qed.

(* ------------------------------------------------------------------------------------- *)
(* 2. scalars *)

Lemma to_prim_value_placeholder i rd obj ds :
  fi_placeholder i = true ->
  to_prim_value i rd obj (TyPrim (fi_tk i)) None ds
  = Ok (VPrim (fi_tk i) true false (zero_prim_of_kind (fi_tk i)), ds).
Proof.
  intros PH. unfold to_prim_value. cbn [null_value]. rewrite tfkind_eqb_refl, PH. reflexivity.
Qed.

Lemma prim_elem_nl i g obj ds :
  fi_parent i = None -> fi_placeholder i = false -> (fi_zero i = true -> fi_nullable i = false) ->
  sc_shape i g ->
  exists v, to_prim_value i (Ok g) obj (TyPrim (fi_tk i)) None ds = Ok (v, ds) /\ prim_nl i g v.
Proof.
  intros P PH Z S. unfold to_prim_value, parent_is_nil. rewrite P, PH. cbn [null_value].
  rewrite tfkind_eqb_refl. unfold sc_shape, elem_shape in S. unfold prim_nl, scalar_null.
  destruct (fi_nullable i) eqn:N.
  - destruct (fi_zero i); [specialize (Z eq_refl); discriminate|].
    destruct S as [->|(x & -> & Sx)].
    + destruct (fi_oneof i); cbn [bind]; eexists; (split; [reflexivity|]); do 2 eexists; split; reflexivity.
    + destruct (cast_ok _ _ Sx) as (p & E & K).
      destruct (fi_oneof i); cbn [bind]; rewrite E; cbn [bind]; eexists; (split; [reflexivity|]);
        do 2 eexists; split; reflexivity.
  - destruct (cast_ok _ _ S) as (p & E & K).
    destruct (fi_zero i), (fi_oneof i); cbn [bind]; rewrite E; cbn [bind]; eexists; (split; [reflexivity|]);
      do 2 eexists; split; reflexivity.
Qed.

(* ------------------------------------------------------------------------------------- *)
(* 3. the element loop of a map *)

Lemma map_fold_nl {A} (F : string * A -> list diag -> res (tfval * list diag)) (Q : A -> tfval -> Prop) ds
      (l : list (string * A)) :
  Forall (fun ka => exists v, F ka ds = Ok (v, ds) /\ Q (snd ka) v) l ->
  forall es0, exists es,
    fold_left (fun acc ka => do '(es, ds1) <- acc; do '(v, ds2) <- F ka ds1; Ok (update (fst ka) v es, ds2))
              l (Ok (es0, ds))
    = Ok (es, ds) /\
    (NoDup (keys es0 ++ map fst l) ->
     exists es', es = es0 ++ es' /\ Forall2 (fun ka kv => fst ka = fst kv /\ Q (snd ka) (snd kv)) l es').
Proof.
  induction 1 as [|[k a] r (v & E & Qa) _ IH]; intros es0; cbn [fold_left].
  - exists es0. split; [reflexivity|]. intros _. exists []. now rewrite app_nil_r.
  - cbn [bind]. rewrite E. cbn [bind fst]. destruct (IH (update k v es0)) as (es & E2 & H).
    exists es. split; [exact E2|]. intros ND. cbn [map fst] in ND. apply NoDup_app_cons_l in ND.
    destruct ND as [NI ND]. rewrite (update_notin _ _ _ NI) in H.
    destruct H as (es' & -> & F2); [rewrite keys_app; exact ND|].
    exists ((k, v) :: es'). rewrite <- app_assoc. split; [reflexivity|]. constructor; [|exact F2]. now split.
Qed.

(* ------------------------------------------------------------------------------------- *)
(* 4. the fields *)

Section Nullness.
  Variable hook : hook_to_t.

  Definition msg_nl (m : message) : Prop :=
    forall obj ds, typed m obj ->
      exists attrs, to_fields hook m obj (msg_ty m) ([], ds) = Ok (attrs, ds) /\ attrs_nl m obj attrs.

  Definition field_nl (f : field) : Prop :=
    forall gs atys attrs ds t, ftyped f gs -> field_ty f = Some t ->
      lookup (snake f) atys = Some t -> lookup (snake f) attrs = None ->
      exists v, to_field hook f (GStruct gs) atys (attrs, ds) = Ok (update (snake f) v attrs, ds)
                /\ fspec f (GStruct gs) v.

  Lemma obj_val_nl i gs m' g ds :
    tf_ok m' = true -> msg_nl m' -> elem_shape i (typed m') g ->
    exists v, obj_value hook i (GStruct gs) None m' (Ok g) (msg_ty m') ds = Ok (v, ds)
              /\ obj_nl i (attrs_nl m') g v.
  Proof.
    intros T G S. unfold obj_value. cbv beta iota zeta. unfold elem_shape in S. unfold obj_nl.
    assert (K : forall x, typed m' x ->
                exists at0, (do st' <- to_fields hook m' (if m_empty m' then GStruct gs else x) (msg_ty m') ([], ds);
                             let '(attrs', ds') := st' in
                             Ok (VObj (msg_ty m') false false (Some attrs'), ds'))
                            = Ok (VObj (msg_ty m') false false (Some at0), ds)
                            /\ attrs_nl m' x at0).
    { intros x Tx. destruct (m_empty m') eqn:E.
      - destruct (G (GStruct gs) ds (empty_typed m' gs T E)) as (attrs & Eq & Na).
        rewrite Eq. cbn [bind]. exists attrs. split; [reflexivity|]. exact (attrs_nl_empty m' _ x attrs T E Na).
      - destruct (G x ds Tx) as (attrs & Eq & Na). rewrite Eq. cbn [bind]. exists attrs. split; [reflexivity|exact Na]. }
    destruct (fi_nullable i).
    - destruct S as [->|(x & -> & Tx)]; cbn [bind].
      + eexists. split; [reflexivity|]. do 3 eexists. split; [reflexivity|]. left. split; reflexivity.
      + destruct (K x Tx) as (at0 & Eq & Na). eexists. split; [exact Eq|]. do 3 eexists. split; [reflexivity|].
        right. exists x. split; [reflexivity|]. split; [reflexivity|exact Na].
    - destruct (K g S) as (at0 & Eq & Na). eexists. split.
      + destruct (m_empty m'); cbn [bind]; exact Eq.
      + do 3 eexists. split; [reflexivity|]. split; [reflexivity|exact Na].
  Qed.

  Lemma is_nil_ltb {A} (l : list A) : (if Nat.ltb 0 (List.length l) then false else true) = is_nil l.
  Proof. now destruct l. Qed.

  Lemma is_nil_match {A} (l : list A) : match l with [] => true | _ => false end = is_nil l.
  Proof. reflexivity. Qed.

  Lemma field_nl_step i om :
    finfo_ok i om = true ->
    (forall m', om = Some m' -> tf_ok m' = true /\ msg_nl m') ->
    field_nl (Field i om).
  Proof.
    intros F Q gs atys attrs ds t Ty FT La Lc.
    destruct (finfo_ok_inv _ _ F) as (V & P & NC & Z & OM & OO & PH).
    rewrite to_field_eq. cbv zeta. unfold snake in *. unfold fspec. cbn [f_info f_msg] in *. rewrite La, Lc.
    cbn [ftyped] in Ty. cbn [field_ty] in FT. unfold val_shape in Ty. unfold val_nl. unfold read_val.
    revert Ty Z OM OO PH FT NC. destruct (fi_kind i) eqn:K; intros Ty Z OM OO PH FT NC.
    - (* PrimitiveKind *)
      inversion FT; subst t; clear FT. specialize (Z eq_refl).
      destruct (fi_placeholder i) eqn:PHE.
      + destruct (PH eq_refl) as [_ O]. rewrite O. cbn [bind].
        rewrite (to_prim_value_placeholder i _ _ _ PHE). cbn [bind].
        eexists. split; [reflexivity|]. eexists. reflexivity.
      + assert (Hbz : fi_oneof i <> None -> sc_shape i (zero_of_prim i)).
        { intros N. unfold sc_shape, elem_shape, zero_of_prim. destruct (fi_oneof i) as [h|]; [|congruence].
          destruct (fi_nullable i); [now left|].
          destruct (OO h eq_refl) as [[_ [D|D]]|[D _]]; [discriminate|exact D|discriminate]. }
        destruct (reads_go i _ gs V P Ty Hbz) as (g & RG & Sg & RF & _ & RH).
        rewrite RH, RF. cbn [bind].
        destruct (prim_elem_nl i g (GStruct gs) ds P PHE Z Sg) as (v & Ev & Nv).
        rewrite Ev. cbn [bind]. exists v. split; [reflexivity|]. exists g. split; [exact RG|exact Nv].
    - (* PrimitiveListKind *)
      inversion FT; subst t; clear FT. specialize (Z eq_refl).
      destruct (fi_placeholder i) eqn:PHE; [destruct (PH eq_refl); discriminate|].
      assert (O : fi_oneof i = None).
      { destruct (fi_oneof i) as [h|]; [|reflexivity]. destruct (OO h eq_refl) as [[D _]|[D _]]; discriminate. }
      destruct (reads_go i _ gs V P Ty) as (g & RG & (o & -> & Hl) & _ & RS & _); [congruence|].
      rewrite (RS _ (or_introl O)). cbn [bind]. unfold list_nl.
      destruct o as [l|]; cbv beta iota zeta.
      + assert (HF : Forall (fun a => exists v,
                         (fun a d => to_prim_value i (Ok a) (GStruct gs) (TyPrim (fi_tk i)) None d) a ds = Ok (v, ds)
                         /\ prim_nl i a v) l).
        { eapply Forall_impl; [|exact (Hl l eq_refl)]. intros a Sa. now apply prim_elem_nl. }
        destruct (to_list_fold _ _ ds l HF []) as (vs & Ef & Qs). cbv beta in Ef. cbn [app] in Ef.
        rewrite Ef. cbn [bind]. rewrite is_nil_ltb. eexists. split; [reflexivity|].
        exists (GSlice (Some l)). split; [exact RG|]. exists (Some l). do 2 eexists.
        split; [reflexivity|]. split; [reflexivity|exact Qs].
      + eexists. split; [reflexivity|]. exists (GSlice None). split; [exact RG|]. exists None. do 2 eexists.
        split; [reflexivity|]. split; [reflexivity|constructor].
    - (* ObjectKind *)
      destruct (OM eq_refl) as (m' & ->). inversion FT; subst t; clear FT.
      destruct (Q m' eq_refl) as [T' G'].
      destruct (fi_placeholder i) eqn:PHE; [destruct (PH eq_refl); discriminate|].
      assert (ON : fi_oneof i <> None -> fi_nullable i = true).
      { intros N. destruct (fi_oneof i) as [h|]; [|congruence].
        destruct (OO h eq_refl) as [[D _]|[_ D]]; [discriminate|exact D]. }
      destruct (reads_go i _ gs V P Ty) as (g & RG & Sg & _ & RS & _).
      { intros N. cbv beta iota. unfold elem_shape. rewrite (ON N). left. unfold zero_of_prim. now rewrite (ON N). }
      assert (RS' : read_source i (if fi_nullable i then GPtr None else m_zero m') (GStruct gs) = Ok g).
      { apply RS. destruct (fi_oneof i) as [h|] eqn:O; [right|now left].
        unfold zero_of_prim. now rewrite ON by discriminate. }
      rewrite RS'. cbn [bind].
      destruct (obj_val_nl i gs m' g ds T' G' Sg) as (v & Ev & Nv). rewrite Ev. cbn [bind].
      exists v. split; [reflexivity|]. exists g. split; [exact RG|exact Nv].
    - (* ObjectListKind *)
      destruct (OM eq_refl) as (m' & ->). inversion FT; subst t; clear FT.
      destruct (Q m' eq_refl) as [T' G'].
      destruct (fi_placeholder i) eqn:PHE; [destruct (PH eq_refl); discriminate|].
      assert (O : fi_oneof i = None).
      { destruct (fi_oneof i) as [h|]; [|reflexivity]. destruct (OO h eq_refl) as [[D _]|[D _]]; discriminate. }
      destruct (reads_go i _ gs V P Ty) as (g & RG & (o & -> & Hl) & _ & RS & _); [congruence|].
      rewrite (RS _ (or_introl O)). cbn [bind N_of]. unfold list_nl.
      destruct o as [l|]; cbv beta iota zeta.
      + assert (HF : Forall (fun a => exists v,
                         (fun a d => obj_value hook i (GStruct gs) None m' (Ok a) (msg_ty m') d) a ds = Ok (v, ds)
                         /\ obj_nl i (attrs_nl m') a v) l).
        { eapply Forall_impl; [|exact (Hl l eq_refl)]. intros a Sa. now apply obj_val_nl. }
        destruct (to_list_fold _ _ ds l HF []) as (vs & Ef & Qs). cbv beta in Ef. cbn [app] in Ef.
        rewrite Ef. cbn [bind]. rewrite is_nil_ltb. eexists. split; [reflexivity|].
        exists (GSlice (Some l)). split; [exact RG|]. exists (Some l). do 2 eexists.
        split; [reflexivity|]. split; [reflexivity|exact Qs].
      + eexists. split; [reflexivity|]. exists (GSlice None). split; [exact RG|]. exists None. do 2 eexists.
        split; [reflexivity|]. split; [reflexivity|constructor].
    - (* PrimitiveMapKind *)
      inversion FT; subst t; clear FT. specialize (Z eq_refl).
      destruct (fi_placeholder i) eqn:PHE; [destruct (PH eq_refl); discriminate|].
      assert (O : fi_oneof i = None).
      { destruct (fi_oneof i) as [h|]; [|reflexivity]. destruct (OO h eq_refl) as [[D _]|[D _]]; discriminate. }
      destruct (reads_go i _ gs V P Ty) as (g & RG & (o & -> & Hl) & _ & RS & _); [congruence|].
      rewrite (RS _ (or_introl O)). cbn [bind]. unfold map_nl.
      destruct o as [l|]; cbv beta iota zeta.
      + assert (HF : Forall (fun ka : string * goval => exists v,
                         (fun ka d => to_prim_value i (Ok (snd ka)) (GStruct gs) (TyPrim (fi_tk i)) None d) ka ds
                         = Ok (v, ds) /\ prim_nl i (snd ka) v) l).
        { eapply Forall_impl; [|exact (Hl l eq_refl)]. intros a Sa. now apply prim_elem_nl. }
        destruct (map_fold_nl _ _ ds l HF []) as (es & Ef & Qs). cbv beta in Ef.
        rewrite Ef. cbn [bind]. rewrite is_nil_match. eexists. split; [reflexivity|].
        exists (GMap (Some l)). split; [exact RG|]. exists (Some l). do 2 eexists.
        split; [reflexivity|]. split; [reflexivity|]. cbn [olist]. intros ND.
        destruct (Qs ND) as (es' & -> & F2). exact F2.
      + eexists. split; [reflexivity|]. exists (GMap None). split; [exact RG|]. exists None. do 2 eexists.
        split; [reflexivity|]. split; [reflexivity|]. intros _. constructor.
    - (* ObjectMapKind *)
      destruct (OM eq_refl) as (m' & ->). inversion FT; subst t; clear FT.
      destruct (Q m' eq_refl) as [T' G'].
      destruct (fi_placeholder i) eqn:PHE; [destruct (PH eq_refl); discriminate|].
      assert (O : fi_oneof i = None).
      { destruct (fi_oneof i) as [h|]; [|reflexivity]. destruct (OO h eq_refl) as [[D _]|[D _]]; discriminate. }
      destruct (reads_go i _ gs V P Ty) as (g & RG & (o & -> & Hl) & _ & RS & _); [congruence|].
      rewrite (RS _ (or_introl O)). cbn [bind N_of]. unfold map_nl.
      destruct o as [l|]; cbv beta iota zeta.
      + assert (HF : Forall (fun ka : string * goval => exists v,
                         (fun ka d => obj_value hook i (GStruct gs) None m' (Ok (snd ka)) (msg_ty m') d) ka ds
                         = Ok (v, ds) /\ obj_nl i (attrs_nl m') (snd ka) v) l).
        { eapply Forall_impl; [|exact (Hl l eq_refl)]. intros a Sa. now apply obj_val_nl. }
        destruct (map_fold_nl _ _ ds l HF []) as (es & Ef & Qs). cbv beta in Ef.
        rewrite Ef. cbn [bind]. rewrite is_nil_match. eexists. split; [reflexivity|].
        exists (GMap (Some l)). split; [exact RG|]. exists (Some l). do 2 eexists.
        split; [reflexivity|]. split; [reflexivity|]. cbn [olist]. intros ND.
        destruct (Qs ND) as (es' & -> & F2). exact F2.
      + eexists. split; [reflexivity|]. exists (GMap None). split; [exact RG|]. exists None. do 2 eexists.
        split; [reflexivity|]. split; [reflexivity|]. intros _. constructor.
    - now contradiction NC.
  Qed.

  (* the fields of a message one after the other *)
  Lemma field_list_nl l gs atys :
    Forall field_nl l -> Forall (fun f => ftyped f gs) l ->
    (forall f, In f l -> exists t, field_ty f = Some t /\ lookup (snake f) atys = Some t) ->
    NoDup (snakes l) ->
    forall attrs ds, (forall f, In f l -> lookup (snake f) attrs = None) ->
    exists attrs', to_field_list hook l (GStruct gs) atys (attrs, ds) = Ok (attrs', ds)
      /\ (forall k, ~ In k (snakes l) -> lookup k attrs' = lookup k attrs)
      /\ (forall f, In f l -> exists v, lookup (snake f) attrs' = Some v /\ fspec f (GStruct gs) v).
  Proof.
    induction l as [|f r IH]; intros G T A ND attrs ds N; cbn [to_field_list].
    - exists attrs. split; [reflexivity|]. split; [reflexivity|]. intros f [].
    - inversion G as [|? ? Gf Gr]; subst. inversion T as [|? ? Tf Tr]; subst.
      cbn [snakes map] in ND. inversion ND as [|? ? N1 N2]; subst.
      destruct (A f (or_introl eq_refl)) as (t & FT & La).
      destruct (Gf gs atys attrs ds t Tf FT La (N f (or_introl eq_refl))) as (v & E & Sv).
      rewrite E. cbn [bind].
      destruct (IH Gr Tr (fun f' I => A f' (or_intror I)) N2 (update (snake f) v attrs) ds)
        as (attrs' & E' & L' & S').
      { intros f' I. rewrite lookup_update_neq; [apply N; now right|].
        intros Eq. apply N1. rewrite <- Eq. now apply in_map. }
      exists attrs'. split; [exact E'|]. split.
      + intros k Nk. cbn [snakes map In] in Nk. rewrite L' by tauto. apply lookup_update_neq.
        intros ->. tauto.
      + intros f' [<-|I].
        * rewrite L' by exact N1. rewrite lookup_update_eq. eauto.
        * now apply S'.
  Qed.

  Lemma nl_mutual : forall m, tf_ok m = true -> msg_nl m.
  Proof.
    apply (message_ind' (fun f => ftf_ok f = true -> field_nl f) (fun m => tf_ok m = true -> msg_nl m)).
    - intros i F. cbn [ftf_ok] in F. rewrite andb_true_r in F. apply field_nl_step; [exact F|]. intros m' [=].
    - intros i m IH F. cbn [ftf_ok] in F. apply andb_prop in F. destruct F as [F1 F2].
      apply field_nl_step; [exact F1|]. intros m' [= <-]. split; [exact F2|exact (IH F2)].
    - intros n fs os inj e z IH F obj ds T. rewrite tf_ok_eq in F.
      apply andb_prop in F. destruct F as [F F3]. apply andb_prop in F. destruct F as [F1 _].
      apply nodup_b_NoDup in F1. rewrite forallb_forall in F3.
      rewrite typed_eq in T. destruct T as (gs & -> & T). rewrite to_fields_list, msg_ty_eq.
      assert (G : Forall field_nl fs).
      { rewrite Forall_forall in IH |- *. intros f I. exact (IH f I (F3 f I)). }
      assert (A : forall f, In f fs -> exists t, field_ty f = Some t /\ lookup (snake f) (fields_ty fs) = Some t).
      { intros [i om] I. pose proof (F3 _ I) as Ff. cbn [ftf_ok] in Ff.
        apply andb_prop in Ff. destruct Ff as [Ff _].
        destruct (field_ty_some _ _ Ff) as (t & FT). exists t. split; [exact FT|]. now apply lookup_fields_ty. }
      destruct (field_list_nl fs gs (fields_ty fs) G T A F1 [] ds) as (attrs' & E & _ & S); [reflexivity|].
      exists attrs'. split; [exact E|]. rewrite attrs_nl_eq, Forall_forall. intros f If.
      apply fattr_nl_fspec. now apply S.
  Qed.
End Nullness.

(* ------------------------------------------------------------------------------------- *)
(* 5. C20 at the level of the message *)

Theorem copy_to_nullness_message_partial hook m obj t :
  tf_ok m = true -> typed m obj ->
  copy_to hook m obj (VObj (msg_ty m) false false None) = Ok (t, []) -> nullness_ok m obj t.
Proof.
  intros F T H. destruct (nl_mutual hook m F obj [] T) as (attrs & E & N).
  cbn [copy_to] in H. rewrite E in H. cbn [bind] in H. injection H as <-. exists attrs. split; [reflexivity|exact N].
Qed.

(* ... and the result exists *)
Theorem copy_to_nullness_message_total hook m obj :
  tf_ok m = true -> typed m obj ->
  exists t, copy_to hook m obj (VObj (msg_ty m) false false None) = Ok (t, []) /\ nullness_ok m obj t.
Proof.
  intros F T. destruct (nl_mutual hook m F obj [] T) as (attrs & E & N).
  eexists. split; [cbn [copy_to]; rewrite E; reflexivity|]. exists attrs. split; [reflexivity|exact N].
Qed.

(* on the class and the values of the round trip theorem (MsgRoundTrip) *)
Theorem copy_to_nullness_message_rt hook m obj t :
  rt_ok m = true -> rt_typed m obj ->
  copy_to hook m obj (VObj (msg_ty m) false false None) = Ok (t, []) -> nullness_ok m obj t.
Proof.
  intros R T. apply copy_to_nullness_message_partial; [now apply rt_ok_tf_ok|].
  apply rt_typed_typed; [|exact T]. unfold rt_ok in R. apply andb_prop in R. tauto.
Qed.

(* ------------------------------------------------------------------------------------- *)
(* 6. the two directions, readable on their own *)

Ltac kinds i N :=
  destruct (fi_kind i);
  [ | | destruct N as [N|]; [|contradiction] | destruct N as [N|]; [|contradiction] |
    | destruct N as [N|]; [|contradiction] | contradiction ].

(* the Go side holds nothing: the zero scalar (when the field has a zero literal), the nil pointer,
   the nil or empty list or map *)
Definition go_absent (i : finfo) (g : goval) : Prop :=
  match fi_kind i with
  | PrimitiveKind =>
      if fi_nullable i then g = GPtr None
      else fi_zero i = true /\ exists p, cast_to (fi_tk i) g = Ok p /\ prim_is_zero p = true
  | PrimitiveListKind | ObjectListKind => g = GSlice None \/ g = GSlice (Some [])
  | PrimitiveMapKind | ObjectMapKind => g = GMap None \/ g = GMap (Some [])
  | ObjectKind => fi_nullable i = true /\ g = GPtr None
  | CustomKind => False
  end.

(* the Go side holds something: a scalar which is not the zero value or has no zero literal, a
   pointer which is not nil, a list or map with an element, a message by value *)
Definition go_present (i : finfo) (g : goval) : Prop :=
  match fi_kind i with
  | PrimitiveKind =>
      if fi_nullable i then exists x, g = GPtr (Some x)
      else fi_zero i = false \/ exists p, cast_to (fi_tk i) g = Ok p /\ prim_is_zero p = false
  | PrimitiveListKind | ObjectListKind => exists a l, g = GSlice (Some (a :: l))
  | PrimitiveMapKind | ObjectMapKind => exists a l, g = GMap (Some (a :: l))
  | ObjectKind => fi_nullable i = false \/ exists x, g = GPtr (Some x)
  | CustomKind => False
  end.

Lemma val_nl_known i N g v : val_nl i N g v -> unknown_of v = Some false.
Proof.
  unfold val_nl. kinds i N.
  - now intros (n & p & -> & _).
  - now intros (o & ety & vs & _ & -> & _).
  - now intros (ats & n & attrs & -> & _).
  - now intros (o & ety & vs & _ & -> & _).
  - now intros (o & ety & vs & _ & -> & _).
  - now intros (o & ety & vs & _ & -> & _).
Qed.

(* (absence) *)
Lemma val_nl_absent i N g v : val_nl i N g v -> go_absent i g -> null_of v = Some true.
Proof.
  unfold val_nl, go_absent. kinds i N.
  - intros (n & p & -> & S) A. cbn [null_of]. unfold scalar_null in S. destruct (fi_nullable i).
    + subst g. now symmetry.
    + destruct A as (Zt & p' & C & Zp). rewrite Zt, C, Zp in S. now symmetry.
  - intros (o & ety & vs & -> & -> & _) [A|A]; injection A as ->; reflexivity.
  - intros (ats & n & attrs & -> & H) (Nn & ->). rewrite Nn in H.
    destruct H as [[_ ->]|(x & D & _)]; [reflexivity|discriminate].
  - intros (o & ety & vs & -> & -> & _) [A|A]; injection A as ->; reflexivity.
  - intros (o & ety & vs & -> & -> & _) [A|A]; injection A as ->; reflexivity.
  - intros (o & ety & vs & -> & -> & _) [A|A]; injection A as ->; reflexivity.
Qed.

(* (presence) *)
Lemma val_nl_present i N g v : val_nl i N g v -> go_present i g -> null_of v = Some false.
Proof.
  unfold val_nl, go_present. kinds i N.
  - intros (n & p & -> & S) A. cbn [null_of]. unfold scalar_null in S. destruct (fi_nullable i).
    + destruct A as (x & ->). now symmetry.
    + destruct A as [Zt|(p' & C & Zp)].
      * rewrite Zt in S. now symmetry.
      * destruct (fi_zero i); [|now symmetry]. rewrite C, Zp in S. now symmetry.
  - intros (o & ety & vs & -> & -> & _) (a & l & A); injection A as ->; reflexivity.
  - intros (ats & n & attrs & -> & H) A. cbn [null_of]. destruct (fi_nullable i).
    + destruct A as [A|(x & ->)]; [discriminate|].
      destruct H as [[D _]|(x' & _ & -> & _)]; [discriminate|reflexivity].
    + now destruct H as [-> _].
  - intros (o & ety & vs & -> & -> & _) (a & l & A); injection A as ->; reflexivity.
  - intros (o & ety & vs & -> & -> & _) (a & l & A); injection A as ->; reflexivity.
  - intros (o & ety & vs & -> & -> & _) (a & l & A); injection A as ->; reflexivity.
Qed.

(* the Go value of a field which was rendered is one or the other *)
Lemma val_nl_dicho i N g v : val_nl i N g v -> go_absent i g \/ go_present i g.
Proof.
  unfold val_nl, go_absent, go_present. kinds i N.
  - intros (n & p & _ & S). unfold scalar_null in S. destruct (fi_nullable i).
    + destruct g as [| |[x|]| | | |]; try discriminate S; [right; eauto|now left].
    + destruct (fi_zero i); [|right; now left].
      destruct (cast_to (fi_tk i) g) as [q|]; [|discriminate S].
      destruct (prim_is_zero q) eqn:Zq; [left|right; right]; eauto.
  - intros (o & ety & vs & -> & _). destruct o as [[|a l]|]; [left; now right|right; eauto|left; now left].
  - intros (ats & n & attrs & _ & H). destruct (fi_nullable i); [|right; now left].
    destruct H as [[-> _]|(x & -> & _)]; [left; now split|right; right; eauto].
  - intros (o & ety & vs & -> & _). destruct o as [[|a l]|]; [left; now right|right; eauto|left; now left].
  - intros (o & ety & vs & -> & _). destruct o as [[|a l]|]; [left; now right|right; eauto|left; now left].
  - intros (o & ety & vs & -> & _). destruct o as [[|a l]|]; [left; now right|right; eauto|left; now left].
Qed.

(* null iff absent, not null iff present *)
Lemma val_nl_iff i N g v : val_nl i N g v ->
  (null_of v = Some true <-> go_absent i g) /\ (null_of v = Some false <-> go_present i g).
Proof.
  intros H. pose proof (val_nl_absent i N g v H) as A. pose proof (val_nl_present i N g v H) as P.
  destruct (val_nl_dicho i N g v H) as [D|D]; split; split; auto; intros E.
  - rewrite (A D) in E. discriminate E.
  - rewrite (P D) in E. discriminate E.
Qed.

(* reading through the oneof stub *)
Lemma read_val_plain i gs : fi_oneof i = None -> read_val i (GStruct gs) = lookup (fi_name i) gs.
Proof. unfold read_val, read_go. now intros ->. Qed.

Lemma read_val_active i h gs p :
  fi_oneof i = Some h -> lookup h gs = Some (GOneof (Some (fi_name i, p))) -> read_val i (GStruct gs) = Some p.
Proof. unfold read_val, read_go. intros -> ->. now rewrite String.eqb_refl. Qed.

Lemma read_val_inactive i h gs :
  fi_oneof i = Some h ->
  lookup h gs = Some (GOneof None)
  \/ (exists b p, lookup h gs = Some (GOneof (Some (b, p))) /\ b <> fi_name i) ->
  read_val i (GStruct gs) = Some (zero_of_prim i).
Proof.
  unfold read_val, read_go. intros -> [->|(b & p & -> & NE)]; [reflexivity|].
  apply String.eqb_neq in NE. now rewrite NE.
Qed.

Lemma zero_scalar_cast k c :
  scalar_ok k (zero_scalar c) = true -> k <> KTime ->
  exists p, cast_to k (zero_scalar c) = Ok p /\ prim_is_zero p = true.
Proof.
  destruct k, c; try discriminate; intros _ NT; try congruence; eexists; split; reflexivity.
Qed.

(* a oneof branch which is not the active one holds nothing, unless it is a value scalar without
   zero literal (or a time) *)
Lemma branch_zero_absent i om h :
  finfo_ok i om = true -> fi_oneof i = Some h ->
  fi_nullable i = true \/ (fi_zero i = true /\ fi_tk i <> KTime) -> go_absent i (zero_of_prim i).
Proof.
  intros F O H. destruct (finfo_ok_inv _ _ F) as (_ & _ & _ & _ & _ & OO & _).
  unfold go_absent, zero_of_prim. destruct (OO h O) as [[K D]|[K D]]; rewrite K.
  - destruct (fi_nullable i); [reflexivity|].
    destruct H as [H|[Zt NT]]; [discriminate|]. destruct D as [D|D]; [discriminate|].
    split; [exact Zt|]. now apply zero_scalar_cast.
  - rewrite D. now split.
Qed.

(* ... and such a branch (a value scalar without zero literal) is never rendered null, whether it
   is the active one or not *)
Lemma nozero_never_null i N g v :
  fi_kind i = PrimitiveKind -> fi_nullable i = false -> fi_zero i = false -> val_nl i N g v ->
  null_of v = Some false.
Proof.
  intros K Nn Z H. apply (val_nl_present i N g v H). unfold go_present. rewrite K, Nn. now left.
Qed.

(* elements *)
Lemma prim_nl_null i g v :
  prim_nl i g v -> exists n, null_of v = Some n /\ unknown_of v = Some false /\ scalar_null i g = Some n.
Proof. intros (n & p & -> & S). exists n. auto. Qed.

Lemma obj_nl_null i N g v :
  obj_nl i N g v ->
  unknown_of v = Some false /\
  (null_of v = Some true <-> fi_nullable i = true /\ g = GPtr None) /\
  (null_of v = Some false <-> fi_nullable i = false \/ exists x, g = GPtr (Some x)).
Proof.
  intros (ats & n & attrs & -> & H). cbn [null_of unknown_of]. split; [reflexivity|].
  destruct (fi_nullable i).
  - destruct H as [[-> ->]|(x & -> & -> & _)]; split; split; try discriminate; auto.
    + intros [D|(x & D)]; discriminate.
    + intros [_ D]. discriminate.
    + intros _. right. eauto.
  - destruct H as [-> _]. split; split; try discriminate; auto. intros [D _]. discriminate.
Qed.

Lemma attrs_nl_field m obj attrs f : attrs_nl m obj attrs -> In f (m_fields m) -> fattr_nl f obj attrs.
Proof. destruct m as [n fs os inj e z]. rewrite attrs_nl_eq, Forall_forall. cbn [m_fields]. auto. Qed.

(* for the attributes of a message (the one CopyTo is called on, or a nested one, see [sub_at]) *)
Theorem attrs_nl_absent m obj attrs i om g :
  attrs_nl m obj attrs -> In (Field i om) (m_fields m) -> fi_placeholder i = false ->
  read_val i obj = Some g -> go_absent i g ->
  exists v, lookup (fi_snake i) attrs = Some v /\ null_of v = Some true /\ unknown_of v = Some false.
Proof.
  intros H I PH R A. pose proof (attrs_nl_field _ _ _ _ H I) as Hf. rewrite fattr_nl_eq, PH in Hf.
  destruct Hf as (v & L & g' & R' & Nv). rewrite R in R'. injection R' as <-.
  exists v. split; [exact L|]. split; [exact (val_nl_absent _ _ _ _ Nv A)|exact (val_nl_known _ _ _ _ Nv)].
Qed.

Theorem attrs_nl_present m obj attrs i om g :
  attrs_nl m obj attrs -> In (Field i om) (m_fields m) -> fi_placeholder i = false ->
  read_val i obj = Some g -> go_present i g ->
  exists v, lookup (fi_snake i) attrs = Some v /\ null_of v = Some false /\ unknown_of v = Some false.
Proof.
  intros H I PH R A. pose proof (attrs_nl_field _ _ _ _ H I) as Hf. rewrite fattr_nl_eq, PH in Hf.
  destruct Hf as (v & L & g' & R' & Nv). rewrite R in R'. injection R' as <-.
  exists v. split; [exact L|]. split; [exact (val_nl_present _ _ _ _ Nv A)|exact (val_nl_known _ _ _ _ Nv)].
Qed.

Theorem attrs_nl_placeholder m obj attrs i om :
  attrs_nl m obj attrs -> In (Field i om) (m_fields m) -> fi_placeholder i = true ->
  exists v, lookup (fi_snake i) attrs = Some v /\ null_of v = Some true /\ unknown_of v = Some false.
Proof.
  intros H I PH. pose proof (attrs_nl_field _ _ _ _ H I) as Hf. rewrite fattr_nl_eq, PH in Hf.
  destruct Hf as (v & L & p & ->). exists (VPrim (fi_tk i) true false p). auto.
Qed.

(* every field which is not the placeholder has a Go value, which is absent or present, and its
   attribute is null in the first case and only then *)
Theorem attrs_nl_exact m obj attrs i om :
  attrs_nl m obj attrs -> In (Field i om) (m_fields m) -> fi_placeholder i = false ->
  exists g v, read_val i obj = Some g /\ lookup (fi_snake i) attrs = Some v /\ unknown_of v = Some false /\
    (null_of v = Some true <-> go_absent i g) /\ (null_of v = Some false <-> go_present i g).
Proof.
  intros H I PH. pose proof (attrs_nl_field _ _ _ _ H I) as Hf. rewrite fattr_nl_eq, PH in Hf.
  destruct Hf as (v & L & g & R & Nv). exists g, v. split; [exact R|]. split; [exact L|].
  split; [exact (val_nl_known _ _ _ _ Nv)|exact (val_nl_iff _ _ _ _ Nv)].
Qed.

(* for the message CopyTo is called on *)
Theorem copy_to_absent_null hook m obj t i om g :
  tf_ok m = true -> typed m obj ->
  copy_to hook m obj (VObj (msg_ty m) false false None) = Ok (t, []) ->
  In (Field i om) (m_fields m) -> fi_placeholder i = false -> read_val i obj = Some g -> go_absent i g ->
  exists attrs v, t = VObj (msg_ty m) false false (Some attrs) /\ lookup (fi_snake i) attrs = Some v
                  /\ null_of v = Some true /\ unknown_of v = Some false.
Proof.
  intros F T H I PH R A. destruct (copy_to_nullness_message_partial hook m obj t F T H) as (attrs & -> & N).
  destruct (attrs_nl_absent m obj attrs i om g N I PH R A) as (v & L & Hv). exists attrs, v. auto.
Qed.

Theorem copy_to_present_not_null hook m obj t i om g :
  tf_ok m = true -> typed m obj ->
  copy_to hook m obj (VObj (msg_ty m) false false None) = Ok (t, []) ->
  In (Field i om) (m_fields m) -> fi_placeholder i = false -> read_val i obj = Some g -> go_present i g ->
  exists attrs v, t = VObj (msg_ty m) false false (Some attrs) /\ lookup (fi_snake i) attrs = Some v
                  /\ null_of v = Some false /\ unknown_of v = Some false.
Proof.
  intros F T H I PH R A. destruct (copy_to_nullness_message_partial hook m obj t F T H) as (attrs & -> & N).
  destruct (attrs_nl_present m obj attrs i om g N I PH R A) as (v & L & Hv). exists attrs, v. auto.
Qed.

(* ------------------------------------------------------------------------------------- *)
(* 7. every depth: the nested messages which are reached through attributes which are not null *)

(* the message value w (of the Go value a) is not null, x is the struct and at1 the attributes *)
Definition elem_in (i : finfo) (a : goval) (w : tfval) (x : goval) (at1 : list (string * tfval)) : Prop :=
  (exists ats, w = VObj ats false false (Some at1)) /\ (if fi_nullable i then a = GPtr (Some x) else a = x).

Definition inner_at (i : finfo) (g : goval) (v : tfval) (x : goval) (at1 : list (string * tfval)) : Prop :=
  match fi_kind i with
  | ObjectKind => elem_in i g v x at1
  | ObjectListKind =>
      exists l ety nl vs n a w, g = GSlice (Some l) /\ v = VList ety nl false (Some vs) /\
        nth_error l n = Some a /\ nth_error vs n = Some w /\ elem_in i a w x at1
  | ObjectMapKind =>
      exists l ety nl es k a w, g = GMap (Some l) /\ NoDup (map fst l) /\ v = VMap ety nl false (Some es) /\
        In (k, a) l /\ In (k, w) es /\ elem_in i a w x at1
  | _ => False
  end.

Inductive sub_at : message -> goval -> list (string * tfval) ->
                   message -> goval -> list (string * tfval) -> Prop :=
| sub_here m obj attrs : sub_at m obj attrs m obj attrs
| sub_step m obj attrs i m1 g v x at1 m2 obj2 attrs2 :
    In (Field i (Some m1)) (m_fields m) -> fi_placeholder i = false ->
    read_val i obj = Some g -> lookup (fi_snake i) attrs = Some v -> inner_at i g v x at1 ->
    sub_at m1 x at1 m2 obj2 attrs2 -> sub_at m obj attrs m2 obj2 attrs2.

Lemma obj_nl_inner i N a w x at1 : obj_nl i N a w -> elem_in i a w x at1 -> N x at1.
Proof.
  intros (ats & n & attrs & -> & H) [(ats' & E) Hx]. injection E as _ -> ->.
  destruct (fi_nullable i).
  - subst a. destruct H as [[D _]|(x' & D & _ & Nx)]; [discriminate|]. now injection D as ->.
  - subst a. now destruct H.
Qed.

Lemma Forall2_nth {A B} (R : A -> B -> Prop) l l' n a b :
  Forall2 R l l' -> nth_error l n = Some a -> nth_error l' n = Some b -> R a b.
Proof.
  intros H. revert n. induction H as [|x y r r' Hxy _ IH]; intros [|n]; cbn [nth_error]; try discriminate.
  - now intros [= <-] [= <-].
  - apply IH.
Qed.

Lemma Forall2_keys {A B} (R : A -> B -> Prop) (l : list (string * A)) (es : list (string * B)) k a w :
  Forall2 (fun ka kv => fst ka = fst kv /\ R (snd ka) (snd kv)) l es ->
  NoDup (map fst l) -> In (k, a) l -> In (k, w) es -> R a w.
Proof.
  induction 1 as [|[k1 a1] [k2 w2] r r' [Ek Hxy] F2 IH]; intros ND Ia Iw; [destruct Ia|].
  cbn [fst snd map] in *. subst k2. inversion ND as [|? ? N1 N2]; subst.
  assert (KE : map fst r' = map fst r).
  { clear -F2. induction F2 as [|x y s s' [E _] _ IH]; [reflexivity|]. cbn [map]. now rewrite IH, E. }
  destruct Ia as [Ia|Ia], Iw as [Iw|Iw].
  - injection Ia as -> ->. now injection Iw as ->.
  - injection Ia as -> ->. exfalso. apply N1. rewrite <- KE. change k with (fst (k, w)). now apply in_map.
  - injection Iw as -> ->. exfalso. apply N1. change k with (fst (k, a)). now apply in_map.
  - now apply IH.
Qed.

Theorem attrs_nl_sub m obj attrs m2 obj2 attrs2 :
  sub_at m obj attrs m2 obj2 attrs2 -> attrs_nl m obj attrs -> attrs_nl m2 obj2 attrs2.
Proof.
  induction 1 as [|m obj attrs i m1 g v x at1 m2 obj2 attrs2 I PH R L In1 _ IH]; intros H; [exact H|].
  apply IH. pose proof (attrs_nl_field _ _ _ _ H I) as Hf. rewrite fattr_nl_eq, PH in Hf.
  destruct Hf as (v' & L' & g' & R' & Nv). rewrite L in L'. injection L' as <-. rewrite R in R'. injection R' as <-.
  unfold val_nl in Nv. unfold inner_at in In1. cbn [N_of] in Nv. destruct (fi_kind i); try contradiction.
  - exact (obj_nl_inner _ _ _ _ _ _ Nv In1).
  - destruct In1 as (l & ety & nl & vs & n & a & w & -> & -> & Na & Nw & Ein).
    destruct Nv as (o & ety' & vs' & Eg & Ev & F2). injection Eg as <-. injection Ev as _ _ <-.
    cbn [olist] in F2. exact (obj_nl_inner _ _ _ _ _ _ (Forall2_nth _ _ _ _ _ _ F2 Na Nw) Ein).
  - destruct In1 as (l & ety & nl & es & k & a & w & -> & ND & -> & Ia & Iw & Ein).
    destruct Nv as (o & ety' & es' & Eg & Ev & F2). injection Eg as <-. injection Ev as _ _ <-.
    cbn [olist] in F2. exact (obj_nl_inner _ _ _ _ _ _ (Forall2_keys _ _ _ _ _ _ (F2 ND) ND Ia Iw) Ein).
Qed.

(* C20 at every depth: in the result of CopyTo on the empty object, for every message reached and
   every field of it, the attribute is present and known; it is null iff the Go side is absent *)
Theorem copy_to_nullness_every_depth hook m obj attrs m2 obj2 attrs2 i om :
  tf_ok m = true -> typed m obj ->
  copy_to hook m obj (VObj (msg_ty m) false false None) = Ok (VObj (msg_ty m) false false (Some attrs), []) ->
  sub_at m obj attrs m2 obj2 attrs2 -> In (Field i om) (m_fields m2) ->
  exists v, lookup (fi_snake i) attrs2 = Some v /\ unknown_of v = Some false /\
    if fi_placeholder i then null_of v = Some true
    else exists g, read_val i obj2 = Some g /\
           (null_of v = Some true <-> go_absent i g) /\ (null_of v = Some false <-> go_present i g).
Proof.
  intros F T H S I. destruct (copy_to_nullness_message_partial hook m obj _ F T H) as (attrs' & E & N).
  injection E as <-. pose proof (attrs_nl_sub _ _ _ _ _ _ S N) as N2.
  destruct (fi_placeholder i) eqn:PH.
  - destruct (attrs_nl_placeholder _ _ _ _ _ N2 I PH) as (v & L & Nv & Uv). exists v. auto.
  - destruct (attrs_nl_exact _ _ _ _ _ N2 I PH) as (g & v & R & L & Uv & Hv). exists v.
    split; [exact L|]. split; [exact Uv|]. exists g. split; [exact R|exact Hv].
Qed.

Print Assumptions copy_to_nullness_message_partial.
Print Assumptions copy_to_nullness_message_total.
Print Assumptions copy_to_nullness_message_rt.
Print Assumptions copy_to_absent_null.
Print Assumptions copy_to_present_not_null.
Print Assumptions copy_to_nullness_every_depth.

(* ------------------------------------------------------------------------------------- *)
(* 8. the model computed, on the message of MsgRoundTrip.RTExample *)

(* the null flags of a value, depth first *)
Fixpoint all_nulls (v : tfval) : list bool :=
  match v with
  | VPrim _ n _ _ => [n]
  | VList _ n _ els =>
      n :: match els with
           | Some l => (fix go (l : list tfval) : list bool :=
                          match l with [] => [] | x :: r => all_nulls x ++ go r end) l
           | None => []
           end
  | VMap _ n _ els =>
      n :: match els with
           | Some l => (fix go (l : list (string * tfval)) : list bool :=
                          match l with [] => [] | (_, x) :: r => all_nulls x ++ go r end) l
           | None => []
           end
  | VObj _ n _ attrs =>
      n :: match attrs with
           | Some l => (fix go (l : list (string * tfval)) : list bool :=
                          match l with [] => [] | (_, x) :: r => all_nulls x ++ go r end) l
           | None => []
           end
  | _ => []
  end.

Fixpoint all_unknowns (v : tfval) : list bool :=
  match v with
  | VPrim _ _ u _ => [u]
  | VList _ _ u els =>
      u :: match els with
           | Some l => (fix go (l : list tfval) : list bool :=
                          match l with [] => [] | x :: r => all_unknowns x ++ go r end) l
           | None => []
           end
  | VMap _ _ u els =>
      u :: match els with
           | Some l => (fix go (l : list (string * tfval)) : list bool :=
                          match l with [] => [] | (_, x) :: r => all_unknowns x ++ go r end) l
           | None => []
           end
  | VObj _ _ u attrs =>
      u :: match attrs with
           | Some l => (fix go (l : list (string * tfval)) : list bool :=
                          match l with [] => [] | (_, x) :: r => all_unknowns x ++ go r end) l
           | None => []
           end
  | _ => [true]
  end.

(* the attributes of an object with their null flags *)
Definition top_nulls (r : res (tfval * list diag)) : list (string * option bool) :=
  match r with
  | Ok (VObj _ _ _ (Some l), []) => map (fun kv => (fst kv, null_of (snd kv))) l
  | _ => []
  end.

Definition result_of (r : res (tfval * list diag)) : tfval := match r with Ok (t, _) => t | Panic => VNil end.

Module NullExamples.
  Import RTExample.
  Local Open Scope string_scope.
  Local Open Scope Z_scope.

  Definition run (obj : goval) := copy_to std_hook_to outer obj (VObj (msg_ty outer) false false None).

  (* nil, empty or zero everywhere *)
  Definition zval : goval :=
    GStruct [("Kind", GOneof None);
             ("Other", GOneof (Some ("Z", GPrim (PInt 0))));
             ("Items", GSlice None);
             ("Labels", GMap (Some []));
             ("Tags", GSlice (Some []));
             ("Sub", inn "" 0);
             ("P", GPtr None);
             ("N", GPrim (PF32 (S754_zero true)));
             ("E", GPtr None);
             ("T", GPrim (PTime (-62135596800) 0 0));
             ("M", GMap None)].

  (* every attribute is null but the message by value (whose attributes are null) and the time,
     which has no zero literal *)
  Example zero_nulls :
    top_nulls (run zval)
    = [("x", Some true); ("y", Some true); ("items", Some true); ("labels", Some true); ("tags", Some true);
       ("sub", Some false); ("p", Some true); ("n", Some true); ("e", Some true); ("t", Some false);
       ("m", Some true); ("z", Some true)].
  Proof. vm_compute. reflexivity. Qed.

  Example zero_sub :
    exists attrs ats,
      run zval = Ok (VObj (msg_ty outer) false false (Some attrs), []) /\
      lookup "sub" attrs
      = Some (VObj ats false false (Some [("a", VPrim KStr true false (PStr "")); ("u", VPrim KI64 true false (PInt 0))])).
  Proof. do 2 eexists. split; vm_compute; reflexivity. Qed.

  (* populated everywhere: of the two branches of the oneof Kind, the one which is not active is null *)
  Definition full : goval :=
    GStruct [("Kind", GOneof (Some ("X", GPrim (PInt 5))));
             ("Other", GOneof (Some ("Z", GPrim (PInt (-3)))));
             ("Items", GSlice (Some [GPtr (Some (inn "i" 7))]));
             ("Labels", GMap (Some [("a", GPrim (PStr "x"))]));
             ("Tags", GSlice (Some [GBytes (Some "z")]));
             ("Sub", inn "s" 1);
             ("P", GPtr (Some (GPrim (PBool false))));
             ("N", GPrim (PF32 (S754_finite false 8388608 (-23))));
             ("E", GPtr (Some (GStruct [])));
             ("T", GPrim (PTime 5 6 7));
             ("M", GMap (Some [("k", inn "m" 2)]))].

  Example full_nulls :
    top_nulls (run full)
    = [("x", Some false); ("y", Some true); ("items", Some false); ("labels", Some false);
       ("tags", Some false); ("sub", Some false); ("p", Some false); ("n", Some false); ("e", Some false);
       ("t", Some false); ("m", Some false); ("z", Some false)].
  Proof. vm_compute. reflexivity. Qed.

  (* at every depth: the only null attributes are the branch y and the placeholder of e *)
  Example full_all_nulls :
    all_nulls (result_of (run full))
    = [false;                      (* the object *)
       false;                      (* x *)
       true;                       (* y *)
       false; false; false; false; (* items, its element, a, u *)
       false; false;               (* labels, "a" *)
       false; false;               (* tags, its element *)
       false; false; false;        (* sub, a, u *)
       false;                      (* p: a pointer to false *)
       false;                      (* n *)
       false; true;                (* e, its placeholder *)
       false;                      (* t *)
       false; false; false; false; (* m, "k", a, u *)
       false]%bool.                (* z *)
  Proof. vm_compute. reflexivity. Qed.

  Example nothing_unknown :
    forallb negb (all_unknowns (result_of (run full))) = true
    /\ forallb negb (all_unknowns (result_of (run zval))) = true
    /\ forallb negb (all_unknowns (result_of (run value))) = true.
  Proof. repeat split; vm_compute; reflexivity. Qed.

  (* the deviations from "absent iff null", on the value of MsgRoundTrip: zero elements of a list
     of scalars are null inside a list which is not null (tags: nil, "z", ""); a nil pointer in a
     list of messages is a null object (items); the zero value of a map of strings is not null
     (labels "b": the generator gives map values no zero literal); the active branch z with the
     zero payload is null; the message by value and the set message without fields are not null *)
  Example value_all_nulls :
    all_nulls (result_of (run value))
    = [false;
       true;                              (* x: not the active branch *)
       false; false; false;               (* y, a, u *)
       false; false; true; false; true;   (* items; {a = "" (null), u = 7}; nil *)
       false; false; false;               (* labels; "a" -> "x"; "b" -> "" *)
       false; true; false; true;          (* tags; nil; "z"; "" *)
       false; false; true;                (* sub, a = "s", u = 0 *)
       false;                             (* p *)
       true;                              (* n = -0 *)
       false; true;                       (* e, placeholder *)
       false;                             (* t *)
       true;                              (* m = nil *)
       true]%bool.                        (* z: active, payload 0 *)
  Proof. vm_compute. reflexivity. Qed.

  (* the theorems on these values *)
  Lemma outer_tf_ok : tf_ok outer = true.
  Proof. vm_compute. reflexivity. Qed.

  Lemma typed_of_rt obj : rt_typed outer obj -> typed outer obj.
  Proof. apply rt_typed_typed. vm_compute. reflexivity. Qed.

  Example value_thm : nullness_ok outer value (result_of (run value)).
  Proof.
    apply (copy_to_nullness_message_partial std_hook_to); [exact outer_tf_ok|exact (typed_of_rt _ value_typed)|].
    vm_compute. reflexivity.
  Qed.

  Lemma zval_typed : rt_typed outer zval.
  Proof.
    unfold outer, zval. rewrite rt_typed_eq. eexists. split; [reflexivity|]. split; [|split].
    - intros k. cbn. tauto.
    - intros h [<-|[<-|[]]]; (eexists; split; [reflexivity|]); [now left|right].
      exists (Field (mk "Z" "z" PrimitiveKind KI64 GsInt64 false true (Some "Other")) None).
      eexists. split; [cbn; tauto|split; reflexivity].
    - repeat (constructor; [cbn; unfold reads; cbn|]); [..|constructor].
      all: repeat typed_step.
  Qed.

  Example zval_thm : nullness_ok outer zval (result_of (run zval)).
  Proof.
    apply (copy_to_nullness_message_partial std_hook_to); [exact outer_tf_ok|exact (typed_of_rt _ zval_typed)|].
    vm_compute. reflexivity.
  Qed.

  (* the corollary on a nested message: the element of the list items of [value] which is set *)
  Example value_items_a :
    exists attrs at1 v,
      run value = Ok (VObj (msg_ty outer) false false (Some attrs), []) /\
      sub_at outer value attrs inner (inn "" 7) at1 /\
      lookup "a" at1 = Some v /\ null_of v = Some true /\ unknown_of v = Some false.
  Proof.
    eexists. eexists. eexists. split; [vm_compute; reflexivity|]. split.
    - eapply (sub_step outer value _ (mk "Items" "items" ObjectListKind KI64 GsInt64 true false None) inner).
      + cbn. tauto.
      + reflexivity.
      + vm_compute. reflexivity.
      + vm_compute. reflexivity.
      + unfold inner_at. cbn [fi_kind mk]. do 4 eexists. exists 0%nat. do 2 eexists.
        split; [reflexivity|]. split; [reflexivity|]. split; [reflexivity|]. split; [reflexivity|].
        split; [eexists; reflexivity|reflexivity].
      + apply sub_here.
    - vm_compute. auto.
  Qed.

  (* outside rt_ok, inside tf_ok: a oneof with a time branch (no zero literal), a string branch and
     a pointer scalar branch; a message without fields by value; a map of strings whose values have
     a zero literal *)
  Definition dev : message :=
    Msg "Dev"
        [Field (mk "W" "w" PrimitiveKind KTime GsTime false false (Some "H")) None;
         Field (mk "S" "s" PrimitiveKind KStr GsString false true (Some "H")) None;
         Field (mk "Q" "q" PrimitiveKind KI64 GsInt64 true false (Some "H")) None;
         Field (mk "EV" "ev" ObjectKind KI64 GsInt64 false false None) (Some empty);
         Field (mk "L" "l" PrimitiveMapKind KStr GsString false true None) None]
        ["H"] [] false (GStruct [("H", GOneof None); ("EV", GStruct []); ("L", GMap None)]).

  Definition dev_nil : goval :=
    GStruct [("H", GOneof None); ("EV", GStruct []); ("L", GMap (Some [("k", GPrim (PStr ""))]))].

  Example dev_class : tf_ok dev = true /\ rt_ok dev = false.
  Proof. split; vm_compute; reflexivity. Qed.

  (* the time branch is not null although the oneof is not set; the message by value is not null,
     its placeholder is; the zero value of the map is null inside a map which is not null *)
  Example dev_all_nulls :
    all_nulls (result_of (copy_to std_hook_to dev dev_nil (VObj (msg_ty dev) false false None)))
    = [false;
       false;          (* w: a time, branch not active *)
       true;           (* s *)
       true;           (* q *)
       false; true;    (* ev, its placeholder *)
       false; true]%bool.  (* l; "k" -> "" *)
  Proof. vm_compute. reflexivity. Qed.

  Lemma dev_nil_typed : typed dev dev_nil.
  Proof.
    unfold dev, dev_nil. rewrite typed_eq. eexists. split; [reflexivity|].
    repeat (constructor; [cbn; unfold reads; cbn|]); [..|constructor].
    all: repeat typed_step.
    match goal with H : Some _ = Some _ |- _ => injection H as <- end. repeat typed_step.
  Qed.

  Example dev_thm :
    nullness_ok dev dev_nil (result_of (copy_to std_hook_to dev dev_nil (VObj (msg_ty dev) false false None))).
  Proof.
    apply (copy_to_nullness_message_partial std_hook_to); [vm_compute; reflexivity|exact dev_nil_typed|].
    vm_compute. reflexivity.
  Qed.
End NullExamples.
