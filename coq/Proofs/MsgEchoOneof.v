(* C08 "apply echo" at the level of the message (Proofs/MsgEcho.v, copy_echo_partial) extended to
   oneofs and to messages without fields.

   copy_echo_oneof_partial: for a message of the class [echo_class2] and a plan [plan_ok] (MsgEcho.v:
   at most one branch of every oneof is known and not null), CopyFrom into the zero struct and
   CopyTo into the plan neither panic nor add a diagnostic and the result echoes the plan
   ([echo_rel] of MsgEcho.v, unchanged).

   The class, [echo_class2 m := rt_ok m && ph_ok m]: rt_ok of MsgRoundTrip.v (oneofs whose branches
   are value scalars with a zero literal or nullable messages; messages without fields with their
   placeholder), and [ph_ok]: a message without fields is reached from the root through message
   attributes only, not through the elements of a list or map.  ph_ok is needed
   (OneofExample.placeholder_remade_not_echoed): CopyTo re-makes the elements of a list or map
   without looking at the plan's element and writes the placeholder null, so a placeholder the plan
   knows as true comes back null.

   The new ingredients: (a) the invariant of the field loop of CopyFrom for the holders (from_loop2:
   every field reads, through the oneof stub, the value its attribute decodes to; the holder is nil
   or set to THE branch which is known and not null); (b) the branches written in place
   (e2_branch_prim, e2_branch_obj: a null branch stays null, the known branch is reproduced, an
   unknown branch becomes known with the null flag of the plan's attribute); (c) the placeholder
   written in place (e2_placeholder) and the message without fields, read as the zero struct and
   written from the enclosing struct (msg_echo2, obj_echo2).

   The depth statement [clean r] is NOT a consequence of echo_rel and plan_ok
   (OneofExample.echo_not_clean: plan_ok lets a null object hold unknown attributes, CopyTo keeps
   them below the null object); copy_echo_oneof_attrs_known gives the flag of every attribute.

   copy_echo_oneof_nofloat32 is the same theorem for messages without float32 scalars and is closed
   under the global context. *)
From Coq Require Import List String Bool ZArith Lia.
From Coq Require Import Floats.SpecFloat.
From PGT Require Import Base.Strs Base.AList Model.Vals Model.IR Model.CopyTo Model.CopyFrom.
From PGT Require Import Proofs.Ints Proofs.Floats Proofs.CopyToProofs Proofs.CopyFromProofs.
From PGT Require Import Proofs.RoundTripProofs Proofs.CopyToTotal Proofs.EchoProofs Proofs.MsgRoundTrip.
From PGT Require Import Proofs.MsgEcho.
Import ListNotations.

(* ------------------------------------------------------------------------------------- *)
(* 1. the class *)

(* no message without fields, at any depth (the message itself included) *)
Fixpoint ne (m : message) {struct m} : bool :=
  match m with
  | Msg _ fs _ _ e _ =>
      negb e && (fix go (l : list field) : bool :=
                   match l with
                   | [] => true
                   | f :: r => fne f && go r
                   end) fs
  end
with fne (f : field) {struct f} : bool :=
  match f with
  | Field i om => match om with Some m' => ne m' | None => true end
  end.

(* the messages without fields are written in place: they are reached from the root through
   message attributes only (not through the elements of a list or map, which CopyTo re-makes) *)
Fixpoint ph_ok (m : message) {struct m} : bool :=
  match m with
  | Msg _ fs _ _ e _ =>
      (fix go (l : list field) : bool :=
         match l with
         | [] => true
         | f :: r => fph_ok f && go r
         end) fs
  end
with fph_ok (f : field) {struct f} : bool :=
  match f with
  | Field i om =>
      match om with
      | Some m' => match fi_kind i with ObjectKind => ph_ok m' | _ => ne m' end
      | None => true
      end
  end.

Definition echo_class2 (m : message) : bool := rt_ok m && ph_ok m.

Lemma ne_eq n fs os inj e z : ne (Msg n fs os inj e z) = negb e && forallb fne fs.
Proof.
  cbn [ne]. apply (f_equal (andb _)). induction fs as [|f r IH]; [reflexivity|]. cbn [forallb]. now rewrite IH.
Qed.

Lemma ph_ok_eq n fs os inj e z : ph_ok (Msg n fs os inj e z) = forallb fph_ok fs.
Proof. cbn [ph_ok]. induction fs as [|f r IH]; [reflexivity|]. cbn [forallb]. now rewrite IH. Qed.

Lemma ne_ph_ok : forall m, ne m = true -> ph_ok m = true.
Proof.
  apply (message_ind' (fun f => fne f = true -> fph_ok f = true) (fun m => ne m = true -> ph_ok m = true)).
  - intros i _. reflexivity.
  - intros i m IH H. cbn [fne fph_ok] in *. destruct (fi_kind i); auto.
  - intros n fs os inj e z IH H. rewrite ne_eq in H. rewrite ph_ok_eq. apply andb_prop in H. destruct H as [_ H].
    rewrite forallb_forall in *. rewrite Forall_forall in IH. intros f If. apply IH; auto.
Qed.

Lemma ne_not_empty m : ne m = true -> m_empty m = false.
Proof. destruct m as [n fs os inj e z]. rewrite ne_eq. cbn [m_empty]. now destruct e. Qed.

(* what the class asks of a message written in place (x = true) or re-made (x = false) *)
Definition mguard (x : bool) (m : message) : bool := if x then ph_ok m else ne m.

Definition fguard (x : bool) (f : field) : bool :=
  match f_msg f with
  | None => true
  | Some m' => if x && kind_eqb (fi_kind (f_info f)) ObjectKind then ph_ok m' else ne m'
  end.

Lemma mguard_fguard x n fs os inj e z f :
  mguard x (Msg n fs os inj e z) = true -> In f fs -> fguard x f = true.
Proof.
  intros G If. destruct f as [i om]. unfold fguard. cbn [f_msg f_info]. destruct om as [m'|]; [|reflexivity].
  destruct x; cbn [mguard andb] in *.
  - rewrite ph_ok_eq, forallb_forall in G. specialize (G _ If). cbn [fph_ok] in G.
    destruct (fi_kind i); exact G.
  - rewrite ne_eq in G. apply andb_prop in G. destruct G as [_ G]. rewrite forallb_forall in G.
    exact (G _ If).
Qed.

Lemma mguard_ne x m : ne m = true -> mguard x m = true.
Proof. intros H. destruct x; [now apply ne_ph_ok|exact H]. Qed.

(* ------------------------------------------------------------------------------------- *)
(* 2. scalars and message values *)

Section Echo2.
  Variable hook_to : hook_to_t.
  Variable hook_from : hook_from_t.
  Variable SOK : goscalar -> bool.
  Hypothesis PRT : forall s p, SOK s = true -> payload_in_range s p ->
    exists g, cast_from s p = Ok g /\ cast_to (kind_of s) g = Ok p.

  (* prim_echo of MsgEcho.v for a scalar which may be a oneof branch; the value read from a
     null or unknown attribute is the zero value *)
  Lemma prim_echo2 i a :
    prim_cond SOK i -> plan_prim i a ->
    exists n u p v, a = VPrim (fi_tk i) n u p /\ from_prim_value i n u p = Ok v /\
      (known n u = false -> v = zero_of_prim i) /\
      forall x obj cur ds, cur_ok x a not_prim cur ->
        exists r, to_prim_value i (Ok v) obj (TyPrim (fi_tk i)) cur ds = Ok (r, ds) /\ echo_prim x a r = true.
  Proof.
    intros (Hk & P & PH & Hz & OK) (n & u & p & -> & R). exists n, u, p.
    assert (PN : forall obj, (match fi_oneof i with Some _ => Ok None | None => parent_is_nil i obj end) = Ok None).
    { intros obj. unfold parent_is_nil. rewrite P. now destruct (fi_oneof i). }
    destruct (cast_to_zero_scalar (fi_cast i)) as [pz Cz]. rewrite <- Hk in Cz.
    destruct (known n u) eqn:Kn.
    - destruct n, u; try discriminate Kn. destruct (PRT _ _ OK (R eq_refl)) as (g' & C & D). rewrite <- Hk in D.
      exists (if fi_nullable i then GPtr (Some g') else g'). split; [reflexivity|]. split.
      { unfold from_prim_value. cbn [known negb andb]. rewrite C. reflexivity. }
      split; [discriminate|].
      intros x obj cur ds Hc. unfold cur_ok in Hc. destruct x.
      + subst cur. rewrite to_prim_value_kinded. unfold prim_finish. rewrite PH, PN. cbn [bind].
        destruct (fi_nullable i); cbn [bind]; rewrite D; cbn [bind]; eexists; (split; [reflexivity|]);
          cbn [echo_prim]; rewrite CopyToProofs.tfkind_eqb_refl, prim_eqb_refl; reflexivity.
      + unfold to_prim_value. rewrite PH, PN. cbn [null_value].
        rewrite CopyToProofs.tfkind_eqb_refl.
        destruct cur as [[]|]; try contradiction;
          destruct (fi_zero i) eqn:Z; [rewrite (Hz eq_refl)| |rewrite (Hz eq_refl)| |rewrite (Hz eq_refl)|
                                       |rewrite (Hz eq_refl)| |rewrite (Hz eq_refl)| |rewrite (Hz eq_refl)|];
          try destruct (fi_nullable i); cbn [bind]; rewrite ?D; cbn [bind]; eexists; (split; [reflexivity|]);
          cbn [echo_prim]; rewrite CopyToProofs.tfkind_eqb_refl, prim_eqb_refl; cbn [negb andb orb];
          destruct (prim_is_zero p); reflexivity.
    - exists (zero_of_prim i). split; [reflexivity|]. split; [now apply from_prim_value_null|].
      split; [reflexivity|].
      intros x obj cur ds Hc. unfold cur_ok in Hc. unfold zero_of_prim. destruct x.
      + subst cur. rewrite to_prim_value_kinded. unfold prim_finish. rewrite PH, PN. cbn [bind].
        destruct (fi_nullable i); cbn [bind]; rewrite ?Cz; cbn [bind]; eexists; (split; [reflexivity|]);
          cbn [echo_prim]; rewrite CopyToProofs.tfkind_eqb_refl; destruct n, u; try discriminate Kn; reflexivity.
      + unfold to_prim_value. rewrite PH, PN. cbn [null_value].
        rewrite CopyToProofs.tfkind_eqb_refl.
        destruct cur as [[]|]; try contradiction;
          destruct (fi_zero i) eqn:Z; [rewrite (Hz eq_refl)| |rewrite (Hz eq_refl)| |rewrite (Hz eq_refl)|
                                       |rewrite (Hz eq_refl)| |rewrite (Hz eq_refl)| |rewrite (Hz eq_refl)|];
          try destruct (fi_nullable i); cbn [bind]; rewrite ?Cz; cbn [bind]; eexists; (split; [reflexivity|]);
          cbn [echo_prim]; rewrite CopyToProofs.tfkind_eqb_refl; cbn [negb andb orb];
          destruct n, u; try discriminate Kn; rewrite ?orb_true_r; reflexivity.
  Qed.

  (* the echo of one message: msg_echo of MsgEcho.v under the guard of the class; a message without
     fields is written from the enclosing struct, whatever it is *)
  Definition msg_echo2 (m : message) : Prop :=
    forall pa, plan_attrs m pa ->
      exists g, (forall ds, from_fields hook_from m (Some pa) (m_zero m, ds) = Ok (g, ds)) /\
        forall (x : bool) ds obj, (m_empty m = false -> obj = g) -> mguard x m = true ->
          exists ra, to_fields hook_to m obj (msg_ty m) (if x then pa else [], ds) = Ok (ra, ds)
                     /\ echo_attrs m x pa ra = true.

  Lemma msg_echo2_msg_echo m : msg_echo2 m -> ne m = true -> msg_echo hook_to hook_from m.
  Proof.
    intros ME N pa Pl. destruct (ME pa Pl) as (g & Fg & Tg). exists g. split; [exact Fg|].
    intros x ds. apply Tg; [reflexivity|now apply mguard_ne].
  Qed.

  (* a message value: attribute or element *)
  Lemma obj_echo2 i m' a :
    msg_echo2 m' -> plan_obj i (msg_ty m') (plan_attrs m') a ->
    exists n u at0 v, a = VObj (msg_ty m') n u at0 /\
      (if known n u
       then exists g, (forall ds, decode hook_from m' at0 ds = Ok (g, ds))
                      /\ v = (if fi_nullable i then GPtr (Some g) else g)
       else v = GPtr None /\ fi_nullable i = true) /\
      forall x obj cur ds, cur_ok x a not_obj cur -> mguard x m' = true ->
        exists r, obj_value hook_to i obj cur m' (Ok v) (msg_ty m') ds = Ok (r, ds)
                  /\ echo_obj x (echo_attrs m') a r = true.
  Proof.
    intros ME (n & u & at0 & -> & HT & HN). exists n, u, at0.
    destruct (known n u) eqn:Kn.
    - destruct n, u; try discriminate Kn. destruct (HT eq_refl) as (l & -> & Tl).
      destruct (ME _ Tl) as (g0 & Fg & Tg).
      set (g := if m_empty m' then m_zero m' else g0).
      exists (if fi_nullable i then GPtr (Some g) else g). split; [reflexivity|]. split.
      { exists g. split; [|reflexivity]. intros ds. unfold decode, g. destruct (m_empty m'); [reflexivity|apply Fg]. }
      intros x obj cur ds Hc G. unfold cur_ok in Hc. unfold obj_value.
      assert (TG : exists ra, to_fields hook_to m' (if m_empty m' then obj else g) (msg_ty m')
                                        (if x then l else [], ds) = Ok (ra, ds)
                              /\ echo_attrs m' x l ra = true).
      { apply Tg; [|exact G]. intros EM. unfold g. now rewrite EM. }
      destruct TG as (ra & E & Q). destruct x.
      + subst cur. cbv beta iota zeta.
        destruct (fi_nullable i); [|destruct (m_empty m')]; cbn [bind]; rewrite E; cbn [bind];
          (eexists; split; [reflexivity|]);
          cbn [echo_obj olist]; rewrite tfty_eqb_refl; cbn [negb andb]; exact Q.
      + destruct cur as [[]|]; try contradiction; cbv beta iota zeta;
          (destruct (fi_nullable i); [|destruct (m_empty m')]); cbn [bind]; rewrite E; cbn [bind];
          (eexists; split; [reflexivity|]);
          cbn [echo_obj olist]; rewrite tfty_eqb_refl; cbn [negb andb]; exact Q.
    - destruct (fi_nullable i) eqn:N; [|specialize (HN eq_refl); congruence].
      exists (GPtr None). split; [reflexivity|]. split; [split; reflexivity|].
      intros x obj cur ds Hc _. unfold cur_ok in Hc. unfold obj_value. rewrite N. destruct x.
      + subst cur. cbv beta iota zeta. cbn [bind]. eexists. split; [reflexivity|].
        cbn [echo_obj]. rewrite tfty_eqb_refl. destruct n, u; try discriminate Kn; reflexivity.
      + destruct cur as [[]|]; try contradiction; cbv beta iota zeta; cbn [bind]; (eexists; split; [reflexivity|]);
          cbn [echo_obj]; rewrite tfty_eqb_refl; destruct n, u; try discriminate Kn; reflexivity.
  Qed.

  (* --------------------------------------------------------------------------------- *)
  (* 3. one field; a oneof branch writes the holder when its attribute is known and not null and
     is read through the oneof stub (read_go of MsgRoundTrip.v) *)

  Definition wr (i : finfo) (a : tfval) (v : goval) (tgt : list (string * goval)) : list (string * goval) :=
    match fi_oneof i with
    | None => update (fi_name i) v tgt
    | Some h => if is_active a then update h (GOneof (Some (fi_name i, v))) tgt else tgt
    end.

  Definition field_from2 (f : field) (a : tfval) (v : goval) : Prop :=
    forall pa tgt ds, lookup (snake f) pa = Some a -> In (key_of (f_info f)) (keys tgt) ->
      from_field hook_from f (Some pa) (GStruct tgt, ds) = Ok (GStruct (wr (f_info f) a v tgt), ds).

  Definition field_to2 (f : field) (a : tfval) (v : goval) : Prop :=
    forall (x : bool) gs atys attrs ds t, read_go (f_info f) gs = Some v -> field_ty f = Some t ->
      lookup (snake f) atys = Some t -> lookup (snake f) attrs = (if x then Some a else None) ->
      fguard x f = true ->
      exists r, to_field hook_to f (GStruct gs) atys (attrs, ds) = Ok (update (snake f) r attrs, ds)
                /\ echo_val x (f_info f) (Eo (f_msg f)) a r = true.

  Definition field_echo2 (f : field) : Prop :=
    forall a, plan_val (f_info f) (To (f_msg f)) a ->
      exists v, field_from2 f a v /\ field_to2 f a v
                /\ (fi_oneof (f_info f) <> None -> is_active a = false -> v = zero_of_prim (f_info f)).

  Lemma of_field_echo f :
    fi_oneof (f_info f) = None -> field_echo hook_to hook_from f -> field_echo2 f.
  Proof.
    intros O FE a Pl. destruct (FE a Pl) as (v & Ff & Tf). exists v. split; [|split].
    - intros pa tgt ds L I. unfold wr, key_of in *. rewrite O in *. now apply Ff.
    - intros x gs atys attrs ds t RG FT La Lc _. unfold read_go in RG. rewrite O in RG.
      exact (Tf x gs atys attrs ds t RG FT La Lc).
    - intros N. congruence.
  Qed.

  Lemma read_go_reads i gs v :
    fi_via i = [] -> fi_parent i = None -> read_go i gs = Some v ->
    read_field i (zero_of_prim i) (GStruct gs) = Ok v
    /\ (forall z, fi_oneof i = None \/ z = zero_of_prim i -> read_source i z (GStruct gs) = Ok v)
    /\ (match fi_oneof i with
        | Some h => do _u <- read_holder i h (GStruct gs); Ok tt
        | None => Ok tt
        end) = Ok tt.
  Proof.
    intros V P. unfold read_go, read_source, read_field, read_holder, parent_is_nil.
    rewrite P, V. destruct (fi_oneof i) as [h|]; cbn [bind gget_via gfield].
    - destruct (lookup h gs) as [[| | | | | |[[b p]|]]|]; try discriminate; cbn [bind]; intros [= <-].
      + destruct (String.eqb b (fi_name i)); (split; [reflexivity|]); (split; [|reflexivity]);
          (intros z [D| ->]; [discriminate|]); reflexivity.
      + split; [reflexivity|]. split; [|reflexivity].
        intros z [D| ->]; [discriminate|]. reflexivity.
    - intros ->. split; [reflexivity|]. split; reflexivity.
  Qed.

  Lemma zero_of_prim_nullable2 i : fi_nullable i = true -> zero_of_prim i = GPtr None.
  Proof. unfold zero_of_prim. now intros ->. Qed.

  (* a scalar branch *)
  Lemma e2_branch_prim os i om h :
    fcond SOK os i om -> fi_oneof i = Some h -> fi_kind i = PrimitiveKind -> field_echo2 (Field i om).
  Proof.
    intros (V & P & PH & NC & PC & _ & _) O K a Pl. cbn [f_info f_msg] in *. unfold plan_val in Pl.
    rewrite K in Pl. cbv beta iota in Pl. specialize (PC ltac:(now rewrite K)).
    destruct (prim_echo2 i a PC Pl) as (n & u & p & v & -> & Fv & Zv & Tv). exists v. split; [|split].
    - intros pa tgt ds L I. unfold snake in L. cbn [f_info] in *. unfold key_of in I. rewrite O in I.
      rewrite (from_field_prim_eq hook_from i om pa (GStruct tgt) ds V P n u p K L), Fv, O. cbn [bind].
      unfold wr. rewrite O. cbn [is_active]. destruct (known n u); [|reflexivity].
      rewrite (gset_in _ _ _ I). reflexivity.
    - intros x gs atys attrs ds t RG FT La Lc _. unfold snake in *. cbn [f_info f_msg] in *.
      cbn [field_ty] in FT. rewrite K in FT. injection FT as <-.
      destruct (read_go_reads i gs v V P RG) as (RF & _ & RH).
      rewrite to_field_eq. cbv zeta. rewrite La, K, RH, RF. cbn [bind].
      destruct (Tv x (GStruct gs) (lookup (fi_snake i) attrs) ds (cur_ok_of _ _ _ _ _ Lc I)) as (r & E & Q).
      rewrite E. cbn [bind]. exists r. split; [reflexivity|]. unfold echo_val. rewrite K. exact Q.
    - intros _. cbn [is_active f_info]. exact Zv.
  Qed.

  Lemma fguard_obj x i m' :
    fi_kind i = ObjectKind -> fguard x (Field i (Some m')) = true -> mguard x m' = true.
  Proof. unfold fguard, mguard. cbn [f_msg f_info]. intros ->. cbn [kind_eqb]. now destruct x. Qed.

  (* a message branch *)
  Lemma e2_branch_obj os i m' h :
    fcond SOK os i (Some m') -> fi_oneof i = Some h -> fi_kind i = ObjectKind -> msg_echo2 m' ->
    field_echo2 (Field i (Some m')).
  Proof.
    intros (V & P & PH & NC & _ & _ & OO) O K ME a Pl. cbn [f_info f_msg] in *. unfold plan_val, To in Pl.
    rewrite K in Pl. cbv beta iota in Pl. rewrite O in OO.
    assert (N : fi_nullable i = true) by (destruct OO as [_ [(K' & _)|(_ & N)]]; [congruence|exact N]).
    destruct (obj_echo2 i m' a ME Pl) as (n & u & at0 & v & -> & Fv & Tv). exists v. split; [|split].
    - intros pa tgt ds L I. unfold snake in L. cbn [f_info] in *. unfold key_of in I. rewrite O in I.
      rewrite (from_field_obj_eq hook_from i (Some m') pa (GStruct tgt) ds V P m' _ _ _ _ K eq_refl L), O.
      unfold wr. rewrite O. cbn [is_active]. destruct (known n u); [|reflexivity].
      destruct Fv as (g & Dg & ->). rewrite Dg, N. cbn [bind]. rewrite (gset_in _ _ _ I). reflexivity.
    - intros x gs atys attrs ds t RG FT La Lc G. unfold snake in *. cbn [f_info f_msg] in *.
      cbn [field_ty] in FT. rewrite K in FT. injection FT as <-.
      destruct (read_go_reads i gs v V P RG) as (_ & RS & _).
      rewrite to_field_eq. cbv zeta. rewrite La, K, N.
      rewrite (RS (GPtr None)) by (right; symmetry; now apply zero_of_prim_nullable2). cbn [bind].
      destruct (Tv x (GStruct gs) (lookup (fi_snake i) attrs) ds (cur_ok_of _ _ _ _ _ Lc I)
                   (fguard_obj x i m' K G)) as (r & E & Q).
      rewrite E. cbn [bind]. exists r. split; [reflexivity|]. unfold echo_val, Eo. rewrite K. exact Q.
    - intros _ A. cbn [is_active f_info] in *. rewrite A in Fv. destruct Fv as [-> _].
      symmetry. now apply zero_of_prim_nullable2.
  Qed.

  (* a message attribute which is not a branch *)
  Lemma e2_field_obj os i m' :
    fcond SOK os i (Some m') -> fi_oneof i = None -> fi_kind i = ObjectKind -> msg_echo2 m' ->
    field_echo2 (Field i (Some m')).
  Proof.
    intros (V & P & PH & NC & _ & _ & _) O K ME a Pl. cbn [f_info f_msg] in *. unfold plan_val, To in Pl.
    rewrite K in Pl. cbv beta iota in Pl.
    destruct (obj_echo2 i m' a ME Pl) as (n & u & at0 & v & -> & Fv & Tv). exists v. split; [|split].
    - intros pa tgt ds L I. unfold snake in L. cbn [f_info] in *. unfold key_of in I. rewrite O in I.
      rewrite (from_field_obj_eq hook_from i (Some m') pa (GStruct tgt) ds V P m' _ _ _ _ K eq_refl L), O.
      unfold wr. rewrite O.
      rewrite (gset_in _ _ _ I). cbn [bind]. destruct (known n u).
      + destruct Fv as (g & Dg & ->). rewrite Dg. cbn [bind].
        rewrite gset_in by (rewrite keys_update_same; exact I). cbn [bind]. rewrite update_update. reflexivity.
      + destruct Fv as [-> N]. rewrite N. reflexivity.
    - intros x gs atys attrs ds t RG FT La Lc G. unfold snake in *. cbn [f_info f_msg] in *.
      cbn [field_ty] in FT. rewrite K in FT. injection FT as <-.
      destruct (read_go_reads i gs v V P RG) as (_ & RS & _).
      rewrite to_field_eq. cbv zeta. rewrite La, K.
      rewrite (RS _ (or_introl O)). cbn [bind].
      destruct (Tv x (GStruct gs) (lookup (fi_snake i) attrs) ds (cur_ok_of _ _ _ _ _ Lc I)
                   (fguard_obj x i m' K G)) as (r & E & Q).
      rewrite E. cbn [bind]. exists r. split; [reflexivity|]. unfold echo_val, Eo. rewrite K. exact Q.
    - intros N. congruence.
  Qed.

  Lemma e2_field_step os i om :
    fcond SOK os i om -> fph_ok (Field i om) = true -> (forall m', om = Some m' -> msg_echo2 m') ->
    field_echo2 (Field i om).
  Proof.
    intros FC PHK IH. pose proof FC as (_ & _ & _ & NC & _ & OM & OO).
    destruct (fi_oneof i) as [h|] eqn:O.
    - destruct OO as [_ [(K & _)|(K & _)]].
      + now apply (e2_branch_prim os _ _ h).
      + destruct (OM ltac:(now rewrite K)) as (m' & ->). apply (e2_branch_obj os _ _ h); auto.
    - destruct (fi_kind i) eqn:K.
      3:{ destruct (OM eq_refl) as (m' & ->). apply (e2_field_obj os); auto. }
      all: apply of_field_echo; [exact O|]; apply (e_field_step hook_to hook_from SOK PRT os); [exact FC|exact O|].
      all: intros m' ->; cbn [fph_ok] in PHK; rewrite K in PHK;
        (split; [apply msg_echo2_msg_echo; auto|now apply ne_not_empty]).
  Qed.

  (* --------------------------------------------------------------------------------- *)
  (* 4. the field loop of CopyFrom with holders: after the loop every field reads (through the
     oneof stub) the value its attribute decodes to; the holder of a oneof is nil when no branch is
     known and not null, and set to THE known branch otherwise *)

  Lemma read_go_other i k v tgt : key_of i <> k -> read_go i (update k v tgt) = read_go i tgt.
  Proof.
    unfold read_go, key_of. destruct (fi_oneof i) as [h|]; intros N; now rewrite lookup_update_neq.
  Qed.

  Section FromLoop2.
    Variables (fs : list field) (os : list string) (pa : list (string * tfval)).
    Hypothesis NDn : NoDup (map gname fs).
    Hypothesis KO : forall f, In f fs ->
      match fi_oneof (f_info f) with None => ~ In (gname f) os | Some h => In h os end.
    Hypothesis UQ : forall f1 f2 h a1 a2, In f1 fs -> In f2 fs ->
      fi_oneof (f_info f1) = Some h -> fi_oneof (f_info f2) = Some h ->
      lookup (snake f1) pa = Some a1 -> lookup (snake f2) pa = Some a2 ->
      is_active a1 = true -> is_active a2 = true -> f1 = f2.

    Definition fspec (f : field) (a : tfval) (v : goval) : Prop :=
      lookup (snake f) pa = Some a /\ field_to2 f a v
      /\ (fi_oneof (f_info f) <> None -> is_active a = false -> v = zero_of_prim (f_info f)).

    Hypothesis FE : forall f, In f fs ->
      fi_placeholder (f_info f) = false /\ exists a v, fspec f a v /\ field_from2 f a v.

    Definition hold2 (done : list field) (tgt : list (string * goval)) (h : string) : Prop :=
      lookup h tgt = Some (GOneof None)
      \/ exists f p, In f done /\ lookup h tgt = Some (GOneof (Some (gname f, p))).

    Definition inv2 (done : list field) (tgt : list (string * goval)) : Prop :=
      (forall f, In f done -> exists a v, fspec f a v /\ read_go (f_info f) tgt = Some v)
      /\ (forall h, In h os -> hold2 done tgt h).

    Lemma hold2_mono done f tgt h : hold2 done tgt h -> hold2 (done ++ [f]) tgt h.
    Proof.
      intros [Z|(f0 & p & I0 & L0)]; [now left|]. right. exists f0, p. split; [|exact L0].
      apply in_or_app. now left.
    Qed.

    Lemma names_inj2 pre f post f' : fs = pre ++ f :: post -> In f' pre -> gname f' <> gname f.
    Proof.
      intros E I Eq. rewrite E, map_app in NDn. cbn [map] in NDn. apply NoDup_remove_2 in NDn.
      apply NDn. apply in_or_app. left. rewrite <- Eq. now apply (in_map gname).
    Qed.

    Lemma loop_step2 pre f post tgt K :
      fs = pre ++ f :: post -> keys tgt = K -> (forall f, In f fs -> In (key_of (f_info f)) K) ->
      inv2 pre tgt ->
      exists tgt', (forall ds, from_field hook_from f (Some pa) (GStruct tgt, ds) = Ok (GStruct tgt', ds))
                   /\ keys tgt' = K /\ inv2 (pre ++ [f]) tgt'.
    Proof.
      intros E EK HK [IF IH].
      assert (If : In f fs) by (rewrite E; apply in_or_app; right; now left).
      assert (Ipre : forall f', In f' pre -> In f' fs) by (intros f' I; rewrite E; apply in_or_app; now left).
      destruct (FE f If) as (PH & a & v & FS & Ff). pose proof FS as (L & Tf & Zf).
      assert (Ik : In (key_of (f_info f)) (keys tgt)) by (rewrite EK; exact (HK _ If)).
      pose proof (KO f If) as KOf.
      exists (wr (f_info f) a v tgt). split; [intros ds; exact (Ff pa tgt ds L Ik)|].
      unfold wr, key_of in *. destruct (fi_oneof (f_info f)) as [h|] eqn:O.
      - (* a branch *)
        destruct (is_active a) eqn:A.
        + (* known and not null: the holder is set *)
          split; [now rewrite keys_update_same|]. split.
          * intros f0 I0. apply in_app_or in I0. destruct I0 as [I0|[<-|[]]].
            -- destruct (IF f0 I0) as (a0 & v0 & FS0 & RG0). exists a0, v0. split; [exact FS0|].
               pose proof (names_inj2 _ _ _ _ E I0) as NE. pose proof (KO f0 (Ipre _ I0)) as KO0.
               destruct FS0 as (L0 & _ & Z0).
               destruct (fi_oneof (f_info f0)) as [h0|] eqn:O0.
               ++ destruct (string_dec h0 h) as [->|NH].
                  ** destruct (is_active a0) eqn:A0.
                     { exfalso. apply NE. f_equal.
                       exact (UQ f0 f h a0 a (Ipre _ I0) If O0 O L0 L A0 A). }
                     rewrite (Z0 ltac:(discriminate) eq_refl) in *.
                     unfold read_go. rewrite O0, lookup_update_eq.
                     apply String.eqb_neq in NE. unfold gname in NE. rewrite String.eqb_sym, NE. reflexivity.
                  ** rewrite read_go_other; [exact RG0|]. unfold key_of. now rewrite O0.
               ++ rewrite read_go_other; [exact RG0|]. unfold key_of. rewrite O0. intros Eq.
                  apply KO0. unfold gname. now rewrite Eq.
            -- exists a, v. split; [exact FS|]. unfold read_go. rewrite O, lookup_update_eq, String.eqb_refl.
               reflexivity.
          * intros h' Hh'. destruct (string_dec h' h) as [->|NE].
            -- right. exists f, v. split; [apply in_or_app; right; now left|apply lookup_update_eq].
            -- destruct (IH h' Hh') as [Z|(f0 & p & I0 & L0)].
               ++ left. now rewrite lookup_update_neq.
               ++ right. exists f0, p. split; [apply in_or_app; now left|now rewrite lookup_update_neq].
        + (* null or unknown: the target is left alone *)
          split; [exact EK|]. split.
          * intros f0 I0. apply in_app_or in I0. destruct I0 as [I0|[<-|[]]]; [now apply IF|].
            exists a, v. split; [exact FS|]. rewrite (Zf ltac:(discriminate) eq_refl).
            unfold read_go. rewrite O.
            destruct (IH h KOf) as [->|(f0 & p & I0 & ->)]; [reflexivity|].
            pose proof (names_inj2 _ _ _ _ E I0) as NE. apply String.eqb_neq in NE. unfold gname in *.
            now rewrite NE.
          * intros h' Hh'. apply hold2_mono. now apply IH.
      - (* a plain field *)
        split; [now rewrite keys_update_same|]. split.
        + intros f0 I0. apply in_app_or in I0. destruct I0 as [I0|[<-|[]]].
          * destruct (IF f0 I0) as (a0 & v0 & FS0 & RG0). exists a0, v0. split; [exact FS0|].
            pose proof (names_inj2 _ _ _ _ E I0) as NE. pose proof (KO f0 (Ipre _ I0)) as KO0.
            rewrite read_go_other; [exact RG0|]. unfold key_of.
            destruct (fi_oneof (f_info f0)) as [h0|]; [|exact NE]. intros ->. now apply KOf.
          * exists a, v. split; [exact FS|]. unfold read_go. rewrite O. apply lookup_update_eq.
        + intros h' Hh'. assert (NE : h' <> fi_name (f_info f)) by (intros ->; now apply KOf).
          apply hold2_mono. destruct (IH h' Hh') as [Z|(f0 & p & I0 & L0)].
          * left. now rewrite lookup_update_neq.
          * right. exists f0, p. split; [exact I0|now rewrite lookup_update_neq].
    Qed.

    Lemma from_loop2 K : (forall f, In f fs -> In (key_of (f_info f)) K) ->
      forall post pre tgt, fs = pre ++ post -> keys tgt = K -> inv2 pre tgt ->
      exists tgt', (forall ds, from_field_list hook_from post (Some pa) (GStruct tgt, ds) = Ok (GStruct tgt', ds))
                   /\ keys tgt' = K /\ inv2 fs tgt'.
    Proof.
      intros HK. induction post as [|f r IH]; intros pre tgt E EK Inv.
      - rewrite app_nil_r in E. subst pre. exists tgt. split; [reflexivity|]. auto.
      - assert (If : In f fs) by (rewrite E; apply in_or_app; right; now left).
        destruct (FE f If) as (PH & _).
        destruct (loop_step2 pre f r tgt K E EK HK Inv) as (tgt1 & Ev & EK1 & Inv1).
        destruct (IH (pre ++ [f]) tgt1) as (tgt2 & Ev2 & EK2 & Inv2); [now rewrite <- app_assoc|exact EK1|exact Inv1|].
        exists tgt2. split; [|auto]. intros ds. cbn [from_field_list]. rewrite PH, Ev. cbn [bind]. apply Ev2.
    Qed.
  End FromLoop2.

  (* --------------------------------------------------------------------------------- *)
  (* 5. the placeholder attribute of a message without fields, written in place: the flags and the
     payload of the plan's attribute are kept, the value is known *)

  Lemma e2_placeholder i om obj atys attrs ds n u p :
    finfo_ok i om = true -> fi_placeholder i = true ->
    lookup (fi_snake i) atys = Some (TyPrim (fi_tk i)) ->
    lookup (fi_snake i) attrs = Some (VPrim (fi_tk i) n u p) ->
    to_field hook_to (Field i om) obj atys (attrs, ds)
    = Ok (update (fi_snake i) (VPrim (fi_tk i) n false p) attrs, ds)
    /\ echo_val true i (Eo om) (VPrim (fi_tk i) n u p) (VPrim (fi_tk i) n false p) = true.
  Proof.
    intros F PH La Lc. destruct (finfo_ok_inv _ _ F) as (_ & _ & _ & _ & _ & _ & HP).
    destruct (HP PH) as [K O]. split.
    - rewrite to_field_eq. cbv zeta. rewrite La, K, O, Lc. cbn [bind].
      rewrite to_prim_value_kinded. unfold prim_finish. rewrite PH. reflexivity.
    - unfold echo_val. rewrite K. cbn [echo_prim]. rewrite CopyToProofs.tfkind_eqb_refl, prim_eqb_refl.
      destruct u, n; reflexivity.
  Qed.

  (* --------------------------------------------------------------------------------- *)
  (* 6. the induction over the IR *)

  Definition field_P2 (f : field) : Prop :=
    forall os, ftf_ok f = true -> frt_more os f = true -> fcasts_in SOK f = true -> fph_ok f = true ->
               fi_placeholder (f_info f) = false -> field_echo2 f.

  Definition msg_P2 (m : message) : Prop :=
    tf_ok m = true -> rt_more m = true -> casts_in SOK m = true -> ph_ok m = true -> msg_echo2 m.

  Lemma e2_msg_step n fs os inj e z : Forall field_P2 fs -> msg_P2 (Msg n fs os inj e z).
  Proof.
    intros IH T R C S.
    rewrite ph_ok_eq in S.
    rewrite tf_ok_eq in T. rewrite rt_more_eq in R. rewrite casts_in_eq in C.
    apply andb_prop in T. destruct T as [T T3]. apply andb_prop in T. destruct T as [T1 T2].
    apply andb_prop in R. destruct R as [R R4]. apply andb_prop in R. destruct R as [R R3].
    apply andb_prop in R. destruct R as [R1 R2].
    apply nodup_b_NoDup in T1. apply nodup_b_NoDup in R1.
    rewrite forallb_forall in T3, R4, C, S. rewrite Forall_forall in IH.
    unfold zero_keys_ok in R3. destruct z as [| | | | |zs|]; try discriminate R3.
    apply andb_prop in R3. destruct R3 as [Z1 Z2]. rewrite forallb_forall in Z1, Z2.
    assert (ZK : forall k, In k (keys zs) <-> In k (go_keys fs os)).
    { intros k. split; intros H; apply mem_str_In; auto. }
    assert (HOK : forall h, In h os -> In h (keys zs)).
    { intros h Hh. apply ZK. unfold go_keys. apply in_or_app. now right. }
    assert (HF : forall f, In f fs -> fi_parent (f_info f) = None
                                      /\ forall h, fi_oneof (f_info f) = Some h -> In h os).
    { intros [i om] If. pose proof (T3 _ If) as Tf. pose proof (R4 _ If) as Rf.
      cbn [ftf_ok frt_more f_info] in *. apply andb_prop in Tf. destruct Tf as [Tf _].
      apply andb_prop in Rf. destruct Rf as [Rf _].
      destruct (finfo_ok_inv _ _ Tf) as (_ & P & _). split; [exact P|].
      intros h O. unfold rt_info_ok in Rf. rewrite O in Rf. apply andb_prop in Rf. destruct Rf as [_ Rf].
      apply andb_prop in Rf. destruct Rf as [Rf _]. now apply mem_str_In. }
    assert (A : forall f, In f fs -> exists t, field_ty f = Some t /\ lookup (snake f) (fields_ty fs) = Some t).
    { intros [i om] If. pose proof (T3 _ If) as Ff. cbn [ftf_ok] in Ff.
      apply andb_prop in Ff. destruct Ff as [Ff _].
      destruct (field_ty_some _ _ Ff) as (t & FT). exists t. split; [exact FT|]. now apply lookup_fields_ty. }
    intros pa Pl. pose proof Pl as [_ UQ]. apply plan_attrs_fields in Pl. rewrite Forall_forall in Pl.
    cbn [m_zero m_empty].
    destruct (resets_ok fs os zs HOK HF) as (zs' & Er & KR & NR).
    destruct e.
    - (* a message without fields: the placeholder, in place *)
      cbn [negb orb] in T2. rewrite forallb_forall in T2.
      exists (GStruct zs'). split.
      + intros ds. rewrite from_fields_unfold. cbn [fst snd].
        destruct (fold_res reset_oneof os (GStruct zs)) as [o1|]; cbn [bind] in Er |- *; [|discriminate].
        destruct (fold_res reset_promoted fs o1) as [o2|]; cbn [bind] in Er |- *; [|discriminate].
        rewrite Er. cbn [bind]. apply from_field_list_placeholders. now apply forallb_forall.
      + intros x ds obj _ G. destruct x; [|rewrite ne_eq in G; discriminate G].
        rewrite to_fields_list, msg_ty_eq.
        destruct (e_to_loop hook_to true pa obj (fields_ty fs) fs T1) with (attrs := pa) (ds := ds)
          as (ra & E & _ & Q).
        * intros f If. pose proof (Pl f If) as Pf. pose proof (T2 f If) as PH. pose proof (T3 _ If) as Ff.
          destruct (A f If) as (t & FT & Lt).
          destruct f as [i om]. cbn [plan_field] in Pf. cbn [f_info ftf_ok] in *. unfold snake in *. cbn [f_info f_msg] in *.
          rewrite PH in Pf. destruct Pf as (a & L & n' & u' & p' & ->). exists (VPrim (fi_tk i) n' u' p').
          split; [exact L|]. intros attrs ds' Lc.
          apply andb_prop in Ff. destruct Ff as [Ff _].
          destruct (finfo_ok_inv _ _ Ff) as (_ & _ & _ & _ & _ & _ & HP). destruct (HP PH) as [K O].
          cbn [field_ty] in FT. rewrite K in FT. injection FT as <-.
          destruct (e2_placeholder i om obj (fields_ty fs) attrs ds' n' u' p' Ff PH Lt Lc) as [E Q].
          eexists. split; [exact E|exact Q].
        * intros f If. reflexivity.
        * exists ra. split; [exact E|]. rewrite echo_attrs_eq. apply forallb_forall. exact Q.
    - (* fields *)
      cbn [orb] in R2. rewrite forallb_forall in R2.
      assert (PHs : forall f, In f fs -> fi_placeholder (f_info f) = false).
      { intros f If. specialize (R2 _ If). now destruct (fi_placeholder (f_info f)). }
      assert (FCs : forall f, In f fs -> fcond SOK os (f_info f) (f_msg f)).
      { intros [i om] If. pose proof (T3 _ If) as Tf. pose proof (R4 _ If) as Rf. pose proof (C _ If) as Cf.
        pose proof (PHs _ If) as PH.
        cbn [ftf_ok frt_more fcasts_in f_info f_msg] in *. apply andb_prop in Tf. destruct Tf as [Tf _].
        apply andb_prop in Rf. destruct Rf as [Rf _]. apply andb_prop in Cf. destruct Cf as [Cf _].
        apply fcond_of; auto. }
      assert (G : forall f, In f fs -> field_echo2 f).
      { intros f If. apply (IH f If os); auto. }
      assert (KO : forall f, In f fs ->
                   match fi_oneof (f_info f) with None => ~ In (gname f) os | Some h => In h os end).
      { intros f If. destruct (FCs f If) as (_ & _ & _ & _ & _ & _ & OO). unfold gname.
        destruct (fi_oneof (f_info f)); [now destruct OO|exact OO]. }
      assert (FE : forall f, In f fs ->
                   fi_placeholder (f_info f) = false /\ exists a v, fspec pa f a v /\ field_from2 f a v).
      { intros f If. split; [now apply PHs|]. pose proof (Pl f If) as Pf. pose proof (PHs f If) as PH.
        pose proof (G f If) as Gf. destruct f as [i om]. cbn [plan_field] in Pf. cbn [f_info] in PH.
        rewrite PH in Pf. destruct Pf as (a & L & Pv). destruct (Gf a Pv) as (v & Ff & Tf & Zf).
        exists a, v. split; [|exact Ff]. split; [exact L|]. split; [exact Tf|exact Zf]. }
      assert (HK : forall f, In f fs -> In (key_of (f_info f)) (keys zs)).
      { intros f If. apply ZK. unfold go_keys, key_of. apply in_or_app.
        destruct (HF f If) as [_ Of].
        destruct (fi_oneof (f_info f)) as [h|] eqn:O; [right; now apply Of|left; apply own_names_in; auto]. }
      destruct (from_loop2 fs os pa R1 KO UQ FE (keys zs) HK fs [] zs' eq_refl KR) as (tgt & Ef & Kt & IF & _).
      { split; [intros f []|]. intros h Hh. left. now apply NR. }
      exists (GStruct tgt). split.
      + intros ds. rewrite from_fields_unfold. cbn [fst snd].
        destruct (fold_res reset_oneof os (GStruct zs)) as [o1|]; cbn [bind] in Er |- *; [|discriminate].
        destruct (fold_res reset_promoted fs o1) as [o2|]; cbn [bind] in Er |- *; [|discriminate].
        rewrite Er. cbn [bind]. apply Ef.
      + intros x ds obj EO GU. rewrite (EO eq_refl). rewrite to_fields_list, msg_ty_eq.
        destruct (e_to_loop hook_to x pa (GStruct tgt) (fields_ty fs) fs T1) with (attrs := if x then pa else []) (ds := ds)
          as (ra & E & _ & Q).
        * intros f If. destruct (IF f If) as (a & v & (L & Tf & _) & RG). exists a. split; [exact L|].
          intros attrs ds' Lc. destruct (A f If) as (t & FT & Lt).
          exact (Tf x tgt (fields_ty fs) attrs ds' t RG FT Lt Lc (mguard_fguard x n fs os inj false (GStruct zs) f GU If)).
        * intros f If. destruct x; reflexivity.
        * exists ra. split; [exact E|]. rewrite echo_attrs_eq. apply forallb_forall. exact Q.
  Qed.

  Lemma e2_mutual : forall m, msg_P2 m.
  Proof.
    apply (message_ind' field_P2 msg_P2).
    - intros i os F R C S PH. cbn [ftf_ok frt_more fcasts_in f_info] in *.
      rewrite andb_true_r in F, R, C.
      apply (e2_field_step os); [now apply fcond_of|exact S|intros m' [=]].
    - intros i m IH os F R C S PH. cbn [ftf_ok frt_more fcasts_in f_info] in *.
      apply andb_prop in F. destruct F as [F1 F2]. apply andb_prop in R. destruct R as [R1 R2].
      apply andb_prop in C. destruct C as [C1 C2].
      apply (e2_field_step os); [now apply fcond_of|exact S|].
      intros m' [= <-]. apply IH; auto. cbn [fph_ok] in S. destruct (fi_kind i); auto using ne_ph_ok.
    - intros n fs os inj e z IH. now apply e2_msg_step.
  Qed.

  Theorem copy_echo2_in m p :
    echo_class2 m = true -> casts_in SOK m = true -> plan_ok m p ->
    exists g r,
      copy_from hook_from m p (m_zero m) = Ok (g, []) /\
      copy_to hook_to m g p = Ok (r, []) /\
      echo_rel m p r = true.
  Proof.
    intros EC C (pa & -> & Pl). unfold echo_class2, rt_ok in EC.
    apply andb_prop in EC. destruct EC as [R S]. apply andb_prop in R. destruct R as [R R3].
    apply andb_prop in R. destruct R as [R1 _].
    destruct (e2_mutual m R1 R3 C S pa Pl) as (g0 & Fg & Tg).
    destruct (Tg true [] g0 (fun _ => eq_refl) S) as (ra & E & Q). cbv beta iota in E.
    exists g0, (VObj (msg_ty m) false false (Some ra)). split; [|split].
    - cbn [copy_from]. apply Fg.
    - cbn [copy_to]. rewrite E. reflexivity.
    - cbn [echo_rel olist]. rewrite tfty_eqb_refl. cbn [negb andb]. exact Q.
  Qed.
End Echo2.

(* ------------------------------------------------------------------------------------- *)
(* 7. C08 for the model, with oneofs and messages without fields *)

Theorem copy_echo_oneof_partial hook_to hook_from m p :
  echo_class2 m = true -> plan_ok m p ->
  exists g r,
    copy_from hook_from m p (m_zero m) = Ok (g, []) /\
    copy_to hook_to m g p = Ok (r, []) /\
    echo_rel m p r = true.
Proof.
  intros EC Pl. apply (copy_echo2_in hook_to hook_from (fun _ => true)); auto.
  - intros s q _. apply payload_round_trip.
  - apply casts_in_all.
Qed.

(* no float32 field or element: closed under the global context *)
Theorem copy_echo_oneof_nofloat32 hook_to hook_from m p :
  echo_class2 m = true -> casts_in not_f32 m = true -> plan_ok m p ->
  exists g r,
    copy_from hook_from m p (m_zero m) = Ok (g, []) /\
    copy_to hook_to m g p = Ok (r, []) /\
    echo_rel m p r = true.
Proof.
  intros EC C Pl. apply (copy_echo2_in hook_to hook_from not_f32); auto.
  intros s q N. apply payload_round_trip_nofloat. intros ->. discriminate N.
Qed.


(* every attribute of the result is known (the flag of the attribute itself; see
   OneofExample.echo_not_clean for the depth) *)
Corollary copy_echo_oneof_attrs_known hook_to hook_from m p :
  echo_class2 m = true -> plan_ok m p ->
  exists g ra,
    copy_from hook_from m p (m_zero m) = Ok (g, []) /\
    copy_to hook_to m g p = Ok (VObj (msg_ty m) false false (Some ra), []) /\
    forall i om, In (Field i om) (m_fields m) ->
      exists v, lookup (fi_snake i) ra = Some v /\ is_unknown v = false.
Proof.
  intros EC Pl. destruct (copy_echo_oneof_partial hook_to hook_from m p EC Pl) as (g & r & Ef & Et & Q).
  destruct Pl as (pa & -> & _). cbn [echo_rel] in Q.
  destruct r as [| | |ats' n' u' [ra|]| |]; try discriminate Q.
  apply andb_prop in Q. destruct Q as [Q Q4]. apply andb_prop in Q. destruct Q as [Q Q3].
  apply andb_prop in Q. destruct Q as [Q1 Q2]. apply tfty_eqb_eq in Q1. injection Q1 as <-.
  destruct n'; [discriminate Q2|]. destruct u'; [discriminate Q3|].
  exists g, ra. split; [exact Ef|]. split; [exact Et|].
  intros i om If. destruct m as [n fs os inj e z]. cbn [m_fields] in If.
  rewrite echo_attrs_eq, forallb_forall in Q4. exact (echo_field_known i om true _ _ (Q4 _ If)).
Qed.

(* ------------------------------------------------------------------------------------- *)
(* 8. the hypotheses are satisfiable: RTExample.outer, with its two oneofs and the message without
   fields *)
Module OneofExample.
  Import RTExample.
  Local Open Scope string_scope.
  Local Open Scope Z_scope.

  Lemma outer_class : echo_class2 outer = true.
  Proof. vm_compute. reflexivity. Qed.

  Definition ity := msg_ty inner.
  Definition ety := msg_ty empty.
  Definition kp (k : tfkind) (p : prim) := VPrim k false false p.
  Definition np (k : tfkind) := VPrim k true false (zero_prim_of_kind k).
  Definition up (k : tfkind) := VPrim k false true (zero_prim_of_kind k).
  Definition inn_p (a u : tfval) := VObj ity false false (Some [("a", a); ("u", u)]).

  (* oneof Kind: branch x unknown, branch y known; oneof Other: the only branch unknown; the
     placeholder of the message without fields unknown; unknown scalars at the top level, in a
     nested message and in an element; an unknown pointer message among the elements of a list; a
     null map; an unknown list *)
  Definition plan_attrs_ex : list (string * tfval) :=
    [("x", up KI64);
     ("y", inn_p (kp KStr (PStr "hi")) (up KI64));
     ("items", VList (TyObj ity) false false
                     (Some [inn_p (kp KStr (PStr "")) (kp KI64 (PInt (-1))); VObj ity false true None]));
     ("labels", VMap (TyPrim KStr) true false None);
     ("tags", VList (TyPrim KStr) false true None);
     ("sub", inn_p (up KStr) (kp KI64 (PInt 0)));
     ("p", up KBool);
     ("n", up KF64);
     ("e", VObj ety false false (Some [("active", up KBool)]));
     ("t", kp KTime (PTime 5 6 7));
     ("m", VMap (TyObj ity) false false (Some [("k", inn_p (kp KStr (PStr "v")) (np KI64))]));
     ("z", up KI64)].
  Definition plan : tfval := VObj (msg_ty outer) false false (Some plan_attrs_ex).

  Ltac plan_step :=
    match goal with
    | |- True => exact I
    | H : False |- _ => destruct H
    | H : _ \/ _ |- _ => destruct H as [H|H]
    | H : _ = ?f |- _ => is_var f; subst f
    | |- plan_obj _ _ _ _ => unfold plan_obj, inn_p
    | |- plan_prim _ _ => unfold plan_prim, kp, np, up
    | |- _ /\ _ => split
    | |- exists _, _ => eexists
    | |- _ = _ => reflexivity
    | |- Forall _ [] => constructor
    | |- Forall _ (_ :: _) => constructor
    | |- NoDup [] => constructor
    | |- NoDup (_ :: _) => constructor; [cbn; intuition discriminate|]
    | |- (_ <= _)%Z => lia
    | |- (_ < _)%Z => lia
    | |- _ -> _ => let H := fresh in intros H; cbn in H; try discriminate H
    | |- forall _, _ => intro
    | _ => progress cbn
    end.

  Lemma plan_is_ok : plan_ok outer plan.
  Proof.
    eexists. split; [reflexivity|]. unfold outer. cbn [plan_attrs]. split.
    - repeat plan_step.
    - intros f1 f2 h a1 a2 I1 I2 O1 O2 L1 L2 A1 A2. cbn [In] in I1, I2.
      repeat (destruct I1 as [<-|I1]; [try discriminate O1|]); try (destruct I1);
        repeat (destruct I2 as [<-|I2]; [try discriminate O2|]); try (destruct I2);
        try reflexivity; cbn in O1, O2; try congruence;
        cbn in L1, L2; first [injection L1 as <-; discriminate A1|injection L2 as <-; discriminate A2].
  Qed.

  Example plan_echo :
    exists g r,
      copy_from std_hook_from outer plan (m_zero outer) = Ok (g, []) /\
      copy_to std_hook_to outer g plan = Ok (r, []) /\
      echo_rel outer plan r = true.
  Proof. exact (copy_echo_oneof_partial std_hook_to std_hook_from outer plan outer_class plan_is_ok). Qed.

  (* the echo computed: the holder of Kind is set to branch y, the holder of Other is nil; the
     unknown branches x and z come back known with the zero payload (the flag "null" of the plan's
     attribute is kept), the known branch y is reproduced with its unknown attribute u known; the
     placeholder comes back known; the unknown list is empty, not null *)
  Example plan_from_computed :
    copy_from std_hook_from outer plan (m_zero outer)
    = Ok (GStruct [("Items", GSlice (Some [GPtr (Some (inn "" 18446744073709551615)); GPtr None]));
                   ("Labels", GMap (Some [])); ("Tags", GSlice (Some []));
                   ("Sub", inn "" 0); ("P", GPtr None); ("N", GPrim (PF32 (S754_zero false)));
                   ("E", GPtr (Some (GStruct []))); ("T", GPrim (PTime 5 6 7));
                   ("M", GMap (Some [("k", inn "v" 0)]));
                   ("Kind", GOneof (Some ("Y", GPtr (Some (inn "hi" 0))))); ("Other", GOneof None)], []).
  Proof. vm_compute. reflexivity. Qed.

  Example plan_echo_computed :
    match copy_from std_hook_from outer plan (m_zero outer) with
    | Ok (g, []) => copy_to std_hook_to outer g plan
    | _ => Panic
    end
      = Ok (VObj (msg_ty outer) false false
              (Some [("x", kp KI64 (PInt 0));
                     ("y", inn_p (kp KStr (PStr "hi")) (kp KI64 (PInt 0)));
                     ("items", VList (TyObj ity) false false
                                     (Some [VObj ity false false
                                                 (Some [("a", VPrim KStr true false (PStr ""));
                                                        ("u", kp KI64 (PInt (-1)))]);
                                            VObj ity true false (Some [])]));
                     ("labels", VMap (TyPrim KStr) true false (Some []));
                     ("tags", VList (TyPrim KStr) false false (Some []));
                     ("sub", inn_p (kp KStr (PStr "")) (kp KI64 (PInt 0)));
                     ("p", VPrim KBool true false (PBool false));
                     ("n", kp KF64 (PF64 (S754_zero false)));
                     ("e", VObj ety false false (Some [("active", kp KBool (PBool false))]));
                     ("t", kp KTime (PTime 5 6 7));
                     ("m", VMap (TyObj ity) false false
                                (Some [("k", inn_p (kp KStr (PStr "v")) (VPrim KI64 true false (PInt 0)))]));
                     ("z", kp KI64 (PInt 0))]), []).
  Proof. vm_compute. reflexivity. Qed.

  (* the restriction ph_ok is needed: a message without fields among the elements of a list, its
     placeholder known and true in the plan: CopyTo re-makes the element and writes the placeholder
     null; the result does not echo the plan *)
  Definition m3 : message :=
    Msg "M3" [Field (mk "Es" "es" ObjectListKind KI64 GsInt64 true false None) (Some empty)] [] [] false
        (GStruct [("Es", GSlice None)]).
  Definition plan3 : tfval :=
    VObj (msg_ty m3) false false
         (Some [("es", VList (TyObj ety) false false
                             (Some [VObj ety false false (Some [("active", kp KBool (PBool true))])]))]).

  Lemma plan3_ok : plan_ok m3 plan3.
  Proof.
    eexists. split; [reflexivity|]. unfold m3. cbn [plan_attrs]. split.
    - repeat plan_step.
    - intros f1 f2 h a1 a2 I1 _ O1. cbn [In] in I1.
      repeat (destruct I1 as [<-|I1]; [discriminate O1|]). destruct I1.
  Qed.

  Example placeholder_remade_not_echoed :
    rt_ok m3 = true /\ ph_ok m3 = false /\
    exists g r, copy_from std_hook_from m3 plan3 (m_zero m3) = Ok (g, []) /\
                copy_to std_hook_to m3 g plan3 = Ok (r, []) /\ echo_rel m3 plan3 r = false.
  Proof. split; [reflexivity|]. split; [reflexivity|]. do 2 eexists. split; [|split]; vm_compute; reflexivity. Qed.

  (* the depth: the relation says nothing about what a null attribute of the result holds.  A plan
     whose null message attribute holds an unknown attribute (plan_ok allows it; Terraform's null
     values hold nothing) is echoed, and the result still holds the unknown value below the null
     object: [echo_rel m p r = true -> clean r = true] does not hold without a further hypothesis on
     the plan (null and unknown objects hold no attributes, no attributes beyond the schema's) *)
  Definition plan4 : tfval :=
    VObj (msg_ty outer) false false
         (Some (("x", up KI64) :: ("y", VObj ity true false (Some [("a", up KStr); ("u", np KI64)]))
                  :: tl (tl plan_attrs_ex))).

  Lemma plan4_ok : plan_ok outer plan4.
  Proof.
    unfold plan4, plan_attrs_ex. cbn [tl].
    eexists. split; [reflexivity|]. unfold outer. cbn [plan_attrs]. split.
    - repeat plan_step.
    - intros f1 f2 h a1 a2 I1 I2 O1 O2 L1 L2 A1 A2. cbn [In] in I1, I2.
      repeat (destruct I1 as [<-|I1]; [try discriminate O1|]); try (destruct I1);
        repeat (destruct I2 as [<-|I2]; [try discriminate O2|]); try (destruct I2);
        try reflexivity; cbn in O1, O2; try congruence;
        cbn in L1, L2; first [injection L1 as <-; discriminate A1|injection L2 as <-; discriminate A2].
  Qed.

  Example echo_not_clean :
    match copy_from std_hook_from outer plan4 (m_zero outer) with
    | Ok (g, []) =>
        match copy_to std_hook_to outer g plan4 with
        | Ok (r, []) => echo_rel outer plan4 r && negb (clean r)
        | _ => false
        end
    | _ => false
    end = true.
  Proof. vm_compute. reflexivity. Qed.
End OneofExample.

Print Assumptions copy_echo_oneof_nofloat32.
Print Assumptions copy_echo_oneof_partial.
Print Assumptions copy_echo_oneof_attrs_known.
