(* Round trips through the emitted converters (Model/CopyTo.v, Model/CopyFrom.v):
   1. scalar round trip at the level of one field value (C19, C04);
   2. one primitive field, CopyTo then CopyFrom (C04, C19);
   3. reset: a null or unknown attribute leaves the field at zero / nil / empty (C05);
   4. refresh: lists and maps follow the source (C09);
   5. idempotence of the scalar writer (C09).
   Results which depend on the float32 <-> float64 conversions (Proofs/Floats.v, through Flocq and
   the axioms of the standard library's real numbers) are in lemmas of their own; every other
   result has a float-free statement whose Print Assumptions is closed. *)
From Coq Require Import List String Bool ZArith Lia.
From Coq Require Import Floats.SpecFloat.
From PGT Require Import Base.Strs Base.AList Model.Vals Model.IR Model.CopyTo Model.CopyFrom.
From PGT Require Import Proofs.Ints Proofs.Floats Proofs.CopyToProofs Proofs.CopyFromProofs.
Import ListNotations.
Local Open Scope Z_scope.

(* ------------------------------------------------------------------------------------- *)
(* 1. scalars *)

(* a Go value of scalar type s *)
Definition scalar_val (s : goscalar) (g : goval) : Prop :=
  match s, g with
  | (GsInt32 | GsInt64 | GsUint32 | GsUint64 | GsEnum | GsDuration), GPrim (PInt x) => in_range s x
  | GsFloat32, GPrim (PF32 x) => SpecFloat.valid_binary 24 128 x = true /\ x <> S754_nan
  | GsFloat64, GPrim (PF64 x) => True
  | GsBool, GPrim (PBool _) => True
  | GsString, GPrim (PStr _) => True
  | GsTime, GPrim (PTime _ _ _) => True
  | GsBytes, GBytes _ => True
  | _, _ => False
  end.

(* the Terraform kind the generator pairs with s *)
Definition kind_of (s : goscalar) : tfkind :=
  match s with
  | GsInt32 | GsInt64 | GsUint32 | GsUint64 | GsEnum => KI64
  | GsFloat32 | GsFloat64 => KF64
  | GsBool => KBool
  | GsString | GsBytes => KStr
  | GsTime => KTime
  | GsDuration => KDur
  end.

(* the scalar types with a zero literal (genZeroValue): all but time and duration *)
Definition zero_lit (s : goscalar) : bool :=
  match s with GsTime | GsDuration => false | _ => true end.

(* normal form: nil and empty byte strings are identified, and so are the two float zeros *)
Definition nf_scalar (g : goval) : goval :=
  match g with
  | GBytes (Some EmptyString) => GBytes None
  | GPrim (PF32 (S754_zero _)) => GPrim (PF32 (S754_zero false))
  | GPrim (PF64 (S754_zero _)) => GPrim (PF64 (S754_zero false))
  | _ => g
  end.

Lemma nf_scalar_idem g : nf_scalar (nf_scalar g) = nf_scalar g.
Proof.
  destruct g as [[z|x|x|b|s|a b c]|[[|c s]|]| | | | |]; try reflexivity; destruct x; reflexivity.
Qed.

Ltac ranges :=
  change (2 ^ 31) with 2147483648 in *; change (2 ^ 32) with 4294967296 in *;
  change (2 ^ 63) with 9223372036854775808 in *; change (2 ^ 64) with 18446744073709551616 in *.

(* float-free part *)
Theorem scalar_round_trip_nofloat s g :
  s <> GsFloat32 -> scalar_val s g ->
  exists p g', cast_to (kind_of s) g = Ok p /\ cast_from s p = Ok g' /\ nf_scalar g' = nf_scalar g.
Proof.
  intros NF H.
  destruct s; try congruence;
    destruct g as [[x|x|x|b|x|a b c]|o| | | | |]; cbn [scalar_val] in H; try contradiction.
  1-4,9: destruct (int_round_trip _ x H) as [p [[A B]|[C _]]]; [|discriminate C];
         exists p, (GPrim (PInt x)); cbn [kind_of]; auto.
  - (* float64 *) do 2 eexists. repeat split; reflexivity.
  - (* bool *) do 2 eexists. repeat split; reflexivity.
  - (* string *) do 2 eexists. repeat split; reflexivity.
  - (* bytes *) destruct o as [x|]; do 2 eexists; (split; [reflexivity|split; [reflexivity|]]); reflexivity.
  - (* time *) do 2 eexists. repeat split; reflexivity.
  - (* duration *) do 2 eexists. repeat split; reflexivity.
Qed.

Print Assumptions scalar_round_trip_nofloat.

(* float32: through narrow_widen *)
Lemma scalar_round_trip_float32 g :
  scalar_val GsFloat32 g ->
  exists p g', cast_to (kind_of GsFloat32) g = Ok p /\ cast_from GsFloat32 p = Ok g' /\ nf_scalar g' = nf_scalar g.
Proof.
  intros H. destruct g as [[x|x|x|b|x|a b c]|o| | | | |]; cbn [scalar_val] in H; try contradiction.
  destruct H as [Hv Hn]. exists (PF64 (widen x)), (GPrim (PF32 x)).
  split; [reflexivity|]. split; [|reflexivity].
  cbn [cast_from]. now rewrite (narrow_widen x Hv Hn).
Qed.

Theorem scalar_round_trip s g :
  scalar_val s g ->
  exists p g', cast_to (kind_of s) g = Ok p /\ cast_from s p = Ok g' /\ nf_scalar g' = nf_scalar g.
Proof.
  intros H. assert (D : s = GsFloat32 \/ s <> GsFloat32) by (destruct s; (now left) || (right; discriminate)).
  destruct D as [->|N]; [now apply scalar_round_trip_float32|now apply scalar_round_trip_nofloat].
Qed.

Print Assumptions scalar_round_trip.

(* the attribute is rendered null exactly when the field holds its zero value *)
Lemma wrap_s64_zero s x : s <> GsDuration -> in_range s x -> (wrap_s 64 x =? 0) = true <-> x = 0.
Proof.
  intros ND H. rewrite Z.eqb_eq.
  destruct s; cbn [in_range] in H; try contradiction; try congruence; ranges.
  1,2,3,5: rewrite wrap_s64_small by lia; reflexivity.
  split; intros E.
  - rewrite <- (wrap_u64_s64' x H), E. reflexivity.
  - subst x. reflexivity.
Qed.

Theorem scalar_zero_null_nofloat s g p :
  s <> GsFloat32 -> zero_lit s = true -> scalar_val s g -> cast_to (kind_of s) g = Ok p ->
  (prim_is_zero p = true <-> nf_scalar g = nf_scalar (zero_scalar s)).
Proof.
  intros NF HZ H C.
  destruct s; try congruence; try discriminate HZ;
    destruct g as [[x|x|x|b|x|a b c]|[[|c0 x]|]| | | | |]; cbn [scalar_val] in H; try contradiction;
    cbn [kind_of cast_to] in C; injection C as <-; cbn [prim_is_zero zero_scalar nf_scalar].
  1-4,11: rewrite (fun N => wrap_s64_zero _ x N H) by discriminate;
          split; [intros ->; reflexivity|intros [= ->]; reflexivity].
  - (* float64 *) destruct x; cbn [sf_is_zero]; split; try reflexivity; try discriminate.
  - (* bool *) destruct b; cbn [negb]; split; try reflexivity; try discriminate.
  - (* string *) destruct x; split; try reflexivity; try discriminate.
  - (* bytes *) split; reflexivity.
  - split; discriminate.
  - split; reflexivity.
Qed.

Print Assumptions scalar_zero_null_nofloat.

Lemma widen_is_zero x :
  SpecFloat.valid_binary 24 128 x = true -> x <> S754_nan -> sf_is_zero (widen x) = sf_is_zero x.
Proof.
  intros Hv Hn. pose proof (narrow_widen x Hv Hn) as E.
  destruct x as [s|s| |s m e]; try reflexivity.
  destruct (widen (S754_finite s m e)) as [s'|s'| |s' m' e'] eqn:W; try reflexivity.
  discriminate E.
Qed.

Lemma scalar_zero_null_float32 g p :
  scalar_val GsFloat32 g -> cast_to (kind_of GsFloat32) g = Ok p ->
  (prim_is_zero p = true <-> nf_scalar g = nf_scalar (zero_scalar GsFloat32)).
Proof.
  intros H C. destruct g as [[x|x|x|b|x|a b c]|o| | | | |]; cbn [scalar_val] in H; try contradiction.
  destruct H as [Hv Hn]. cbn [kind_of cast_to] in C. injection C as <-.
  cbn [prim_is_zero zero_scalar nf_scalar]. rewrite (widen_is_zero x Hv Hn).
  destruct x; cbn [sf_is_zero]; split; try reflexivity; try discriminate.
Qed.

Theorem scalar_zero_null s g p :
  zero_lit s = true -> scalar_val s g -> cast_to (kind_of s) g = Ok p ->
  (prim_is_zero p = true <-> nf_scalar g = nf_scalar (zero_scalar s)).
Proof.
  intros Z H C. assert (D : s = GsFloat32 \/ s <> GsFloat32) by (destruct s; (now left) || (right; discriminate)).
  destruct D as [->|N]; [now apply scalar_zero_null_float32|now apply scalar_zero_null_nofloat].
Qed.

Print Assumptions scalar_zero_null.

(* ... and reading a null (or unknown) attribute back gives the zero value of the field *)
Lemma from_prim_value_null i n u p : known n u = false -> from_prim_value i n u p = Ok (zero_of_prim i).
Proof. intros H. unfold from_prim_value. now rewrite H. Qed.

(* ------------------------------------------------------------------------------------- *)
(* 2. one primitive field: CopyTo on an empty target, then CopyFrom *)

(* the two facts about the scalar the field-level proof needs; instantiated with the float-free
   theorems or with the general ones *)
Lemma prim_field_round_trip_aux i g obj ds :
  fi_nullable i = false -> fi_placeholder i = false -> fi_oneof i = None -> fi_parent i = None ->
  fi_tk i = kind_of (fi_cast i) -> fi_zero i = zero_lit (fi_cast i) ->
  (exists p g', cast_to (kind_of (fi_cast i)) g = Ok p /\ cast_from (fi_cast i) p = Ok g'
                /\ nf_scalar g' = nf_scalar g) ->
  (forall p, zero_lit (fi_cast i) = true -> cast_to (kind_of (fi_cast i)) g = Ok p ->
             (prim_is_zero p = true <-> nf_scalar g = nf_scalar (zero_scalar (fi_cast i)))) ->
  exists n p t,
    to_prim_value i (Ok g) obj (TyPrim (fi_tk i)) None ds = Ok (VPrim (fi_tk i) n false p, ds)
    /\ from_prim_value i n false p = Ok t /\ nf_scalar t = nf_scalar g.
Proof.
  intros Hn Hp Ho Hpa Hk Hz (p & g' & C & F & N) ZN.
  assert (C' : cast_to (fi_tk i) g = Ok p) by (rewrite Hk; exact C).
  pose proof (to_prim_value_absent i g p obj _ ds Hp Hn Ho Hpa eq_refl C') as T.
  assert (R : from_prim_value i false false p = Ok g').
  { unfold from_prim_value. cbn [known negb andb]. rewrite F. cbn [bind]. now rewrite Hn. }
  destruct (fi_zero i) eqn:EZ; [destruct (prim_is_zero p) eqn:PZ|].
  - exists true, p, (zero_of_prim i). split; [exact T|]. split; [now apply from_prim_value_null|].
    unfold zero_of_prim. rewrite Hn. symmetry. apply (ZN p); [congruence|exact C|exact PZ].
  - exists false, p, g'. auto.
  - exists false, p, g'. auto.
Qed.

(* value field, float32 excluded: axiom free *)
Lemma prim_field_round_trip_nofloat i g obj ds :
  fi_cast i <> GsFloat32 ->
  fi_kind i = PrimitiveKind -> fi_nullable i = false -> fi_placeholder i = false -> fi_oneof i = None ->
  fi_parent i = None -> fi_via i = [] ->
  fi_tk i = kind_of (fi_cast i) -> fi_zero i = zero_lit (fi_cast i) ->
  scalar_val (fi_cast i) g ->
  exists n p t,
    to_prim_value i (Ok g) obj (TyPrim (fi_tk i)) None ds = Ok (VPrim (fi_tk i) n false p, ds)
    /\ from_prim_value i n false p = Ok t /\ nf_scalar t = nf_scalar g.
Proof.
  intros NF _ Hn Hp Ho Hpa _ Hk Hz S. apply prim_field_round_trip_aux; auto.
  - now apply scalar_round_trip_nofloat.
  - intros p Z C. now apply scalar_zero_null_nofloat.
Qed.

Print Assumptions prim_field_round_trip_nofloat.

Lemma prim_field_round_trip i g obj ds :
  fi_kind i = PrimitiveKind -> fi_nullable i = false -> fi_placeholder i = false -> fi_oneof i = None ->
  fi_parent i = None -> fi_via i = [] ->
  fi_tk i = kind_of (fi_cast i) -> fi_zero i = zero_lit (fi_cast i) ->
  scalar_val (fi_cast i) g ->
  exists n p t,
    to_prim_value i (Ok g) obj (TyPrim (fi_tk i)) None ds = Ok (VPrim (fi_tk i) n false p, ds)
    /\ from_prim_value i n false p = Ok t /\ nf_scalar t = nf_scalar g.
Proof.
  intros _ Hn Hp Ho Hpa _ Hk Hz S. apply prim_field_round_trip_aux; auto.
  - now apply scalar_round_trip.
  - intros p Z C. now apply scalar_zero_null.
Qed.

Print Assumptions prim_field_round_trip.

(* pointer-backed scalar: nil <-> null, and equal contents *)
Lemma prim_ptr_round_trip_aux i o obj ds :
  fi_nullable i = true -> fi_zero i = false -> fi_placeholder i = false -> fi_oneof i = None ->
  fi_parent i = None -> fi_tk i = kind_of (fi_cast i) ->
  (forall x, o = Some x ->
     exists p g', cast_to (kind_of (fi_cast i)) x = Ok p /\ cast_from (fi_cast i) p = Ok g'
                  /\ nf_scalar g' = nf_scalar x) ->
  exists n p t,
    to_prim_value i (Ok (GPtr o)) obj (TyPrim (fi_tk i)) None ds = Ok (VPrim (fi_tk i) n false p, ds)
    /\ (n = true <-> o = None)
    /\ from_prim_value i n false p = Ok t
    /\ exists o', t = GPtr o' /\ (o' = None <-> o = None)
                  /\ (forall x, o = Some x -> exists x', o' = Some x' /\ nf_scalar x' = nf_scalar x).
Proof.
  intros Hn Hz Hp Ho Hpa Hk S. unfold to_prim_value, parent_is_nil.
  rewrite Hp, Hn, Hz, Ho, Hpa. cbn [null_value]. rewrite CopyToProofs.tfkind_eqb_refl. cbn [bind].
  destruct o as [x|].
  - destruct (S x eq_refl) as (p & g' & C & F & N). rewrite Hk, C. cbn [bind].
    exists false, p, (GPtr (Some g')). split; [reflexivity|]. split; [split; discriminate|].
    split.
    + unfold from_prim_value. cbn [known negb andb]. rewrite F. cbn [bind]. now rewrite Hn.
    + exists (Some g'). split; [reflexivity|]. split; [split; discriminate|].
      intros y [= <-]. eauto.
  - exists true, (zero_prim_of_kind (fi_tk i)), (GPtr None). split; [reflexivity|]. split; [tauto|].
    split.
    + rewrite from_prim_value_null by reflexivity. unfold zero_of_prim. now rewrite Hn.
    + exists None. split; [reflexivity|]. split; [tauto|]. intros y [=].
Qed.

Lemma prim_ptr_round_trip_nofloat i o obj ds :
  fi_cast i <> GsFloat32 ->
  fi_kind i = PrimitiveKind -> fi_nullable i = true -> fi_zero i = false -> fi_placeholder i = false ->
  fi_oneof i = None -> fi_parent i = None -> fi_via i = [] -> fi_tk i = kind_of (fi_cast i) ->
  (forall x, o = Some x -> scalar_val (fi_cast i) x) ->
  exists n p t,
    to_prim_value i (Ok (GPtr o)) obj (TyPrim (fi_tk i)) None ds = Ok (VPrim (fi_tk i) n false p, ds)
    /\ (n = true <-> o = None)
    /\ from_prim_value i n false p = Ok t
    /\ exists o', t = GPtr o' /\ (o' = None <-> o = None)
                  /\ (forall x, o = Some x -> exists x', o' = Some x' /\ nf_scalar x' = nf_scalar x).
Proof.
  intros NF _ Hn Hz Hp Ho Hpa _ Hk S. apply prim_ptr_round_trip_aux; auto.
  intros x E. apply scalar_round_trip_nofloat; auto.
Qed.

Print Assumptions prim_ptr_round_trip_nofloat.

Lemma prim_ptr_round_trip i o obj ds :
  fi_kind i = PrimitiveKind -> fi_nullable i = true -> fi_zero i = false -> fi_placeholder i = false ->
  fi_oneof i = None -> fi_parent i = None -> fi_via i = [] -> fi_tk i = kind_of (fi_cast i) ->
  (forall x, o = Some x -> scalar_val (fi_cast i) x) ->
  exists n p t,
    to_prim_value i (Ok (GPtr o)) obj (TyPrim (fi_tk i)) None ds = Ok (VPrim (fi_tk i) n false p, ds)
    /\ (n = true <-> o = None)
    /\ from_prim_value i n false p = Ok t
    /\ exists o', t = GPtr o' /\ (o' = None <-> o = None)
                  /\ (forall x, o = Some x -> exists x', o' = Some x' /\ nf_scalar x' = nf_scalar x).
Proof.
  intros _ Hn Hz Hp Ho Hpa _ Hk S. apply prim_ptr_round_trip_aux; auto.
  intros x E. apply scalar_round_trip; auto.
Qed.

Print Assumptions prim_ptr_round_trip.

(* ------------------------------------------------------------------------------------- *)
(* 3. reset (C05): a null or unknown attribute leaves the field at zero / nil / empty *)

Definition reset_value (i : finfo) (om : option message) : goval :=
  match fi_kind i, om with
  | PrimitiveKind, _ => zero_of_prim i
  | (PrimitiveListKind | ObjectListKind), _ => GSlice (Some [])
  | (PrimitiveMapKind | ObjectMapKind), _ => GMap (Some [])
  | ObjectKind, Some m' => if fi_nullable i then GPtr None else m_zero m'
  | _, _ => GStruct []
  end.

(* the attribute value has the Go type the field's type assertion expects *)
Definition attr_shape (i : finfo) (a : tfval) : Prop :=
  match fi_kind i, a with
  | PrimitiveKind, VPrim k _ _ _ => k = fi_tk i
  | (PrimitiveListKind | ObjectListKind), VList _ _ _ _ => True
  | (PrimitiveMapKind | ObjectMapKind), VMap _ _ _ _ => True
  | ObjectKind, VObj _ _ _ _ => True
  | _, _ => False
  end.

(* the value is null or unknown *)
Definition null_or_unknown (a : tfval) : Prop :=
  match a with
  | VPrim _ n u _ | VList _ n u _ | VMap _ n u _ | VObj _ n u _ => known n u = false
  | _ => False
  end.

(* the side conditions on the field: reached directly, not promoted, not a oneof branch, not a
   custom type; an object field carries its message *)
Definition plain_field (i : finfo) (om : option message) : Prop :=
  fi_via i = [] /\ fi_parent i = None /\ fi_oneof i = None /\ fi_kind i <> CustomKind
  /\ (fi_kind i = ObjectKind -> om <> None).

(* the whole effect of the field: one assignment of the reset value; neither the payload nor the
   flags of [a] occur in the right-hand side, and no diagnostic is added *)
Lemma from_field_reset_eq hook i om attrs obj ds a :
  plain_field i om ->
  lookup (fi_snake i) attrs = Some a -> attr_shape i a -> null_or_unknown a ->
  from_field hook (Field i om) (Some attrs) (obj, ds)
  = do obj' <- gset obj (fi_name i) (reset_value i om); Ok (obj', ds).
Proof.
  intros (V & P & O & NC & OM) L S NU. unfold attr_shape in S. unfold reset_value.
  cbn [from_field]. rewrite L, V, P, O. unfold alloc_parent. rewrite P. cbn [gset_via bind].
  destruct (fi_kind i) eqn:K; try congruence;
    destruct a as [k n u p|ety n u el|ety n u el|atys n u at0| |]; try contradiction;
    cbn [null_or_unknown] in NU.
  - (* primitive *)
    subst k. cbn [as_prim]. rewrite CopyToProofs.tfkind_eqb_refl. unfold from_prim_value. rewrite NU.
    cbn [bind]. reflexivity.
  - (* primitive list *) rewrite NU. cbn [bind]. reflexivity.
  - (* object *)
    destruct om as [m'|]; [|exfalso; now apply OM]. rewrite NU.
    destruct (gset obj (fi_name i) (if fi_nullable i then GPtr None else m_zero m')); reflexivity.
  - (* object list *) rewrite NU. cbn [bind]. reflexivity.
  - (* primitive map *) rewrite NU. cbn [bind]. reflexivity.
  - (* object map *) rewrite NU. cbn [bind]. reflexivity.
Qed.

Lemma gset_total obj n v w : gfield obj n = Ok v -> exists obj', gset obj n w = Ok obj'.
Proof.
  destruct obj; cbn; try discriminate. destruct (lookup n fs); [eauto|discriminate].
Qed.

Lemma from_field_reset hook i om attrs obj ds a :
  plain_field i om ->
  (exists v, gfield obj (fi_name i) = Ok v) ->
  lookup (fi_snake i) attrs = Some a -> attr_shape i a -> null_or_unknown a ->
  exists obj', from_field hook (Field i om) (Some attrs) (obj, ds) = Ok (obj', ds)
               /\ gfield obj' (fi_name i) = Ok (reset_value i om)
               /\ (forall n', n' <> fi_name i -> gfield obj' n' = gfield obj n').
Proof.
  intros PF [v G] L S NU. rewrite (from_field_reset_eq hook i om attrs obj ds a PF L S NU).
  destruct (gset_total obj (fi_name i) v (reset_value i om) G) as [obj' E]. rewrite E. cbn [bind].
  exists obj'. split; [reflexivity|]. split; [eapply gset_same; eauto|].
  intros n' N. eapply gset_other; eauto.
Qed.

(* the payload under a null / unknown value does not occur in the result: two such values, with
   any flags, element types, payloads, in any two attribute lists, give the same result *)
Corollary from_field_reset_payload hook i om attrs attrs' obj ds a a' :
  plain_field i om ->
  lookup (fi_snake i) attrs = Some a -> attr_shape i a -> null_or_unknown a ->
  lookup (fi_snake i) attrs' = Some a' -> attr_shape i a' -> null_or_unknown a' ->
  from_field hook (Field i om) (Some attrs) (obj, ds) = from_field hook (Field i om) (Some attrs') (obj, ds).
Proof.
  intros PF L S NU L' S' NU'.
  rewrite (from_field_reset_eq hook i om attrs obj ds a PF L S NU).
  rewrite (from_field_reset_eq hook i om attrs' obj ds a' PF L' S' NU'). reflexivity.
Qed.

(* ... and the value the target held before does not occur either: two targets which agree on
   the other keys end up equal field by field *)
Corollary from_field_reset_target hook i om attrs obj1 obj2 ds a o1 o2 ds1 ds2 :
  plain_field i om ->
  lookup (fi_snake i) attrs = Some a -> attr_shape i a -> null_or_unknown a ->
  from_field hook (Field i om) (Some attrs) (obj1, ds) = Ok (o1, ds1) ->
  from_field hook (Field i om) (Some attrs) (obj2, ds) = Ok (o2, ds2) ->
  (forall n', n' <> fi_name i -> gfield obj1 n' = gfield obj2 n') ->
  ds1 = ds /\ ds2 = ds /\ forall n', gfield o1 n' = gfield o2 n'.
Proof.
  intros PF L S NU H1 H2 A.
  rewrite (from_field_reset_eq hook i om attrs obj1 ds a PF L S NU) in H1.
  rewrite (from_field_reset_eq hook i om attrs obj2 ds a PF L S NU) in H2.
  destruct (gset obj1 (fi_name i) (reset_value i om)) as [x1|] eqn:E1; cbn [bind] in H1; [|discriminate].
  destruct (gset obj2 (fi_name i) (reset_value i om)) as [x2|] eqn:E2; cbn [bind] in H2; [|discriminate].
  injection H1 as <- <-. injection H2 as <- <-. split; [reflexivity|]. split; [reflexivity|].
  intros n'. destruct (string_dec n' (fi_name i)) as [->|N].
  - now rewrite (gset_same _ _ _ _ E1), (gset_same _ _ _ _ E2).
  - rewrite (gset_other _ _ _ _ _ E1 N), (gset_other _ _ _ _ _ E2 N). now apply A.
Qed.

Print Assumptions from_field_reset.
Print Assumptions from_field_reset_payload.
Print Assumptions from_field_reset_target.

(* ------------------------------------------------------------------------------------- *)
(* 4. refresh (C09): lists and maps follow the source *)

(* the element loop of a list appends one value per source element *)
Lemma fold_append_length {A} (F : A -> list diag -> res (tfval * list diag)) (l : list A) :
  forall vs0 ds0 vs ds',
    fold_left (fun acc a => do '(vs, ds1) <- acc; do '(v, ds2) <- F a ds1; Ok (vs ++ [v], ds2))
              l (Ok (vs0, ds0)) = Ok (vs, ds') ->
    List.length vs = (List.length vs0 + List.length l)%nat.
Proof.
  induction l as [|a r IH]; intros vs0 ds0 vs ds' H; cbn [fold_left] in H.
  - injection H as <- _. cbn [List.length]. lia.
  - cbn [bind] in H. destruct (F a ds0) as [[v d]|]; cbn [bind] in H.
    + rewrite (IH _ _ _ _ H), app_length. cbn [List.length]. lia.
    + rewrite CopyToProofs.fold_left_panic in H; [discriminate|reflexivity].
Qed.

Lemma read_source_plain i z obj :
  fi_via i = [] -> fi_parent i = None -> fi_oneof i = None ->
  read_source i z obj = gfield obj (fi_name i).
Proof. intros V P O. unfold read_source, parent_is_nil. rewrite O, P, V. reflexivity. Qed.

Lemma to_field_list_length hook i om obj atys attrs ds attrs' ds' l ety :
  fi_kind i = PrimitiveListKind \/ fi_kind i = ObjectListKind ->
  fi_via i = [] -> fi_parent i = None -> fi_oneof i = None ->
  lookup (fi_snake i) atys = Some (TyList ety) ->
  gget_via obj [] (fi_name i) = Ok (GSlice (Some l)) ->
  to_field hook (Field i om) obj atys (attrs, ds) = Ok (attrs', ds') ->
  exists cety n es,
    lookup (fi_snake i) attrs' = Some (VList cety n false (Some es))
    /\ List.length es = List.length l /\ (l <> [] -> n = false).
Proof.
  intros K V P O T G H. cbn [gget_via] in G. rewrite to_field_eq in H. cbv zeta in H. rewrite T in H.
  rewrite (read_source_plain i _ obj V P O), G in H. cbn [bind] in H.
  destruct K as [K|K]; rewrite K in H.
  all: destruct (lookup (fi_snake i) attrs) as [[k0 n0 u0 p|e n0 u0 el|e n0 u0 el|ats n0 u0 at0| |]|] eqn:CUR.
  all: cbv beta iota in H.
  all: match type of H with bind ?c _ = _ => destruct c as [[vs dsx]|] eqn:F end; cbn [bind] in H; [|discriminate].
  all: injection H as <- <-.
  all: do 3 eexists; split; [apply lookup_update_eq|].
  all: split; [|intros NE; destruct l; [congruence|reflexivity]].
  1-7: apply fold_append_length in F; exact F.
  all: destruct om as [m'|]; [destruct ety; try discriminate F|]; apply fold_append_length in F; exact F.
Qed.

Print Assumptions to_field_list_length.

(* a nil source: whatever the existing attribute held, no element survives *)
Lemma to_field_list_nil hook i om obj atys attrs ds attrs' ds' ety :
  fi_kind i = PrimitiveListKind \/ fi_kind i = ObjectListKind ->
  fi_via i = [] -> fi_parent i = None -> fi_oneof i = None ->
  lookup (fi_snake i) atys = Some (TyList ety) ->
  gget_via obj [] (fi_name i) = Ok (GSlice None) ->
  to_field hook (Field i om) obj atys (attrs, ds) = Ok (attrs', ds') ->
  ds' = ds /\
  exists cety n,
    lookup (fi_snake i) attrs' = Some (VList cety n false (Some []))
    /\ (forall e n0 u0 el, lookup (fi_snake i) attrs = Some (VList e n0 u0 el) -> cety = e /\ n = n0).
Proof.
  intros K V P O T G H. cbn [gget_via] in G. rewrite to_field_eq in H. cbv zeta in H. rewrite T in H.
  rewrite (read_source_plain i _ obj V P O), G in H. cbn [bind] in H.
  assert (Z : forall x : list tfval, (if Nat.eqb (List.length x) 0 then x else make_nils 0) = [])
    by (intros [|y x]; reflexivity).
  destruct K as [K|K]; rewrite K in H.
  all: destruct (lookup (fi_snake i) attrs) as [[k n u p|e n0 u0 el|e n0 u0 el|ats n0 u0 at0| |]|];
    try (injection H as <- <-; split; [reflexivity|]; do 2 eexists;
         (split; [apply lookup_update_eq|]); intros; discriminate).
  all: injection H as <- <-; split; [reflexivity|]; exists e, n0; (split; [|now intros ? ? ? ? [= <- <- _ _]]).
  all: rewrite lookup_update_eq; destruct el as [x|]; [rewrite Z|]; reflexivity.
Qed.

Print Assumptions to_field_list_nil.

(* maps *)
Lemma keys_update_iff {A} k (v : A) l k' : In k' (keys (update k v l)) <-> k' = k \/ In k' (keys l).
Proof.
  unfold keys. induction l as [|[k2 v2] r IH]; cbn [update map fst In].
  - intuition.
  - destruct (String.eqb k k2) eqn:E; cbn [map fst In].
    + apply String.eqb_eq in E. subst k2. intuition.
    + rewrite IH. intuition.
Qed.

Lemma keys_update_notin {A} k (v : A) l : ~ In k (keys l) -> keys (update k v l) = keys l ++ [k].
Proof.
  unfold keys. induction l as [|[k2 v2] r IH]; cbn [update map fst In app]; [reflexivity|].
  intros N. destruct (String.eqb k k2) eqn:E.
  - apply String.eqb_eq in E. subst k2. exfalso. apply N. now left.
  - cbn [map fst app]. rewrite IH by tauto. reflexivity.
Qed.

(* the entry loop of a map: the keys of the result are the initial keys and the source keys *)
Lemma fold_update_keys {B} (F : string * B -> list diag -> res (tfval * list diag)) (l : list (string * B)) :
  forall es0 ds0 es ds',
    fold_left (fun acc ka => do '(es, ds1) <- acc; do '(v, ds2) <- F ka ds1; Ok (update (fst ka) v es, ds2))
              l (Ok (es0, ds0)) = Ok (es, ds') ->
    (forall k, In k (keys es) <-> In k (keys es0) \/ In k (map fst l))
    /\ (NoDup (keys es0 ++ map fst l) -> keys es = keys es0 ++ map fst l).
Proof.
  induction l as [|[k a] r IH]; intros es0 ds0 es ds' H; cbn [fold_left] in H.
  - injection H as <- _. cbn [map]. rewrite app_nil_r. split; [intros k; cbn [In]; tauto|reflexivity].
  - cbn [bind] in H. destruct (F (k, a) ds0) as [[v d]|]; cbn [bind] in H.
    + cbn [fst] in H. destruct (IH _ _ _ _ H) as [M N]. cbn [map fst]. split.
      * intros k'. rewrite M, keys_update_iff. cbn [In]. intuition.
      * intros ND. assert (NI : ~ In k (keys es0)).
        { apply NoDup_remove_2 in ND. intros I. apply ND. apply in_or_app. now left. }
        rewrite N; rewrite (keys_update_notin _ _ _ NI), <- app_assoc; [reflexivity|exact ND].
    + rewrite CopyToProofs.fold_left_panic in H; [discriminate|reflexivity].
Qed.

Lemma to_field_map_keys hook i om obj atys attrs ds attrs' ds' l ety :
  fi_kind i = PrimitiveMapKind \/ fi_kind i = ObjectMapKind ->
  fi_via i = [] -> fi_parent i = None -> fi_oneof i = None ->
  lookup (fi_snake i) atys = Some (TyMap ety) ->
  gget_via obj [] (fi_name i) = Ok (GMap (Some l)) ->
  to_field hook (Field i om) obj atys (attrs, ds) = Ok (attrs', ds') ->
  exists cety n es,
    lookup (fi_snake i) attrs' = Some (VMap cety n false (Some es))
    /\ (forall k, In k (keys es) <-> In k (map fst l))
    /\ (NoDup (map fst l) -> keys es = map fst l)
    /\ (l <> [] -> n = false).
Proof.
  intros K V P O T G H. cbn [gget_via] in G. rewrite to_field_eq in H. cbv zeta in H. rewrite T in H.
  rewrite (read_source_plain i _ obj V P O), G in H. cbn [bind] in H.
  destruct K as [K|K]; rewrite K in H.
  all: destruct (lookup (fi_snake i) attrs) as [[k0 n0 u0 p|e n0 u0 el|e n0 u0 el|ats n0 u0 at0| |]|] eqn:CUR.
  all: cbv beta iota in H.
  all: match type of H with bind ?c _ = _ => destruct c as [[es dsx]|] eqn:F end; cbn [bind] in H; [|discriminate].
  all: injection H as <- <-.
  all: do 3 eexists; split; [apply lookup_update_eq|].
  all: assert (FK : (forall k, In k (keys es) <-> In k (keys (@nil (string * tfval))) \/ In k (map fst l))
               /\ (NoDup (keys (@nil (string * tfval)) ++ map fst l) -> keys es = keys (@nil (string * tfval)) ++ map fst l));
    [|destruct FK as [M N]; cbn [keys map app] in M, N;
      split; [intros k; rewrite M; cbn [In]; tauto|split; [exact N|intros NE; destruct l; [congruence|reflexivity]]]].
  1-7: apply fold_update_keys in F; exact F.
  all: destruct om as [m'|]; [destruct ety; try discriminate F|]; apply fold_update_keys in F; exact F.
Qed.

Print Assumptions to_field_map_keys.

(* a nil source: an existing map of any size is replaced by the empty map *)
Lemma to_field_map_nil hook i om obj atys attrs ds attrs' ds' ety :
  fi_kind i = PrimitiveMapKind \/ fi_kind i = ObjectMapKind ->
  fi_via i = [] -> fi_parent i = None -> fi_oneof i = None ->
  lookup (fi_snake i) atys = Some (TyMap ety) ->
  gget_via obj [] (fi_name i) = Ok (GMap None) ->
  to_field hook (Field i om) obj atys (attrs, ds) = Ok (attrs', ds') ->
  ds' = ds /\ exists cety n, lookup (fi_snake i) attrs' = Some (VMap cety n false (Some [])).
Proof.
  intros K V P O T G H. cbn [gget_via] in G. rewrite to_field_eq in H. cbv zeta in H. rewrite T in H.
  rewrite (read_source_plain i _ obj V P O), G in H. cbn [bind] in H.
  destruct K as [K|K]; rewrite K in H;
    destruct (lookup (fi_snake i) attrs) as [[k0 n0 u0 p|e n0 u0 el|e n0 u0 el|ats n0 u0 at0| |]|];
    injection H as <- <-;
    (split; [reflexivity|]); do 2 eexists; apply lookup_update_eq.
Qed.

Print Assumptions to_field_map_nil.

(* ------------------------------------------------------------------------------------- *)
(* 5. idempotence of the scalar writer (C09) *)

(* the second half of genPrimitiveBody: from the null flag and the payload of the asserted (or
   made) value to those of the result *)
Definition prim_finish (i : finfo) (rd : res goval) (obj : goval) (n1 : bool) (p1 : prim) : res (bool * prim) :=
  let assign : res (bool * prim) :=
    if fi_nullable i then
      do g <- rd;
      match g with
      | GPtr None => Ok (true, p1)
      | GPtr (Some x) => do c <- cast_to (fi_tk i) x; Ok (false, c)
      | _ => Panic
      end
    else
      do g <- rd; do c <- cast_to (fi_tk i) g; Ok (n1, c) in
  if fi_placeholder i then Ok (n1, p1)
  else
    do pn <- (match fi_oneof i with Some _ => Ok None | None => parent_is_nil i obj end);
    match pn with
    | Some true => Ok (true, p1)
    | _ => assign
    end.

(* on a value of the field's kind the type assertion succeeds: no diagnostic, the flags and the
   payload are those of the current value *)
Lemma to_prim_value_kinded i rd obj t n u p ds :
  to_prim_value i rd obj t (Some (VPrim (fi_tk i) n u p)) ds =
  do np <- prim_finish i rd obj n p; let '(n2, p2) := np in Ok (VPrim (fi_tk i) n2 false p2, ds).
Proof. unfold to_prim_value, prim_finish. rewrite CopyToProofs.tfkind_eqb_refl. reflexivity. Qed.

Lemma to_prim_value_finish i rd obj t cur ds v ds' :
  to_prim_value i rd obj t cur ds = Ok (v, ds') ->
  exists n1 p1 n2 p2, prim_finish i rd obj n1 p1 = Ok (n2, p2) /\ v = VPrim (fi_tk i) n2 false p2.
Proof.
  unfold to_prim_value. intros H.
  match type of H with bind ?c _ = _ => destruct c as [[[[n1 u1] p1] ds1]|] end; cbn [bind] in H; [|discriminate H].
  change (bind (prim_finish i rd obj n1 p1)
               (fun np => let '(n2, p2) := np in Ok (VPrim (fi_tk i) n2 false p2, ds1)) = Ok (v, ds')) in H.
  destruct (prim_finish i rd obj n1 p1) as [[n2 p2]|] eqn:F; cbn [bind] in H; [|discriminate].
  injection H as <- <-. exists n1, p1, n2, p2. auto.
Qed.

Lemma prim_finish_idem i rd obj n1 p1 n2 p2 :
  prim_finish i rd obj n1 p1 = Ok (n2, p2) -> prim_finish i rd obj n2 p2 = Ok (n2, p2).
Proof.
  unfold prim_finish.
  destruct (fi_placeholder i); [now intros [= <- <-]|].
  destruct (match fi_oneof i with Some _ => Ok None | None => parent_is_nil i obj end) as [[[|]|]|];
    cbn [bind]; try discriminate; try (now intros [= <- <-]).
  all: destruct (fi_nullable i); destruct rd as [g|]; cbn [bind]; try discriminate.
  all: try (destruct g as [| |[x|]| | | |]; try discriminate; try (now intros [= <- <-])).
  all: try (destruct (cast_to (fi_tk i) _) as [c|]; cbn [bind]; try discriminate; now intros [= <- <-]).
Qed.

(* running the writer again on its own result changes nothing: neither the value nor the
   diagnostics (whatever the first run started from: no attribute, an attribute of another type,
   a null, unknown or known value) *)
Theorem to_prim_value_idem i rd obj t cur ds v' ds' :
  to_prim_value i rd obj t cur ds = Ok (v', ds') ->
  to_prim_value i rd obj t (Some v') ds' = Ok (v', ds').
Proof.
  intros H. destruct (to_prim_value_finish _ _ _ _ _ _ _ _ H) as (n1 & p1 & n2 & p2 & F & ->).
  rewrite to_prim_value_kinded, (prim_finish_idem _ _ _ _ _ _ _ F). reflexivity.
Qed.

Print Assumptions to_prim_value_idem.

(* at field level: a second CopyTo of the same object leaves the attribute of a primitive field
   and the diagnostics as they are *)
Corollary to_field_prim_idem hook i om obj atys attrs ds attrs' ds' :
  fi_kind i = PrimitiveKind ->
  to_field hook (Field i om) obj atys (attrs, ds) = Ok (attrs', ds') ->
  (exists t, lookup (fi_snake i) atys = Some t) ->
  to_field hook (Field i om) obj atys (attrs', ds') = Ok (attrs', ds').
Proof.
  intros K H [t T]. rewrite to_field_eq in *. cbv zeta in *. rewrite T, K in *.
  destruct (match fi_oneof i with Some h => do _u <- read_holder i h obj; Ok tt | None => Ok tt end);
    cbn [bind] in *; [|discriminate].
  destruct (to_prim_value i (read_field i (zero_of_prim i) obj) obj t (lookup (fi_snake i) attrs) ds)
    as [[v d]|] eqn:E; cbn [bind] in H; [|discriminate].
  injection H as <- <-. rewrite lookup_update_eq, (to_prim_value_idem _ _ _ _ _ _ _ _ E). cbn [bind].
  f_equal. f_equal. clear. induction attrs as [|[k' w] r IH]; cbn [update].
  - now rewrite String.eqb_refl.
  - destruct (String.eqb (fi_snake i) k') eqn:EQ; cbn [update]; rewrite ?String.eqb_refl, ?EQ; [reflexivity|now rewrite IH].
Qed.

Print Assumptions to_field_prim_idem.
