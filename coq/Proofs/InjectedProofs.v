(* C10, completeness of the injected fields AT EVERY DEPTH.

   Basics.inj_attr_as_configured says what an injected attribute looks like; SchemaE2E.schema_entry_origin
   says that every entry of a schema has an origin.  Neither says that the injected fields configured for
   the path of a NESTED message (single nested object, element of a list, value of a map) are in the block
   of that message: a generator adding them only at the top level of GenSchema<T> satisfies both.

   This file proves it:
   1. the dictionary (jen.Dict) in closed form: the entry under a name is the LAST one put under it
      (schema_lookup), hence an injected field wins over an own attribute and over an earlier injected
      field of the same name (schema_block_has_injected);
   2. the block of a nested message is the schema of that message, one level down and, by induction on the
      nesting path, at every depth (schema_sub_message_at, schema_nested_block_has_injected);
   3. the front end: the message built for a declared message-typed field is built at path.field and carries
      the injected fields configured for that path (nested_message_built); end to end, from the descriptor
      and the configuration to the block (C10_injected_complete, C10_injected_complete_deep,
      C10_injected_through_run);
   4. a small file with a nested object, a list and a map, and the counterexamples to the naive statements. *)
From Coq Require Import List String Ascii Bool Arith ZArith Lia.
From Coq Require Import Sorting.Permutation.
From PGT Require Import Base.Strs Base.AList Model.Vals Model.IR Model.Names Model.Desc Model.Build Model.Schema.
From PGT Require Import Proofs.FrontEndProofs Proofs.BuildProofs Proofs.NamesProofs Proofs.Basics Proofs.SchemaE2E.
Import ListNotations.
Local Open Scope string_scope.

(* ------------------------------------------------------------------------------------- *)
(* 1. jen.Dict in closed form: last write wins *)

(* the last entry of a list of puts under a name *)
Fixpoint last_named (nm : string) (l : list sattr) : option sattr :=
  match l with
  | [] => None
  | a :: r => match last_named nm r with
              | Some b => Some b
              | None => if String.eqb (s_name a) nm then Some a else None
              end
  end.

Lemma last_named_app nm p q :
  last_named nm (p ++ q) = match last_named nm q with Some b => Some b | None => last_named nm p end.
Proof.
  induction p as [|a r IH]; cbn [app last_named]; [now destruct (last_named nm q)|].
  rewrite IH. destruct (last_named nm q); reflexivity.
Qed.

Lemma last_named_none nm l : last_named nm l = None <-> ~ In nm (names l).
Proof.
  induction l as [|a r IH]; cbn [last_named names map In]; [tauto|].
  fold (names r). destruct (last_named nm r) as [b|].
  - split; [discriminate|]. intros N. exfalso.
    assert (X : ~ ~ In nm (names r)) by (intros Y; apply IH in Y; discriminate).
    apply X. intros Y. apply N. now right.
  - destruct (String.eqb_spec (s_name a) nm) as [E|N].
    + split; [discriminate|]. intros X. exfalso. apply X. now left.
    + split; [intros _|reflexivity]. intros [X|X]; [contradiction|]. now apply (proj1 IH).
Qed.

Lemma last_named_some nm l a : last_named nm l = Some a -> In a l /\ s_name a = nm.
Proof.
  induction l as [|b r IH]; cbn [last_named In]; [discriminate|].
  destruct (last_named nm r) as [c|].
  - intros [= ->]. destruct (IH eq_refl) as [X Y]. auto.
  - destruct (String.eqb_spec (s_name b) nm) as [E|N]; [|discriminate]. intros [= ->]. auto.
Qed.

(* an entry no later put repeats the name of is the last under its name *)
Lemma last_named_last p1 a p2 :
  ~ In (s_name a) (names p2) -> last_named (s_name a) (p1 ++ a :: p2) = Some a.
Proof.
  intros N. rewrite last_named_app. cbn [last_named].
  rewrite (proj2 (last_named_none _ _) N), String.eqb_refl. reflexivity.
Qed.

(* the exact converse *)
Lemma last_named_split nm l a :
  last_named nm l = Some a ->
  exists p1 p2, l = (p1 ++ a :: p2)%list /\ s_name a = nm /\ ~ In nm (names p2).
Proof.
  induction l as [|b r IH]; cbn [last_named]; [discriminate|].
  destruct (last_named nm r) as [c|] eqn:E.
  - intros [= ->]. destruct (IH eq_refl) as (p1 & p2 & -> & Hn & N).
    exists (b :: p1), p2. auto.
  - destruct (String.eqb_spec (s_name b) nm) as [Eb|Nb]; [|discriminate]. intros [= ->].
    exists [], r. split; [reflexivity|]. split; [exact Eb|]. now apply last_named_none.
Qed.

Lemma find_attr_nil nm : find_attr nm [] = None.
Proof. reflexivity. Qed.

(* THE DICTIONARY: after a sequence of puts, the entry under a name is the last one put under it; a name
   that was never put keeps the entry it had *)
Lemma dput_all_find puts : forall acc nm,
  find_attr nm (dput_all puts acc) =
  match last_named nm puts with Some a => Some a | None => find_attr nm acc end.
Proof.
  induction puts as [|a r IH]; intros acc nm; cbn [dput_all fold_left last_named]; [reflexivity|].
  fold (dput_all r (dict_put a acc)). rewrite IH, dict_put_find.
  destruct (last_named nm r); [reflexivity|]. destruct (String.eqb (s_name a) nm); reflexivity.
Qed.

Lemma find_attr_in nm l a : find_attr nm l = Some a -> In a l /\ s_name a = nm.
Proof.
  unfold find_attr. intros H. apply find_some in H. destruct H as [H1 H2].
  apply String.eqb_eq in H2. auto.
Qed.

Lemma find_attr_nodup l a : NoDup (names l) -> In a l -> find_attr (s_name a) l = Some a.
Proof.
  unfold find_attr. induction l as [|b r IH]; intros ND Hin; [destruct Hin|].
  cbn [names map] in ND. inversion ND as [|? ? N1 N2]; subst. cbn [find].
  destruct Hin as [->|Hin]; [now rewrite String.eqb_refl|].
  destruct (String.eqb_spec (s_name b) (s_name a)) as [E|N]; [|now apply IH].
  exfalso. apply N1. rewrite E. now apply in_map.
Qed.

(* the schema of a message, by name: own fields in IR order, then the injected fields, last write wins *)
Theorem schema_lookup hs m nm : find_attr nm (schema_attrs hs m) = last_named nm (puts_of hs m).
Proof.
  rewrite schema_attrs_puts. fold (puts_of hs m). rewrite dput_all_find, find_attr_nil.
  destruct (last_named nm (puts_of hs m)); reflexivity.
Qed.
Print Assumptions schema_lookup.

(* ------------------------------------------------------------------------------------- *)
(* 2. the injected fields of a message are in its block *)

(* the last injected field configured under a name *)
Fixpoint last_inj (nm : string) (l : list injected) : option injected :=
  match l with
  | [] => None
  | j :: r => match last_inj nm r with
              | Some j' => Some j'
              | None => if String.eqb (inj_name j) nm then Some j else None
              end
  end.

Lemma last_named_inj nm l : last_named nm (map inj_attr l) = option_map inj_attr (last_inj nm l).
Proof.
  induction l as [|j r IH]; cbn [map last_named last_inj option_map]; [reflexivity|].
  rewrite IH. destruct (last_inj nm r); cbn [option_map]; [reflexivity|].
  unfold inj_name. destruct (String.eqb (s_name (inj_attr j)) nm); reflexivity.
Qed.

Lemma last_inj_some nm l j : last_inj nm l = Some j -> In j l /\ inj_name j = nm.
Proof.
  induction l as [|b r IH]; cbn [last_inj In]; [discriminate|].
  destruct (last_inj nm r) as [c|].
  - intros [= ->]. destruct (IH eq_refl) as [X Y]. auto.
  - destruct (String.eqb_spec (inj_name b) nm) as [E|N]; [|discriminate]. intros [= ->]. auto.
Qed.

Lemma last_inj_none nm l : last_inj nm l = None <-> ~ In nm (map inj_name l).
Proof.
  induction l as [|a r IH]; cbn [last_inj map In]; [tauto|].
  destruct (last_inj nm r) as [b|].
  - split; [discriminate|]. intros N. exfalso.
    assert (X : ~ ~ In nm (map inj_name r)) by (intros Y; apply IH in Y; discriminate).
    apply X. intros Y. apply N. now right.
  - destruct (String.eqb_spec (inj_name a) nm) as [E|N].
    + split; [discriminate|]. intros X. exfalso. apply X. now left.
    + split; [intros _|reflexivity]. intros [X|X]; [contradiction|]. now apply (proj1 IH).
Qed.

(* every configured name has a last entry *)
Lemma last_inj_exists l j : In j l -> exists j', last_inj (inj_name j) l = Some j'.
Proof.
  intros Hin. destruct (last_inj (inj_name j) l) as [j'|] eqn:E; [eauto|].
  apply last_inj_none in E. exfalso. apply E. now apply in_map.
Qed.

(* an entry that no LATER entry repeats the name of is that last entry *)
Lemma last_inj_unshadowed l1 j l2 :
  ~ In (inj_name j) (map inj_name l2) -> last_inj (inj_name j) (l1 ++ j :: l2) = Some j.
Proof.
  intros N. induction l1 as [|a r IH]; cbn [app last_inj].
  - rewrite (proj2 (last_inj_none _ _) N), String.eqb_refl. reflexivity.
  - now rewrite IH.
Qed.

Lemma last_inj_distinct l j : NoDup (map inj_name l) -> In j l -> last_inj (inj_name j) l = Some j.
Proof.
  intros ND Hin. destruct (in_split _ _ Hin) as (l1 & l2 & ->). apply last_inj_unshadowed.
  rewrite map_app in ND. cbn [map] in ND. apply NoDup_remove_2 in ND. rewrite in_app_iff in ND. tauto.
Qed.

(* by name: the last injected field of that name if there is one -- whatever the own fields are called --,
   else the last own field of that name *)
Theorem schema_lookup_split hs m nm :
  find_attr nm (schema_attrs hs m) =
  match last_inj nm (m_inj m) with
  | Some j => Some (inj_attr j)
  | None => last_named nm (map (schema_field hs) (m_fields m))
  end.
Proof.
  rewrite schema_lookup. unfold puts_of. rewrite last_named_app, last_named_inj.
  destruct (last_inj nm (m_inj m)); reflexivity.
Qed.
Print Assumptions schema_lookup_split.

(* THEOREM 1.  Any message value, any hook.  Under the name of an injected field the block holds the
   attribute of the LAST injected field configured under that name: dict_put replaces, in place, an own
   attribute or an earlier injected attribute of the same name. *)
Theorem schema_block_has_injected hs m j :
  In j (m_inj m) ->
  exists j', last_inj (inj_name j) (m_inj m) = Some j' /\ In j' (m_inj m) /\ inj_name j' = inj_name j /\
    find_attr (inj_name j) (schema_attrs hs m) = Some (inj_attr j') /\
    In (inj_attr j') (schema_attrs hs m).
Proof.
  intros Hin. destruct (last_inj_exists _ _ Hin) as (j' & E). exists j'.
  destruct (last_inj_some _ _ _ E) as [Hin' Hn].
  assert (F : find_attr (inj_name j) (schema_attrs hs m) = Some (inj_attr j')).
  { rewrite schema_lookup_split, E. reflexivity. }
  repeat split; try assumption. exact (proj1 (find_attr_in _ _ _ F)).
Qed.
Print Assumptions schema_block_has_injected.

(* ... an injected field that no later one repeats the name of is there itself, as configured *)
Corollary schema_block_has_injected_last hs m l1 j l2 :
  m_inj m = (l1 ++ j :: l2)%list -> ~ In (inj_name j) (map inj_name l2) ->
  find_attr (inj_name j) (schema_attrs hs m) = Some (inj_attr j) /\ In (inj_attr j) (schema_attrs hs m).
Proof.
  intros E N.
  assert (F : find_attr (inj_name j) (schema_attrs hs m) = Some (inj_attr j)).
  { rewrite schema_lookup_split, E, (last_inj_unshadowed _ _ _ N). reflexivity. }
  split; [exact F|exact (proj1 (find_attr_in _ _ _ F))].
Qed.
Print Assumptions schema_block_has_injected_last.

(* ... in particular when the configured names are pairwise distinct; nothing is asked of the own names *)
Corollary schema_block_has_injected_distinct hs m :
  NoDup (map inj_name (m_inj m)) ->
  forall j, In j (m_inj m) ->
    find_attr (inj_name j) (schema_attrs hs m) = Some (inj_attr j) /\ In (inj_attr j) (schema_attrs hs m).
Proof.
  intros ND j Hin.
  assert (F : find_attr (inj_name j) (schema_attrs hs m) = Some (inj_attr j)).
  { rewrite schema_lookup_split, (last_inj_distinct _ _ ND Hin). reflexivity. }
  split; [exact F|exact (proj1 (find_attr_in _ _ _ F))].
Qed.
Print Assumptions schema_block_has_injected_distinct.

(* the form the lookups of sections 3 and 4 use *)
Lemma schema_block_has_last_inj hs m j :
  last_inj (inj_name j) (m_inj m) = Some j ->
  find_attr (inj_name j) (schema_attrs hs m) = Some (inj_attr j) /\ In (inj_attr j) (schema_attrs hs m).
Proof.
  intros E.
  assert (F : find_attr (inj_name j) (schema_attrs hs m) = Some (inj_attr j)).
  { rewrite schema_lookup_split, E. reflexivity. }
  split; [exact F|exact (proj1 (find_attr_in _ _ _ F))].
Qed.

(* and the place: when no name is put twice, the injected attributes come last, in configuration order *)
Theorem schema_block_injected_last_places hs m :
  NoDup (names (puts_of hs m)) ->
  schema_attrs hs m = (map (schema_field hs) (m_fields m) ++ map inj_attr (m_inj m))%list.
Proof.
  intros ND. rewrite schema_attrs_puts. fold (puts_of hs m).
  rewrite dput_all_fresh; [reflexivity|]. exact ND.
Qed.
Print Assumptions schema_block_injected_last_places.

(* ------------------------------------------------------------------------------------- *)
(* 3. nested blocks, at every depth *)

Definition s_body (a : sattr) : sbody := match a with SAttr _ _ _ _ _ _ _ _ b => b end.

Definition nest_eqb (a b : nest) : bool :=
  match a, b with NSingle, NSingle | NList, NList | NMap, NMap => true | _, _ => false end.

Lemma nest_eqb_refl a : nest_eqb a a = true.
Proof. destruct a; reflexivity. Qed.

(* the block reached from a dictionary by a nesting path: the names of the attributes to go through, each
   with the nesting mode its block must have (single object, list of objects, map of objects) *)
Fixpoint schema_at (dict : list sattr) (ns : list (string * nest)) : option (list sattr) :=
  match ns with
  | [] => Some dict
  | (n, mode) :: r =>
      match find_attr n dict with
      | Some a => match s_body a with
                  | SNested mode' l => if nest_eqb mode mode' then schema_at l r else None
                  | _ => None
                  end
      | None => None
      end
  end.

Lemma schema_at_app dict p q :
  schema_at dict (p ++ q) = match schema_at dict p with Some l => schema_at l q | None => None end.
Proof.
  revert dict. induction p as [|[n mode] r IH]; intros dict; cbn [app schema_at]; [reflexivity|].
  destruct (find_attr n dict) as [a|]; [|reflexivity].
  destruct (s_body a) as [| |mode' l]; try reflexivity.
  destruct (nest_eqb mode mode'); [apply IH|reflexivity].
Qed.

(* the kinds whose field carries a block *)
Definition nest_of_kind (k : kind) : option nest :=
  match k with
  | ObjectKind => Some NSingle
  | ObjectListKind => Some NList
  | ObjectMapKind => Some NMap
  | _ => None
  end.

Definition kind_of_nest (mode : nest) : kind :=
  match mode with NSingle => ObjectKind | NList => ObjectListKind | NMap => ObjectMapKind end.

Lemma nest_of_kind_of_nest mode : nest_of_kind (kind_of_nest mode) = Some mode.
Proof. destruct mode; reflexivity. Qed.

(* the attribute of an object field: the block is the schema of the field's message, whatever the hook *)
Lemma schema_field_nested hs i m1 mode :
  nest_of_kind (fi_kind i) = Some mode ->
  schema_field hs (Field i (Some m1)) =
  SAttr (fi_snake i) (fi_required i) (negb (fi_required i)) (fi_computed i) (fi_sensitive i)
        (fi_comment i) (fi_validators i) (fi_planmods i) (SNested mode (schema_attrs hs m1)).
Proof.
  intros H. cbn [schema_field]. destruct (fi_kind i); cbn [nest_of_kind] in H; try discriminate;
    injection H as <-; reflexivity.
Qed.

(* the entry of a field is the one found under its name: no later field and no injected field is put under
   the same name (dict_put would replace it) *)
Definition wins (hs : hook_schema_t) (m : message) (c : field) : Prop :=
  last_named (s_name (schema_field hs c)) (puts_of hs m) = Some (schema_field hs c).

Lemma wins_unique hs m c :
  In c (m_fields m) ->
  count_occ string_dec (names (puts_of hs m)) (s_name (schema_field hs c)) = 1 ->
  wins hs m c.
Proof.
  intros Hin Hc. unfold wins.
  assert (Hp : In (schema_field hs c) (puts_of hs m)).
  { unfold puts_of. apply in_or_app. left. now apply in_map. }
  destruct (count_one_split _ _ Hp Hc) as (p1 & p2 & -> & N). now apply last_named_last.
Qed.

Lemma wins_nodup hs m c : In c (m_fields m) -> NoDup (names (puts_of hs m)) -> wins hs m c.
Proof.
  intros Hin ND. apply wins_unique; [exact Hin|].
  apply (proj1 (NoDup_count_occ' string_dec _) ND).
  unfold names, puts_of. apply in_map. apply in_or_app. left. now apply in_map.
Qed.

Lemma wins_find hs m c : wins hs m c -> find_attr (s_name (schema_field hs c)) (schema_attrs hs m) = Some (schema_field hs c).
Proof. intros W. rewrite schema_lookup. exact W. Qed.

(* "m' occurs in m at the nesting path ns": through object fields, elements of lists of objects and values
   of maps of objects, to any depth (the depth is the length of ns) *)
Inductive sub_message_at (hs : hook_schema_t) : message -> list (string * nest) -> message -> Prop :=
| SubHere m : sub_message_at hs m [] m
| SubStep m i m1 mode ns m' :
    In (Field i (Some m1)) (m_fields m) ->
    nest_of_kind (fi_kind i) = Some mode ->
    wins hs m (Field i (Some m1)) ->
    sub_message_at hs m1 ns m' ->
    sub_message_at hs m ((fi_snake i, mode) :: ns) m'.

Lemma sub_message_at_app hs m p m1 q m2 :
  sub_message_at hs m p m1 -> sub_message_at hs m1 q m2 -> sub_message_at hs m (p ++ q) m2.
Proof.
  induction 1 as [m|m i m0 mode ns m' Hin Hk Hw Hs IH]; intros H2; cbn [app]; [exact H2|].
  eapply SubStep; eauto.
Qed.

(* one level down *)
Theorem schema_field_block hs m i m1 mode :
  In (Field i (Some m1)) (m_fields m) ->
  nest_of_kind (fi_kind i) = Some mode ->
  wins hs m (Field i (Some m1)) ->
  find_attr (fi_snake i) (schema_attrs hs m) =
    Some (SAttr (fi_snake i) (fi_required i) (negb (fi_required i)) (fi_computed i) (fi_sensitive i)
                (fi_comment i) (fi_validators i) (fi_planmods i) (SNested mode (schema_attrs hs m1))).
Proof.
  intros _ Hk W. apply wins_find in W. rewrite (schema_field_nested _ _ _ _ Hk) in W. exact W.
Qed.
Print Assumptions schema_field_block.

(* at every depth: the block at the nesting path of a sub-message is the schema of the sub-message *)
Theorem schema_sub_message_at hs m ns m' :
  sub_message_at hs m ns m' -> schema_at (schema_attrs hs m) ns = Some (schema_attrs hs m').
Proof.
  induction 1 as [m|m i m1 mode ns m' Hin Hk Hw Hs IH]; cbn [schema_at]; [reflexivity|].
  rewrite (schema_field_block _ _ _ _ _ Hin Hk Hw). cbn [s_body]. rewrite nest_eqb_refl. exact IH.
Qed.
Print Assumptions schema_sub_message_at.

(* THEOREM 2.  The injected fields of a sub-message, at whatever depth, are in the block at its nesting
   path, with the attribute of the last field configured under the name *)
Theorem schema_nested_block_has_injected hs m ns m' j :
  sub_message_at hs m ns m' -> In j (m_inj m') ->
  exists blk j', schema_at (schema_attrs hs m) ns = Some blk /\
    last_inj (inj_name j) (m_inj m') = Some j' /\ inj_name j' = inj_name j /\
    find_attr (inj_name j) blk = Some (inj_attr j') /\ In (inj_attr j') blk.
Proof.
  intros Hs Hin. destruct (schema_block_has_injected hs m' j Hin) as (j' & E & _ & Hn & F & I).
  exists (schema_attrs hs m'), j'. split; [now apply schema_sub_message_at|]. auto.
Qed.
Print Assumptions schema_nested_block_has_injected.

Corollary schema_nested_block_has_injected_distinct hs m ns m' :
  sub_message_at hs m ns m' -> NoDup (map inj_name (m_inj m')) ->
  exists blk, schema_at (schema_attrs hs m) ns = Some blk /\
    forall j, In j (m_inj m') -> find_attr (inj_name j) blk = Some (inj_attr j) /\ In (inj_attr j) blk.
Proof.
  intros Hs ND. exists (schema_attrs hs m'). split; [now apply schema_sub_message_at|].
  now apply schema_block_has_injected_distinct.
Qed.
Print Assumptions schema_nested_block_has_injected_distinct.

(* the one-level form of the statement: the attribute of an object / list-of-objects / map-of-objects
   field carries a block with the injected fields of the field's message *)
Corollary schema_field_block_has_injected hs m i m1 mode j :
  In (Field i (Some m1)) (m_fields m) ->
  nest_of_kind (fi_kind i) = Some mode ->
  wins hs m (Field i (Some m1)) ->
  In j (m_inj m1) ->
  exists a blk j', find_attr (fi_snake i) (schema_attrs hs m) = Some a /\ s_body a = SNested mode blk /\
    last_inj (inj_name j) (m_inj m1) = Some j' /\ inj_name j' = inj_name j /\
    find_attr (inj_name j) blk = Some (inj_attr j') /\ In (inj_attr j') blk.
Proof.
  intros Hin Hk W Hj. destruct (schema_block_has_injected hs m1 j Hj) as (j' & E & _ & Hn & F & I).
  eexists. exists (schema_attrs hs m1), j'. split; [exact (schema_field_block _ _ _ _ _ Hin Hk W)|].
  cbn [s_body]. auto.
Qed.
Print Assumptions schema_field_block_has_injected.

(* the sub-messages without the paths; when no block puts a name twice every one of them has a path *)
Inductive sub_message : message -> message -> Prop :=
| SMRefl m : sub_message m m
| SMStep m i m1 m' :
    In (Field i (Some m1)) (m_fields m) -> nest_of_kind (fi_kind i) <> None ->
    sub_message m1 m' -> sub_message m m'.

Lemma sub_message_trans a b c : sub_message a b -> sub_message b c -> sub_message a c.
Proof. induction 1; intros H2; [exact H2|]. eapply SMStep; eauto. Qed.

Theorem schema_every_sub_message hs m m' :
  sub_message m m' ->
  (forall m0, sub_message m m0 -> NoDup (names (puts_of hs m0))) ->
  exists ns, sub_message_at hs m ns m' /\ schema_at (schema_attrs hs m) ns = Some (schema_attrs hs m').
Proof.
  intros Hs. induction Hs as [m|m i m1 m' Hin Hk Hs IH]; intros ND.
  - exists []. split; [constructor|reflexivity].
  - destruct IH as (ns & Hat & _).
    { intros m0 H0. apply ND. eapply SMStep; eauto. }
    destruct (nest_of_kind (fi_kind i)) as [mode|] eqn:Ek; [|contradiction].
    assert (Hat' : sub_message_at hs m ((fi_snake i, mode) :: ns) m').
    { eapply SubStep; eauto. apply wins_nodup; [exact Hin|]. apply ND. constructor. }
    eexists. split; [exact Hat'|]. now apply schema_sub_message_at.
Qed.
Print Assumptions schema_every_sub_message.

(* the whole tree at once: every sub-message of every field of every sub-message ..., no bound on the
   depth or on the number of fields *)
Theorem schema_whole_tree hs : forall m,
  (forall m0, sub_message m m0 -> NoDup (names (puts_of hs m0))) ->
  forall m' j, sub_message m m' -> In j (m_inj m') ->
  exists ns blk j', schema_at (schema_attrs hs m) ns = Some blk /\
    last_inj (inj_name j) (m_inj m') = Some j' /\ find_attr (inj_name j) blk = Some (inj_attr j').
Proof.
  intros m ND m' j Hs Hj.
  destruct (schema_every_sub_message hs m m' Hs ND) as (ns & Hat & _).
  destruct (schema_nested_block_has_injected hs m ns m' j Hat Hj) as (blk & j' & E1 & E2 & _ & E3 & _).
  exists ns, blk, j'. auto.
Qed.
Print Assumptions schema_whole_tree.

(* the predicate misses nothing: it holds exactly of the messages a recursive walk over the nested
   inductive collects (induction principle IR.message_ind') *)
Fixpoint all_messages (m : message) : list message :=
  match m with
  | Msg _ fs _ _ _ _ =>
      m :: flat_map (fun f => match f with
                              | Field i (Some m1) =>
                                  match nest_of_kind (fi_kind i) with Some _ => all_messages m1 | None => [] end
                              | Field _ None => []
                              end) fs
  end.

Definition child_messages (f : field) : list message :=
  match f with
  | Field i (Some m1) => match nest_of_kind (fi_kind i) with Some _ => all_messages m1 | None => [] end
  | Field _ None => []
  end.

Lemma all_messages_unfold m : all_messages m = m :: flat_map child_messages (m_fields m).
Proof. destruct m; reflexivity. Qed.

Theorem all_messages_sub : forall m m', In m' (all_messages m) <-> sub_message m m'.
Proof.
  intros m m'. split.
  - revert m'. pattern m. revert m.
    apply (message_ind' (fun f => forall m', In m' (child_messages f) ->
                                   exists i m1, f = Field i (Some m1) /\ nest_of_kind (fi_kind i) <> None /\
                                                sub_message m1 m')).
    + intros i m' [].
    + intros i m1 IH m' Hin. cbn [child_messages] in Hin.
      destruct (nest_of_kind (fi_kind i)) eqn:Ek; [|destruct Hin].
      exists i, m1. split; [reflexivity|]. split; [congruence|]. now apply IH.
    + intros n fs os inj e z IH m' Hin. rewrite all_messages_unfold in Hin. cbn [m_fields] in Hin.
      destruct Hin as [<-|Hin]; [constructor|].
      apply in_flat_map in Hin. destruct Hin as (f & Hf & Hin).
      rewrite Forall_forall in IH. destruct (IH f Hf m' Hin) as (i & m1 & -> & Hk & Hs).
      eapply SMStep; eauto.
  - induction 1 as [m|m i m1 m' Hin Hk Hs IH]; rewrite all_messages_unfold; [now left|].
    right. apply in_flat_map. exists (Field i (Some m1)). split; [exact Hin|].
    cbn [child_messages]. destruct (nest_of_kind (fi_kind i)); [exact IH|contradiction].
Qed.
Print Assumptions all_messages_sub.

(* ------------------------------------------------------------------------------------- *)
(* 4. the front end: from the descriptor and the configuration to the blocks *)

Section FrontEnd.
  Variable cfg : cfg_obs.
  Variable table : list mdesc.
  Variable hs : hook_schema_t.

  (* injected_fields is keyed by the path of the message: root or nested alike *)
  Theorem injected_as_configured fuel d path m :
    build_message cfg table fuel d path = BOk m ->
    m_inj m = match o_injected cfg path with Some l => l | None => [] end.
  Proof. intros H. exact (build_message_inj _ _ _ _ _ _ H). Qed.

  (* a declared field whose value / element / map value is a message of the request, and the nesting mode
     of its block: a message type that is neither time nor duration (by gogoproto.stdtime / stdduration /
     casttype), repeated or not; a map from strings to a message type *)
  Definition nested_target (f : fdesc) : option (string * nest) :=
    match fd_type f with
    | PMsg mn => if v_is_time (view_of_field f) || v_is_duration cfg (view_of_field f) then None
                 else Some (mn, if fd_repeated f then NList else NSingle)
    | PMap (PScalar SString) (PMsg mn) => Some (mn, NMap)
    | _ => None
    end.

  Lemma map_value_msg_type f mn fp :
    terraform_type cfg (view_of_map_value f (PMsg mn)) fp = BOk (true, KI64, GsInt64, false).
  Proof.
    unfold terraform_type, v_is_time, v_is_duration.
    cbn [view_of_map_value v_stdtime v_stddur v_type v_cast orb].
    change (String.eqb "" "time.Time") with false. change (String.eqb "" "time.Duration") with false.
    cbn [orb]. destruct (o_duration_custom_type cfg) as [|c s]; reflexivity.
  Qed.

  Lemma build_view_nested rec d f tn fp x mn mode :
    build_view cfg table rec d (view_of_field f) false tn fp (Some f) = BOk x ->
    o_excluded cfg tn fp = false ->
    fd_embed f = false ->
    nested_target f = Some (mn, mode) ->
    exists d' m' i, find_msg table mn = Some d' /\ rec d' fp = BOk m' /\ x = [Field i (Some m')] /\
      fi_snake i = attr_name cfg tn fp f /\
      fi_kind i = match custom_type_of cfg fp f with Some _ => CustomKind | None => kind_of_nest mode end.
  Proof.
    intros H Hx He Ht.
    assert (Etv : v_type (view_of_field f) = fd_type f) by reflexivity.
    assert (Erp : v_repeated (view_of_field f) =
                  (fd_repeated f || match fd_type f with PMap _ _ => true | _ => false end)%bool) by reflexivity.
    assert (Ecu : v_custom (view_of_field f) = fd_custom f) by reflexivity.
    assert (Ena : v_name (view_of_field f) = fd_name f) by reflexivity.
    assert (Ejs : v_jsontag (view_of_field f) = fd_jsontag f) by reflexivity.
    assert (Eem : v_embed (view_of_field f) = fd_embed f) by reflexivity.
    unfold nested_target in Ht.
    set (v := view_of_field f) in *.
    unfold build_view in H. rewrite Hx in H.
    destruct (terraform_type cfg v fp) as [[[[im tk] gs] z]|e|] eqn:Et; cbn [bbind] in H; try discriminate.
    pose proof (terraform_type_is_msg _ _ _ _ _ _ _ Et) as Him.
    unfold v_is_repeated, v_is_map in H. rewrite Erp, Etv, Ecu, Ena, Ejs, Eem, He in H.
    unfold attr_name, custom_type_of.
    destruct (fd_type f) as [s|en|mn0| | | |kt vt] eqn:Ety; try discriminate.
    - (* a message, repeated or not *)
      destruct (v_is_time v || v_is_duration cfg v)%bool eqn:Etd; [discriminate|]. injection Ht as <- <-.
      apply orb_false_iff in Etd. destruct Etd as [E1 E2].
      rewrite E1, E2, Etv in Him. cbn [negb andb is_message_type] in Him. subst im.
      cbn [negb andb bbind] in H.
      destruct (find_msg table mn0) as [d'|] eqn:Ef; cbn [bbind] in H; try discriminate.
      destruct (rec d' fp) as [m'|e|] eqn:Er; cbn [bbind] in H; try discriminate.
      rewrite orb_false_r in H.
      injection H as <-. exists d', m'. eexists. split; [reflexivity|]. split; [exact Er|].
      split; [reflexivity|]. cbn [fi_snake fi_kind]. split; [reflexivity|].
      destruct (o_custom_type cfg fp); [reflexivity|].
      destruct (String.eqb (fd_custom f) ""); [|reflexivity].
      destruct (fd_repeated f); reflexivity.
    - (* a map *)
      destruct kt as [s| | | | | |]; try discriminate. destruct s; try discriminate.
      destruct vt as [s|en|mn0| | | |kt' vt']; try discriminate. injection Ht as <- <-.
      cbn [negb] in H. rewrite andb_false_r in H. cbn [andb bbind] in H.
      rewrite map_value_msg_type in H. cbn [bbind] in H.
      destruct (find_msg table mn0) as [d'|] eqn:Ef; cbn [bbind] in H; try discriminate.
      destruct (rec d' fp) as [m'|e|] eqn:Er; cbn [bbind] in H; try discriminate.
      injection H as <-. exists d', m'. eexists. split; [reflexivity|]. split; [exact Er|].
      split; [reflexivity|]. cbn [fi_snake fi_kind]. split; [reflexivity|].
      destruct (o_custom_type cfg fp); [reflexivity|].
      destruct (String.eqb (fd_custom f) ""); reflexivity.
  Qed.

  Lemma not_embedded_view f : fd_embed f = false -> embedded_view cfg (view_of_field f) = false.
  Proof. intros He. unfold embedded_view. cbn [view_of_field v_embed]. rewrite He. apply andb_false_r. Qed.

  (* ... and its attribute, when no custom type takes the field away from the generator *)
  Lemma build_view_nested_attr rec d f tn fp x mn mode :
    build_view cfg table rec d (view_of_field f) false tn fp (Some f) = BOk x ->
    o_excluded cfg tn fp = false ->
    fd_embed f = false ->
    nested_target f = Some (mn, mode) ->
    custom_type_of cfg fp f = None ->
    exists d' m' i, find_msg table mn = Some d' /\ rec d' fp = BOk m' /\ x = [Field i (Some m')] /\
      fi_snake i = attr_name cfg tn fp f /\ nest_of_kind (fi_kind i) = Some mode /\
      schema_field hs (Field i (Some m')) = base_attr cfg tn fp f (SNested mode (schema_attrs hs m')).
  Proof.
    intros H Hx He Ht Hc.
    destruct (build_view_nested _ _ _ _ _ _ _ _ H Hx He Ht) as (d' & m' & i & Ef & Er & E & Hs & Hk).
    rewrite Hc in Hk.
    assert (Hk' : nest_of_kind (fi_kind i) = Some mode) by (rewrite Hk; apply nest_of_kind_of_nest).
    exists d', m', i. repeat (split; [assumption|]).
    destruct (build_view_entry cfg table hs _ _ _ _ _ _ H Hx (not_embedded_view _ He)) as (c & Ec & _ & Hspec).
    rewrite E in Ec. injection Ec as Ec. subst c.
    unfold entry_spec in Hspec. rewrite Hc in Hspec. destruct Hspec as (body & _ & Eb).
    rewrite (schema_field_nested _ _ _ _ Hk') in Eb |- *. unfold base_attr in *. congruence.
  Qed.

  (* what build_message did with a declared field *)
  Lemma declared_view_in_message fuel d path m f :
    build_message cfg table (S fuel) d path = BOk m -> In f (md_fields d) ->
    exists x, build_view cfg table (build_message cfg table fuel) d (view_of_field f) false
                         (md_name d ++ "." ++ fd_name f)
                         (if fd_embed f then path else path ++ "." ++ fd_name f) (Some f) = BOk x /\
              incl x (m_fields m).
  Proof.
    intros H Hin.
    pose proof (build_message_ok_fields _ _ _ _ _ _ H) as F. rewrite Forall_forall in F.
    destruct (F f Hin) as (x & Hv). exists x. split; [exact Hv|].
    apply build_message_ok_inv in H. destruct H as (l & Hl & Hc).
    pose proof (build_field_list_incl _ _ _ _ _ _ _ _ _ Hl Hin Hv) as I.
    intros c Hcx. apply I in Hcx.
    destruct Hc as [(E & _)|(_ & Em & _)]; [subst l; destruct Hcx|].
    rewrite Em. destruct (o_sort cfg); [now apply sort_by_perm_in|assumption].
  Qed.

  (* THEOREM 3a (IR).  The message of a declared message-typed field -- single, repeated, or the value of a
     map -- is built from the descriptor the type names, AT THE PATH path.field, and carries the injected
     fields configured for that path.  (A configured custom type makes the field a custom field: the nested
     message is still built, but the field gets no block.) *)
  Theorem nested_message_built fuel d path m f mn mode :
    build_message cfg table (S fuel) d path = BOk m ->
    In f (md_fields d) -> fd_embed f = false ->
    o_excluded cfg (md_name d ++ "." ++ fd_name f) (path ++ "." ++ fd_name f) = false ->
    nested_target f = Some (mn, mode) ->
    exists d' m' i,
      find_msg table mn = Some d' /\
      build_message cfg table fuel d' (path ++ "." ++ fd_name f) = BOk m' /\
      m_inj m' = injected_of cfg (path ++ "." ++ fd_name f) /\
      In (Field i (Some m')) (m_fields m) /\
      fi_snake i = attr_name cfg (md_name d ++ "." ++ fd_name f) (path ++ "." ++ fd_name f) f /\
      fi_kind i = match custom_type_of cfg (path ++ "." ++ fd_name f) f with
                  | Some _ => CustomKind
                  | None => kind_of_nest mode
                  end.
  Proof.
    intros H Hin He Hx Ht.
    destruct (declared_view_in_message _ _ _ _ _ H Hin) as (x & Hv & I). rewrite He in Hv.
    destruct (build_view_nested _ _ _ _ _ _ _ _ Hv Hx He Ht) as (d' & m' & i & Ef & Er & -> & Hs & Hk).
    exists d', m', i. split; [exact Ef|]. split; [exact Er|].
    split; [exact (build_message_inj _ _ _ _ _ _ Er)|]. split; [apply I; now left|]. split; assumption.
  Qed.

  Lemma puts_count fuel d path m nm :
    hook_keeps_name hs -> build_message cfg table fuel d path = BOk m ->
    count_occ string_dec (names (puts_of hs m)) nm = count_occ string_dec (all_names cfg table fuel d path) nm.
  Proof. intros Hk H. apply Permutation_count_occ. now apply puts_names_perm. Qed.

  (* THEOREM 3b (schema).  ... and the attribute of the field, found in the schema of the enclosing message
     under the documented name, has the schema of that message as its block *)
  Theorem nested_block_built fuel d path m f mn mode :
    hook_keeps_name hs ->
    build_message cfg table (S fuel) d path = BOk m ->
    In f (md_fields d) -> fd_embed f = false ->
    let tn := md_name d ++ "." ++ fd_name f in
    let fp := path ++ "." ++ fd_name f in
    let nm := attr_name cfg tn fp f in
    o_excluded cfg tn fp = false ->
    nested_target f = Some (mn, mode) ->
    custom_type_of cfg fp f = None ->
    count_occ string_dec (all_names cfg table (S fuel) d path) nm = 1 ->
    exists d' m',
      find_msg table mn = Some d' /\ build_message cfg table fuel d' fp = BOk m' /\
      m_inj m' = injected_of cfg fp /\
      sub_message_at hs m [(nm, mode)] m' /\
      find_attr nm (schema_attrs hs m) = Some (base_attr cfg tn fp f (SNested mode (schema_attrs hs m'))).
  Proof.
    intros Hk H Hin He tn fp nm Hx Ht Hc Hcount.
    destruct (declared_view_in_message _ _ _ _ _ H Hin) as (x & Hv & I). rewrite He in Hv.
    destruct (build_view_nested_attr _ _ _ _ _ _ _ _ Hv Hx He Ht Hc)
      as (d' & m' & i & Ef & Er & -> & Hs & Hk' & Hsf).
    exists d', m'. split; [exact Ef|]. split; [exact Er|].
    split; [exact (build_message_inj _ _ _ _ _ _ Er)|].
    assert (Hci : In (Field i (Some m')) (m_fields m)) by (apply I; now left).
    assert (Hn : s_name (schema_field hs (Field i (Some m'))) = nm) by (rewrite Hsf; reflexivity).
    assert (W : wins hs m (Field i (Some m'))).
    { apply wins_unique; [exact Hci|]. rewrite Hn, (puts_count _ _ _ _ _ Hk H). exact Hcount. }
    split.
    - fold tn fp nm in Hs. rewrite <- Hs. eapply SubStep; [exact Hci|exact Hk'|exact W|constructor].
    - pose proof (wins_find _ _ _ W) as Fd. rewrite Hn, Hsf in Fd. exact Fd.
  Qed.

  (* the root, or any message that is built: the injected fields configured for its path are in its block *)
  Theorem C10_injected_root fuel d path m l j :
    build_message cfg table fuel d path = BOk m ->
    o_injected cfg path = Some l ->
    m_inj m = l /\
    (last_inj (inj_name j) l = Some j ->
     find_attr (inj_name j) (schema_attrs hs m) = Some (inj_attr j) /\ In (inj_attr j) (schema_attrs hs m)).
  Proof.
    intros H E. assert (Ei : m_inj m = l).
    { rewrite (build_message_inj _ _ _ _ _ _ H). unfold injected_of. now rewrite E. }
    split; [exact Ei|]. intros L. apply schema_block_has_last_inj. now rewrite Ei.
  Qed.

  (* THEOREM 3 (end to end, one level).  A configured injected field for the path of a nested message
     appears, as configured, in the block of the attribute of that field in the schema of the enclosing
     message.  j: the last field configured under its name for that path -- any configured field when the
     configured names are distinct (last_inj_distinct). *)
  Theorem C10_injected_complete fuel d path m f mn mode l j :
    hook_keeps_name hs ->
    build_message cfg table (S fuel) d path = BOk m ->
    In f (md_fields d) -> fd_embed f = false ->
    let tn := md_name d ++ "." ++ fd_name f in
    let fp := path ++ "." ++ fd_name f in
    let nm := attr_name cfg tn fp f in
    o_excluded cfg tn fp = false ->
    nested_target f = Some (mn, mode) ->
    custom_type_of cfg fp f = None ->
    count_occ string_dec (all_names cfg table (S fuel) d path) nm = 1 ->
    o_injected cfg fp = Some l ->
    last_inj (inj_name j) l = Some j ->
    exists blk,
      find_attr nm (schema_attrs hs m) = Some (base_attr cfg tn fp f (SNested mode blk)) /\
      find_attr (inj_name j) blk = Some (inj_attr j) /\ In (inj_attr j) blk.
  Proof.
    intros Hk H Hin He tn fp nm Hx Ht Hc Hcount El Lj.
    destruct (nested_block_built _ _ _ _ _ _ _ Hk H Hin He Hx Ht Hc Hcount)
      as (d' & m' & _ & Hb & _ & _ & Fd).
    exists (schema_attrs hs m'). split; [exact Fd|].
    destruct (C10_injected_root _ _ _ _ l j Hb El) as [_ R]. exact (R Lj).
  Qed.

  (* ---- every depth: a chain of declared message-typed fields from a message of the request ---- *)
  Inductive nested_path : nat -> mdesc -> string -> list (string * nest) -> nat -> mdesc -> string -> Prop :=
  | NPHere fuel d path : nested_path fuel d path [] fuel d path
  | NPStep fuel d path f mn mode d1 ns fuel' d' path' :
      In f (md_fields d) -> fd_embed f = false ->
      o_excluded cfg (md_name d ++ "." ++ fd_name f) (path ++ "." ++ fd_name f) = false ->
      nested_target f = Some (mn, mode) ->
      custom_type_of cfg (path ++ "." ++ fd_name f) f = None ->
      count_occ string_dec (all_names cfg table (S fuel) d path)
                (attr_name cfg (md_name d ++ "." ++ fd_name f) (path ++ "." ++ fd_name f) f) = 1 ->
      find_msg table mn = Some d1 ->
      nested_path fuel d1 (path ++ "." ++ fd_name f) ns fuel' d' path' ->
      nested_path (S fuel) d path
                  ((attr_name cfg (md_name d ++ "." ++ fd_name f) (path ++ "." ++ fd_name f) f, mode) :: ns)
                  fuel' d' path'.

  Theorem nested_path_built fuel d path ns fuel' d' path' :
    hook_keeps_name hs ->
    nested_path fuel d path ns fuel' d' path' ->
    forall m, build_message cfg table fuel d path = BOk m ->
    exists m', build_message cfg table fuel' d' path' = BOk m' /\ m_inj m' = injected_of cfg path' /\
               sub_message_at hs m ns m' /\
               schema_at (schema_attrs hs m) ns = Some (schema_attrs hs m').
  Proof.
    intros Hk HP.
    induction HP as [fuel d path|fuel d path f mn mode d1 ns fuel' d' path' Hin He Hx Ht Hc Hcount Hf HP IH];
      intros m H.
    - exists m. split; [exact H|]. split; [exact (build_message_inj _ _ _ _ _ _ H)|].
      split; [constructor|reflexivity].
    - destruct (nested_block_built _ _ _ _ _ _ _ Hk H Hin He Hx Ht Hc Hcount)
        as (d0 & m1 & Ef & Eb & _ & Hat & _).
      rewrite Hf in Ef. injection Ef as <-.
      destruct (IH m1 Eb) as (m' & Hb' & Hi & Hat' & _).
      pose proof (sub_message_at_app _ _ _ _ _ _ Hat Hat') as Hall. cbn [app] in Hall.
      exists m'. split; [exact Hb'|]. split; [exact Hi|]. split; [exact Hall|].
      now apply schema_sub_message_at.
  Qed.

  (* THEOREM 3 (end to end, every depth) *)
  Theorem C10_injected_complete_deep fuel d path ns fuel' d' path' m l j :
    hook_keeps_name hs ->
    build_message cfg table fuel d path = BOk m ->
    nested_path fuel d path ns fuel' d' path' ->
    o_injected cfg path' = Some l ->
    last_inj (inj_name j) l = Some j ->
    exists blk, schema_at (schema_attrs hs m) ns = Some blk /\
      find_attr (inj_name j) blk = Some (inj_attr j) /\ In (inj_attr j) blk.
  Proof.
    intros Hk H HP El Lj.
    destruct (nested_path_built _ _ _ _ _ _ _ Hk HP m H) as (m' & Hb & _ & _ & Hat).
    exists (schema_attrs hs m'). split; [exact Hat|].
    destruct (C10_injected_root _ _ _ _ l j Hb El) as [_ R]. exact (R Lj).
  Qed.
End FrontEnd.

Print Assumptions injected_as_configured.
Print Assumptions nested_message_built.
Print Assumptions nested_block_built.
Print Assumptions C10_injected_root.
Print Assumptions C10_injected_complete.
Print Assumptions nested_path_built.
Print Assumptions C10_injected_complete_deep.

(* through the plugin run: the roots of the response, path = name of the selected type *)
Theorem C10_injected_through_run hs ps y file r root m :
  hook_keeps_name hs ->
  run ps y file = Response r -> In (root, m) (r_roots r) ->
  exists c d, read_config ps y = CfgOk c /\ In d (all_msgs file) /\ md_name d = root /\
    let cfg := obs_of c in
    let table := all_msgs file in
    let fuel := S (List.length table) in
    build_message cfg table fuel d root = BOk m /\
    forall ns fuel' d' path' l j,
      nested_path cfg table fuel d root ns fuel' d' path' ->
      lookup path' (c_injected c) = Some l ->
      last_inj (inj_name j) l = Some j ->
      exists blk, schema_at (schema_attrs hs m) ns = Some blk /\
        find_attr (inj_name j) blk = Some (inj_attr j) /\ In (inj_attr j) blk.
Proof.
  intros Hk Hr Hin. unfold run in Hr. destruct (read_config ps y) as [c|] eqn:Ec; [|discriminate].
  injection Hr as <-. cbn [r_roots] in Hin. apply C12_selected in Hin.
  destruct Hin as (Hs & d & Hd & Hn & Hb). exists c, d.
  split; [reflexivity|]. split; [exact Hd|]. split; [exact Hn|]. cbv zeta. split; [exact Hb|].
  intros ns fuel' d' path' l j HP El Lj.
  exact (C10_injected_complete_deep _ _ hs _ _ _ _ _ _ _ _ l j Hk Hb HP El Lj).
Qed.
Print Assumptions C10_injected_through_run.

(* ------------------------------------------------------------------------------------- *)
(* 5. a small file: Outer { name; Inner inner; repeated Inner items; map<string, Inner> by_key },
      Inner { value }, injected fields for the root and for each of the three nested paths *)

Module Nested.
  Local Open Scope Z_scope.
  Definition fd (n : string) (num : Z) (t : ptype) (rep : bool) : fdesc :=
    {| fd_name := n; fd_num := num; fd_type := t; fd_repeated := rep; fd_nullable := None;
       fd_embed := false; fd_cast := ""; fd_custom := ""; fd_stdtime := false; fd_stddur := false;
       fd_jsontag := None; fd_oneof := None; fd_comment := "" |}.

  Definition f_nm := fd "name" 1 (PScalar SString) false.
  Definition f_inner := fd "inner" 2 (PMsg "Inner") false.
  Definition f_items := fd "items" 3 (PMsg "Inner") true.
  Definition f_by_key := fd "by_key" 4 (PMap (PScalar SString) (PMsg "Inner")) false.

  Definition d_inner : mdesc :=
    {| md_name := "Inner"; md_comment := ""; md_oneofs := [];
       md_fields := [fd "value" 1 (PScalar SString) false] |}.
  Definition d_outer : mdesc :=
    {| md_name := "Outer"; md_comment := ""; md_oneofs := [];
       md_fields := [f_nm; f_inner; f_items; f_by_key] |}.
  Definition table := [d_inner; d_outer].

  (* name, type, required, computed, optional, plan modifiers, validators *)
  Definition j_root := Injected "id" (TyPrim KStr) false true false ["ipm()"] [].
  Definition j_inner := Injected "inner_id" (TyPrim KStr) true false false [] ["iv()"].
  Definition j_item := Injected "item_id" (TyPrim KI64) false true false [] [].
  Definition j_key := Injected "key_id" (TyPrim KBool) false false true [] [].

  Definition cfg_with (inj : list (string * list injected)) (custom : list (string * string)) : config :=
    {| c_types := ["Outer"]; c_duration_custom_type := ""; c_exclude := []; c_computed := []; c_required := [];
       c_sensitive := []; c_target_pkg := ""; c_default_pkg := ""; c_sort := false; c_use_state := false;
       c_suffixes := []; c_name_overrides := []; c_validators := []; c_planmods := []; c_time_type := false;
       c_duration_type := false; c_injected := inj; c_import_overrides := []; c_custom_types := custom |}.

  Definition cfg : config :=
    cfg_with [("Outer", [j_root]); ("Outer.inner", [j_inner]); ("Outer.items", [j_item]);
              ("Outer.by_key", [j_key])] [].

  Definition dummy : message := Msg "" [] [] [] true (GStruct []).
  Definition build (c : config) : message :=
    match build_message (obs_of c) table 3 d_outer "Outer" with BOk m => m | _ => dummy end.
  Definition m_outer : message := build cfg.

  Lemma built : build_message (obs_of cfg) table 3 d_outer "Outer" = BOk m_outer.
  Proof. vm_compute. reflexivity. Qed.

  Definition value_attr : sattr := SAttr "value" false true false false "" [] [] (SLeaf (TyPrim KStr)).

  (* the schema the model computes: the four injected attributes, each in the block of its path *)
  Example nested_schema :
    schema_attrs std_hook_schema m_outer =
    [SAttr "name" false true false false "" [] [] (SLeaf (TyPrim KStr));
     SAttr "inner" false true false false "" [] []
           (SNested NSingle [value_attr; SAttr "inner_id" true false false false "" ["iv()"] [] (SLeaf (TyPrim KStr))]);
     SAttr "items" false true false false "" [] []
           (SNested NList [value_attr; SAttr "item_id" false false true false "" [] [] (SLeaf (TyPrim KI64))]);
     SAttr "by_key" false true false false "" [] []
           (SNested NMap [value_attr; SAttr "key_id" false true false false "" [] [] (SLeaf (TyPrim KBool))]);
     SAttr "id" false false true false "" [] ["ipm()"] (SLeaf (TyPrim KStr))].
  Proof. vm_compute. reflexivity. Qed.

  Example nested_schema_at :
    find_attr "id" (schema_attrs std_hook_schema m_outer) = Some (inj_attr j_root) /\
    schema_at (schema_attrs std_hook_schema m_outer) [("inner", NSingle)] = Some [value_attr; inj_attr j_inner] /\
    schema_at (schema_attrs std_hook_schema m_outer) [("items", NList)] = Some [value_attr; inj_attr j_item] /\
    schema_at (schema_attrs std_hook_schema m_outer) [("by_key", NMap)] = Some [value_attr; inj_attr j_key].
  Proof. repeat split; vm_compute; reflexivity. Qed.

  (* the IR: the three nested messages are three different builds of Inner, one per path *)
  Example nested_ir :
    map (fun c => match c with
                  | Field i (Some m1) => (fi_snake i, fi_path i, Some (fi_kind i, m_inj m1))
                  | Field i None => (fi_snake i, fi_path i, None)
                  end) (m_fields m_outer) =
    [("name", "Outer.name", None);
     ("inner", "Outer.inner", Some (ObjectKind, [j_inner]));
     ("items", "Outer.items", Some (ObjectListKind, [j_item]));
     ("by_key", "Outer.by_key", Some (ObjectMapKind, [j_key]))]
    /\ m_inj m_outer = [j_root].
  Proof. split; vm_compute; reflexivity. Qed.

  (* theorem 3 on the three fields: the hypotheses hold, the conclusion is the attribute computed above *)
  Ltac by_theorem f mode l j :=
    let blk := fresh "blk" in let F := fresh "F" in let G := fresh "G" in let I := fresh "I" in
    destruct (C10_injected_complete (obs_of cfg) table std_hook_schema 2 d_outer "Outer" m_outer f "Inner" mode l j
                std_hook_keeps_name built ltac:(vm_compute; tauto) eq_refl ltac:(vm_compute; reflexivity)
                ltac:(vm_compute; reflexivity) ltac:(vm_compute; reflexivity) ltac:(vm_compute; reflexivity)
                ltac:(vm_compute; reflexivity) ltac:(vm_compute; reflexivity)) as (blk & F & G & I);
    exists blk; split; [eapply eq_trans; [exact F|vm_compute; reflexivity]|split; [exact G|exact I]].

  Example inner_by_theorem : exists blk,
    find_attr "inner" (schema_attrs std_hook_schema m_outer) =
      Some (SAttr "inner" false true false false "" [] [] (SNested NSingle blk)) /\
    find_attr "inner_id" blk = Some (SAttr "inner_id" true false false false "" ["iv()"] [] (SLeaf (TyPrim KStr))) /\
    In (inj_attr j_inner) blk.
  Proof. by_theorem f_inner NSingle [j_inner] j_inner. Qed.

  Example items_by_theorem : exists blk,
    find_attr "items" (schema_attrs std_hook_schema m_outer) =
      Some (SAttr "items" false true false false "" [] [] (SNested NList blk)) /\
    find_attr "item_id" blk = Some (SAttr "item_id" false false true false "" [] [] (SLeaf (TyPrim KI64))) /\
    In (inj_attr j_item) blk.
  Proof. by_theorem f_items NList [j_item] j_item. Qed.

  Example by_key_by_theorem : exists blk,
    find_attr "by_key" (schema_attrs std_hook_schema m_outer) =
      Some (SAttr "by_key" false true false false "" [] [] (SNested NMap blk)) /\
    find_attr "key_id" blk = Some (SAttr "key_id" false true false false "" [] [] (SLeaf (TyPrim KBool))) /\
    In (inj_attr j_key) blk.
  Proof. by_theorem f_by_key NMap [j_key] j_key. Qed.

  Example root_by_theorem :
    m_inj m_outer = [j_root] /\
    find_attr "id" (schema_attrs std_hook_schema m_outer) =
      Some (SAttr "id" false false true false "" [] ["ipm()"] (SLeaf (TyPrim KStr))).
  Proof.
    destruct (C10_injected_root (obs_of cfg) table std_hook_schema 3 d_outer "Outer" m_outer [j_root] j_root
                built eq_refl) as [E R].
    split; [exact E|]. exact (proj1 (R eq_refl)).
  Qed.

  (* the three nested messages are sub-messages in the sense of section 3, and the walk finds exactly them *)
  Example nested_all_messages :
    map (fun m' => (m_name m', m_inj m')) (all_messages m_outer) =
    [("Outer", [j_root]); ("Inner", [j_inner]); ("Inner", [j_item]); ("Inner", [j_key])].
  Proof. vm_compute. reflexivity. Qed.

  (* through the plugin run *)
  Definition the_file : file :=
    {| f_name := "dir/outer.proto"; f_package := "x"; f_gopkg := "example.com/x"; f_enums := [];
       f_msgs := table; f_deps := [] |}.
  Definition the_params : params := [("config", "config.yaml")].
  Definition the_yaml : yamlsrc :=
    YDoc {| y_types := Some ["Outer"]; y_duration_custom_type := None; y_exclude := None; y_computed := None;
            y_required := None; y_sensitive := None; y_target_pkg := None; y_default_pkg := None;
            y_sort := None; y_rest := cfg |}.

  Example the_run : exists r, run the_params the_yaml the_file = Response r /\ r_roots r = [("Outer", m_outer)].
  Proof. eexists. split; vm_compute; reflexivity. Qed.

  Example items_through_run : exists blk,
    schema_at (schema_attrs std_hook_schema m_outer) [("items", NList)] = Some blk /\
    find_attr "item_id" blk = Some (inj_attr j_item).
  Proof.
    destruct the_run as (r & Hr & Hroots).
    destruct (C10_injected_through_run std_hook_schema the_params the_yaml the_file r "Outer" m_outer
                std_hook_keeps_name Hr ltac:(rewrite Hroots; now left))
      as (c & d & Ec & Hd & Hn & Hb & Hall).
    vm_compute in Ec. injection Ec as <-.
    assert (Ed : d = d_outer).
    { vm_compute in Hd. destruct Hd as [<-|[<-|[]]]; [discriminate Hn|reflexivity]. }
    subst d. cbv zeta in Hall.
    destruct (Hall [("items", NList)] 2%nat d_inner "Outer.items" [j_item] j_item) as (blk & A & B & _).
    - change (nested_path (obs_of cfg) table 3 d_outer "Outer" [("items", NList)] 2 d_inner "Outer.items").
      apply (NPStep (obs_of cfg) table 2 d_outer "Outer" f_items "Inner" NList d_inner [] 2 d_inner "Outer.items");
        try (vm_compute; reflexivity); [vm_compute; tauto|constructor].
    - vm_compute. reflexivity.
    - reflexivity.
    - exists blk. split; [exact A|exact B].
  Qed.
End Nested.

(* two levels down: A { B b }, B { repeated C cs }, C { x }, an injected field for "A.b.cs" *)
Module Deep.
  Import Nested.
  Local Open Scope Z_scope.
  Definition d_c : mdesc :=
    {| md_name := "C"; md_comment := ""; md_oneofs := []; md_fields := [fd "x" 1 (PScalar SBool) false] |}.
  Definition f_cs := fd "cs" 1 (PMsg "C") true.
  Definition d_b : mdesc := {| md_name := "B"; md_comment := ""; md_oneofs := []; md_fields := [f_cs] |}.
  Definition f_b := fd "b" 1 (PMsg "B") false.
  Definition d_a : mdesc := {| md_name := "A"; md_comment := ""; md_oneofs := []; md_fields := [f_b] |}.
  Definition table := [d_a; d_b; d_c].
  Definition j_deep := Injected "deep_id" (TyPrim KStr) false true false [] [].
  Definition cfg : config := cfg_with [("A.b.cs", [j_deep])] [].
  Definition m_a : message :=
    match build_message (obs_of cfg) table 4 d_a "A" with BOk m => m | _ => dummy end.
  Lemma built : build_message (obs_of cfg) table 4 d_a "A" = BOk m_a.
  Proof. vm_compute. reflexivity. Qed.

  Example deep_schema :
    schema_attrs std_hook_schema m_a =
    [SAttr "b" false true false false "" [] []
       (SNested NSingle
          [SAttr "cs" false true false false "" [] []
             (SNested NList [SAttr "x" false true false false "" [] [] (SLeaf (TyPrim KBool));
                             SAttr "deep_id" false false true false "" [] [] (SLeaf (TyPrim KStr))])])].
  Proof. vm_compute. reflexivity. Qed.

  Lemma deep_path : nested_path (obs_of cfg) table 4 d_a "A" [("b", NSingle); ("cs", NList)] 2 d_c "A.b.cs".
  Proof.
    apply (NPStep (obs_of cfg) table 3 d_a "A" f_b "B" NSingle d_b [("cs", NList)] 2 d_c "A.b.cs");
      try (vm_compute; reflexivity); [vm_compute; tauto|].
    apply (NPStep (obs_of cfg) table 2 d_b "A.b" f_cs "C" NList d_c [] 2 d_c "A.b.cs");
      try (vm_compute; reflexivity); [vm_compute; tauto|constructor].
  Qed.

  Example deep_by_theorem : exists blk,
    schema_at (schema_attrs std_hook_schema m_a) [("b", NSingle); ("cs", NList)] = Some blk /\
    find_attr "deep_id" blk = Some (SAttr "deep_id" false false true false "" [] [] (SLeaf (TyPrim KStr))) /\
    In (inj_attr j_deep) blk.
  Proof.
    exact (C10_injected_complete_deep (obs_of cfg) table std_hook_schema 4 d_a "A" _ 2 d_c "A.b.cs" m_a
             [j_deep] j_deep std_hook_keeps_name built deep_path eq_refl eq_refl).
  Qed.
End Deep.

(* ------------------------------------------------------------------------------------- *)
(* 6. the naive statements are false of the model: what dict_put does on a name clash *)

Module Clashes.
  Import Nested.

  (* (a) two injected fields under one name: "every configured field is in the block with its own
         attribute" fails for the earlier one -- the later one takes its place *)
  Lemma schema_block_has_injected_naive_refuted :
    ~ (forall hs m j, In j (m_inj m) -> find_attr (inj_name j) (schema_attrs hs m) = Some (inj_attr j)).
  Proof.
    intros H.
    pose (j1 := Injected "id" (TyPrim KStr) false true false [] []).
    pose (j2 := Injected "id" (TyPrim KI64) true false false [] []).
    specialize (H std_hook_schema (Msg "M" [] [] [j1; j2] false (GStruct [])) j1 (or_introl eq_refl)).
    vm_compute in H. discriminate H.
  Qed.

  (* (b) an injected field called like an own attribute REPLACES it, at its place: the schema says what
         the configuration says (a computed number "name" here, where the descriptor has an optional
         string), while the IR -- hence CopyTo / CopyFrom -- still has the own field under that name *)
  Example injected_replaces_own_attribute :
    let c := cfg_with [("Outer", [Injected "name" (TyPrim KI64) false true false [] []])] [] in
    map (fun a => (s_name a, attr_ty a)) (schema_attrs std_hook_schema (build c)) =
    [("name", Some ("name", TyPrim KI64));
     ("inner", Some ("inner", TyObj [("value", TyPrim KStr)]));
     ("items", Some ("items", TyList (TyObj [("value", TyPrim KStr)])));
     ("by_key", Some ("by_key", TyMap (TyObj [("value", TyPrim KStr)])))]
    /\ map (fun c => fi_snake (f_info c)) (m_fields (build c)) = ["name"; "inner"; "items"; "by_key"].
  Proof. split; vm_compute; reflexivity. Qed.

  (* (c) an injected field called like a nested attribute replaces the whole block: the hypothesis [wins]
         of theorem 2 (count_occ ... = 1 in theorem 3) cannot be dropped, and the injected fields configured
         for the nested path go with the block *)
  Definition fi0 (snake : string) (k : kind) : finfo :=
    {| fi_name := "F"; fi_snake := snake; fi_path := "p"; fi_kind := k; fi_tk := KStr; fi_cast := GsString;
       fi_nullable := true; fi_zero := false; fi_placeholder := false; fi_oneof := None; fi_via := [];
       fi_parent := None; fi_inner := []; fi_required := false; fi_computed := false; fi_sensitive := false;
       fi_validators := []; fi_planmods := []; fi_comment := ""; fi_suffix := "" |}.

  Lemma schema_field_block_unconditional_refuted :
    ~ (forall hs m i m1 mode,
         In (Field i (Some m1)) (m_fields m) -> nest_of_kind (fi_kind i) = Some mode ->
         exists a blk, find_attr (fi_snake i) (schema_attrs hs m) = Some a /\ s_body a = SNested mode blk).
  Proof.
    intros H.
    pose (m1 := Msg "Inner" [] [] [j_inner] false (GStruct [])).
    pose (m := Msg "Outer" [Field (fi0 "inner" ObjectKind) (Some m1)] []
                   [Injected "inner" (TyPrim KStr) false true false [] []] false (GStruct [])).
    destruct (H std_hook_schema m (fi0 "inner" ObjectKind) m1 NSingle (or_introl eq_refl) eq_refl)
      as (a & blk & F & B).
    vm_compute in F. injection F as <-. discriminate B.
  Qed.

  Example injected_replaces_nested_block :
    let c := cfg_with [("Outer", [Injected "inner" (TyPrim KStr) false true false [] []]);
                       ("Outer.inner", [j_inner])] [] in
    find_attr "inner" (schema_attrs std_hook_schema (build c)) =
      Some (SAttr "inner" false false true false "" [] [] (SLeaf (TyPrim KStr)))
    /\ schema_at (schema_attrs std_hook_schema (build c)) [("inner", NSingle)] = None
    /\ (* the IR still has the nested message, with its injected field *)
       map (fun m' => (m_name m', m_inj m')) (all_messages (build c)) =
       [("Outer", [Injected "inner" (TyPrim KStr) false true false [] []]); ("Inner", [j_inner]);
        ("Inner", []); ("Inner", [])].
  Proof. repeat split; vm_compute; reflexivity. Qed.

  (* (d) a custom type configured for a message-typed field: the nested message is built (and carries the
         injected fields of its path), but the field is a custom field, its attribute is the user's *)
  Example custom_type_takes_the_block :
    let c := cfg_with [("Outer.inner", [j_inner])] [("Outer.inner", "my/pkg.T")] in
    find_attr "inner" (schema_attrs std_hook_schema (build c)) =
      Some (SAttr "inner" false true false false "hook:mypkgT:" [] [] (SLeaf (TyHook "mypkgT")))
    /\ map (fun c => match c with
                     | Field i (Some m1) => (fi_snake i, Some (fi_kind i, m_inj m1))
                     | Field i None => (fi_snake i, None)
                     end) (m_fields (build c)) =
       [("name", None); ("inner", Some (CustomKind, [j_inner])); ("items", Some (ObjectListKind, []));
        ("by_key", Some (ObjectMapKind, []))].
  Proof. split; vm_compute; reflexivity. Qed.
End Clashes.
Print Assumptions Clashes.schema_block_has_injected_naive_refuted.
Print Assumptions Clashes.schema_field_block_unconditional_refuted.
Print Assumptions Nested.items_through_run.
Print Assumptions Deep.deep_by_theorem.
