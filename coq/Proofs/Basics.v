(* Direct consequences of the model's definitions: response shape (C01), schema flags (C10),
   delegation to the user's hooks (C17), the default suffix (C17). *)
From Coq Require Import List String Ascii Bool ZArith Lia.
From PGT Require Import Base.Strs Base.AList Model.Vals Model.IR Model.Names Model.Desc Model.Build
     Model.CopyTo Model.CopyFrom Model.Schema.
Import ListNotations.
Local Open Scope string_scope.

(* ---- C01: shape of the response ---- *)
Lemma run_shape ps y f cfg :
  read_config ps y = CfgOk cfg ->
  exists r, run ps y f = Response r
    /\ r_file_name r = f_gopkg f ++ "/" ++ trim_suffix ".proto" (base_name (f_name f)) ++ "_terraform.go"
    /\ r_package r = (if String.eqb (c_target_pkg cfg) "" then base_name (f_gopkg f) else c_target_pkg cfg)
    /\ r_roots r = ok_roots cfg f.
Proof. intros H. unfold run. rewrite H. eexists. repeat split. Qed.

Lemma run_fails ps y f : read_config ps y = CfgFail -> run ps y f = Fail.
Proof. intros H. unfold run. now rewrite H. Qed.

(* every generated root is a selected type *)
Lemma build_roots_selected cfg f n r : In (n, r) (build_roots cfg f) -> mem_str n (c_types cfg) = true.
Proof.
  unfold build_roots. intros H. apply in_flat_map in H. destruct H as [d [_ H]].
  destruct (mem_str (md_name d) (c_types cfg)) eqn:E; [|contradiction].
  destruct H as [H|[]]. inversion H. subst. exact E.
Qed.

(* ---- C10: the schema entry of a field carries the field's flags and metadata ---- *)
Lemma schema_field_flags hook i om :
  fi_kind i <> CustomKind ->
  exists body, schema_field hook (Field i om) =
    SAttr (fi_snake i) (fi_required i) (negb (fi_required i)) (fi_computed i) (fi_sensitive i)
          (fi_comment i) (fi_validators i) (fi_planmods i) body.
Proof.
  intros H. cbn [schema_field]. destruct (fi_kind i) eqn:K; try congruence; eexists; reflexivity.
Qed.

(* exactly one of Required / Optional *)
Lemma schema_field_required_xor_optional hook i om :
  fi_kind i <> CustomKind ->
  match schema_field hook (Field i om) with SAttr _ req opt _ _ _ _ _ _ => xorb req opt = true end.
Proof.
  intros H. destruct (schema_field_flags hook i om H) as [b E]. rewrite E. now destruct (fi_required i).
Qed.

Lemma inj_attr_as_configured n t req comp opt pms vals :
  inj_attr (Injected n t req comp opt pms vals) = SAttr n req opt comp false EmptyString vals pms (SLeaf t).
Proof. reflexivity. Qed.

(* ---- C17: custom-type fields are delegated to the three hooks ---- *)
Lemma schema_field_custom hook i om :
  fi_kind i = CustomKind ->
  schema_field hook (Field i om) =
    hook (fi_suffix i) (SAttr (fi_snake i) (fi_required i) (negb (fi_required i)) (fi_computed i) (fi_sensitive i)
                              (fi_comment i) (fi_validators i) (fi_planmods i) SNoType).
Proof. intros H. cbn [schema_field]. rewrite H. reflexivity. Qed.

(* the value handed to the hook: the field, or the zero value of its type when the nullable embedded
   message it is promoted from is not set *)
Definition custom_source (i : finfo) (obj : goval) : res goval :=
  match fi_parent i with
  | Some (_, pzero) => do z <- gfield pzero (fi_name i); read_source i z obj
  | None => gget_via obj (fi_via i) (fi_name i)
  end.

Lemma to_field_custom hook i om obj atys attrs ds t :
  fi_kind i = CustomKind -> lookup (fi_snake i) atys = Some t ->
  to_field hook (Field i om) obj atys (attrs, ds) =
    do g <- custom_source i obj;
    Ok (update (fi_snake i) (hook (fi_suffix i) g t (lookup (fi_snake i) attrs)) attrs, ds).
Proof. intros K T. cbn [to_field]. rewrite T, K. reflexivity. Qed.

(* an ordinary field (not promoted from an embedded pointer) is read directly *)
Lemma custom_source_plain i obj : fi_parent i = None -> custom_source i obj = gget_via obj (fi_via i) (fi_name i).
Proof. intros P. unfold custom_source. rewrite P. reflexivity. Qed.

Lemma to_field_custom_missing hook i om obj atys attrs ds :
  lookup (fi_snake i) atys = None ->
  to_field hook (Field i om) obj atys (attrs, ds) = Ok (attrs, diag_append ds (WriteMissing, fi_path i)).
Proof. intros T. cbn [to_field]. rewrite T. reflexivity. Qed.

Lemma from_field_custom hook i om attrs obj ds :
  fi_kind i = CustomKind ->
  from_field hook (Field i om) attrs (obj, ds) =
    let a0 := match attrs with Some l => lookup (fi_snake i) l | None => None end in
    do obj1 <- alloc_parent i obj;
    do cur <- gget_via obj1 (fi_via i) (fi_name i);
    do obj' <- gset_via obj1 (fi_via i) (fi_name i) (hook (fi_suffix i) a0 cur);
    Ok (obj', match a0 with None => diag_append ds (ReadMissing, fi_path i) | Some _ => ds end).
Proof. intros K. cbn [from_field]. rewrite K. reflexivity. Qed.

(* the default suffix is the type name without dots and slashes *)
Lemma remove_char_absent c s : contains_char c (remove_char c s) = false.
Proof.
  induction s as [|d r IH]; cbn; [reflexivity|].
  destruct (ascii_eqb c d) eqn:E; [exact IH|]. cbn. rewrite E. exact IH.
Qed.

Lemma contains_remove_other c d s : contains_char c s = false -> contains_char c (remove_char d s) = false.
Proof.
  induction s as [|e r IH]; cbn; [reflexivity|].
  intros H. apply orb_false_iff in H. destruct H as [H1 H2].
  destruct (ascii_eqb d e); [auto|]. cbn. rewrite H1. auto.
Qed.

Lemma default_suffix_clean t :
  contains_char "."%char (default_suffix t) = false /\ contains_char "/"%char (default_suffix t) = false.
Proof.
  unfold default_suffix. split; [apply remove_char_absent|].
  apply contains_remove_other. apply remove_char_absent.
Qed.
