(* Echo of planned values through the emitted converters (C08), exclusivity of oneof branches in
   the CopyTo direction (C07) and null-ness of collections and messages on an empty target (C20).
   Results which depend on the float32 <-> float64 conversions (Proofs/Floats.v, through Flocq and
   the axioms of the standard library's real numbers) are in lemmas of their own; the others have
   a closed Print Assumptions. *)
From Coq Require Import List String Bool ZArith Lia.
From Coq Require Import Floats.SpecFloat.
From PGT Require Import Base.Strs Base.AList Model.Vals Model.IR Model.CopyTo Model.CopyFrom.
From PGT Require Import Proofs.Ints Proofs.Floats Proofs.CopyToProofs Proofs.CopyFromProofs
     Proofs.RoundTripProofs.
Import ListNotations.
Local Open Scope Z_scope.

(* ------------------------------------------------------------------------------------- *)
(* 3. oneof exclusivity, CopyTo direction, empty target (C07) *)

Lemma read_holder_plain i h obj :
  fi_via i = [] -> fi_parent i = None -> read_holder i h obj = gfield obj h.
Proof. intros V P. unfold read_holder, parent_is_nil. rewrite P, V. reflexivity. Qed.

(* the oneof stub of a branch field: the payload of the active branch, the zero value otherwise *)
Lemma read_field_oneof_inactive i h bz obj :
  fi_oneof i = Some h -> fi_via i = [] -> fi_parent i = None ->
  gfield obj h = Ok (GOneof None)
  \/ (exists b v, gfield obj h = Ok (GOneof (Some (b, v))) /\ b <> fi_name i) ->
  read_field i bz obj = Ok bz.
Proof.
  intros O V P G. unfold read_field. rewrite O, (read_holder_plain i h obj V P).
  destruct G as [G|(b & v & G & N)]; rewrite G; cbn [bind]; [reflexivity|].
  apply String.eqb_neq in N. now rewrite N.
Qed.

Lemma read_field_oneof_active i h bz obj g :
  fi_oneof i = Some h -> fi_via i = [] -> fi_parent i = None ->
  gfield obj h = Ok (GOneof (Some (fi_name i, g))) ->
  read_field i bz obj = Ok g.
Proof.
  intros O V P G. unfold read_field. rewrite O, (read_holder_plain i h obj V P), G. cbn [bind].
  now rewrite String.eqb_refl.
Qed.

(* genPrimitiveBody of a value branch on an absent attribute: null iff the value read is zero *)
Lemma to_prim_value_oneof i h g p obj ds :
  fi_oneof i = Some h -> fi_placeholder i = false -> fi_nullable i = false -> fi_zero i = true ->
  cast_to (fi_tk i) g = Ok p ->
  to_prim_value i (Ok g) obj (TyPrim (fi_tk i)) None ds
  = Ok (VPrim (fi_tk i) (prim_is_zero p) false p, ds).
Proof.
  intros O Pl Nu Z C. unfold to_prim_value. rewrite O, Pl, Nu, Z. cbn [null_value].
  rewrite tfkind_eqb_refl. cbn [bind]. rewrite C. reflexivity.
Qed.

(* every inactive primitive branch is written null (its payload is the cast of the zero value) *)
Lemma to_field_oneof_inactive hook i om obj atys attrs ds h pz :
  fi_oneof i = Some h -> fi_kind i = PrimitiveKind -> fi_nullable i = false ->
  fi_placeholder i = false -> fi_zero i = true -> fi_via i = [] -> fi_parent i = None ->
  cast_to (fi_tk i) (zero_scalar (fi_cast i)) = Ok pz -> prim_is_zero pz = true ->
  lookup (fi_snake i) atys = Some (TyPrim (fi_tk i)) -> lookup (fi_snake i) attrs = None ->
  gfield obj h = Ok (GOneof None)
  \/ (exists b v, gfield obj h = Ok (GOneof (Some (b, v))) /\ b <> fi_name i) ->
  to_field hook (Field i om) obj atys (attrs, ds)
  = Ok (update (fi_snake i) (VPrim (fi_tk i) true false pz) attrs, ds).
Proof.
  intros O K Nu Pl Z V P C PZ T A G. rewrite to_field_eq. cbv zeta. rewrite T, A, K, O.
  rewrite (read_field_oneof_inactive i h _ obj O V P G), (read_holder_plain i h obj V P).
  assert (E : exists hv, gfield obj h = Ok hv) by (destruct G as [G|(b & v & G & _)]; eauto).
  destruct E as [hv ->]. cbn [bind]. unfold zero_of_prim. rewrite Nu.
  rewrite (to_prim_value_oneof i h _ pz obj ds O Pl Nu Z C), PZ. reflexivity.
Qed.

(* the active primitive branch is non-null iff its payload is not the zero value *)
Lemma to_field_oneof_active hook i om obj atys attrs ds h g p :
  fi_oneof i = Some h -> fi_kind i = PrimitiveKind -> fi_nullable i = false ->
  fi_placeholder i = false -> fi_zero i = true -> fi_via i = [] -> fi_parent i = None ->
  lookup (fi_snake i) atys = Some (TyPrim (fi_tk i)) -> lookup (fi_snake i) attrs = None ->
  gfield obj h = Ok (GOneof (Some (fi_name i, g))) -> cast_to (fi_tk i) g = Ok p ->
  to_field hook (Field i om) obj atys (attrs, ds)
  = Ok (update (fi_snake i) (VPrim (fi_tk i) (prim_is_zero p) false p) attrs, ds).
Proof.
  intros O K Nu Pl Z V P T A G C. rewrite to_field_eq. cbv zeta. rewrite T, A, K, O.
  rewrite (read_field_oneof_active i h _ obj g O V P G), (read_holder_plain i h obj V P), G.
  cbn [bind]. rewrite (to_prim_value_oneof i h g p obj ds O Pl Nu Z C). reflexivity.
Qed.

(* message branches: a branch which is not the active one, or whose wrapper holds a nil message,
   is written as a null object *)
Lemma to_field_oneof_msg_inactive hook i m' obj atys attrs ds h ats :
  fi_oneof i = Some h -> fi_kind i = ObjectKind -> fi_nullable i = true ->
  fi_via i = [] -> fi_parent i = None ->
  lookup (fi_snake i) atys = Some (TyObj ats) -> lookup (fi_snake i) attrs = None ->
  gfield obj h = Ok (GOneof None)
  \/ (exists b v, gfield obj h = Ok (GOneof (Some (b, v))) /\ b <> fi_name i)
  \/ gfield obj h = Ok (GOneof (Some (fi_name i, GPtr None))) ->
  to_field hook (Field i (Some m')) obj atys (attrs, ds)
  = Ok (update (fi_snake i) (VObj ats true false (Some [])) attrs, ds).
Proof.
  intros O K Nu V P T A G. rewrite to_field_eq. cbv zeta. rewrite T, A, K, Nu.
  assert (R : read_source i (GPtr None) obj = Ok (GPtr None)).
  { unfold read_source. rewrite O. destruct G as [G|[G|G]].
    - apply (read_field_oneof_inactive i h); auto.
    - apply (read_field_oneof_inactive i h); auto.
    - apply (read_field_oneof_active i h); auto. }
  rewrite R. cbn [bind]. unfold obj_value. rewrite Nu. reflexivity.
Qed.

(* the active message branch holding a message is never null *)
Lemma to_field_oneof_msg_active hook i m' obj atys attrs ds attrs' ds' h ats s :
  fi_oneof i = Some h -> fi_kind i = ObjectKind -> fi_nullable i = true ->
  fi_via i = [] -> fi_parent i = None ->
  lookup (fi_snake i) atys = Some (TyObj ats) -> lookup (fi_snake i) attrs = None ->
  gfield obj h = Ok (GOneof (Some (fi_name i, GPtr (Some s)))) ->
  to_field hook (Field i (Some m')) obj atys (attrs, ds) = Ok (attrs', ds') ->
  exists l, lookup (fi_snake i) attrs' = Some (VObj ats false false (Some l)).
Proof.
  intros O K Nu V P T A G H. rewrite to_field_eq in H. cbv zeta in H. rewrite T, A, K, Nu in H.
  assert (R : read_source i (GPtr None) obj = Ok (GPtr (Some s))).
  { unfold read_source. rewrite O. apply (read_field_oneof_active i h); auto. }
  rewrite R in H. cbn [bind] in H. unfold obj_value in H. rewrite Nu in H. cbn [bind] in H.
  destruct (to_fields hook m' (if m_empty m' then obj else s) ats ([], ds)) as [[a1 d1]|];
    cbn [bind] in H; [|discriminate].
  injection H as <- <-. eexists. apply lookup_update_eq.
Qed.

Print Assumptions to_field_oneof_inactive.
Print Assumptions to_field_oneof_active.
Print Assumptions to_field_oneof_msg_inactive.
Print Assumptions to_field_oneof_msg_active.

(* ------------------------------------------------------------------------------------- *)
(* 4. collections and messages on the empty target (C20) *)

Ltac step_all := repeat match goal with E : _ = Ok _ |- _ => progress (step E) end.

(* lists: a nil or empty source gives a null list *)
Lemma to_field_list_absent_empty hook i om obj atys attrs ds attrs' ds' ety src :
  fi_kind i = PrimitiveListKind \/ fi_kind i = ObjectListKind ->
  fi_via i = [] -> fi_parent i = None -> fi_oneof i = None ->
  lookup (fi_snake i) atys = Some (TyList ety) -> lookup (fi_snake i) attrs = None ->
  gfield obj (fi_name i) = Ok (GSlice src) -> src = None \/ src = Some [] ->
  to_field hook (Field i om) obj atys (attrs, ds) = Ok (attrs', ds') ->
  lookup (fi_snake i) attrs' = Some (VList ety true false (Some [])).
Proof.
  intros K V P O T A G S H. rewrite to_field_eq in H. cbv zeta in H. rewrite T, A in H.
  rewrite (read_source_plain i (GSlice None) obj V P O), G in H. cbn [bind] in H.
  destruct S as [-> | ->]; destruct K as [K|K]; rewrite K in H; cbv beta iota in H;
    cbn [fold_left List.length] in H.
  1,2: injection H as <- <-; rewrite lookup_update_eq; reflexivity.
  all: step_all; rewrite lookup_update_eq; reflexivity.
Qed.

(* ... and a source with an element a non-null one *)
Lemma to_field_list_absent_nonempty hook i om obj atys attrs ds attrs' ds' ety x l :
  fi_kind i = PrimitiveListKind \/ fi_kind i = ObjectListKind ->
  fi_via i = [] -> fi_parent i = None -> fi_oneof i = None ->
  lookup (fi_snake i) atys = Some (TyList ety) -> lookup (fi_snake i) attrs = None ->
  gfield obj (fi_name i) = Ok (GSlice (Some (x :: l))) ->
  to_field hook (Field i om) obj atys (attrs, ds) = Ok (attrs', ds') ->
  exists vs, lookup (fi_snake i) attrs' = Some (VList ety false false (Some vs)).
Proof.
  intros K V P O T A G H. rewrite to_field_eq in H. cbv zeta in H. rewrite T, A in H.
  rewrite (read_source_plain i (GSlice None) obj V P O), G in H. cbn [bind] in H.
  destruct K as [K|K]; rewrite K in H; cbv beta iota in H.
  all: match type of H with bind ?c _ = _ => destruct c as [[vs dsx]|] end; cbn [bind] in H; [|discriminate].
  all: injection H as <- <-; eexists; rewrite lookup_update_eq; reflexivity.
Qed.

(* maps *)
Lemma to_field_map_absent_empty hook i om obj atys attrs ds attrs' ds' ety src :
  fi_kind i = PrimitiveMapKind \/ fi_kind i = ObjectMapKind ->
  fi_via i = [] -> fi_parent i = None -> fi_oneof i = None ->
  lookup (fi_snake i) atys = Some (TyMap ety) -> lookup (fi_snake i) attrs = None ->
  gfield obj (fi_name i) = Ok (GMap src) -> src = None \/ src = Some [] ->
  to_field hook (Field i om) obj atys (attrs, ds) = Ok (attrs', ds') ->
  lookup (fi_snake i) attrs' = Some (VMap ety true false (Some [])).
Proof.
  intros K V P O T A G S H. rewrite to_field_eq in H. cbv zeta in H. rewrite T, A in H.
  rewrite (read_source_plain i (GMap None) obj V P O), G in H. cbn [bind] in H.
  destruct S as [-> | ->]; destruct K as [K|K]; rewrite K in H; cbv beta iota in H;
    cbn [fold_left] in H.
  1,2: injection H as <- <-; rewrite lookup_update_eq; reflexivity.
  all: step_all; rewrite lookup_update_eq; reflexivity.
Qed.

Lemma to_field_map_absent_nonempty hook i om obj atys attrs ds attrs' ds' ety x l :
  fi_kind i = PrimitiveMapKind \/ fi_kind i = ObjectMapKind ->
  fi_via i = [] -> fi_parent i = None -> fi_oneof i = None ->
  lookup (fi_snake i) atys = Some (TyMap ety) -> lookup (fi_snake i) attrs = None ->
  gfield obj (fi_name i) = Ok (GMap (Some (x :: l))) ->
  to_field hook (Field i om) obj atys (attrs, ds) = Ok (attrs', ds') ->
  exists es, lookup (fi_snake i) attrs' = Some (VMap ety false false (Some es)).
Proof.
  intros K V P O T A G H. rewrite to_field_eq in H. cbv zeta in H. rewrite T, A in H.
  rewrite (read_source_plain i (GMap None) obj V P O), G in H. cbn [bind] in H.
  destruct K as [K|K]; rewrite K in H; cbv beta iota in H.
  all: match type of H with bind ?c _ = _ => destruct c as [[es dsx]|] end; cbn [bind] in H; [|discriminate].
  all: injection H as <- <-; eexists; rewrite lookup_update_eq; reflexivity.
Qed.

(* messages: a nil pointer gives a null object, whatever the message *)
Lemma to_field_obj_absent_nil hook i m' obj atys attrs ds ats :
  fi_kind i = ObjectKind -> fi_nullable i = true ->
  fi_via i = [] -> fi_parent i = None -> fi_oneof i = None ->
  lookup (fi_snake i) atys = Some (TyObj ats) -> lookup (fi_snake i) attrs = None ->
  gfield obj (fi_name i) = Ok (GPtr None) ->
  to_field hook (Field i (Some m')) obj atys (attrs, ds)
  = Ok (update (fi_snake i) (VObj ats true false (Some [])) attrs, ds).
Proof.
  intros K Nu V P O T A G. rewrite to_field_eq. cbv zeta. rewrite T, A, K, Nu.
  rewrite (read_source_plain i (GPtr None) obj V P O), G. cbn [bind]. unfold obj_value.
  rewrite Nu. reflexivity.
Qed.

Corollary to_field_obj_absent_nil_lookup hook i m' obj atys attrs ds attrs' ds' ats :
  fi_kind i = ObjectKind -> fi_nullable i = true ->
  fi_via i = [] -> fi_parent i = None -> fi_oneof i = None ->
  lookup (fi_snake i) atys = Some (TyObj ats) -> lookup (fi_snake i) attrs = None ->
  gfield obj (fi_name i) = Ok (GPtr None) ->
  to_field hook (Field i (Some m')) obj atys (attrs, ds) = Ok (attrs', ds') ->
  lookup (fi_snake i) attrs' = Some (VObj ats true false (Some [])) /\ ds' = ds.
Proof.
  intros K Nu V P O T A G H.
  rewrite (to_field_obj_absent_nil hook i m' obj atys attrs ds ats K Nu V P O T A G) in H.
  injection H as <- <-. split; [apply lookup_update_eq|reflexivity].
Qed.

(* a pointer to a message: never null *)
Lemma to_field_obj_absent_some hook i m' obj atys attrs ds attrs' ds' ats s :
  fi_kind i = ObjectKind -> fi_nullable i = true ->
  fi_via i = [] -> fi_parent i = None -> fi_oneof i = None ->
  lookup (fi_snake i) atys = Some (TyObj ats) -> lookup (fi_snake i) attrs = None ->
  gfield obj (fi_name i) = Ok (GPtr (Some s)) ->
  to_field hook (Field i (Some m')) obj atys (attrs, ds) = Ok (attrs', ds') ->
  exists l, lookup (fi_snake i) attrs' = Some (VObj ats false false (Some l)).
Proof.
  intros K Nu V P O T A G H. rewrite to_field_eq in H. cbv zeta in H. rewrite T, A, K, Nu in H.
  rewrite (read_source_plain i (GPtr None) obj V P O), G in H. cbn [bind] in H.
  unfold obj_value in H. rewrite Nu in H. cbn [bind] in H.
  destruct (to_fields hook m' (if m_empty m' then obj else s) ats ([], ds)) as [[a1 d1]|];
    cbn [bind] in H; [|discriminate].
  injection H as <- <-. eexists. apply lookup_update_eq.
Qed.

(* a message held by value: never null *)
Lemma to_field_obj_absent_value hook i m' obj atys attrs ds attrs' ds' ats :
  fi_kind i = ObjectKind -> fi_nullable i = false ->
  fi_via i = [] -> fi_parent i = None -> fi_oneof i = None ->
  lookup (fi_snake i) atys = Some (TyObj ats) -> lookup (fi_snake i) attrs = None ->
  to_field hook (Field i (Some m')) obj atys (attrs, ds) = Ok (attrs', ds') ->
  exists l, lookup (fi_snake i) attrs' = Some (VObj ats false false (Some l)).
Proof.
  intros K Nu V P O T A H. rewrite to_field_eq in H. cbv zeta in H. rewrite T, A, K, Nu in H.
  rewrite (read_source_plain i (m_zero m') obj V P O) in H.
  destruct (gfield obj (fi_name i)) as [g|]; cbn [bind] in H; [|discriminate].
  unfold obj_value in H. rewrite Nu in H.
  destruct (m_empty m'); cbn [bind] in H.
  all: step_all; eexists; apply lookup_update_eq.
Qed.

Print Assumptions to_field_list_absent_empty.
Print Assumptions to_field_list_absent_nonempty.
Print Assumptions to_field_map_absent_empty.
Print Assumptions to_field_map_absent_nonempty.
Print Assumptions to_field_obj_absent_nil.
Print Assumptions to_field_obj_absent_nil_lookup.
Print Assumptions to_field_obj_absent_some.
Print Assumptions to_field_obj_absent_value.

(* ------------------------------------------------------------------------------------- *)
(* 1. reverse scalar round trip (C08): payload -> Go field -> payload *)

(* the payload of a planned value is in the range of the Go scalar type of the field *)
Definition payload_in_range (s : goscalar) (p : prim) : Prop :=
  match s, p with
  | GsInt32, PInt z | GsEnum, PInt z => - 2^31 <= z < 2^31
  | GsInt64, PInt z | GsDuration, PInt z => - 2^63 <= z < 2^63
  | GsUint32, PInt z => 0 <= z < 2^32
  | GsUint64, PInt z => - 2^63 <= z < 2^63        (* every int64 payload denotes one uint64 *)
  | GsFloat64, PF64 _ => True
  | GsFloat32, PF64 x => exists y, SpecFloat.valid_binary 24 128 y = true /\ y <> S754_nan /\ x = widen y
  | GsBool, PBool _ | GsString, PStr _ | GsBytes, PStr _ | GsTime, PTime _ _ _ => True
  | _, _ => False
  end.

(* int64 -> uint64 -> int64 *)
Lemma wrap_s64_u64 z : - 2 ^ 63 <= z < 2 ^ 63 -> wrap_s 64 (wrap_u 64 z) = z.
Proof.
  intros H. unfold wrap_s, wrap_u. cbv zeta. rewrite Z.mod_mod by (ranges; lia).
  change (2 ^ (64 - 1)) with (2 ^ 63). ranges.
  destruct (Z_lt_le_dec z 0) as [N|N].
  - assert (E : z mod 18446744073709551616 = z + 18446744073709551616)
      by (symmetry; apply Z.mod_unique with (q := -1); lia).
    rewrite E. destruct (Z.ltb_spec (z + 18446744073709551616) 9223372036854775808); lia.
  - rewrite Z.mod_small by lia. destruct (Z.ltb_spec z 9223372036854775808); lia.
Qed.

Theorem payload_round_trip_nofloat s p :
  s <> GsFloat32 -> payload_in_range s p ->
  exists g, cast_from s p = Ok g /\ cast_to (kind_of s) g = Ok p.
Proof.
  intros NF H.
  destruct s; try congruence; destruct p as [z|x|x|b|x|a b c]; cbn [payload_in_range] in H;
    try contradiction; cbn [cast_from kind_of]; eexists; (split; [reflexivity|]); cbn [cast_to];
    try reflexivity; ranges.
  - (* int32 *) rewrite wrap_s32_small by lia. rewrite wrap_s64_small by lia. reflexivity.
  - (* int64 *) rewrite !(wrap_s64_small z) by lia. reflexivity.
  - (* uint32 *) rewrite wrap_u32_small by lia. rewrite wrap_s64_small by lia. reflexivity.
  - (* uint64 *) rewrite wrap_s64_u64 by (ranges; lia). reflexivity.
  - (* enum *) rewrite wrap_s32_small by lia. rewrite wrap_s64_small by lia. reflexivity.
Qed.

Print Assumptions payload_round_trip_nofloat.

Lemma payload_round_trip_float32 p :
  payload_in_range GsFloat32 p ->
  exists g, cast_from GsFloat32 p = Ok g /\ cast_to (kind_of GsFloat32) g = Ok p.
Proof.
  intros H. destruct p as [z|x|x|b|x|a b c]; cbn [payload_in_range] in H; try contradiction.
  destruct H as (y & Hv & Hn & ->). exists (GPrim (PF32 y)). cbn [cast_from kind_of cast_to].
  rewrite (narrow_widen y Hv Hn). split; reflexivity.
Qed.

Theorem payload_round_trip s p :
  payload_in_range s p -> exists g, cast_from s p = Ok g /\ cast_to (kind_of s) g = Ok p.
Proof.
  intros H. assert (D : s = GsFloat32 \/ s <> GsFloat32) by (destruct s; (now left) || (right; discriminate)).
  destruct D as [->|N]; [now apply payload_round_trip_float32|now apply payload_round_trip_nofloat].
Qed.

Print Assumptions payload_round_trip.

(* ------------------------------------------------------------------------------------- *)
(* 2. apply echo for one scalar attribute (C08): the planned value is read into the Go field by
   CopyFrom and written back by CopyTo over the planned value *)

(* the zero value of every scalar type has a payload of the paired kind *)
Lemma cast_to_zero_scalar s : exists pz, cast_to (kind_of s) (zero_scalar s) = Ok pz.
Proof. destruct s; eexists; reflexivity. Qed.

(* value field; the scalar fact is a hypothesis, instantiated below *)
Lemma echo_prim_aux i n p obj t ds g :
  fi_nullable i = false -> fi_placeholder i = false -> fi_oneof i = None -> fi_parent i = None ->
  fi_tk i = kind_of (fi_cast i) ->
  (n = false -> exists g', cast_from (fi_cast i) p = Ok g' /\ cast_to (kind_of (fi_cast i)) g' = Ok p) ->
  from_prim_value i n false p = Ok g ->
  exists p', to_prim_value i (Ok g) obj t (Some (VPrim (fi_tk i) n false p)) ds
             = Ok (VPrim (fi_tk i) n false p', ds)
             /\ (n = false -> p' = p).
Proof.
  intros Nu Pl O P Hk RT F. rewrite to_prim_value_kinded. unfold prim_finish, parent_is_nil.
  rewrite Pl, O, P, Nu. cbn [bind].
  unfold from_prim_value in F. destruct n; cbn [known negb andb] in F.
  - injection F as <-. unfold zero_of_prim. rewrite Nu, Hk.
    destruct (cast_to_zero_scalar (fi_cast i)) as [pz ->]. cbn [bind].
    exists pz. split; [reflexivity|discriminate].
  - destruct (RT eq_refl) as (g' & C & D). rewrite C in F. cbn [bind] in F. rewrite Nu in F.
    injection F as <-. rewrite Hk, D. cbn [bind]. exists p. split; reflexivity.
Qed.

(* float32 excluded: axiom free *)
Theorem echo_prim_nofloat i n p obj t ds g :
  fi_cast i <> GsFloat32 ->
  fi_nullable i = false -> fi_placeholder i = false -> fi_oneof i = None -> fi_parent i = None ->
  fi_tk i = kind_of (fi_cast i) ->
  (n = false -> payload_in_range (fi_cast i) p) ->
  from_prim_value i n false p = Ok g ->
  exists p', to_prim_value i (Ok g) obj t (Some (VPrim (fi_tk i) n false p)) ds
             = Ok (VPrim (fi_tk i) n false p', ds)
             /\ (n = false -> p' = p).
Proof.
  intros NF Nu Pl O P Hk R F. apply echo_prim_aux; auto.
  intros E. apply payload_round_trip_nofloat; auto.
Qed.

Print Assumptions echo_prim_nofloat.

Theorem echo_prim i n p obj t ds g :
  fi_nullable i = false -> fi_placeholder i = false -> fi_oneof i = None -> fi_parent i = None ->
  fi_tk i = kind_of (fi_cast i) ->
  (n = false -> payload_in_range (fi_cast i) p) ->
  from_prim_value i n false p = Ok g ->
  exists p', to_prim_value i (Ok g) obj t (Some (VPrim (fi_tk i) n false p)) ds
             = Ok (VPrim (fi_tk i) n false p', ds)
             /\ (n = false -> p' = p).
Proof.
  intros Nu Pl O P Hk R F. apply echo_prim_aux; auto.
  intros E. apply payload_round_trip; auto.
Qed.

Print Assumptions echo_prim.

(* an unknown planned value: whatever is read and whatever the field is, the value written is
   known *)
Lemma echo_unknown_becomes_known i rd obj t k n p ds v ds' :
  to_prim_value i rd obj t (Some (VPrim k n true p)) ds = Ok (v, ds') ->
  exists n' p', v = VPrim (fi_tk i) n' false p'.
Proof. apply to_prim_value_shape. Qed.

(* ... and for the value field: CopyFrom leaves the zero value in the field, CopyTo writes its
   payload, known, with the null flag the unknown value carried *)
Lemma echo_prim_unknown i n p obj t ds g :
  fi_nullable i = false -> fi_placeholder i = false -> fi_oneof i = None -> fi_parent i = None ->
  fi_tk i = kind_of (fi_cast i) ->
  from_prim_value i n true p = Ok g ->
  g = zero_scalar (fi_cast i) /\
  exists pz, cast_to (fi_tk i) (zero_scalar (fi_cast i)) = Ok pz
             /\ to_prim_value i (Ok g) obj t (Some (VPrim (fi_tk i) n true p)) ds
                = Ok (VPrim (fi_tk i) n false pz, ds).
Proof.
  intros Nu Pl O P Hk F. rewrite from_prim_value_null in F by (destruct n; reflexivity).
  injection F as <-. unfold zero_of_prim. rewrite Nu. split; [reflexivity|].
  rewrite to_prim_value_kinded. unfold prim_finish, parent_is_nil. rewrite Pl, O, P, Nu. cbn [bind].
  rewrite Hk. destruct (cast_to_zero_scalar (fi_cast i)) as [pz ->]. cbn [bind].
  exists pz. split; reflexivity.
Qed.

(* pointer-backed scalar: a known null planned value gives a nil pointer and is written back
   null, payload untouched *)
Lemma echo_prim_ptr_null i p obj t ds g :
  fi_nullable i = true -> fi_placeholder i = false -> fi_oneof i = None -> fi_parent i = None ->
  from_prim_value i true false p = Ok g ->
  g = GPtr None
  /\ to_prim_value i (Ok g) obj t (Some (VPrim (fi_tk i) true false p)) ds
     = Ok (VPrim (fi_tk i) true false p, ds).
Proof.
  intros Nu Pl O P F. rewrite from_prim_value_null in F by reflexivity. injection F as <-.
  unfold zero_of_prim. rewrite Nu. split; [reflexivity|].
  rewrite to_prim_value_kinded. unfold prim_finish, parent_is_nil. rewrite Pl, O, P, Nu. reflexivity.
Qed.

(* ... an unknown one too: a nil pointer, written back null and known *)
Lemma echo_prim_ptr_unknown i n p obj t ds g :
  fi_nullable i = true -> fi_placeholder i = false -> fi_oneof i = None -> fi_parent i = None ->
  from_prim_value i n true p = Ok g ->
  g = GPtr None
  /\ to_prim_value i (Ok g) obj t (Some (VPrim (fi_tk i) n true p)) ds
     = Ok (VPrim (fi_tk i) true false p, ds).
Proof.
  intros Nu Pl O P F. rewrite from_prim_value_null in F by (destruct n; reflexivity). injection F as <-.
  unfold zero_of_prim. rewrite Nu. split; [reflexivity|].
  rewrite to_prim_value_kinded. unfold prim_finish, parent_is_nil. rewrite Pl, O, P, Nu. reflexivity.
Qed.

(* ... and a known non-null value in range comes back unchanged and non-null *)
Lemma echo_prim_ptr_aux i p obj t ds g :
  fi_nullable i = true -> fi_placeholder i = false -> fi_oneof i = None -> fi_parent i = None ->
  fi_tk i = kind_of (fi_cast i) ->
  (exists g', cast_from (fi_cast i) p = Ok g' /\ cast_to (kind_of (fi_cast i)) g' = Ok p) ->
  from_prim_value i false false p = Ok g ->
  (exists c, g = GPtr (Some c))
  /\ to_prim_value i (Ok g) obj t (Some (VPrim (fi_tk i) false false p)) ds
     = Ok (VPrim (fi_tk i) false false p, ds).
Proof.
  intros Nu Pl O P Hk (g' & C & D) F. unfold from_prim_value in F. cbn [known negb andb] in F.
  rewrite C in F. cbn [bind] in F. rewrite Nu in F. injection F as <-. split; [eauto|].
  rewrite to_prim_value_kinded. unfold prim_finish, parent_is_nil. rewrite Pl, O, P, Nu. cbn [bind].
  rewrite Hk, D. reflexivity.
Qed.

Theorem echo_prim_ptr_nofloat i p obj t ds g :
  fi_cast i <> GsFloat32 ->
  fi_nullable i = true -> fi_placeholder i = false -> fi_oneof i = None -> fi_parent i = None ->
  fi_tk i = kind_of (fi_cast i) ->
  payload_in_range (fi_cast i) p ->
  from_prim_value i false false p = Ok g ->
  (exists c, g = GPtr (Some c))
  /\ to_prim_value i (Ok g) obj t (Some (VPrim (fi_tk i) false false p)) ds
     = Ok (VPrim (fi_tk i) false false p, ds).
Proof.
  intros NF Nu Pl O P Hk R F. apply echo_prim_ptr_aux; auto. apply payload_round_trip_nofloat; auto.
Qed.

Theorem echo_prim_ptr i p obj t ds g :
  fi_nullable i = true -> fi_placeholder i = false -> fi_oneof i = None -> fi_parent i = None ->
  fi_tk i = kind_of (fi_cast i) ->
  payload_in_range (fi_cast i) p ->
  from_prim_value i false false p = Ok g ->
  (exists c, g = GPtr (Some c))
  /\ to_prim_value i (Ok g) obj t (Some (VPrim (fi_tk i) false false p)) ds
     = Ok (VPrim (fi_tk i) false false p, ds).
Proof.
  intros Nu Pl O P Hk R F. apply echo_prim_ptr_aux; auto. apply payload_round_trip; auto.
Qed.

Print Assumptions echo_unknown_becomes_known.
Print Assumptions echo_prim_unknown.
Print Assumptions echo_prim_ptr_null.
Print Assumptions echo_prim_ptr_unknown.
Print Assumptions echo_prim_ptr_nofloat.
Print Assumptions echo_prim_ptr.

(* ------------------------------------------------------------------------------------- *)
(* the castability hypothesis of [to_field_oneof_inactive] holds for every scalar type with a
   zero literal paired with its kind; the requested form of the lemma follows *)

Lemma zero_scalar_payload_zero s :
  zero_lit s = true -> exists pz, cast_to (kind_of s) (zero_scalar s) = Ok pz /\ prim_is_zero pz = true.
Proof. destruct s; try discriminate; intros _; eexists; split; reflexivity. Qed.

Corollary to_field_oneof_inactive_kinded hook i om obj atys attrs ds h :
  fi_oneof i = Some h -> fi_kind i = PrimitiveKind -> fi_nullable i = false ->
  fi_placeholder i = false -> fi_zero i = true -> fi_via i = [] -> fi_parent i = None ->
  fi_tk i = kind_of (fi_cast i) -> zero_lit (fi_cast i) = true ->
  lookup (fi_snake i) atys = Some (TyPrim (fi_tk i)) -> lookup (fi_snake i) attrs = None ->
  gfield obj h = Ok (GOneof None)
  \/ (exists b v, gfield obj h = Ok (GOneof (Some (b, v))) /\ b <> fi_name i) ->
  exists pz, to_field hook (Field i om) obj atys (attrs, ds)
             = Ok (update (fi_snake i) (VPrim (fi_tk i) true false pz) attrs, ds).
Proof.
  intros O K Nu Pl Z V P Hk ZL T A G. destruct (zero_scalar_payload_zero _ ZL) as (pz & C & PZ).
  exists pz. apply (to_field_oneof_inactive hook i om obj atys attrs ds h pz); auto. now rewrite Hk.
Qed.

Print Assumptions to_field_oneof_inactive_kinded.

(* non-vacuity: the negative int64 payloads of a uint64 field, the extremes *)
Example payload_uint64_minus_one :
  payload_in_range GsUint64 (PInt (-1))
  /\ cast_from GsUint64 (PInt (-1)) = Ok (GPrim (PInt (2 ^ 64 - 1)))
  /\ cast_to KI64 (GPrim (PInt (2 ^ 64 - 1))) = Ok (PInt (-1)).
Proof. split; [cbn; lia|]. split; vm_compute; reflexivity. Qed.
Example payload_int32_out_of_range : ~ payload_in_range GsInt32 (PInt (2 ^ 31)).
Proof. cbn. lia. Qed.
