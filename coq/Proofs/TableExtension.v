(* C12, last sentence: what is generated for a selected type is unaffected by unrelated messages of
   the file and by unrelated dependency files of the request.

   The request reaches the builder as [table = all_msgs f] (the messages of the dependency files, then
   those of the file) and is consulted in three ways only:
     (a) [find_msg table n]: first match by [md_name];
     (b) the roots: the selected descriptors *of the list* [table] (build_roots ranges over it);
     (c) [length table]: the recursion bound of [build_message] and of [zero_struct] is
         [S (length table)].
   (a) is what "extension by messages whose names do not clash" preserves ([table_extends]); (b) and (c)
   are the two other things an extension has to preserve ([request_extends]); on tables with pairwise
   distinct names (a) implies (b) and (c) ([request_extends_nodup]).

   Results (no bound on sizes, every theorem closed under the global context):
   1. [table_extends_app], [table_extends_prepend], [table_extends_insert]: appending always extends,
      prepending / inserting does when the new names are not names of the messages that follow.
   2. [build_message_ext]: one relation [T] between the outcome in the small table with fuel [k] and
      the outcome in the large table with fuel [k' >= k]:
        BOk m   |->  BOk m' with m, m' equal up to the zero values (or equal, see 3);
        BErr e  |->  the same error, unless e is "failed to resolve message X" with X not in the small table;
        BFuel   |->  BFuel, unless k < k'.
      Read from left to right this is fuel monotonicity + table extension; read from right to left it is
      the converse direction ([build_message_restrict]).
   3. The zero value [zero_struct table (S (length table)) n] is the one place where [length table] can
      leak into a *successful* build. [zero_stable]: it is unchanged when the by-value nesting of Go
      structs below [n] resolves within the fuel ([zres], a boolean); [zero_resolved] asks it of every
      message of the table. Go rejects a struct that contains itself by value, so on the descriptors of a
      Go package that compiles the nesting depth is below the number of messages and the hypothesis
      holds as soon as every by-value reference resolves: [by_value_wf_resolved] proves [zero_resolved]
      from "by-value references resolve and are well founded". Without it the statement is false of the
      model: [C12_unrelated_messages_refuted].
   4. [C12_unrelated_messages_partial] (top level, ok_roots), its instances for one more dependency
      file / more messages, [C12_unrelated_messages_converse] and the reason why the converse is only
      a trichotomy ([C12_converse_refuted]: the fuel is the length of the table, and the depth of a build
      is not bounded by it because exclusion is by path).
   5. [unrelated_nonvacuous]: a computed example. *)
From Coq Require Import List String Ascii Bool Arith ZArith Lia.
From PGT Require Import Base.Strs Base.AList Model.Vals Model.IR Model.Names Model.Desc Model.Build.
From PGT Require Import Proofs.FrontEndProofs Proofs.BuildProofs Proofs.ExclusionProofs.
Import ListNotations.
Local Open Scope string_scope.

(* ------------------------------------------------------------------------------------- *)
(* 1. extensions of the table *)

(* find_msg is by md_name, first match *)
Definition table_extends (t t' : list mdesc) : Prop :=
  forall n d, find_msg t n = Some d -> find_msg t' n = Some d.

(* no message of [extra] has the name of a message of [t] *)
Definition fresh_for (extra t : list mdesc) : Prop :=
  forall x d, In x extra -> In d t -> md_name x <> md_name d.

Lemma find_msg_app a b n :
  find_msg (a ++ b) n = match find_msg a n with Some d => Some d | None => find_msg b n end.
Proof.
  unfold find_msg. induction a as [|x a IH]; cbn [app find]; [reflexivity|].
  destruct (String.eqb (md_name x) n); [reflexivity|exact IH].
Qed.

Lemma find_msg_some t n d : find_msg t n = Some d -> In d t /\ md_name d = n.
Proof.
  unfold find_msg. intros H. apply find_some in H. destruct H as (Hi & He).
  split; [exact Hi|]. now apply String.eqb_eq.
Qed.

Lemma find_msg_in_some t d : In d t -> find_msg t (md_name d) <> None.
Proof.
  unfold find_msg. intros Hd H. pose proof (find_none _ _ H d Hd) as F. cbn beta in F.
  rewrite String.eqb_refl in F. discriminate.
Qed.

Lemma find_msg_fresh extra t n d : fresh_for extra t -> find_msg t n = Some d -> find_msg extra n = None.
Proof.
  intros Hf H. destruct (find_msg extra n) as [x|] eqn:E; [|reflexivity].
  apply find_msg_some in H. apply find_msg_some in E.
  destruct H as (Hd & Hn), E as (Hx & Hxn). exfalso. apply (Hf x d Hx Hd). congruence.
Qed.

Lemma table_extends_refl t : table_extends t t.
Proof. intros n d H. exact H. Qed.

Lemma table_extends_trans t1 t2 t3 : table_extends t1 t2 -> table_extends t2 t3 -> table_extends t1 t3.
Proof. intros H1 H2 n d H. apply H2, H1, H. Qed.

(* new messages in the middle: only the messages *after* the insertion point can be shadowed *)
Lemma table_extends_insert a extra b : fresh_for extra b -> table_extends (a ++ b) (a ++ extra ++ b).
Proof.
  intros Hf n d. rewrite !find_msg_app. destruct (find_msg a n) as [x|]; [auto|].
  intros H. now rewrite (find_msg_fresh extra b n d Hf H).
Qed.

(* more messages in the file (they come last): always *)
Lemma table_extends_app t extra : table_extends t (t ++ extra).
Proof.
  intros n d H. rewrite find_msg_app, H. reflexivity.
Qed.

(* one more dependency file (they come first): when the names do not clash *)
Lemma table_extends_prepend t extra : fresh_for extra t -> table_extends t (extra ++ t).
Proof. intros Hf. exact (table_extends_insert [] extra t Hf). Qed.

(* first match: a clashing name in front does shadow *)
Example table_extends_prepend_needs_fresh :
  let a := {| md_name := "A"; md_comment := ""; md_oneofs := []; md_fields := [] |} in
  let a' := {| md_name := "A"; md_comment := "another"; md_oneofs := []; md_fields := [] |} in
  ~ table_extends [a] ([a'] ++ [a]).
Proof. cbv zeta. intros H. specialize (H "A" _ eq_refl). discriminate H. Qed.

(* what an extension of the request has to preserve: the lookups, the roots, and the recursion bound *)
Definition request_extends (t t' : list mdesc) : Prop :=
  table_extends t t' /\ incl t t' /\ List.length t <= List.length t'.

Lemma request_extends_refl t : request_extends t t.
Proof. split; [apply table_extends_refl|]. split; [apply incl_refl|apply le_n]. Qed.

Lemma request_extends_trans t1 t2 t3 : request_extends t1 t2 -> request_extends t2 t3 -> request_extends t1 t3.
Proof.
  intros (A1 & B1 & C1) (A2 & B2 & C2). split; [eapply table_extends_trans; eassumption|].
  split; [eapply incl_tran; eassumption|lia].
Qed.

Lemma request_extends_insert a extra b : fresh_for extra b -> request_extends (a ++ b) (a ++ extra ++ b).
Proof.
  intros Hf. split; [now apply table_extends_insert|]. split.
  - intros x Hx. apply in_app_or in Hx. apply in_or_app. destruct Hx as [Hx|Hx]; [now left|].
    right. apply in_or_app. now right.
  - rewrite !app_length. lia.
Qed.

Lemma request_extends_app t extra : request_extends t (t ++ extra).
Proof.
  pose proof (request_extends_insert t extra [] (fun x d _ Hd => match Hd with end)) as H.
  now rewrite !app_nil_r in H.
Qed.

Lemma request_extends_prepend t extra : fresh_for extra t -> request_extends t (extra ++ t).
Proof. intros Hf. exact (request_extends_insert [] extra t Hf). Qed.

(* in front and behind at once; the names in front must be fresh for the table and for what follows *)
Lemma request_extends_around t pre post :
  fresh_for pre (t ++ post) -> request_extends t (pre ++ t ++ post).
Proof.
  intros Hf. eapply request_extends_trans; [apply (request_extends_app t post)|].
  now apply request_extends_prepend.
Qed.

(* on a table with pairwise distinct names the lookups are the whole story *)
Lemma find_msg_nodup t d : NoDup (map md_name t) -> In d t -> find_msg t (md_name d) = Some d.
Proof.
  unfold find_msg. induction t as [|x r IH]; intros ND Hd; [destruct Hd|].
  cbn [map] in ND. inversion ND as [|? ? Nx ND']; subst. cbn [find].
  destruct (String.eqb_spec (md_name x) (md_name d)) as [E|N].
  - destruct Hd as [->|Hd]; [reflexivity|]. exfalso. apply Nx. rewrite E. now apply in_map.
  - destruct Hd as [->|Hd]; [congruence|]. now apply IH.
Qed.

Lemma request_extends_nodup t t' :
  NoDup (map md_name t) -> table_extends t t' -> request_extends t t'.
Proof.
  intros ND Hx.
  assert (Hi : incl t t').
  { intros d Hd. pose proof (Hx _ _ (find_msg_nodup t d ND Hd)) as H. now apply find_msg_some in H. }
  split; [exact Hx|]. split; [exact Hi|].
  apply NoDup_incl_length; [|exact Hi]. eapply NoDup_map_inv; exact ND.
Qed.

(* ------------------------------------------------------------------------------------- *)
(* 2. the zero values *)

(* the field makes the Go struct of its message contain the Go struct of [mn] by value *)
Definition by_value_ref (f : fdesc) : option string :=
  match fd_oneof f with
  | Some _ => None
  | None =>
      match fd_type f with
      | PMsg mn => if fd_repeated f then None else if gogo_star f then None else Some mn
      | _ => None
      end
  end.

(* the by-value nesting of Go structs below [n] resolves, and does so within [fuel] levels *)
Fixpoint zres (table : list mdesc) (fuel : nat) (n : string) : bool :=
  match fuel with
  | O => false
  | S k =>
      match find_msg table n with
      | None => false
      | Some m => forallb (fun f => match by_value_ref f with Some mn => zres table k mn | None => true end)
                          (md_fields m)
      end
  end.

(* ... for every message of the table, with the fuel the builder uses. By-value nesting cannot be
   cyclic in Go ("invalid recursive type"), so on the descriptors of a Go package that compiles a chain
   of by-value references visits pairwise distinct messages and is shorter than the table: the
   condition then says that every by-value reference resolves in the request (protoc puts every
   imported file in it). *)
Definition zero_resolved (table : list mdesc) : bool :=
  forallb (fun d => zres table (S (List.length table)) (md_name d)) table.

(* the body of zero_struct, with the recursive call abstracted *)
Definition zero_field (rec : string -> goval) (f : fdesc) : list (string * goval) :=
  let gname := go_name (fd_name f) in
  match fd_oneof f with
  | Some _ => []
  | None =>
      match fd_type f with
      | PMap _ _ => [(gname, GMap None)]
      | _ =>
          if fd_repeated f then [(gname, GSlice None)]
          else if gogo_star f then
            (if fd_embed f then match fd_type f with PMsg mn => [(mn, GPtr None)] | _ => [(gname, GPtr None)] end
             else [(gname, GPtr None)])
          else
            match fd_type f with
            | PMsg mn =>
                match rec mn with
                | GStruct fs => if fd_embed f then fs else [(gname, GStruct fs)]
                | z => [(gname, z)]
                end
            | PTimestamp => [(gname, if fd_stdtime f then zero_scalar GsTime else GStruct [])]
            | PDuration => [(gname, if fd_stddur f then zero_scalar GsDuration else GStruct [])]
            | PScalar s => [(gname, zero_scalar (snd (scalar_info s)))]
            | PEnum _ => [(gname, zero_scalar GsEnum)]
            | _ => [(gname, GStruct [])]
            end
      end
  end.

Lemma zero_struct_S table k n :
  zero_struct table (S k) n =
  match find_msg table n with
  | None => GStruct []
  | Some m => GStruct (flat_map (zero_field (zero_struct table k)) (md_fields m)
                       ++ map (fun o => (go_name o, GOneof None)) (md_oneofs m))
  end.
Proof. reflexivity. Qed.

Lemma zero_field_ext rec rec' f :
  (forall mn, by_value_ref f = Some mn -> rec mn = rec' mn) -> zero_field rec f = zero_field rec' f.
Proof.
  unfold zero_field, by_value_ref. destruct (fd_oneof f); [reflexivity|].
  destruct (fd_type f) as [s|en|mn| | | |kt vt]; try reflexivity.
  intros H. destruct (fd_repeated f); [reflexivity|]. destruct (gogo_star f); [reflexivity|].
  now rewrite (H mn eq_refl).
Qed.

Lemma flat_map_ext_in {A B} (g h : A -> list B) l :
  (forall x, In x l -> g x = h x) -> flat_map g l = flat_map h l.
Proof.
  induction l as [|x r IH]; intros H; cbn [flat_map]; [reflexivity|].
  rewrite (H x (or_introl eq_refl)), IH; [reflexivity|]. intros y Hy. apply H. now right.
Qed.

Theorem zero_stable table table' k k' n :
  table_extends table table' -> zres table k n = true -> k <= k' ->
  zero_struct table' k' n = zero_struct table k n.
Proof.
  intros Hx. revert k' n. induction k as [|k IH]; intros k' n H Hle; [discriminate|].
  destruct k' as [|k']; [lia|]. rewrite !zero_struct_S. cbn [zres] in H.
  destruct (find_msg table n) as [m|] eqn:E; [|discriminate]. rewrite (Hx _ _ E).
  rewrite forallb_forall in H. f_equal. f_equal. apply flat_map_ext_in. intros f Hf.
  apply zero_field_ext. intros mn Hmn. specialize (H f Hf). rewrite Hmn in H. apply IH; [exact H|lia].
Qed.
Print Assumptions zero_stable.

Lemma zres_mono table table' k k' n :
  table_extends table table' -> zres table k n = true -> k <= k' -> zres table' k' n = true.
Proof.
  intros Hx. revert k' n. induction k as [|k IH]; intros k' n H Hle; [discriminate|].
  destruct k' as [|k']; [lia|]. cbn [zres] in *.
  destruct (find_msg table n) as [m|] eqn:E; [|discriminate]. rewrite (Hx _ _ E).
  rewrite forallb_forall in *. intros f Hf. specialize (H f Hf).
  destruct (by_value_ref f); [|reflexivity]. apply IH; [exact H|lia].
Qed.

Lemma zero_resolved_stable table table' n :
  table_extends table table' -> List.length table <= List.length table' ->
  zero_resolved table = true -> find_msg table n <> None ->
  zero_struct table' (S (List.length table')) n = zero_struct table (S (List.length table)) n.
Proof.
  intros Hx Hl Hz Hn. destruct (find_msg table n) as [d|] eqn:E; [|congruence].
  apply find_msg_some in E. destruct E as (Hd & <-).
  unfold zero_resolved in Hz. rewrite forallb_forall in Hz.
  apply zero_stable; [exact Hx|exact (Hz d Hd)|lia].
Qed.

(* the extended request is again resolved at the old names (so the theorems below can be chained) *)
Lemma zero_resolved_old table table' d :
  request_extends table table' -> zero_resolved table = true -> In d table ->
  zres table' (S (List.length table')) (md_name d) = true.
Proof.
  intros (Hx & _ & Hl) Hz Hd. unfold zero_resolved in Hz. rewrite forallb_forall in Hz.
  eapply zres_mono; [exact Hx|exact (Hz d Hd)|lia].
Qed.

(* The hypothesis in terms of the descriptors alone: every by-value reference resolves, and by-value
   containment is well founded (what Go asks of struct types). Then a chain of by-value references
   visits pairwise distinct messages of the table, so S (length table) levels are enough. *)
Definition bv_edge (t : list mdesc) (n mn : string) : Prop :=
  exists m f, find_msg t n = Some m /\ In f (md_fields m) /\ by_value_ref f = Some mn.

Definition by_value_wf (t : list mdesc) : Prop :=
  (forall n mn, bv_edge t n mn -> find_msg t mn <> None) /\
  (exists rank : string -> nat, forall n mn, bv_edge t n mn -> rank mn < rank n).

Lemma zres_by_rank t (rank : string -> nat) :
  (forall n mn, bv_edge t n mn -> find_msg t mn <> None) ->
  (forall n mn, bv_edge t n mn -> rank mn < rank n) ->
  forall k seen n,
    NoDup seen -> incl seen (map md_name t) -> (forall s, In s seen -> rank n < rank s) ->
    S (List.length t) <= List.length seen + k -> find_msg t n <> None -> zres t k n = true.
Proof.
  intros Hclosed Hdec. induction k as [|k IH]; intros seen n ND Hincl Hseen Hlen Hn.
  - exfalso. pose proof (NoDup_incl_length ND Hincl) as H. rewrite map_length in H. lia.
  - cbn [zres]. destruct (find_msg t n) as [m|] eqn:E; [|congruence].
    apply forallb_forall. intros f Hf. destruct (by_value_ref f) as [mn|] eqn:Eb; [|reflexivity].
    assert (Hedge : bv_edge t n mn) by (exists m, f; auto).
    pose proof (Hdec _ _ Hedge) as Hlt.
    apply IH with (seen := n :: seen).
    + constructor; [|exact ND]. intros Hin. specialize (Hseen n Hin). lia.
    + intros s [<-|Hs]; [|now apply Hincl]. destruct (find_msg_some _ _ _ E) as (Hd & <-). now apply in_map.
    + intros s [<-|Hs]; [exact Hlt|]. specialize (Hseen s Hs). lia.
    + cbn [List.length]. lia.
    + exact (Hclosed _ _ Hedge).
Qed.

Theorem by_value_wf_resolved t : by_value_wf t -> zero_resolved t = true.
Proof.
  intros (Hclosed & rank & Hdec). unfold zero_resolved. apply forallb_forall. intros d Hd.
  apply (zres_by_rank t rank Hclosed Hdec (S (List.length t)) []).
  - constructor.
  - intros s [].
  - intros s [].
  - cbn [List.length]. lia.
  - now apply find_msg_in_some.
Qed.
Print Assumptions by_value_wf_resolved.

(* ------------------------------------------------------------------------------------- *)
(* 3. the builder: small table with fuel k  vs  large table with fuel k' >= k *)

Section Rel.
  Variable table : list mdesc.                 (* the small table *)

  Definition unresolved (e : string) : Prop :=
    exists mn, e = "failed to resolve message " ++ mn /\ find_msg table mn = None.

  (* [G]: "the large side has strictly more fuel" *)
  Definition T {A} (G : Prop) (R : A -> A -> Prop) (r r' : bres A) : Prop :=
    match r with
    | BOk x => exists x', r' = BOk x' /\ R x x'
    | BErr e => r' = BErr e \/ unresolved e
    | BFuel => r' = BFuel \/ G
    end.

  Lemma T_refl {A} G (R : A -> A -> Prop) r : (forall x, R x x) -> T G R r r.
  Proof. intros HR. destruct r as [x|e|]; cbn [T]; [exists x; auto|now left|now left]. Qed.

  Lemma T_weaken {A} (G G' : Prop) (R : A -> A -> Prop) r r' : (G -> G') -> T G R r r' -> T G' R r r'.
  Proof. intros HG. destruct r as [x|e|]; cbn [T]; [auto|auto|]. intros [H|H]; auto. Qed.

  Lemma T_bind {A B} G (RA : A -> A -> Prop) (RB : B -> B -> Prop) r r' k k' :
    T G RA r r' -> (forall x x', RA x x' -> T G RB (k x) (k' x')) -> T G RB (bbind r k) (bbind r' k').
  Proof.
    intros Hr Hk. destruct r as [x|e|]; cbn [T] in Hr.
    - destruct Hr as (x' & -> & Hx). cbn [bbind]. now apply Hk.
    - cbn [bbind T]. destruct Hr as [->|Hu]; [now left|now right].
    - cbn [bbind T]. destruct Hr as [->|Hg]; [now left|now right].
  Qed.
End Rel.

Section Ext.
  Variable cfg : cfg_obs.
  Variables table table' : list mdesc.
  Variable Z : string -> goval -> goval.       (* erase_zero: up to the zero values; keep_zero: literally *)
  Hypothesis Hext : table_extends table table'.

  Definition Rm (m m' : message) : Prop := rz_msg Z m = rz_msg Z m'.
  Definition Rl (l l' : list field) : Prop := map (rz_field Z) l = map (rz_field Z) l'.
  Definition Ro (o o' : option message) : Prop := option_map (rz_msg Z) o = option_map (rz_msg Z) o'.
  Definition rz_mv (p : option (bool * tfkind * goscalar * bool * option message)) :=
    option_map (fun q => let '(a, b, c, d, vom) := q in (a, b, c, d, option_map (rz_msg Z) vom)) p.
  Definition Rmv p p' : Prop := rz_mv p = rz_mv p'.

  Lemma Rl_refl l : Rl l l. Proof. reflexivity. Qed.
  Lemma Ro_refl o : Ro o o. Proof. reflexivity. Qed.
  Lemma Rmv_refl p : Rmv p p. Proof. reflexivity. Qed.

  (* the part of build_view after the nested message has been built: map values, then the field *)
  Ltac solveK Hres :=
    let s := fresh "s" in let en := fresh "en" in let mn := fresh "mn" in
    let kt := fresh "kt" in let vt := fresh "vt" in let f := fresh "f" in
    let s2 := fresh "s" in let tt1 := fresh "tt" in
    let vmsg := fresh "vmsg" in let vtk := fresh "vtk" in let vgs := fresh "vgs" in let vz := fresh "vz" in
    let vom := fresh "vom" in let vom' := fresh "vom'" in let Hv := fresh "Hv" in
    let mv := fresh "mv" in let mv' := fresh "mv'" in let Hmv := fresh "Hmv" in
    let a1 := fresh "a" in let a2 := fresh "a" in let a3 := fresh "a" in let a4 := fresh "a" in
    let b1 := fresh "b" in let b2 := fresh "b" in let b3 := fresh "b" in let b4 := fresh "b" in
    let Hvom := fresh "Hvom" in
    eapply T_bind with (RA := Rmv);
    [ match goal with |- context [v_type ?v] => destruct (v_type v) as [s|en|mn| | | |kt vt] end;
      try (apply T_refl, Rmv_refl);
      match goal with |- context [match ?o with Some _ => _ | None => BOk None end] => destruct o as [f|] end;
      [|apply T_refl, Rmv_refl];
      destruct kt as [s2| | | | | |]; try (apply T_refl, Rmv_refl);
      destruct s2; try (apply T_refl, Rmv_refl);
      eapply T_bind with (RA := eq); [apply T_refl; reflexivity|];
      intros tt1 ? <-; destruct tt1 as [[[vmsg vtk] vgs] vz]; cbv beta iota zeta;
      eapply T_bind with (RA := Ro);
      [ destruct vmsg; [|apply T_refl, Ro_refl]; destruct vt; try (apply T_refl, Ro_refl); apply Hres
      | intros vom vom' Hv; cbn [T]; eexists; split; [reflexivity|];
        unfold Rmv, rz_mv; cbn [option_map]; unfold Ro in Hv; now rewrite Hv ]
    | intros mv mv' Hmv;
      destruct mv as [[[[[a1 a2] a3] a4] vom]|], mv' as [[[[[b1 b2] b3] b4] vom']|];
      unfold Rmv, rz_mv in Hmv; cbn [option_map] in Hmv; try discriminate Hmv;
      [ injection Hmv as -> -> -> -> Hvom | clear Hmv ];
      cbv beta iota zeta; cbn [T]; eexists; (split; [reflexivity|]); unfold Rl; cbn [map]; rewrite !rz_field_eq;
      f_equal; f_equal; assumption ].

  Lemma build_view_T G rec rec' d v b tn fp o :
    (forall mn d1, find_msg table mn = Some d1 -> T table G Rm (rec d1 fp) (rec' d1 fp)) ->
    T table G Rl (build_view cfg table rec d v b tn fp o) (build_view cfg table' rec' d v b tn fp o).
  Proof.
    intros Hrec.
    assert (Hres : forall mn,
      T table G Ro
        (match find_msg table mn with
         | Some d0 => bdo m' <- rec d0 fp; BOk (Some m')
         | None => BErr ("failed to resolve message " ++ mn)
         end)
        (match find_msg table' mn with
         | Some d0 => bdo m' <- rec' d0 fp; BOk (Some m')
         | None => BErr ("failed to resolve message " ++ mn)
         end)).
    { intros mn. destruct (find_msg table mn) as [d1|] eqn:E.
      - rewrite (Hext _ _ E). eapply T_bind; [exact (Hrec _ _ E)|].
        intros x x' Hx. cbn [T]. eexists. split; [reflexivity|]. unfold Ro. cbn [option_map]. now rewrite Hx.
      - cbn [T]. right. exists mn. auto. }
    unfold build_view.
    destruct (o_excluded cfg tn fp); [apply T_refl, Rl_refl|].
    eapply T_bind with (RA := eq); [apply T_refl; reflexivity|].
    intros tt0 ? <-. destruct tt0 as [[[im tk] gs] zr]. cbv beta iota zeta.
    eapply T_bind with (RA := Ro).
    { destruct (im && negb (v_is_map v)); [|apply T_refl, Ro_refl].
      destruct (v_type v); try (apply T_refl, Ro_refl). apply Hres. }
    intros om om' Hom.
    unfold Ro in Hom.
    destruct om as [x|], om' as [x'|]; cbn [option_map] in Hom; try discriminate Hom.
    - destruct (im && negb (v_is_map v) && v_embed v).
      + injection Hom as Hxx. destruct (negb (v_star v)); cbn [T]; (eexists; split; [reflexivity|]); unfold Rl.
        * now rewrite <- !rz_msg_fields, Hxx.
        * change (map (rz_field Z) (map (embed_field (m_name x) (m_zero x)) (m_fields x)) =
                  map (rz_field Z) (map (embed_field (m_name x') (m_zero x')) (m_fields x'))).
          now rewrite !rz_embed_map, Hxx.
      + change (Some (rz_msg Z x)) with (option_map (rz_msg Z) (Some x)) in Hom.
        change (Some (rz_msg Z x')) with (option_map (rz_msg Z) (Some x')) in Hom.
        solveK Hres.
    - change (@None message) with (option_map (rz_msg Z) None) in Hom at 1.
      solveK Hres.
  Qed.
  Lemma build_field_list_T G rec rec' d path l :
    (forall mn d1 p, find_msg table mn = Some d1 -> T table G Rm (rec d1 p) (rec' d1 p)) ->
    T table G Rl (build_field_list cfg table rec d path l) (build_field_list cfg table' rec' d path l).
  Proof.
    intros Hrec. induction l as [|f r IH]; [apply T_refl, Rl_refl|].
    rewrite !build_field_list_cons.
    eapply T_bind; [apply build_view_T; intros mn d1 E; exact (Hrec mn d1 _ E)|].
    intros x x' Hx. eapply T_bind; [exact IH|].
    intros y y' Hy. cbn [T]. eexists. split; [reflexivity|].
    unfold Rl in *. now rewrite !map_app, Hx, Hy.
  Qed.

  (* the zero values of the two tables agree, as far as [Z] looks at them, at the names [P] that are built *)
  Variable P : string -> Prop.
  Hypothesis HP : forall n d, find_msg table n = Some d -> P (md_name d).
  Hypothesis HZ : forall n, P n ->
    Z n (zero_struct table (S (List.length table)) n) = Z n (zero_struct table' (S (List.length table')) n).

  Theorem build_message_T k k' d path :
    k <= k' -> P (md_name d) ->
    T table (k < k') Rm (build_message cfg table k d path) (build_message cfg table' k' d path).
  Proof.
    revert k' d path. induction k as [|k IH]; intros k' d path Hle Hd.
    - cbn [build_message T]. destruct k' as [|k']; [now left|right; lia].
    - destruct k' as [|k']; [lia|]. rewrite !build_message_S.
      apply T_weaken with (G := k < k'); [lia|].
      eapply T_bind with (RA := Rl).
      + apply build_field_list_T. intros mn d1 p E. apply IH; [lia|exact (HP _ _ E)].
      + intros l l' Hl. cbn [T]. eexists. split; [reflexivity|].
        unfold Rm, Rl in *. rewrite !rz_msg_eq, (HZ _ Hd).
        (* no field left in the one table iff none in the other *)
        destruct l as [|c r], l' as [|c' r']; try discriminate Hl; [reflexivity|].
        f_equal. destruct (o_sort cfg); [|exact Hl].
        rewrite <- !(sort_by_map _ (rz_field Z)) by apply rz_field_name. now rewrite Hl.
  Qed.
End Ext.

(* 3a. fuel monotonicity and table extension, up to the zero values: no hypothesis *)
Theorem build_message_ext cfg table table' k k' d path m :
  table_extends table table' -> k <= k' ->
  build_message cfg table k d path = BOk m ->
  exists m', build_message cfg table' k' d path = BOk m' /\ ir_eq_mod_zero m m'.
Proof.
  intros Hx Hle Hb.
  pose proof (build_message_T cfg table table' erase_zero Hx (fun _ => True) (fun _ _ _ => I)
                (fun _ _ => eq_refl) k k' d path Hle I) as HT.
  rewrite Hb in HT. exact HT.
Qed.
Print Assumptions build_message_ext.

(* 3b. literally, when the zero values of the small table are resolved *)
Theorem build_message_ext_exact cfg table table' k k' d path m :
  table_extends table table' -> List.length table <= List.length table' -> zero_resolved table = true ->
  k <= k' -> find_msg table (md_name d) <> None ->
  build_message cfg table k d path = BOk m ->
  build_message cfg table' k' d path = BOk m.
Proof.
  intros Hx Hl Hz Hle Hd Hb.
  assert (HP : forall n d0, find_msg table n = Some d0 -> find_msg table (md_name d0) <> None).
  { intros n d0 E. destruct (find_msg_some _ _ _ E) as (_ & ->). congruence. }
  assert (HZ : forall n, find_msg table n <> None ->
            keep_zero n (zero_struct table (S (List.length table)) n) =
            keep_zero n (zero_struct table' (S (List.length table')) n)).
  { intros n Hn. unfold keep_zero. symmetry. now apply zero_resolved_stable. }
  pose proof (build_message_T cfg table table' keep_zero Hx _ HP HZ k k' d path Hle Hd) as HT.
  rewrite Hb in HT. destruct HT as (m' & Hb' & HR). unfold Rm in HR. rewrite !rz_msg_keep in HR. congruence.
Qed.
Print Assumptions build_message_ext_exact.

(* 3c. errors: preserved, except the one error that more messages can repair *)
Theorem build_message_ext_err cfg table table' k k' d path e :
  table_extends table table' -> k <= k' ->
  build_message cfg table k d path = BErr e ->
  build_message cfg table' k' d path = BErr e \/ unresolved table e.
Proof.
  intros Hx Hle Hb.
  pose proof (build_message_T cfg table table' erase_zero Hx (fun _ => True) (fun _ _ _ => I)
                (fun _ _ => eq_refl) k k' d path Hle I) as HT.
  rewrite Hb in HT. exact HT.
Qed.
Print Assumptions build_message_ext_err.

(* 3d. the converse: what the small table does when the large one succeeds. The message is the same
   (up to the zero values; literally under zero_resolved, by 3b), or a name does not resolve in the
   small table, or the small side has strictly less fuel and runs out of it. *)
Theorem build_message_restrict cfg table table' k k' d path m' :
  table_extends table table' -> k <= k' ->
  build_message cfg table' k' d path = BOk m' ->
  match build_message cfg table k d path with
  | BOk m => ir_eq_mod_zero m m'
  | BErr e => unresolved table e
  | BFuel => k < k'
  end.
Proof.
  intros Hx Hle Hb.
  pose proof (build_message_T cfg table table' erase_zero Hx (fun _ => True) (fun _ _ _ => I)
                (fun _ _ => eq_refl) k k' d path Hle I) as HT.
  destruct (build_message cfg table k d path) as [m|e|]; cbn [T] in HT.
  - destruct HT as (x' & Hx' & HR). rewrite Hb in Hx'. injection Hx' as <-. exact HR.
  - destruct HT as [HT|HT]; [congruence|exact HT].
  - destruct HT as [HT|HT]; [congruence|exact HT].
Qed.
Print Assumptions build_message_restrict.

(* what equality up to the zero values says about the top of the message *)
Lemma ir_eq_mod_zero_shape m m' :
  ir_eq_mod_zero m m' ->
  m_name m = m_name m' /\ m_oneofs m = m_oneofs m' /\ m_inj m = m_inj m' /\ m_empty m = m_empty m' /\
  map (rz_field erase_zero) (m_fields m) = map (rz_field erase_zero) (m_fields m').
Proof.
  destruct m, m'. unfold ir_eq_mod_zero. rewrite !rz_msg_eq. intros H. injection H. cbn. auto.
Qed.

(* ------------------------------------------------------------------------------------- *)
(* 4. the roots of a request *)

Theorem C12_unrelated_messages_partial cfg f f' n m :
  request_extends (all_msgs f) (all_msgs f') ->
  In (n, m) (ok_roots cfg f) ->
  exists m', In (n, m') (ok_roots cfg f') /\ ir_eq_mod_zero m m' /\
             (zero_resolved (all_msgs f) = true -> m' = m).
Proof.
  intros (Hx & Hi & Hl) Hin. apply C12_selected in Hin. destruct Hin as (Hs & d & Hd & Hn & Hb).
  assert (Hle : S (List.length (all_msgs f)) <= S (List.length (all_msgs f'))) by lia.
  destruct (build_message_ext _ _ _ _ _ _ _ _ Hx Hle Hb) as (m' & Hb' & HR).
  exists m'. split; [|split; [exact HR|]].
  - apply C12_selected. split; [exact Hs|]. exists d. auto.
  - intros Hz. pose proof (build_message_ext_exact _ _ _ _ _ _ _ _ Hx Hl Hz Hle (find_msg_in_some _ _ Hd) Hb).
    congruence.
Qed.
Print Assumptions C12_unrelated_messages_partial.

(* the same with the hypothesis on the descriptors: by-value references resolve and are well founded *)
Corollary C12_unrelated_messages_acyclic_partial cfg f f' n m :
  request_extends (all_msgs f) (all_msgs f') -> by_value_wf (all_msgs f) ->
  In (n, m) (ok_roots cfg f) -> In (n, m) (ok_roots cfg f').
Proof.
  intros Hx Hwf Hin. destruct (C12_unrelated_messages_partial _ _ _ _ _ Hx Hin) as (m' & Hin' & _ & He).
  now rewrite <- (He (by_value_wf_resolved _ Hwf)).
Qed.
Print Assumptions C12_unrelated_messages_acyclic_partial.

(* on a request whose messages have pairwise distinct names, the lookups are all that has to be kept *)
Corollary C12_unrelated_messages_nodup_partial cfg f f' n m :
  NoDup (map md_name (all_msgs f)) -> table_extends (all_msgs f) (all_msgs f') ->
  In (n, m) (ok_roots cfg f) ->
  exists m', In (n, m') (ok_roots cfg f') /\ ir_eq_mod_zero m m' /\
             (zero_resolved (all_msgs f) = true -> m' = m).
Proof. intros ND Hx. apply C12_unrelated_messages_partial. now apply request_extends_nodup. Qed.
Print Assumptions C12_unrelated_messages_nodup_partial.

(* one more dependency file, anywhere among the dependency files: its names must not be names of
   the messages that come after it *)
Corollary C12_extra_dependency_partial cfg f f' deps1 x deps2 n m :
  f_deps f = (deps1 ++ deps2)%list -> f_deps f' = (deps1 ++ x :: deps2)%list -> f_msgs f' = f_msgs f ->
  fresh_for (dep_msgs x) (flat_map dep_msgs deps2 ++ f_msgs f) ->
  In (n, m) (ok_roots cfg f) ->
  exists m', In (n, m') (ok_roots cfg f') /\ ir_eq_mod_zero m m' /\
             (zero_resolved (all_msgs f) = true -> m' = m).
Proof.
  intros E E' Em Hf. apply C12_unrelated_messages_partial.
  unfold all_msgs. rewrite E, E', Em, !flat_map_app. cbn [flat_map]. rewrite <- !app_assoc.
  now apply request_extends_insert.
Qed.
Print Assumptions C12_extra_dependency_partial.

(* more messages in the file itself: they come last, so even a clashing name is harmless *)
Corollary C12_extra_messages_partial cfg f f' extra n m :
  f_deps f' = f_deps f -> f_msgs f' = (f_msgs f ++ extra)%list ->
  In (n, m) (ok_roots cfg f) ->
  exists m', In (n, m') (ok_roots cfg f') /\ ir_eq_mod_zero m m' /\
             (zero_resolved (all_msgs f) = true -> m' = m).
Proof.
  intros E Em. apply C12_unrelated_messages_partial.
  unfold all_msgs. rewrite E, Em, app_assoc. apply request_extends_app.
Qed.
Print Assumptions C12_extra_messages_partial.

(* The converse direction. A selected message of the small request that is built in the large one is
   built to the same message in the small one, or fails there on a name that only the large request
   resolves, or -- even when every name resolves -- runs out of the fuel of the small request, which
   is its number of messages (C12_converse_refuted below). *)
Theorem C12_unrelated_messages_converse cfg f f' d m' :
  request_extends (all_msgs f) (all_msgs f') ->
  In d (all_msgs f) -> mem_str (md_name d) (c_types cfg) = true ->
  build_message (obs_of cfg) (all_msgs f') (S (List.length (all_msgs f'))) d (md_name d) = BOk m' ->
  (exists m, In (md_name d, m) (ok_roots cfg f) /\ ir_eq_mod_zero m m' /\
             (zero_resolved (all_msgs f) = true -> m = m')) \/
  (exists e, In (md_name d, BErr e) (build_roots cfg f) /\ unresolved (all_msgs f) e) \/
  (In (md_name d, BFuel) (build_roots cfg f) /\ List.length (all_msgs f) < List.length (all_msgs f')).
Proof.
  intros (Hx & Hi & Hl) Hd Hs Hb'.
  assert (Hle : S (List.length (all_msgs f)) <= S (List.length (all_msgs f'))) by lia.
  pose proof (build_message_restrict _ _ _ _ _ _ _ _ Hx Hle Hb') as HR.
  assert (Hroot : In (md_name d, build_message (obs_of cfg) (all_msgs f) (S (List.length (all_msgs f))) d (md_name d))
                     (build_roots cfg f)).
  { unfold build_roots. apply in_flat_map. exists d. split; [exact Hd|]. rewrite Hs. now left. }
  destruct (build_message (obs_of cfg) (all_msgs f) (S (List.length (all_msgs f))) d (md_name d)) as [m|e|] eqn:Hb.
  - left. exists m. split; [|split; [exact HR|]].
    + apply C12_selected. split; [exact Hs|]. exists d. auto.
    + intros Hz. pose proof (build_message_ext_exact _ _ _ _ _ _ _ _ Hx Hl Hz Hle (find_msg_in_some _ _ Hd) Hb).
      congruence.
  - right. left. exists e. auto.
  - right. right. split; [exact Hroot|lia].
Qed.
Print Assumptions C12_unrelated_messages_converse.

(* ------------------------------------------------------------------------------------- *)
(* 5. computed examples *)

Definition mkf (name : string) (ty : ptype) (nullable : option bool) : fdesc :=
  {| fd_name := name; fd_num := 1%Z; fd_type := ty; fd_repeated := false; fd_nullable := nullable;
     fd_embed := false; fd_cast := ""; fd_custom := ""; fd_stdtime := false; fd_stddur := false;
     fd_jsontag := None; fd_oneof := None; fd_comment := "" |}.
Definition mkm (name : string) (fs : list fdesc) : mdesc :=
  {| md_name := name; md_comment := ""; md_oneofs := []; md_fields := fs |}.
Definition mkfile (msgs : list mdesc) (deps : list depfile) : file :=
  {| f_name := "a.proto"; f_package := "p"; f_gopkg := "example.com/p"; f_enums := [];
     f_msgs := msgs; f_deps := deps |}.

(* A holds a B by value and a B by pointer; U is unrelated *)
Definition mA := mkm "A" [mkf "id" (PScalar SString) None; mkf "b" (PMsg "B") (Some false); mkf "pb" (PMsg "B") None].
Definition mB := mkm "B" [mkf "x" (PScalar SInt64) None].
Definition mU := mkm "U" [mkf "u" (PScalar SBool) None].
Definition f0 := mkfile [mA; mB] [].
Definition f_front := mkfile [mA; mB] [{| dep_name := "u.proto"; dep_msgs := [mU] |}].
Definition f_back := mkfile [mA; mB; mU] [].
Definition cfgA := with_types ["A"] empty_config.

Example unrelated_nonvacuous :
  request_extends (all_msgs f0) (all_msgs f_front) /\ request_extends (all_msgs f0) (all_msgs f_back) /\
  zero_resolved (all_msgs f0) = true /\
  (exists m, ok_roots cfgA f0 = [("A", m)] /\ List.length (m_fields m) = 3 /\
             m_zero m = GStruct [("Id", GPrim (PStr "")); ("B", GStruct [("X", GPrim (PInt 0))]); ("Pb", GPtr None)]) /\
  ok_roots cfgA f_front = ok_roots cfgA f0 /\ ok_roots cfgA f_back = ok_roots cfgA f0.
Proof.
  split; [|split; [|split; [|split; [|split]]]].
  - apply (request_extends_prepend [mA; mB] [mU]).
    intros x d [<-|[]] [<-|[<-|[]]]; discriminate.
  - apply (request_extends_app [mA; mB] [mU]).
  - vm_compute. reflexivity.
  - vm_compute. eexists. split; [reflexivity|]. split; reflexivity.
  - vm_compute. reflexivity.
  - vm_compute. reflexivity.
Qed.
Print Assumptions unrelated_nonvacuous.

(* the descriptor-level hypothesis on the same request: the one by-value reference is A.b -> B *)
Example by_value_wf_nonvacuous : by_value_wf (all_msgs f0).
Proof.
  assert (H : forall n mn, bv_edge (all_msgs f0) n mn -> n = "A" /\ mn = "B").
  { intros n mn (m & f & E & Hf & Hb). unfold find_msg in E. cbn [all_msgs f0 mkfile f_deps f_msgs flat_map app find] in E.
    destruct (String.eqb_spec (md_name mA) n) as [<-|_].
    - injection E as <-. cbn [mA mkm md_fields] in Hf.
      destruct Hf as [<-|[<-|[<-|[]]]]; vm_compute in Hb; try discriminate Hb.
      injection Hb as <-. auto.
    - destruct (String.eqb_spec (md_name mB) n) as [<-|_]; [|discriminate E].
      injection E as <-. cbn [mB mkm md_fields] in Hf.
      destruct Hf as [<-|[]]; vm_compute in Hb; discriminate Hb. }
  split.
  - intros n mn He. destruct (H n mn He) as (_ & ->). vm_compute. discriminate.
  - exists (fun n => if String.eqb n "A" then 1 else 0).
    intros n mn He. destruct (H n mn He) as (-> & ->). vm_compute. lia.
Qed.
Print Assumptions by_value_wf_nonvacuous.

(* Without zero_resolved the literal statement is false of the model. S holds an S by value and the
   field is excluded: the build succeeds, but zero_struct unrolls the cycle as far as its fuel goes, and
   its fuel is the number of messages of the request. (Go rejects "type S struct { S S }": this is not
   the descriptor of a package that compiles. The generator itself computes no zero value: the
   fuel of zero_struct belongs to the model.) *)
Definition mS := mkm "S" [mkf "s" (PMsg "S") (Some false)].
Definition cfgS := with_exclude ["S.s"] (with_types ["S"] empty_config).

Example C12_unrelated_messages_refuted :
  request_extends (all_msgs (mkfile [mS] [])) (all_msgs (mkfile [mS; mU] [])) /\
  zero_resolved (all_msgs (mkfile [mS] [])) = false /\
  exists m m', ok_roots cfgS (mkfile [mS] []) = [("S", m)] /\
               ok_roots cfgS (mkfile [mS; mU] []) = [("S", m')] /\
               ir_eq_mod_zero m m' /\ m <> m' /\
               m_zero m = GStruct [("S", GStruct [("S", GStruct [])])] /\
               m_zero m' = GStruct [("S", GStruct [("S", GStruct [("S", GStruct [])])])].
Proof.
  split; [apply (request_extends_app [mS] [mU])|]. split; [vm_compute; reflexivity|].
  eexists. eexists. split; [vm_compute; reflexivity|]. split; [vm_compute; reflexivity|].
  split; [vm_compute; reflexivity|]. split; [|split; vm_compute; reflexivity].
  intros H. apply (f_equal m_zero) in H. vm_compute in H. discriminate H.
Qed.
Print Assumptions C12_unrelated_messages_refuted.

(* The converse fails on fuel alone. L points to an L and the exclusion list cuts the chain at depth
   three *by path*: the build needs fuel 3, whatever the number of messages. Alone in the request L
   gets fuel 2 and is skipped; one unrelated message more and it is generated. Every name the build
   looks up resolves in the small request. *)
Definition mL := mkm "L" [mkf "next" (PMsg "L") None].
Definition cfgL := with_exclude ["L.next.next.next"] (with_types ["L"] empty_config).

Example C12_converse_refuted :
  request_extends (all_msgs (mkfile [mL] [])) (all_msgs (mkfile [mL; mU] [])) /\
  zero_resolved (all_msgs (mkfile [mL] [])) = true /\
  find_msg (all_msgs (mkfile [mL] [])) "L" = Some mL /\
  build_roots cfgL (mkfile [mL] []) = [("L", BFuel)] /\
  ok_roots cfgL (mkfile [mL] []) = [] /\
  exists m', ok_roots cfgL (mkfile [mL; mU] []) = [("L", m')].
Proof.
  split; [apply (request_extends_app [mL] [mU])|].
  repeat (split; [vm_compute; reflexivity|]).
  eexists. vm_compute. reflexivity.
Qed.
Print Assumptions C12_converse_refuted.

(* an error of the small request that the large one repairs: the only kind there is (3c) *)
Example build_error_repaired :
  build_roots cfgA (mkfile [mA] []) = [("A", BErr "failed to resolve message B")] /\
  unresolved (all_msgs (mkfile [mA] [])) "failed to resolve message B" /\
  exists m', ok_roots cfgA (mkfile [mA; mB] []) = [("A", m')].
Proof.
  split; [vm_compute; reflexivity|]. split; [exists "B"; split; reflexivity|].
  eexists. vm_compute. reflexivity.
Qed.
Print Assumptions build_error_repaired.
