(* C11, C18, C15: exclusion at the source, no partially generated type, irrelevance of the
   declaration order of fields under sort. *)
From Coq Require Import List String Ascii Bool Arith NArith Lia.
From Coq Require Import Sorting.Permutation Sorting.Sorted.
From PGT Require Import Base.Strs Base.AList Model.Vals Model.IR Model.Names Model.Desc Model.Build.
From PGT Require Import Proofs.FrontEndProofs.
Import ListNotations.
Local Open Scope string_scope.

(* ------------------------------------------------------------------------------------- *)
(* A. C11: an excluded field contributes nothing to the IR *)

Lemma build_view_excluded cfg table rec d v b tn fp o :
  o_excluded cfg tn fp = true -> build_view cfg table rec d v b tn fp o = BOk [].
Proof. intros H. unfold build_view. now rewrite H. Qed.
Print Assumptions build_view_excluded.

(* ------------------------------------------------------------------------------------- *)
(* B. C18: errors are never swallowed *)

Lemma build_field_list_cons cfg table rec d path f r :
  build_field_list cfg table rec d path (f :: r) =
  bbind (build_view cfg table rec d (view_of_field f) false (md_name d ++ "." ++ fd_name f)
                    (if fd_embed f then path else path ++ "." ++ fd_name f) (Some f))
        (fun x => bbind (build_field_list cfg table rec d path r) (fun y => BOk (x ++ y)%list)).
Proof. reflexivity. Qed.

Lemma build_field_list_ok_inv cfg table rec d path l res :
  build_field_list cfg table rec d path l = BOk res ->
  Forall (fun f => exists x, build_view cfg table rec d (view_of_field f) false
                      (md_name d ++ "." ++ fd_name f)
                      (if fd_embed f then path else path ++ "." ++ fd_name f) (Some f) = BOk x) l.
Proof.
  revert res. induction l as [|f r IH]; intros res H; [constructor|].
  rewrite build_field_list_cons in H.
  destruct (build_view cfg table rec d (view_of_field f) false _ _ (Some f)) as [x|e|] eqn:Ev;
    cbn [bbind] in H; try discriminate.
  destruct (build_field_list cfg table rec d path r) as [y|e|] eqn:Er; cbn [bbind] in H; try discriminate.
  constructor; [now exists x|]. now apply (IH y).
Qed.

Lemma build_field_list_err cfg table rec d path l f e :
  In f l ->
  build_view cfg table rec d (view_of_field f) false (md_name d ++ "." ++ fd_name f)
             (if fd_embed f then path else path ++ "." ++ fd_name f) (Some f) = BErr e ->
  exists r, build_field_list cfg table rec d path l = r /\ match r with BOk _ => False | _ => True end.
Proof.
  intros Hin Hv. eexists. split; [reflexivity|].
  destruct (build_field_list cfg table rec d path l) as [res|e'|] eqn:E; [|exact I|exact I].
  apply build_field_list_ok_inv in E. rewrite Forall_forall in E.
  destruct (E f Hin) as (x & Hx). congruence.
Qed.

Lemma build_message_S cfg table fuel d path :
  build_message cfg table (S fuel) d path =
  bbind (build_field_list cfg table (build_message cfg table fuel) d path (md_fields d))
        (fun l =>
           BOk (Msg (md_name d)
                    (match l with
                     | [] => [placeholder_field path]
                     | _ :: _ => if o_sort cfg then sort_by (fun f => fi_name (f_info f)) l else l
                     end)
                    (map go_name (md_oneofs d))
                    (match o_injected cfg path with Some l => l | None => [] end)
                    (match l with [] => true | _ :: _ => false end)
                    (zero_struct table (S (List.length table)) (md_name d)))).
Proof. reflexivity. Qed.

(* what a successful build says about the field list: the fields were all built, giving the list l;
   no field left: the placeholder, and the message counts as empty; otherwise l, sorted or not *)
Lemma build_message_ok_inv cfg table fuel d path m :
  build_message cfg table (S fuel) d path = BOk m ->
  exists l, build_field_list cfg table (build_message cfg table fuel) d path (md_fields d) = BOk l /\
    ((l = [] /\ m_fields m = [placeholder_field path] /\ m_empty m = true) \/
     (l <> [] /\ m_fields m = (if o_sort cfg then sort_by (fun f => fi_name (f_info f)) l else l) /\
      m_empty m = false)).
Proof.
  rewrite build_message_S. intros H.
  destruct (build_field_list cfg table (build_message cfg table fuel) d path (md_fields d)) as [l|e|] eqn:El;
    cbn [bbind] in H; try discriminate.
  injection H as <-. exists l. split; [reflexivity|].
  destruct l as [|c r]; [left; auto|right]. split; [discriminate|]. auto.
Qed.

Theorem build_message_ok_fields cfg table fuel d path m :
  build_message cfg table (S fuel) d path = BOk m ->
  Forall (fun f => exists x, build_view cfg table (build_message cfg table fuel) d (view_of_field f) false
                      (md_name d ++ "." ++ fd_name f)
                      (if fd_embed f then path else path ++ "." ++ fd_name f) (Some f) = BOk x) (md_fields d).
Proof.
  intros H. apply build_message_ok_inv in H. destruct H as (l & Hl & _).
  eapply build_field_list_ok_inv; eassumption.
Qed.
Print Assumptions build_message_ok_fields.

(* the three kinds of unmappable field *)
Lemma build_view_time_without_type cfg table rec d v b tn fp o :
  o_excluded cfg tn fp = false -> v_is_time v = true -> o_time_type cfg = false ->
  exists e, build_view cfg table rec d v b tn fp o = BErr e.
Proof.
  intros Hx Ht Hc. unfold build_view, terraform_type. rewrite Hx, Ht, Hc. cbn [bbind]. eauto.
Qed.

Lemma build_view_duration_without_type cfg table rec d v b tn fp o :
  o_excluded cfg tn fp = false -> v_is_time v = false -> v_is_duration cfg v = true ->
  o_duration_type cfg = false ->
  exists e, build_view cfg table rec d v b tn fp o = BErr e.
Proof.
  intros Hx Ht Hd Hc. unfold build_view, terraform_type. rewrite Hx, Ht, Hd, Hc. cbn [bbind]. eauto.
Qed.

Lemma build_view_group cfg table rec d v b tn fp o :
  o_excluded cfg tn fp = false -> v_is_time v = false -> v_is_duration cfg v = false ->
  v_type v = PGroup ->
  exists e, build_view cfg table rec d v b tn fp o = BErr e.
Proof.
  intros Hx Ht Hd Hg. unfold build_view, terraform_type. rewrite Hx, Ht, Hd, Hg. cbn [bbind]. eauto.
Qed.

Lemma build_view_nested_error cfg table rec d v b tn fp o mn d' e :
  o_excluded cfg tn fp = false -> v_is_time v = false -> v_is_duration cfg v = false ->
  v_type v = PMsg mn -> find_msg table mn = Some d' -> rec d' fp = BErr e ->
  build_view cfg table rec d v b tn fp o = BErr e.
Proof.
  intros Hx Ht Hd Hm Hf Hr. unfold build_view, terraform_type, v_is_map.
  rewrite Hx, Ht, Hd, Hm. cbn [bbind andb negb]. rewrite Hf, Hr. reflexivity.
Qed.

Lemma build_view_unresolved cfg table rec d v b tn fp o mn :
  o_excluded cfg tn fp = false -> v_is_time v = false -> v_is_duration cfg v = false ->
  v_type v = PMsg mn -> find_msg table mn = None ->
  exists e, build_view cfg table rec d v b tn fp o = BErr e.
Proof.
  intros Hx Ht Hd Hm Hf. unfold build_view, terraform_type, v_is_map.
  rewrite Hx, Ht, Hd, Hm. cbn [bbind andb negb]. rewrite Hf. cbn [bbind]. eauto.
Qed.

Theorem C18_no_partial_type cfg table fuel d path f e :
  In f (md_fields d) ->
  build_view cfg table (build_message cfg table fuel) d (view_of_field f) false
             (md_name d ++ "." ++ fd_name f)
             (if fd_embed f then path else path ++ "." ++ fd_name f) (Some f) = BErr e ->
  forall m, build_message cfg table (S fuel) d path <> BOk m.
Proof.
  intros Hin Hv m H. apply build_message_ok_fields in H. rewrite Forall_forall in H.
  destruct (H f Hin) as (x & Hx). congruence.
Qed.
Print Assumptions C18_no_partial_type.

(* ------------------------------------------------------------------------------------- *)
(* C. C15: with sort on, the declaration order of the fields is irrelevant *)

(* the byte order on strings is a strict total order *)
Lemma code_inj x y : code x = code y -> x = y.
Proof.
  unfold code. intros H. rewrite <- (ascii_N_embedding x), <- (ascii_N_embedding y). now rewrite H.
Qed.

Lemma str_ltb_irrefl a : str_ltb a a = false.
Proof.
  induction a as [|x a IH]; cbn; [reflexivity|].
  now rewrite N.ltb_irrefl.
Qed.

Lemma str_ltb_trans a b c : str_ltb a b = true -> str_ltb b c = true -> str_ltb a c = true.
Proof.
  revert b c. induction a as [|x a IH]; intros [|y b] [|z c]; cbn; try congruence.
  destruct (N.ltb_spec (code x) (code y)), (N.ltb_spec (code y) (code x)),
           (N.ltb_spec (code y) (code z)), (N.ltb_spec (code z) (code y)),
           (N.ltb_spec (code x) (code z)), (N.ltb_spec (code z) (code x));
    try congruence; try lia.
  apply IH.
Qed.

Lemma str_ltb_total a b : a <> b -> str_ltb a b = true \/ str_ltb b a = true.
Proof.
  revert b. induction a as [|x a IH]; intros [|y b] H; cbn; auto; try congruence.
  destruct (N.ltb_spec (code x) (code y)), (N.ltb_spec (code y) (code x)); auto; try lia.
  assert (E : x = y) by (apply code_inj; lia). subst y.
  apply IH. congruence.
Qed.

Lemma str_ltb_asym a b : str_ltb a b = true -> str_ltb b a = false.
Proof.
  intros H. destruct (str_ltb b a) eqn:E; [|reflexivity].
  pose proof (str_ltb_trans _ _ _ H E) as T. now rewrite str_ltb_irrefl in T.
Qed.

(* not (b < a), not (c < b)  ==>  not (c < a) *)
Lemma str_geb_trans a b c : str_ltb b a = false -> str_ltb c b = false -> str_ltb c a = false.
Proof.
  intros H1 H2. destruct (str_ltb c a) eqn:E; [|reflexivity].
  destruct (string_dec a b) as [->|N]; [congruence|].
  destruct (str_ltb_total a b N) as [T|T]; [|congruence].
  pose proof (str_ltb_trans _ _ _ E T). congruence.
Qed.

Section SortFacts.
  Context {A : Type} (key : A -> string).
  Let R := fun a b : A => str_ltb (key b) (key a) = false.

  Lemma insert_by_Forall (P : A -> Prop) x l : P x -> Forall P l -> Forall P (insert_by key x l).
  Proof.
    intros Hx Hl. induction Hl as [|y r Hy Hr IH]; cbn; [auto|].
    destruct (str_ltb (key y) (key x)); auto.
  Qed.

  Lemma insert_by_sorted x l : StronglySorted R l -> StronglySorted R (insert_by key x l).
  Proof.
    induction 1 as [|y r Hs IH Hy]; cbn.
    - constructor; constructor.
    - destruct (str_ltb (key y) (key x)) eqn:E.
      + constructor; [exact IH|]. apply insert_by_Forall; [|exact Hy].
        unfold R. now apply str_ltb_asym.
      + constructor; [now constructor|]. constructor; [exact E|].
        eapply Forall_impl; [|exact Hy]. intros z Hz. unfold R in *.
        eapply str_geb_trans; eassumption.
  Qed.

  Lemma sort_by_sorted l : StronglySorted (fun a b => str_ltb (key b) (key a) = false) (sort_by key l).
  Proof.
    induction l as [|x r IH]; cbn; [constructor|]. now apply insert_by_sorted.
  Qed.

  (* two sorted lists with the same elements and pairwise distinct keys are equal *)
  Lemma sorted_perm_eq l1 l2 :
    StronglySorted R l1 -> StronglySorted R l2 -> Permutation l1 l2 -> NoDup (map key l1) -> l1 = l2.
  Proof.
    revert l2. induction l1 as [|a t1 IH]; intros l2 S1 S2 P ND.
    - apply Permutation_nil in P. now subst.
    - destruct l2 as [|b t2]; [symmetry in P; now apply Permutation_nil in P|].
      inversion S1 as [|? ? S1' F1]; subst. inversion S2 as [|? ? S2' F2]; subst.
      inversion ND as [|? ? Nk ND']; subst.
      assert (Eab : a = b).
      { assert (Hb : In b (a :: t1)) by (eapply Permutation_in; [symmetry; exact P|now left]).
        assert (Ha : In a (b :: t2)) by (eapply Permutation_in; [exact P|now left]).
        destruct Hb as [Hb|Hb]; [assumption|].
        destruct Ha as [Ha|Ha]; [now symmetry|].
        rewrite Forall_forall in F1, F2.
        pose proof (F1 b Hb) as R1. pose proof (F2 a Ha) as R2. unfold R in R1, R2.
        exfalso. apply Nk.
        destruct (string_dec (key a) (key b)) as [E|N].
        - rewrite E. now apply in_map.
        - destruct (str_ltb_total _ _ N); congruence. }
      subst b. f_equal. apply IH; auto. eapply Permutation_cons_inv; exact P.
  Qed.

  Theorem sort_by_perm_eq (l l' : list A) :
    Permutation l l' -> NoDup (map key l) -> sort_by key l = sort_by key l'.
  Proof.
    intros P ND. apply sorted_perm_eq.
    - apply sort_by_sorted.
    - apply sort_by_sorted.
    - rewrite !sort_by_perm. exact P.
    - eapply Permutation_NoDup; [|exact ND]. apply Permutation_map. symmetry. apply sort_by_perm.
  Qed.
End SortFacts.
Print Assumptions sort_by_perm_eq.

(* the descriptor of the enclosing message is consulted only for its oneof names *)
Lemma build_view_same_desc cfg table rec d d' v b tn fp o :
  md_name d = md_name d' -> md_oneofs d = md_oneofs d' ->
  build_view cfg table rec d v b tn fp o = build_view cfg table rec d' v b tn fp o.
Proof. intros _ Ho. unfold build_view. rewrite Ho. reflexivity. Qed.

Lemma build_field_list_same_desc cfg table rec d d' path l :
  md_name d = md_name d' -> md_oneofs d = md_oneofs d' ->
  build_field_list cfg table rec d path l = build_field_list cfg table rec d' path l.
Proof.
  intros Hn Ho. induction l as [|f r IH]; [reflexivity|].
  rewrite !build_field_list_cons, IH, Hn. now rewrite (build_view_same_desc _ _ _ d d') by assumption.
Qed.

Lemma build_field_list_perm_same cfg table rec d path l l' :
  Permutation l l' -> forall r,
  build_field_list cfg table rec d path l = BOk r ->
  exists r', build_field_list cfg table rec d path l' = BOk r' /\ Permutation r r'.
Proof.
  induction 1 as [|f l l' P IH|f g l|l l' l'' P1 IH1 P2 IH2]; intros r H.
  - exists r. split; [exact H|reflexivity].
  - rewrite build_field_list_cons in *.
    destruct (build_view cfg table rec d (view_of_field f) false _ _ (Some f)) as [x|e|];
      cbn [bbind] in *; try discriminate.
    destruct (build_field_list cfg table rec d path l) as [y|e|]; cbn [bbind] in H; try discriminate.
    injection H as <-. destruct (IH y eq_refl) as (y' & -> & Py). cbn [bbind].
    eexists. split; [reflexivity|]. now apply Permutation_app_head.
  - rewrite !build_field_list_cons in *.
    destruct (build_view cfg table rec d (view_of_field f) false _ _ (Some f)) as [x|e|];
      destruct (build_view cfg table rec d (view_of_field g) false _ _ (Some g)) as [x'|e'|];
      cbn [bbind] in *; try discriminate.
    destruct (build_field_list cfg table rec d path l) as [y|e|]; cbn [bbind] in *; try discriminate.
    injection H as <-. eexists. split; [reflexivity|].
    rewrite !app_assoc. apply Permutation_app_tail. apply Permutation_app_comm.
  - destruct (IH1 r H) as (r1 & H1 & Q1). destruct (IH2 r1 H1) as (r2 & H2 & Q2).
    exists r2. split; [exact H2|]. now transitivity r1.
Qed.

Lemma build_field_list_perm cfg table rec d d' path l l' r :
  md_name d = md_name d' -> md_oneofs d = md_oneofs d' -> Permutation l l' ->
  build_field_list cfg table rec d path l = BOk r ->
  exists r', build_field_list cfg table rec d' path l' = BOk r' /\ Permutation r r'.
Proof.
  intros Hn Ho P H. rewrite <- (build_field_list_same_desc _ _ _ d d') by assumption.
  eapply build_field_list_perm_same; eassumption.
Qed.

Theorem C15_sorted_fields cfg table fuel d d' path m m' :
  o_sort cfg = true -> md_name d = md_name d' -> md_oneofs d = md_oneofs d' ->
  Permutation (md_fields d) (md_fields d') ->
  build_message cfg table (S fuel) d path = BOk m -> build_message cfg table (S fuel) d' path = BOk m' ->
  NoDup (map (fun f => fi_name (f_info f)) (m_fields m)) ->
  m_fields m = m_fields m'.
Proof.
  intros Hs Hn Ho P H H' ND.
  apply build_message_ok_inv in H. apply build_message_ok_inv in H'. rewrite Hs in *.
  destruct H as (l & Hl & Hc), H' as (l' & Hl' & Hc').
  destruct (build_field_list_perm _ _ _ d d' path _ _ l Hn Ho P Hl) as (r' & Hr' & Pl).
  assert (r' = l') by congruence. subst r'.
  destruct Hc as [(E & Em & _)|(NE & Em & _)], Hc' as [(E' & Em' & _)|(NE' & Em' & _)].
  - congruence.
  - subst l. apply Permutation_nil in Pl. contradiction.
  - subst l'. symmetry in Pl. apply Permutation_nil in Pl. contradiction.
  - rewrite Em, Em'. apply sort_by_perm_eq; [exact Pl|].
    rewrite Em in ND. eapply Permutation_NoDup; [|exact ND].
    apply Permutation_map. apply sort_by_perm.
Qed.
Print Assumptions C15_sorted_fields.
