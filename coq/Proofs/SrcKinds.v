(* [kinds] Agreement between the decision rules of field.go getKind, regenerated from the Go source on
   every run (Generated/Src.v), and the kind the model's front end gives a field. Closed by computation
   over the 32 combinations of the five flags. *)
From Coq Require Import List String Ascii Bool.
From PGT Require Import Base.Strs Model.Vals Model.IR.
From PGT Require Import Generated.Src.
Import ListNotations.
Open Scope string_scope.

(* the flags getKind looks at *)
Record kflags := { k_custom : bool; k_map : bool; k_mapmsg : bool; k_repeated : bool; k_message : bool }.

Definition atom_val (f : kflags) (a : string) : option bool :=
  if String.eqb a "IsCustomType" then Some (k_custom f)
  else if String.eqb a "IsMap" then Some (k_map f)
  else if String.eqb a "MapValueField.IsMessage" then Some (k_mapmsg f)
  else if String.eqb a "IsRepeated" then Some (k_repeated f)
  else if String.eqb a "IsMessage" then Some (k_message f)
  else None.

(* all flags of a rule hold; a flag the interpreter does not know makes the rule unreadable *)
Fixpoint rule_holds (f : kflags) (atoms : list string) : option bool :=
  match atoms with
  | [] => Some true
  | a :: r =>
      match atom_val f a, rule_holds f r with
      | Some x, Some y => Some (x && y)
      | _, _ => None
      end
  end.

(* the Go switch: the first rule whose condition holds, else the default *)
Fixpoint eval_rules (f : kflags) (rules : list (list string * string)) (dflt : string) : option string :=
  match rules with
  | [] => Some dflt
  | (atoms, k) :: r =>
      match rule_holds f atoms with
      | Some true => Some k
      | Some false => eval_rules f r dflt
      | None => None
      end
  end.

Definition kind_name (k : kind) : string :=
  match k with
  | PrimitiveKind => "PrimitiveKind" | PrimitiveListKind => "PrimitiveListKind" | PrimitiveMapKind => "PrimitiveMapKind"
  | ObjectKind => "ObjectKind" | ObjectListKind => "ObjectListKind" | ObjectMapKind => "ObjectMapKind"
  | CustomKind => "CustomKind"
  end.

(* the decision as the model's front end takes it (Model/Build.v, build_view: custom type first, then the map
   value, then repeated, then message) *)
Definition model_kind (f : kflags) : kind :=
  if k_custom f then CustomKind
  else if k_map f then (if k_mapmsg f then ObjectMapKind else PrimitiveMapKind)
  else if k_repeated f then (if k_message f then ObjectListKind else PrimitiveListKind)
  else if k_message f then ObjectKind
  else PrimitiveKind.

Theorem src_kind_rules_agree :
  forall c m mm r ms,
    let f := {| k_custom := c; k_map := m; k_mapmsg := mm; k_repeated := r; k_message := ms |} in
    eval_rules f src_kind_rules src_kind_default = Some (kind_name (model_kind f)).
Proof. intros [] [] [] [] []; vm_compute; reflexivity. Qed.

Print Assumptions src_kind_rules_agree.
