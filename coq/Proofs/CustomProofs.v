(* C17 at the level of the MESSAGE, and C03 / C06 for messages which DO contain custom-type fields
   (fields of CustomKind reached directly: fi_via = [], fi_parent = None, not a oneof branch, not the
   placeholder).

   CopyTo (Model/CopyTo.v):
   - the attribute type of a custom field in the schema's object type is [TyHook suffix]
     ([msg_ty_c]; CopyToTotal.msg_ty leaves custom fields out);
   - class [tfc_ok]: CopyToTotal.tf_ok where a field may also be such a custom field, at any depth;
   - [typedc] IS CopyToTotal.typed: val_shape asks nothing of a custom field, so that [typed] only
     asks for the Go key to exist ([ftyped_custom]);
   - copy_to_total_custom_partial: no panic, no diagnostic, for ANY hook;
   - copy_to_custom_delegated: the attribute of a custom field is what the hook returned for
     (suffix, field value, TyHook suffix, nil), every other attribute conforms to its type, at every
     depth ([conformsc HC]: a TyHook attribute is asked to satisfy HC, which the hook is assumed to
     establish; HC := fun _ _ => true for an arbitrary hook).

   CopyFrom (Model/CopyFrom.v): CopyFromProofs.flat_ok ALREADY admits such custom fields
   (info_ok: CustomKind => true), [flatc_ok] is flat_ok:
   - copy_from_total_custom_partial: never panics, the struct keeps its keys, any hook;
   - copy_from_custom_delegated: the Go field afterwards is hook_from suffix (attribute or nil)
     (what the target held: the custom field is NOT reset before the call); a missing attribute is
     reported as (ReadMissing, path); a present one adds no diagnostic.

   Round trip modulo the hooks: copy_custom_round_trip_partial. *)
From Coq Require Import List String Bool ZArith Lia.
From PGT Require Import Base.Strs Base.AList Model.Vals Model.IR Model.CopyTo Model.CopyFrom Model.Schema.
From PGT Require Import Proofs.Basics.
From PGT Require Proofs.CopyFromProofs Proofs.FromMalformed Proofs.PrunedTargets.
From PGT Require Import Proofs.CopyToProofs Proofs.CopyToTotal.
Import ListNotations.

(* ------------------------------------------------------------------------------------- *)
(* 1. the attribute types, custom fields included *)

Fixpoint msg_ty_c (m : message) {struct m} : list (string * tfty) :=
  match m with
  | Msg _ fs _ _ _ _ =>
      (fix go (l : list field) : list (string * tfty) :=
         match l with
         | [] => []
         | f :: r =>
             match field_ty_c f with
             | Some t => (fi_snake (f_info f), t) :: go r
             | None => go r
             end
         end) fs
  end
with field_ty_c (f : field) {struct f} : option tfty :=
  match f with
  | Field i om =>
      match fi_kind i, om with
      | PrimitiveKind, _ => Some (TyPrim (fi_tk i))
      | PrimitiveListKind, _ => Some (TyList (TyPrim (fi_tk i)))
      | PrimitiveMapKind, _ => Some (TyMap (TyPrim (fi_tk i)))
      | ObjectKind, Some m' => Some (TyObj (msg_ty_c m'))
      | ObjectListKind, Some m' => Some (TyList (TyObj (msg_ty_c m')))
      | ObjectMapKind, Some m' => Some (TyMap (TyObj (msg_ty_c m')))
      | CustomKind, _ => Some (TyHook (fi_suffix i))
      | _, _ => None
      end
  end.

Definition fields_ty_c (fs : list field) : list (string * tfty) :=
  flat_map (fun f => match field_ty_c f with Some t => [(snake f, t)] | None => [] end) fs.

Lemma msg_ty_c_eq n fs os inj e z : msg_ty_c (Msg n fs os inj e z) = fields_ty_c fs.
Proof.
  cbn [msg_ty_c]. unfold fields_ty_c. induction fs as [|f r IH]; [reflexivity|].
  cbn [flat_map]. rewrite <- IH. now destruct (field_ty_c f).
Qed.

Lemma msg_ty_c_fields m : msg_ty_c m = fields_ty_c (m_fields m).
Proof. destruct m. apply msg_ty_c_eq. Qed.

(* ------------------------------------------------------------------------------------- *)
(* 2. the class of messages *)

Definition is_custom (i : finfo) : bool := kind_eqb (fi_kind i) CustomKind.

Lemma is_custom_true i : is_custom i = true <-> fi_kind i = CustomKind.
Proof. unfold is_custom. destruct (fi_kind i); cbn; split; congruence. Qed.

Lemma is_custom_false i : is_custom i = false <-> fi_kind i <> CustomKind.
Proof. unfold is_custom. destruct (fi_kind i); cbn; split; congruence. Qed.

(* a custom field reached directly *)
Definition custom_ok (i : finfo) : bool :=
  match fi_via i with [] => true | _ => false end
  && match fi_parent i with None => true | Some _ => false end
  && match fi_oneof i with None => true | Some _ => false end
  && negb (fi_placeholder i).

Lemma custom_ok_inv i : custom_ok i = true ->
  fi_via i = [] /\ fi_parent i = None /\ fi_oneof i = None /\ fi_placeholder i = false.
Proof.
  unfold custom_ok. intros H.
  apply andb_prop in H. destruct H as [H H4]. apply andb_prop in H. destruct H as [H H3].
  apply andb_prop in H. destruct H as [H1 H2].
  split; [destruct (fi_via i); [reflexivity|discriminate]|].
  split; [destruct (fi_parent i); [discriminate|reflexivity]|].
  split; [destruct (fi_oneof i); [discriminate|reflexivity]|].
  now destruct (fi_placeholder i).
Qed.

Definition finfoc_ok (i : finfo) (om : option message) : bool :=
  if is_custom i then custom_ok i else finfo_ok i om.

Fixpoint tfc_ok (m : message) {struct m} : bool :=
  match m with
  | Msg _ fs _ _ e _ =>
      nodup_b (map (fun f => fi_snake (f_info f)) fs)
      && (negb e || forallb (fun f => fi_placeholder (f_info f)) fs)
      && (fix go (l : list field) : bool :=
            match l with
            | [] => true
            | f :: r => ftfc_ok f && go r
            end) fs
  end
with ftfc_ok (f : field) {struct f} : bool :=
  match f with
  | Field i om => finfoc_ok i om && match om with Some m' => tfc_ok m' | None => true end
  end.

Lemma tfc_ok_eq n fs os inj e z :
  tfc_ok (Msg n fs os inj e z)
  = nodup_b (snakes fs) && (negb e || forallb (fun f => fi_placeholder (f_info f)) fs) && forallb ftfc_ok fs.
Proof.
  cbn [tfc_ok]. unfold snakes, snake. apply (f_equal (andb _)).
  induction fs as [|f r IH]; [reflexivity|]. cbn [forallb]. now rewrite IH.
Qed.

Lemma tfc_ok_fields m : tfc_ok m = true ->
  NoDup (snakes (m_fields m)) /\ forall f, In f (m_fields m) -> ftfc_ok f = true.
Proof.
  destruct m as [n fs os inj e z]. rewrite tfc_ok_eq. cbn [m_fields]. intros F.
  apply andb_prop in F. destruct F as [F F3]. apply andb_prop in F. destruct F as [F1 _].
  split; [now apply nodup_b_NoDup|]. now rewrite forallb_forall in F3.
Qed.

(* the typing predicate: CopyToTotal.typed asks of a custom field that its Go key exists, nothing else *)
Notation typedc := typed (only parsing).

Lemma ftyped_custom i om gs :
  fi_kind i = CustomKind -> fi_oneof i = None -> fi_placeholder i = false ->
  (ftyped (Field i om) gs <-> exists g, lookup (fi_name i) gs = Some g).
Proof.
  intros K O PH. cbn [ftyped]. rewrite PH. unfold reads, val_shape. rewrite O, K.
  split; [intros (g & L & _); eauto|intros (g & L); eauto].
Qed.

(* ------------------------------------------------------------------------------------- *)
(* 3. conformance, a hook-typed attribute being asked to satisfy HC *)

Section Conf.
  Variable HC : string -> tfval -> bool.

  Fixpoint conformsc (t : tfty) (v : tfval) {struct t} : bool :=
    match t, v with
    | TyPrim k, VPrim k' n u p => tfkind_eqb k k' && negb u && prim_has_kind k' p
    | TyList e, VList e' n u els =>
        tfty_eqb e e' && negb u
        && (n || match els with Some l => forallb (conformsc e) l | None => false end)
    | TyMap e, VMap e' n u els =>
        tfty_eqb e e' && negb u
        && (n || match els with Some l => forallb (fun kv => conformsc e (snd kv)) l | None => false end)
    | TyObj ats, VObj ats' n u attrs =>
        tfty_eqb (TyObj ats) (TyObj ats') && negb u
        && (n || match attrs with
                 | Some l =>
                     (fix go (a : list (string * tfty)) : bool :=
                        match a with
                        | [] => true
                        | (k, t') :: r =>
                            match lookup k l with Some v' => conformsc t' v' | None => false end && go r
                        end) ats
                     && forallb (fun kv => has_key (fst kv) ats) l
                 | None => false
                 end)
    | TyHook s, v => HC s v
    | _, _ => false
    end.

  Definition attrs_conformc (ats : list (string * tfty)) (l : list (string * tfval)) : bool :=
    forallb (fun kt => match lookup (fst kt) l with Some v => conformsc (snd kt) v | None => false end) ats
    && forallb (fun kv => has_key (fst kv) ats) l.

  Lemma conformsc_obj ats ats' n u l :
    conformsc (TyObj ats) (VObj ats' n u (Some l))
    = tfty_eqb (TyObj ats) (TyObj ats') && negb u && (n || attrs_conformc ats l).
  Proof.
    cbn [conformsc]. do 2 f_equal. unfold attrs_conformc. apply (f_equal (fun b => b && _)).
    induction ats as [|[k t] r IH]; cbn [forallb fst snd]; [reflexivity|]. now rewrite IH.
  Qed.

  Lemma conformsc_prim k n p : prim_has_kind k p = true -> conformsc (TyPrim k) (VPrim k n false p) = true.
  Proof. intros H. cbn [conformsc negb]. now rewrite tfkind_eqb_refl, H. Qed.

  Lemma conformsc_list e n vs :
    n = true \/ forallb (conformsc e) vs = true -> conformsc (TyList e) (VList e n false (Some vs)) = true.
  Proof.
    intros H. cbn [conformsc negb]. rewrite tfty_eqb_refl. cbn [andb].
    destruct H as [->| ->]; [reflexivity|apply orb_true_r].
  Qed.

  Lemma conformsc_map e n es :
    n = true \/ forallb (fun kv => conformsc e (snd kv)) es = true ->
    conformsc (TyMap e) (VMap e n false (Some es)) = true.
  Proof.
    intros H. cbn [conformsc negb]. rewrite tfty_eqb_refl. cbn [andb].
    destruct H as [->| ->]; [reflexivity|apply orb_true_r].
  Qed.
End Conf.

(* ------------------------------------------------------------------------------------- *)
(* 5. the fields (the structure of CopyToTotal's section Total, with the custom case added) *)

Lemma finfoc_ok_noncustom i om : finfoc_ok i om = true -> fi_kind i <> CustomKind -> finfo_ok i om = true.
Proof. unfold finfoc_ok. intros H N. apply is_custom_false in N. now rewrite N in H. Qed.

Lemma finfoc_ok_custom i om : finfoc_ok i om = true -> fi_kind i = CustomKind -> custom_ok i = true.
Proof. unfold finfoc_ok. intros H K. apply is_custom_true in K. now rewrite K in H. Qed.

Lemma empty_typed_c m gs : tfc_ok m = true -> m_empty m = true -> typed m (GStruct gs).
Proof.
  destruct m as [n fs os inj e z]. rewrite tfc_ok_eq, typed_eq. cbn [m_empty]. intros H ->.
  apply andb_prop in H. destruct H as [H _]. apply andb_prop in H. destruct H as [_ H]. cbn [negb orb] in H.
  exists gs. split; [reflexivity|]. rewrite forallb_forall in H. apply Forall_forall. intros [i om] I.
  specialize (H _ I). cbn [f_info] in H. cbn [ftyped]. now rewrite H.
Qed.

Lemma field_ty_c_some i om : finfoc_ok i om = true -> exists t, field_ty_c (Field i om) = Some t.
Proof.
  intros F. cbn [field_ty_c]. destruct (fi_kind i) eqn:K; eauto.
  all: assert (NC : fi_kind i <> CustomKind) by congruence.
  all: destruct (finfo_ok_inv _ _ (finfoc_ok_noncustom _ _ F NC)) as (_ & _ & _ & _ & OM & _).
  all: rewrite K in OM; destruct (OM eq_refl) as (m' & ->); eauto.
Qed.

Lemma lookup_fields_ty_c fs f t :
  NoDup (snakes fs) -> In f fs -> field_ty_c f = Some t -> lookup (snake f) (fields_ty_c fs) = Some t.
Proof.
  induction fs as [|f0 r IH]; intros ND I FT; [destruct I|].
  cbn [snakes map] in ND. inversion ND as [|? ? N1 N2]; subst. unfold fields_ty_c. cbn [flat_map].
  destruct I as [->|I].
  - rewrite FT. cbn [app lookup]. now rewrite String.eqb_refl.
  - assert (NE : snake f <> snake f0) by (intros E; apply N1; rewrite <- E; now apply in_map).
    destruct (field_ty_c f0); cbn [app lookup]; [|now apply IH].
    destruct (String.eqb (snake f) (snake f0)) eqn:E; [apply String.eqb_eq in E; contradiction|now apply IH].
Qed.

Section TotalC.
  Variable hook : hook_to_t.
  Variable HC : string -> tfval -> bool.
  (* what the hook returns for an attribute of its type and no current value is acceptable *)
  Hypothesis Hhook : forall s g, HC s (hook s g (TyHook s) None) = true.

  Definition msg_goodc (m : message) : Prop :=
    forall obj ds, typed m obj ->
      exists attrs, to_fields hook m obj (msg_ty_c m) ([], ds) = Ok (attrs, ds)
                    /\ attrs_conformc HC (msg_ty_c m) attrs = true.

  Definition field_goodc (f : field) : Prop :=
    forall gs atys attrs ds t, ftyped f gs -> field_ty_c f = Some t ->
      lookup (snake f) atys = Some t -> lookup (snake f) attrs = None ->
      exists v, to_field hook f (GStruct gs) atys (attrs, ds) = Ok (update (snake f) v attrs, ds)
                /\ conformsc HC t v = true.

  Lemma obj_value_total_c i gs m' g ds :
    tfc_ok m' = true -> msg_goodc m' -> elem_shape i (typed m') g ->
    exists v, obj_value hook i (GStruct gs) None m' (Ok g) (msg_ty_c m') ds = Ok (v, ds)
              /\ conformsc HC (TyObj (msg_ty_c m')) v = true.
  Proof.
    intros T G S. unfold obj_value. cbv beta iota zeta. unfold elem_shape in S.
    assert (K : forall x, typed m' x ->
                exists v, (do st' <- to_fields hook m' x (msg_ty_c m') ([], ds);
                           let '(attrs', ds') := st' in
                           Ok (VObj (msg_ty_c m') false false (Some attrs'), ds')) = Ok (v, ds)
                          /\ conformsc HC (TyObj (msg_ty_c m')) v = true).
    { intros x Tx. destruct (G x ds Tx) as (attrs & E & C). rewrite E. cbn [bind].
      eexists. split; [reflexivity|]. rewrite conformsc_obj, tfty_eqb_refl, C. reflexivity. }
    destruct (fi_nullable i).
    - destruct S as [->|(x & -> & Tx)]; cbn [bind].
      + eexists. split; [reflexivity|]. rewrite conformsc_obj, tfty_eqb_refl. reflexivity.
      + destruct (m_empty m') eqn:E; apply K; [now apply empty_typed_c|assumption].
    - destruct (m_empty m') eqn:E; cbn [bind]; apply K; [now apply empty_typed_c|assumption].
  Qed.

  (* the custom case: the hook is called with the field, the attribute type and the current value *)
  Lemma field_step_custom i om :
    fi_kind i = CustomKind -> custom_ok i = true -> field_goodc (Field i om).
  Proof.
    intros K C gs atys attrs ds t Ty FT La Lc.
    destruct (custom_ok_inv _ C) as (V & P & O & PH).
    unfold snake in *. cbn [f_info] in *.
    apply (ftyped_custom i om gs K O PH) in Ty. destruct Ty as (g & Lg).
    cbn [field_ty_c] in FT. rewrite K in FT. inversion FT; subst t; clear FT.
    exists (hook (fi_suffix i) g (TyHook (fi_suffix i)) None). split; [|cbn [conformsc]; apply Hhook].
    etransitivity; [exact (to_field_custom hook i om (GStruct gs) atys attrs ds _ K La)|].
    rewrite (custom_source_plain i _ P), V. cbn [gget_via gfield]. rewrite Lg, Lc. reflexivity.
  Qed.

  Lemma field_step_c i om :
    finfoc_ok i om = true ->
    (forall m', om = Some m' -> tfc_ok m' = true /\ msg_goodc m') ->
    field_goodc (Field i om).
  Proof.
    intros Fc Q.
    destruct (kind_eqb (fi_kind i) CustomKind) eqn:IC.
    { apply (proj1 (is_custom_true i)) in IC. apply field_step_custom; [exact IC|]. now apply finfoc_ok_custom with om. }
    apply (proj1 (is_custom_false i)) in IC. pose proof (finfoc_ok_noncustom _ _ Fc IC) as F.
    intros gs atys attrs ds t Ty FT La Lc.
    destruct (finfo_ok_inv _ _ F) as (V & P & NC & Z & OM & OO & PH).
    rewrite to_field_eq. cbv zeta. unfold snake in *. cbn [f_info] in *. rewrite La, Lc.
    cbn [ftyped] in Ty. cbn [field_ty_c] in FT. unfold val_shape in Ty.
    revert Ty Z OM OO PH FT NC. destruct (fi_kind i) eqn:K; intros Ty Z OM OO PH FT NC.
    - (* PrimitiveKind *)
      inversion FT; subst t; clear FT. specialize (Z eq_refl).
      destruct (fi_placeholder i) eqn:PHE.
      + destruct (PH eq_refl) as [_ O]. rewrite O. cbn [bind].
        destruct (to_prim_value_total i (read_field i (zero_of_prim i) (GStruct gs)) (GStruct gs) ds P Z
                                      (or_introl PHE)) as (n & p & E & Kp).
        rewrite E. cbn [bind]. eexists. split; [reflexivity|now apply conformsc_prim].
      + assert (Hbz : fi_oneof i <> None -> sc_shape i (zero_of_prim i)).
        { intros N. unfold sc_shape, elem_shape, zero_of_prim. destruct (fi_oneof i) as [h|]; [|congruence].
          destruct (fi_nullable i); [now left|].
          destruct (OO h eq_refl) as [[_ [D|D]]|[D _]]; [discriminate|exact D|discriminate]. }
        destruct (read_field_ok i _ gs _ V P Ty Hbz) as (g & E & Sg).
        assert (Hh : (match fi_oneof i with
                      | Some h => do _u <- read_holder i h (GStruct gs); Ok tt
                      | None => Ok tt
                      end) = Ok tt).
        { destruct (fi_oneof i) as [h|] eqn:O; [|reflexivity].
          destruct (read_holder_ok i _ gs h V P O Ty) as (hv & Eh). now rewrite Eh. }
        rewrite Hh. cbn [bind].
        destruct (to_prim_value_total i (read_field i (zero_of_prim i) (GStruct gs)) (GStruct gs) ds P Z
                                      (or_intror (ex_intro _ g (conj E Sg)))) as (n & p & Ev & Kp).
        rewrite Ev. cbn [bind]. eexists. split; [reflexivity|now apply conformsc_prim].
    - (* PrimitiveListKind *)
      inversion FT; subst t; clear FT. specialize (Z eq_refl).
      destruct (fi_placeholder i); [destruct (PH eq_refl); discriminate|].
      destruct (read_source_ok i _ gs (GSlice None) V P Ty) as (g & E & o & -> & Hl).
      { intros _. exists None. split; [reflexivity|discriminate]. }
      rewrite E. cbn [bind]. destruct o as [l|]; cbv beta iota zeta.
      + assert (HF : Forall (fun a => forall ds, exists v,
                                 (fun a d => to_prim_value i (Ok a) (GStruct gs) (TyPrim (fi_tk i)) None d) a ds
                                 = Ok (v, ds) /\ conformsc HC (TyPrim (fi_tk i)) v = true) l).
        { eapply Forall_impl; [|exact (Hl l eq_refl)]. intros a Sa d.
          destruct (to_prim_value_total i (Ok a) (GStruct gs) d P Z (or_intror (ex_intro _ a (conj eq_refl Sa))))
            as (n & p & Ev & Kp).
          eexists. split; [exact Ev|now apply conformsc_prim]. }
        destruct (fold_list_total _ _ l HF [] ds) as (vs & Ef & Cvs). cbv beta in Ef. rewrite Ef.
        cbn [bind app]. eexists. split; [reflexivity|]. apply conformsc_list. now right.
      + eexists. split; [reflexivity|]. apply conformsc_list. now left.
    - (* ObjectKind *)
      destruct (OM eq_refl) as (m' & ->). inversion FT; subst t; clear FT.
      destruct (Q m' eq_refl) as [T' G'].
      destruct (fi_placeholder i); [destruct (PH eq_refl); discriminate|].
      destruct (read_source_ok i _ gs (if fi_nullable i then GPtr None else m_zero m') V P Ty) as (g & E & Sg).
      { intros N. destruct (fi_oneof i) as [h|]; [|congruence].
        destruct (OO h eq_refl) as [[D _]|[_ D]]; [discriminate|]. unfold elem_shape. rewrite D. now left. }
      rewrite E. cbn [bind].
      destruct (obj_value_total_c i gs m' g ds T' G' Sg) as (v & Ev & Cv). rewrite Ev. cbn [bind]. eauto.
    - (* ObjectListKind *)
      destruct (OM eq_refl) as (m' & ->). inversion FT; subst t; clear FT.
      destruct (Q m' eq_refl) as [T' G'].
      destruct (fi_placeholder i); [destruct (PH eq_refl); discriminate|].
      destruct (read_source_ok i _ gs (GSlice None) V P Ty) as (g & E & o & -> & Hl).
      { intros _. exists None. split; [reflexivity|discriminate]. }
      rewrite E. cbn [bind]. destruct o as [l|]; cbv beta iota zeta.
      + assert (HF : Forall (fun a => forall ds, exists v,
                                 (fun a d => obj_value hook i (GStruct gs) None m' (Ok a) (msg_ty_c m') d) a ds
                                 = Ok (v, ds) /\ conformsc HC (TyObj (msg_ty_c m')) v = true) l).
        { eapply Forall_impl; [|exact (Hl l eq_refl)]. intros a Sa d. now apply obj_value_total_c. }
        destruct (fold_list_total _ _ l HF [] ds) as (vs & Ef & Cvs). cbv beta in Ef. rewrite Ef.
        cbn [bind app]. eexists. split; [reflexivity|]. apply conformsc_list. now right.
      + eexists. split; [reflexivity|]. apply conformsc_list. now left.
    - (* PrimitiveMapKind *)
      inversion FT; subst t; clear FT. specialize (Z eq_refl).
      destruct (fi_placeholder i); [destruct (PH eq_refl); discriminate|].
      destruct (read_source_ok i _ gs (GMap None) V P Ty) as (g & E & o & -> & Hl).
      { intros _. exists None. split; [reflexivity|discriminate]. }
      rewrite E. cbn [bind]. destruct o as [l|]; cbv beta iota zeta.
      + assert (HF : Forall (fun ka : string * goval => forall ds, exists v,
                                 (fun a d => to_prim_value i (Ok a) (GStruct gs) (TyPrim (fi_tk i)) None d) (snd ka) ds
                                 = Ok (v, ds) /\ conformsc HC (TyPrim (fi_tk i)) v = true) l).
        { eapply Forall_impl; [|exact (Hl l eq_refl)]. intros a Sa d.
          destruct (to_prim_value_total i (Ok (snd a)) (GStruct gs) d P Z
                                        (or_intror (ex_intro _ (snd a) (conj eq_refl Sa))))
            as (n & p & Ev & Kp).
          eexists. split; [exact Ev|now apply conformsc_prim]. }
        destruct (fold_map_total _ _ l HF [] ds eq_refl) as (es & Ef & Ces). cbv beta in Ef. rewrite Ef.
        cbn [bind]. eexists. split; [reflexivity|]. apply conformsc_map. now right.
      + eexists. split; [reflexivity|]. apply conformsc_map. now left.
    - (* ObjectMapKind *)
      destruct (OM eq_refl) as (m' & ->). inversion FT; subst t; clear FT.
      destruct (Q m' eq_refl) as [T' G'].
      destruct (fi_placeholder i); [destruct (PH eq_refl); discriminate|].
      destruct (read_source_ok i _ gs (GMap None) V P Ty) as (g & E & o & -> & Hl).
      { intros _. exists None. split; [reflexivity|discriminate]. }
      rewrite E. cbn [bind]. destruct o as [l|]; cbv beta iota zeta.
      + assert (HF : Forall (fun ka : string * goval => forall ds, exists v,
                                 (fun a d => obj_value hook i (GStruct gs) None m' (Ok a) (msg_ty_c m') d) (snd ka) ds
                                 = Ok (v, ds) /\ conformsc HC (TyObj (msg_ty_c m')) v = true) l).
        { eapply Forall_impl; [|exact (Hl l eq_refl)]. intros a Sa d. now apply obj_value_total_c. }
        destruct (fold_map_total _ _ l HF [] ds eq_refl) as (es & Ef & Ces). cbv beta in Ef. rewrite Ef.
        cbn [bind]. eexists. split; [reflexivity|]. apply conformsc_map. now right.
      + eexists. split; [reflexivity|]. apply conformsc_map. now left.
    - now contradiction NC.
  Qed.

  Lemma field_list_goodc l gs atys :
    Forall field_goodc l -> Forall (fun f => ftyped f gs) l ->
    (forall f, In f l -> exists t, field_ty_c f = Some t /\ lookup (snake f) atys = Some t) ->
    NoDup (snakes l) ->
    forall attrs ds, (forall f, In f l -> lookup (snake f) attrs = None) ->
    exists attrs', to_field_list hook l (GStruct gs) atys (attrs, ds) = Ok (attrs', ds)
      /\ (forall k, ~ In k (snakes l) -> lookup k attrs' = lookup k attrs)
      /\ (forall f t, In f l -> field_ty_c f = Some t ->
                      exists v, lookup (snake f) attrs' = Some v /\ conformsc HC t v = true).
  Proof.
    induction l as [|f r IH]; intros G T A ND attrs ds N; cbn [to_field_list].
    - exists attrs. split; [reflexivity|]. split; [reflexivity|]. intros f t [].
    - inversion G as [|? ? Gf Gr]; subst. inversion T as [|? ? Tf Tr]; subst.
      cbn [snakes map] in ND. inversion ND as [|? ? N1 N2]; subst.
      destruct (A f (or_introl eq_refl)) as (t & FT & La).
      destruct (Gf gs atys attrs ds t Tf FT La (N f (or_introl eq_refl))) as (v & E & Cv).
      rewrite E. cbn [bind].
      destruct (IH Gr Tr (fun f' I => A f' (or_intror I)) N2 (update (snake f) v attrs) ds)
        as (attrs' & E' & L' & C').
      { intros f' I. rewrite lookup_update_neq; [apply N; now right|].
        intros Eq. apply N1. rewrite <- Eq. now apply in_map. }
      exists attrs'. split; [exact E'|]. split.
      + intros k Nk. cbn [snakes map In] in Nk. rewrite L' by tauto. apply lookup_update_neq.
        intros ->. tauto.
      + intros f' t' [<-|I] FT'.
        * rewrite L' by exact N1. rewrite lookup_update_eq. rewrite FT in FT'. inversion FT'; subst. eauto.
        * now apply C'.
  Qed.

  Lemma total_mutual_c : forall m, tfc_ok m = true -> msg_goodc m.
  Proof.
    apply (message_ind' (fun f => ftfc_ok f = true -> field_goodc f) (fun m => tfc_ok m = true -> msg_goodc m)).
    - intros i F. cbn [ftfc_ok] in F. rewrite andb_true_r in F. apply field_step_c; [exact F|]. intros m' [=].
    - intros i m IH F. cbn [ftfc_ok] in F. apply andb_prop in F. destruct F as [F1 F2].
      apply field_step_c; [exact F1|]. intros m' [= <-]. split; [exact F2|exact (IH F2)].
    - intros n fs os inj e z IH F obj ds T. rewrite tfc_ok_eq in F.
      apply andb_prop in F. destruct F as [F F3]. apply andb_prop in F. destruct F as [F1 _].
      apply nodup_b_NoDup in F1. rewrite forallb_forall in F3.
      rewrite typed_eq in T. destruct T as (gs & -> & T). rewrite to_fields_list, msg_ty_c_eq.
      assert (G : Forall field_goodc fs).
      { rewrite Forall_forall in IH |- *. intros f I. exact (IH f I (F3 f I)). }
      assert (A : forall f, In f fs -> exists t, field_ty_c f = Some t /\ lookup (snake f) (fields_ty_c fs) = Some t).
      { intros [i om] I. pose proof (F3 _ I) as Ff. cbn [ftfc_ok] in Ff.
        apply andb_prop in Ff. destruct Ff as [Ff _].
        destruct (field_ty_c_some _ _ Ff) as (t & FT). exists t. split; [exact FT|]. now apply lookup_fields_ty_c. }
      destruct (field_list_goodc fs gs (fields_ty_c fs) G T) with (attrs := @nil (string * tfval)) (ds := ds)
        as (attrs' & E & L & C).
      + exact A.
      + exact F1.
      + reflexivity.
      + exists attrs'. split; [exact E|]. unfold attrs_conformc. apply andb_true_intro. split.
        * rewrite forallb_forall. intros [k t] I.
          unfold fields_ty_c in I. apply in_flat_map in I. destruct I as (f & If & I).
          destruct (field_ty_c f) as [t0|] eqn:FT; [|destruct I]. destruct I as [[= <- <-]|[]]. cbn [fst snd].
          destruct (C f t0 If FT) as (v & Lv & Cv). now rewrite Lv.
        * rewrite forallb_forall. intros [k v] I. cbn [fst]. unfold has_key.
          destruct (in_dec string_dec k (snakes fs)) as [Ik|Nk].
          -- unfold snakes in Ik. apply in_map_iff in Ik. destruct Ik as (f & <- & If).
             destruct (A f If) as (t & _ & Lt). now rewrite Lt.
          -- exfalso. specialize (L k Nk). cbn [lookup] in L. apply lookup_None_keys in L. apply L.
             unfold keys. change k with (fst (k, v)). now apply in_map.
  Qed.
End TotalC.

(* ------------------------------------------------------------------------------------- *)
(* 6. C03 on the class tfc_ok *)

(* with a requirement HC on the attributes of hook type which the hook meets *)
Theorem copy_to_spec_custom_partial hook HC m obj :
  (forall s g, HC s (hook s g (TyHook s) None) = true) ->
  tfc_ok m = true -> typedc m obj ->
  exists attrs, copy_to hook m obj (VObj (msg_ty_c m) false false None)
                = Ok (VObj (msg_ty_c m) false false (Some attrs), [])
                /\ attrs_conformc HC (msg_ty_c m) attrs = true.
Proof.
  intros Hh F T. destruct (total_mutual_c hook HC Hh m F obj [] T) as (attrs & E & C).
  exists attrs. split; [|exact C]. cbn [copy_to]. rewrite E. reflexivity.
Qed.

(* no panic, no diagnostic, for ANY hook *)
Theorem copy_to_total_custom_partial hook m obj :
  tfc_ok m = true -> typedc m obj ->
  exists attrs, copy_to hook m obj (VObj (msg_ty_c m) false false None)
                = Ok (VObj (msg_ty_c m) false false (Some attrs), []).
Proof.
  intros F T.
  destruct (copy_to_spec_custom_partial hook (fun _ _ => true) m obj (fun _ _ => eq_refl) F T) as (attrs & E & _).
  eauto.
Qed.

(* the attribute of a custom field is what the hook returned, called with the suffix, the value of the
   Go field, the attribute type and no current value: whatever the other fields are *)
Theorem copy_to_custom_attr hook m obj a n u attrs ds i om g :
  tfc_ok m = true ->
  copy_to hook m obj (VObj (msg_ty_c m) false false None) = Ok (VObj a n u (Some attrs), ds) ->
  In (Field i om) (m_fields m) -> fi_kind i = CustomKind ->
  gfield obj (fi_name i) = Ok g ->
  lookup (fi_snake i) (msg_ty_c m) = Some (TyHook (fi_suffix i)) /\
  lookup (fi_snake i) attrs = Some (hook (fi_suffix i) g (TyHook (fi_suffix i)) None).
Proof.
  intros F H I K G. destruct (tfc_ok_fields m F) as [ND FF].
  specialize (FF _ I). cbn [ftfc_ok] in FF. apply andb_prop in FF. destruct FF as [FI _].
  destruct (custom_ok_inv _ (finfoc_ok_custom _ _ FI K)) as (V & P & O & PH).
  assert (FT : field_ty_c (Field i om) = Some (TyHook (fi_suffix i))) by (cbn [field_ty_c]; now rewrite K).
  pose proof (lookup_fields_ty_c _ _ _ ND I FT) as La. rewrite <- msg_ty_c_fields in La.
  unfold snake in La. cbn [f_info] in La. split; [exact La|].
  cbn [copy_to] in H.
  destruct (to_fields hook m obj (msg_ty_c m) ([], [])) as [[a0 d0]|] eqn:E; cbn [bind] in H; [|discriminate].
  inversion H; subst; clear H. rewrite to_fields_m_fields in E.
  destruct (in_split _ _ I) as (l1 & l2 & EQ). rewrite EQ in E, ND.
  rewrite to_field_list_app in E.
  destruct (to_field_list hook l1 obj (msg_ty_c m) ([], [])) as [[a1 d1]|] eqn:E1; cbn [bind] in E; [|discriminate].
  cbn [to_field_list] in E.
  destruct (to_field hook (Field i om) obj (msg_ty_c m) (a1, d1)) as [[a2 d2]|] eqn:E2; cbn [bind] in E; [|discriminate].
  unfold snakes in ND. rewrite map_app in ND. cbn [map] in ND. apply NoDup_remove_2 in ND.
  unfold snake in ND. cbn [f_info] in ND.
  assert (N1 : ~ In (fi_snake i) (map (fun f => fi_snake (f_info f)) l1)) by (intros X; apply ND, in_or_app; now left).
  assert (N2 : ~ In (fi_snake i) (map (fun f => fi_snake (f_info f)) l2)) by (intros X; apply ND, in_or_app; now right).
  rewrite (to_field_list_local _ _ _ _ _ _ _ _ E _ N2).
  pose proof (to_field_list_local _ _ _ _ _ _ _ _ E1 _ N1) as Lc. cbn [lookup] in Lc.
  pose proof (to_field_custom hook i om obj (msg_ty_c m) a1 d1 _ K La) as E3.
  rewrite (custom_source_plain i _ P), V in E3. cbn [gget_via] in E3. rewrite G, Lc in E3. cbn [bind] in E3.
  rewrite E3 in E2. inversion E2; subst. apply lookup_update_eq.
Qed.

(* C17 + C03 at the level of the message *)
Theorem copy_to_custom_delegated hook m obj :
  tfc_ok m = true -> typedc m obj ->
  exists attrs,
    copy_to hook m obj (VObj (msg_ty_c m) false false None) = Ok (VObj (msg_ty_c m) false false (Some attrs), [])
    (* every custom field: the attribute IS the hook's answer *)
    /\ (forall i om, In (Field i om) (m_fields m) -> fi_kind i = CustomKind ->
          exists g, gfield obj (fi_name i) = Ok g
                    /\ lookup (fi_snake i) (msg_ty_c m) = Some (TyHook (fi_suffix i))
                    /\ lookup (fi_snake i) attrs = Some (hook (fi_suffix i) g (TyHook (fi_suffix i)) None))
    (* every attribute has its type, the hook-typed ones (at any depth) being left alone *)
    /\ attrs_conformc (fun _ _ => true) (msg_ty_c m) attrs = true
    (* in particular every field which is not of a custom type *)
    /\ (forall f t, In f (m_fields m) -> fi_kind (f_info f) <> CustomKind -> field_ty_c f = Some t ->
          lookup (snake f) (msg_ty_c m) = Some t /\
          exists v, lookup (snake f) attrs = Some v /\ conformsc (fun _ _ => true) t v = true).
Proof.
  intros F T.
  destruct (copy_to_spec_custom_partial hook (fun _ _ => true) m obj (fun _ _ => eq_refl) F T) as (attrs & E & C).
  exists attrs. split; [exact E|]. split; [|split; [exact C|]].
  - intros i om I K. destruct (tfc_ok_fields m F) as [_ FF].
    specialize (FF _ I). cbn [ftfc_ok] in FF. apply andb_prop in FF. destruct FF as [FI _].
    destruct (custom_ok_inv _ (finfoc_ok_custom _ _ FI K)) as (V & P & O & PH).
    destruct m as [nm fs os inj e z]. rewrite typed_eq in T. destruct T as (gs & -> & T).
    rewrite Forall_forall in T. specialize (T _ I). apply (ftyped_custom i om gs K O PH) in T.
    destruct T as (g & Lg). exists g. assert (G : gfield (GStruct gs) (fi_name i) = Ok g) by (cbn [gfield]; now rewrite Lg).
    split; [exact G|]. exact (copy_to_custom_attr hook _ _ _ _ _ _ _ i om g F E I K G).
  - intros f t I _ FT. destruct (tfc_ok_fields m F) as [ND _].
    pose proof (lookup_fields_ty_c _ _ _ ND I FT) as La. rewrite <- msg_ty_c_fields in La.
    split; [exact La|]. unfold attrs_conformc in C. apply andb_prop in C. destruct C as [C _].
    rewrite forallb_forall in C. apply lookup_In in La. specialize (C _ La). cbn [fst snd] in C.
    destruct (lookup (snake f) attrs) as [v|]; [eauto|discriminate].
Qed.

Print Assumptions copy_to_total_custom_partial.
Print Assumptions copy_to_custom_attr.
Print Assumptions copy_to_custom_delegated.

(* ------------------------------------------------------------------------------------- *)
(* 7. CopyFrom: totality (C06) *)

Module CF := CopyFromProofs.
Module FM := FromMalformed.

(* CopyFromProofs.flat_ok already admits a custom field reached directly (info_ok: CustomKind => true,
   fi_via = [], fi_parent = None, not a oneof branch) *)
Notation flatc_ok := CF.flat_ok (only parsing).

Lemma info_ok_custom i om :
  fi_kind i = CustomKind ->
  (CF.info_ok i om = true <-> fi_via i = [] /\ fi_parent i = None /\ fi_oneof i = None).
Proof.
  intros K. unfold CF.info_ok. rewrite K. split.
  - intros H. apply andb_prop in H. destruct H as [H H3]. apply andb_prop in H. destruct H as [H _].
    apply andb_prop in H. destruct H as [H1 H2].
    split; [destruct (fi_via i); [reflexivity|discriminate]|].
    split; [destruct (fi_parent i); [discriminate|reflexivity]|].
    destruct (fi_oneof i); [discriminate|reflexivity].
  - intros (-> & -> & ->). reflexivity.
Qed.

(* for every hook and every payload-typed object (attributes missing, of the wrong kind, VNil, nil
   containers, at any depth): CopyFrom returns, and the struct keeps its keys *)
Theorem copy_from_total_custom_partial hook m a n u at0 obj :
  flatc_ok m = true -> CF.zeros_ok m -> CF.attrs_typed at0 = true -> CF.has_keys m obj ->
  exists obj' ds, copy_from hook m (VObj a n u at0) obj = Ok (obj', ds) /\ CF.has_keys m obj'.
Proof. exact (CF.copy_from_total_partial hook m a n u at0 obj). Qed.

(* ------------------------------------------------------------------------------------- *)
(* 8. CopyFrom: delegation (C17) *)

(* one field: the hook gets the attribute (nil when missing) and what the field holds; the field is
   NOT reset before the call *)
Lemma from_field_custom_direct hook i om attrs obj ds cur :
  fi_kind i = CustomKind -> fi_via i = [] -> fi_parent i = None ->
  gfield obj (fi_name i) = Ok cur ->
  exists obj',
    from_field hook (Field i om) attrs (obj, ds)
    = Ok (obj', match lookup (fi_snake i) (CF.attrs_list attrs) with
                | None => diag_append ds (ReadMissing, fi_path i)
                | Some _ => ds
                end)
    /\ gfield obj' (fi_name i) = Ok (hook (fi_suffix i) (lookup (fi_snake i) (CF.attrs_list attrs)) cur)
    /\ (forall k, k <> fi_name i -> gfield obj' k = gfield obj k).
Proof.
  intros K V P G. rewrite (from_field_custom hook i om attrs obj ds K). cbv zeta.
  rewrite CF.attr_lookup_eq, (CF.alloc_parent_none i obj P), V. cbn [bind gget_via gset_via]. rewrite G. cbn [bind].
  destruct obj as [| | | | |fs|]; try discriminate G. cbn [gfield] in G.
  destruct (lookup (fi_name i) fs) as [x|] eqn:L; [|discriminate G].
  cbn [gset]. rewrite L. cbn [bind]. eexists. split; [reflexivity|]. split.
  - cbn [gfield]. now rewrite lookup_update_eq.
  - intros k N. cbn [gfield]. now rewrite lookup_update_neq.
Qed.

Lemma fold_res_keep {A} (g : goval -> A -> res goval) n l :
  (forall x o o', In x l -> g o x = Ok o' -> gfield o' n = gfield o n) ->
  forall o o', CF.fold_res g l o = Ok o' -> gfield o' n = gfield o n.
Proof.
  induction l as [|x r IH]; intros Hg o o' H; cbn [CF.fold_res] in H.
  - now inversion H.
  - destruct (g o x) as [o1|] eqn:E; cbn [bind] in H; [|discriminate].
    rewrite (IH (fun y a b Hy => Hg y a b (or_intror Hy)) _ _ H). exact (Hg x _ _ (or_introl eq_refl) E).
Qed.

(* the new diagnostics of a list of fields name paths of these fields *)
Lemma from_field_list_new_paths hook fs attrs obj ds obj' ds' :
  CF.from_field_list hook fs attrs (obj, ds) = Ok (obj', ds') ->
  forall d, In d ds' -> In d ds \/ In (snd d) (flat_map FM.live_paths fs).
Proof.
  intros H.
  apply (FM.from_field_list_R_all hook (fun P a b => forall d, In d b -> In d a \/ In (snd d) P))
    with (fs := fs) (attrs := attrs) (obj := obj) (obj' := obj').
  - intros P a d I. now left.
  - intros P a b c H1 H2 d I. destruct (H2 d I) as [I2|I2]; [exact (H1 d I2)|now right].
  - intros P P' a b HI H1 d I. destruct (H1 d I) as [I1|I1]; [now left|right; exact (HI _ I1)].
  - intros P a k p HK HP d I. apply PrunedTargets.In_diag_append_inv in I. destruct I as [I|E]; [now left|right].
    subst d. exact HP.
  - exact H.
Qed.

(* the Go key of the custom field is its own: no oneof holder, and no other field writes it *)
Definition own_go_key (m : message) (i : finfo) (others : list field) : Prop :=
  ~ In (fi_name i) (m_oneofs m) /\
  forall f, In f others ->
            ~ In (fi_name i) (CF.top_keys (f_info f)) /\ ~ In (fi_name i) (CF.promoted_keys (f_info f)).

Theorem from_fields_custom_delegated hook m attrs obj ds obj' ds' pre i om post prior :
  from_fields hook m attrs (obj, ds) = Ok (obj', ds') ->
  m_fields m = pre ++ Field i om :: post ->
  fi_kind i = CustomKind -> fi_via i = [] -> fi_parent i = None -> fi_oneof i = None -> fi_placeholder i = false ->
  own_go_key m i (pre ++ post) ->
  gfield obj (fi_name i) = Ok prior ->
  let a0 := lookup (fi_snake i) (CF.attrs_list attrs) in
  (* the field is what the hook returned for the attribute (or nil) and what the target held *)
  gfield obj' (fi_name i) = Ok (hook (fi_suffix i) a0 prior)
  (* a missing attribute is reported *)
  /\ (a0 = None -> In (ReadMissing, fi_path i) ds')
  (* a present attribute, whatever it is, adds no diagnostic under the path of the field *)
  /\ (a0 <> None -> ~ In (fi_path i) (flat_map FM.live_paths (pre ++ post)) ->
      forall d, In d ds' -> snd d = fi_path i -> In d ds).
Proof.
  destruct m as [nm fs os inj e z]. rewrite CF.from_fields_unfold. cbn [fst snd m_fields m_oneofs].
  intros H -> K V P O PH [K1 K2] G.
  set (a0 := lookup (fi_snake i) (CF.attrs_list attrs)). set (n := fi_name i) in *.
  assert (IN : forall x, In x (pre ++ Field i om :: post) -> x = Field i om \/ In x (pre ++ post)).
  { intros x Hx. apply in_app_or in Hx. destruct Hx as [Hx|[Hx|Hx]]; [right|left|right]; auto using in_or_app. }
  destruct (CF.fold_res CF.reset_oneof os obj) as [o1|] eqn:E1; cbn [bind] in H; [|discriminate].
  destruct (CF.fold_res CF.reset_promoted _ o1) as [o2|] eqn:E2; cbn [bind] in H; [|discriminate].
  destruct (CF.fold_res CF.reset_parent _ o2) as [o3|] eqn:E3; cbn [bind] in H; [|discriminate].
  assert (S1 : gfield o1 n = gfield obj n).
  { apply (fold_res_keep CF.reset_oneof n os); [|exact E1]. intros x o o' Hx Hg.
    apply (CF.reset_oneof_other n _ _ _ Hg). intros [->|[]]. exact (K1 Hx). }
  assert (S2 : gfield o2 n = gfield o1 n).
  { apply (fold_res_keep CF.reset_promoted n (pre ++ Field i om :: post)); [|exact E2]. intros x o o' Hx Hg.
    destruct (IN x Hx) as [->|Hy].
    - unfold CF.reset_promoted in Hg. cbn [f_info] in Hg. rewrite O in Hg. now inversion Hg.
    - apply (CF.reset_promoted_other n _ _ _ Hg). exact (proj2 (K2 x Hy)). }
  assert (S3 : gfield o3 n = gfield o2 n).
  { apply (fold_res_keep CF.reset_parent n (pre ++ Field i om :: post)); [|exact E3]. intros x o o' Hx Hg.
    destruct (IN x Hx) as [->|Hy].
    - unfold CF.reset_parent in Hg. cbn [f_info] in Hg. rewrite P in Hg. now inversion Hg.
    - apply (CF.reset_parent_other n _ _ _ Hg). exact (proj1 (K2 x Hy)). }
  assert (G3 : gfield o3 n = Ok prior) by (now rewrite S3, S2, S1).
  rewrite CF.from_field_list_app in H.
  destruct (CF.from_field_list hook pre attrs (o3, ds)) as [[o4 d4]|] eqn:E4; cbn [bind] in H; [|discriminate].
  cbn [CF.from_field_list f_info] in H. rewrite PH in H.
  assert (G4 : gfield o4 n = Ok prior).
  { rewrite (CF.from_field_list_untouched _ _ _ _ _ _ _ E4 n); [exact G3|].
    intros X. apply in_flat_map in X. destruct X as (f & Hf & X). exact (proj1 (K2 f (in_or_app _ _ _ (or_introl Hf))) X). }
  destruct (from_field_custom_direct hook i om attrs o4 d4 prior K V P G4) as (o5 & E5 & G5 & _).
  rewrite E5 in H. cbn [bind] in H. fold a0 in E5, G5, H.
  assert (G6 : gfield obj' n = gfield o5 n).
  { apply (CF.from_field_list_untouched _ _ _ _ _ _ _ H n).
    intros X. apply in_flat_map in X. destruct X as (f & Hf & X). exact (proj1 (K2 f (in_or_app _ _ _ (or_intror Hf))) X). }
  split; [now rewrite G6|]. split.
  - intros A0. apply (FM.from_field_list_diag_mono _ _ _ _ _ _ _ H). rewrite A0.
    apply PrunedTargets.In_diag_append_self.
  - intros A0 NP d I Ed. destruct a0 as [a|]; [|congruence].
    destruct (from_field_list_new_paths _ _ _ _ _ _ _ H d I) as [I5|I5].
    + destruct (from_field_list_new_paths _ _ _ _ _ _ _ E4 d I5) as [I4|I4]; [exact I4|].
      exfalso. apply NP. rewrite <- Ed. rewrite flat_map_app. apply in_or_app. now left.
    + exfalso. apply NP. rewrite <- Ed. rewrite flat_map_app. apply in_or_app. now right.
Qed.

(* C17 (CopyFrom) at the level of the message *)
Theorem copy_from_custom_delegated hook m a n u at0 obj obj' ds' pre i om post prior :
  copy_from hook m (VObj a n u at0) obj = Ok (obj', ds') ->
  m_fields m = pre ++ Field i om :: post ->
  fi_kind i = CustomKind -> fi_via i = [] -> fi_parent i = None -> fi_oneof i = None -> fi_placeholder i = false ->
  own_go_key m i (pre ++ post) ->
  gfield obj (fi_name i) = Ok prior ->
  let a0 := lookup (fi_snake i) (CF.attrs_list at0) in
  gfield obj' (fi_name i) = Ok (hook (fi_suffix i) a0 prior)
  /\ (a0 = None -> In (ReadMissing, fi_path i) ds')
  /\ (a0 <> None -> ~ In (fi_path i) (flat_map FM.live_paths (pre ++ post)) ->
      forall d, In d ds' -> snd d <> fi_path i).
Proof.
  intros H EQ K V P O PH OK G a0. cbn [copy_from] in H.
  destruct (from_fields_custom_delegated hook m at0 obj [] obj' ds' pre i om post prior H EQ K V P O PH OK G)
    as (R1 & R2 & R3).
  split; [exact R1|]. split; [exact R2|]. intros A0 NP d I Ed. exact (R3 A0 NP d I Ed).
Qed.

Print Assumptions copy_from_total_custom_partial.
Print Assumptions copy_from_custom_delegated.

(* ------------------------------------------------------------------------------------- *)
(* 9. round trip modulo the hooks, field by field: CopyTo on the empty object of the schema's type, then
   CopyFrom into any target; the custom field holds what hook_from makes of hook_to's answer and of what
   the target held; when the hooks are inverse to each other there, it is the value CopyTo started from *)
Theorem copy_custom_round_trip_partial hook_to hook_from m obj target pre i om post z :
  tfc_ok m = true -> typedc m obj ->
  m_fields m = pre ++ Field i om :: post -> fi_kind i = CustomKind ->
  own_go_key m i (pre ++ post) ->
  gfield target (fi_name i) = Ok z ->
  exists t g,
    copy_to hook_to m obj (VObj (msg_ty_c m) false false None) = Ok (t, [])
    /\ gfield obj (fi_name i) = Ok g
    /\ forall obj' ds', copy_from hook_from m t target = Ok (obj', ds') ->
         let a := hook_to (fi_suffix i) g (TyHook (fi_suffix i)) None in
         gfield obj' (fi_name i) = Ok (hook_from (fi_suffix i) (Some a) z)
         /\ (~ In (fi_path i) (flat_map FM.live_paths (pre ++ post)) -> forall d, In d ds' -> snd d <> fi_path i)
         /\ (hook_from (fi_suffix i) (Some a) z = g -> gfield obj' (fi_name i) = Ok g).
Proof.
  intros F T EQ K OK Z.
  assert (I : In (Field i om) (m_fields m)) by (rewrite EQ; apply in_or_app; right; now left).
  destruct (copy_to_custom_delegated hook_to m obj F T) as (attrs & E & D & _).
  destruct (D i om I K) as (g & G & _ & La).
  exists (VObj (msg_ty_c m) false false (Some attrs)), g. split; [exact E|]. split; [exact G|].
  intros obj' ds' H a.
  destruct (tfc_ok_fields m F) as [_ FF]. specialize (FF _ I). cbn [ftfc_ok] in FF.
  apply andb_prop in FF. destruct FF as [FI _].
  destruct (custom_ok_inv _ (finfoc_ok_custom _ _ FI K)) as (V & P & O & PH).
  destruct (copy_from_custom_delegated hook_from m _ _ _ _ target obj' ds' pre i om post z H EQ K V P O PH OK Z)
    as (R1 & _ & R3).
  cbn [CF.attrs_list] in R1, R3. rewrite La in R1, R3. fold a in R1, R3.
  split; [exact R1|]. split; [|intros Inv; now rewrite R1, Inv].
  apply R3. discriminate.
Qed.

Print Assumptions copy_custom_round_trip_partial.

(* ------------------------------------------------------------------------------------- *)
(* 10. the class extends tf_ok, and msg_ty_c is msg_ty there *)

Lemma tf_ok_tfc_ok_mutual : forall m, tf_ok m = true -> tfc_ok m = true /\ msg_ty_c m = msg_ty m.
Proof.
  apply (message_ind' (fun f => ftf_ok f = true -> ftfc_ok f = true /\ field_ty_c f = field_ty f)
                      (fun m => tf_ok m = true -> tfc_ok m = true /\ msg_ty_c m = msg_ty m)).
  - intros i F. cbn [ftf_ok] in F. rewrite andb_true_r in F.
    destruct (finfo_ok_inv _ _ F) as (_ & _ & NC & _).
    split.
    + cbn [ftfc_ok]. rewrite andb_true_r. unfold finfoc_ok. apply is_custom_false in NC. now rewrite NC.
    + cbn [field_ty_c field_ty]. destruct (fi_kind i); try reflexivity. now contradiction NC.
  - intros i m IH F. cbn [ftf_ok] in F. apply andb_prop in F. destruct F as [F F2].
    destruct (IH F2) as [T E]. destruct (finfo_ok_inv _ _ F) as (_ & _ & NC & _).
    split.
    + cbn [ftfc_ok]. rewrite T, andb_true_r. unfold finfoc_ok. apply is_custom_false in NC. now rewrite NC.
    + cbn [field_ty_c field_ty]. rewrite E. destruct (fi_kind i); try reflexivity. now contradiction NC.
  - intros n fs os inj e z IH F. rewrite tf_ok_eq in F. rewrite tfc_ok_eq, msg_ty_c_eq, msg_ty_eq.
    apply andb_prop in F. destruct F as [F F3]. rewrite F. cbn [andb].
    rewrite forallb_forall in F3. rewrite Forall_forall in IH. split.
    + apply forallb_forall. intros f I. exact (proj1 (IH f I (F3 f I))).
    + assert (A : forall f, In f fs -> field_ty_c f = field_ty f) by (intros f I; exact (proj2 (IH f I (F3 f I)))).
      clear - A. unfold fields_ty_c, fields_ty. induction fs as [|f r IHr]; [reflexivity|].
      cbn [flat_map]. rewrite (A f (or_introl eq_refl)), IHr by (intros f' I; apply A; now right). reflexivity.
Qed.

Corollary tf_ok_tfc_ok m : tf_ok m = true -> tfc_ok m = true.
Proof. intros H. exact (proj1 (tf_ok_tfc_ok_mutual m H)). Qed.

Corollary msg_ty_c_msg_ty m : tf_ok m = true -> msg_ty_c m = msg_ty m.
Proof. intros H. exact (proj2 (tf_ok_tfc_ok_mutual m H)). Qed.

(* ------------------------------------------------------------------------------------- *)
(* 11. msg_ty_c is the attribute type of the generated schema, when GenSchema<S> keeps the name of the
   attribute and gives it the type of the custom type (no injected attributes) *)
Section SchemaTyC.
  Variable hs : hook_schema_t.
  Hypothesis Hhs : forall s a, s_name (hs s a) = s_name a /\ attr_ty (hs s a) = Some (s_name a, TyHook s).

  Definition field_agrees_c (f : field) : Prop :=
    ftfc_ok f = true -> fno_inj f = true ->
    s_name (schema_field hs f) = snake f /\
    attr_ty (schema_field hs f) = match field_ty_c f with Some t => Some (snake f, t) | None => None end.

  Lemma schema_ty_mutual_c : forall m, tfc_ok m = true -> no_inj m = true -> schema_ty hs m = msg_ty_c m.
  Proof.
    apply (message_ind' field_agrees_c (fun m => tfc_ok m = true -> no_inj m = true -> schema_ty hs m = msg_ty_c m)).
    - intros i F _. unfold snake. rewrite schema_field_eq. cbn [field_ty_c f_info]. cbv zeta.
      destruct (fi_kind i) eqn:K; first [exact (Hhs _ _)|split; reflexivity].
    - intros i m IH F NI. cbn [ftfc_ok] in F. apply andb_prop in F. destruct F as [F F2]. cbn [fno_inj] in NI.
      specialize (IH F2 NI). unfold schema_ty in IH.
      unfold snake. rewrite schema_field_eq. cbn [field_ty_c f_info]. cbv zeta.
      destruct (fi_kind i) eqn:K; try exact (Hhs _ _); (split; [reflexivity|]);
        try reflexivity; rewrite attr_ty_nested, IH; reflexivity.
    - intros n fs os inj e z IH F NI. rewrite tfc_ok_eq in F. rewrite no_inj_eq in NI.
      apply andb_prop in F. destruct F as [F F3]. apply andb_prop in F. destruct F as [F1 _].
      apply nodup_b_NoDup in F1. rewrite forallb_forall in F3.
      apply andb_prop in NI. destruct NI as [NI1 NI2]. rewrite forallb_forall in NI2.
      destruct inj; [|discriminate]. rewrite Forall_forall in IH.
      unfold schema_ty. rewrite schema_attrs_eq, msg_ty_c_eq. cbn [fold_left].
      rewrite own_go_fresh; [|intros f I; exact (proj1 (IH f I (F3 f I) (NI2 f I)))|exact F1|intros f I []].
      cbn [app].
      assert (A : forall f, In f fs ->
                attr_ty (schema_field hs f) = match field_ty_c f with Some t => Some (snake f, t) | None => None end)
        by (intros f I; exact (proj2 (IH f I (F3 f I) (NI2 f I)))).
      clear - A. unfold fields_ty_c. induction fs as [|f r IHr]; [reflexivity|].
      cbn [map flat_map]. rewrite obj_ty_of_cons, (A f (or_introl eq_refl)), IHr by (intros f' I; apply A; now right).
      now destruct (field_ty_c f).
  Qed.
End SchemaTyC.

Lemma std_hook_schema_ty s a :
  s_name (std_hook_schema s a) = s_name a /\ attr_ty (std_hook_schema s a) = Some (s_name a, TyHook s).
Proof. destruct a. split; reflexivity. Qed.

(* C03 with the type of the generated schema *)
Corollary copy_to_schema_custom_partial hook hs m obj :
  (forall s a, s_name (hs s a) = s_name a /\ attr_ty (hs s a) = Some (s_name a, TyHook s)) ->
  tfc_ok m = true -> no_inj m = true -> typedc m obj ->
  exists attrs, copy_to hook m obj (VObj (schema_ty hs m) false false None)
                = Ok (VObj (schema_ty hs m) false false (Some attrs), []).
Proof.
  intros Hhs F NI T. rewrite (schema_ty_mutual_c hs Hhs m F NI). now apply copy_to_total_custom_partial.
Qed.

Print Assumptions tf_ok_tfc_ok_mutual.
Print Assumptions copy_to_schema_custom_partial.

(* ------------------------------------------------------------------------------------- *)
(* 12. the hypotheses are satisfiable, and the model computes: a message with a custom field (a
   []bool under the custom type BoolCustom), a scalar, a nullable nested message and a list of nested
   messages by value, the nested message holding a custom field (a duration under Dur) itself *)
Module Example.
  Local Open Scope string_scope.

  Definition mk (name snake : string) (k : kind) (tk : tfkind) (c : goscalar) (nullable zero : bool)
             (oneof : option string) (suffix : string) : finfo :=
    {| fi_name := name; fi_snake := snake; fi_path := snake; fi_kind := k; fi_tk := tk; fi_cast := c;
       fi_nullable := nullable; fi_zero := zero; fi_placeholder := false; fi_oneof := oneof; fi_via := [];
       fi_parent := None; fi_inner := []; fi_required := false; fi_computed := false; fi_sensitive := false;
       fi_validators := []; fi_planmods := []; fi_comment := ""; fi_suffix := suffix |}.

  Definition fd : finfo := mk "D" "d" CustomKind KStr GsString false false None "Dur".
  Definition fc : finfo := mk "C" "c" CustomKind KStr GsString false false None "BoolCustom".

  Definition inner : message :=
    Msg "Inner" [Field (mk "A" "a" PrimitiveKind KStr GsString false true None "") None; Field fd None] [] [] false
        (GStruct [("A", GPrim (PStr "")); ("D", GPrim (PInt 0))]).

  Definition rest : list field :=
    [Field (mk "N" "n" PrimitiveKind KI64 GsInt32 false false None "") None;
     Field (mk "Sub" "sub" ObjectKind KStr GsString true false None "") (Some inner);
     Field (mk "Items" "items" ObjectListKind KStr GsString false false None "") (Some inner)].

  Definition outer : message :=
    Msg "Outer" (Field fc None :: rest) [] [] false
        (GStruct [("C", GSlice None); ("N", GPrim (PInt 0)); ("Sub", GPtr None); ("Items", GSlice None)]).

  Definition in_val (s : string) (d : Z) : goval := GStruct [("A", GPrim (PStr s)); ("D", GPrim (PInt d))].

  Definition bools : goval := GSlice (Some [GPrim (PBool true)]).

  Definition value : goval :=
    GStruct [("C", bools); ("N", GPrim (PInt 7));
             ("Sub", GPtr (Some (in_val "x" 5))); ("Items", GSlice (Some [in_val "y" 6]))].

  (* the class: tfc_ok and flat_ok hold, tf_ok does not *)
  Example outer_ok : tfc_ok outer = true /\ CF.flat_ok outer = true /\ no_inj outer = true /\ tf_ok outer = false.
  Proof. repeat split; reflexivity. Qed.

  Example outer_ty :
    msg_ty_c outer
    = [("c", TyHook "BoolCustom"); ("n", TyPrim KI64);
       ("sub", TyObj [("a", TyPrim KStr); ("d", TyHook "Dur")]);
       ("items", TyList (TyObj [("a", TyPrim KStr); ("d", TyHook "Dur")]))]
    /\ schema_ty std_hook_schema outer = msg_ty_c outer
    (* msg_ty leaves the custom attributes out *)
    /\ msg_ty outer = [("n", TyPrim KI64); ("sub", TyObj [("a", TyPrim KStr)]);
                       ("items", TyList (TyObj [("a", TyPrim KStr)]))].
  Proof. repeat split; reflexivity. Qed.

  Lemma in_val_typed s d : typedc inner (in_val s d).
  Proof.
    unfold inner. rewrite typed_eq. eexists. split; [reflexivity|].
    apply Forall_cons; [|apply Forall_cons; [|apply Forall_nil]].
    - cbn. eexists. split; reflexivity.
    - apply ftyped_custom; try reflexivity. eexists. reflexivity.
  Qed.

  Lemma value_typed : typedc outer value.
  Proof.
    unfold outer, rest. rewrite typed_eq. eexists. split; [reflexivity|].
    repeat apply Forall_cons; try apply Forall_nil.
    - apply ftyped_custom; try reflexivity. eexists. reflexivity.
    - cbn. eexists. split; reflexivity.
    - cbn [ftyped mk fi_placeholder]. unfold reads, val_shape, elem_shape. cbn [mk fi_oneof fi_kind fi_nullable fi_name].
      eexists. split; [reflexivity|]. right. eexists. split; [reflexivity|apply in_val_typed].
    - cbn [ftyped mk fi_placeholder]. unfold reads, val_shape, elem_shape. cbn [mk fi_oneof fi_kind fi_nullable fi_name].
      eexists. split; [reflexivity|]. eexists. split; [reflexivity|]. intros l [= <-].
      apply Forall_cons; [apply in_val_typed|apply Forall_nil].
  Qed.

  (* the theorems, instantiated: any hook *)
  Example outer_total hook :
    exists attrs, copy_to hook outer value (VObj (msg_ty_c outer) false false None)
                  = Ok (VObj (msg_ty_c outer) false false (Some attrs), []).
  Proof. exact (copy_to_total_custom_partial hook outer value (proj1 outer_ok) value_typed). Qed.

  Example outer_schema hook :
    exists attrs, copy_to hook outer value (VObj (schema_ty std_hook_schema outer) false false None)
                  = Ok (VObj (schema_ty std_hook_schema outer) false false (Some attrs), []).
  Proof.
    exact (copy_to_schema_custom_partial hook std_hook_schema outer value std_hook_schema_ty
             (proj1 outer_ok) eq_refl value_typed).
  Qed.

  Example outer_c_delegated hook a n u attrs ds :
    copy_to hook outer value (VObj (msg_ty_c outer) false false None) = Ok (VObj a n u (Some attrs), ds) ->
    lookup "c" attrs = Some (hook "BoolCustom" bools (TyHook "BoolCustom") None).
  Proof.
    intros H.
    exact (proj2 (copy_to_custom_attr hook outer value a n u attrs ds fc None bools (proj1 outer_ok) H
                    (or_introl eq_refl) eq_refl eq_refl)).
  Qed.

  (* the run with the harness hook *)
  Example outer_run :
    copy_to std_hook_to outer value (VObj (msg_ty_c outer) false false None)
    = Ok (VObj (msg_ty_c outer) false false
            (Some [("c", VHook "BoolCustom" false false false (Some bools) (Some (TyHook "BoolCustom")) (Some None));
                   ("n", VPrim KI64 false false (PInt 7));
                   ("sub", VObj (msg_ty_c inner) false false
                             (Some [("a", VPrim KStr false false (PStr "x"));
                                    ("d", VHook "Dur" false false false (Some (GPrim (PInt 5))) (Some (TyHook "Dur")) (Some None))]));
                   ("items", VList (TyObj (msg_ty_c inner)) false false
                               (Some [VObj (msg_ty_c inner) false false
                                        (Some [("a", VPrim KStr false false (PStr "y"));
                                               ("d", VHook "Dur" false false false (Some (GPrim (PInt 6)))
                                                       (Some (TyHook "Dur")) (Some None))])]))]), []).
  Proof. vm_compute. reflexivity. Qed.

  (* why msg_ty_c: on the object of type msg_ty (custom attributes absent) the custom fields are reported *)
  Example outer_on_msg_ty :
    exists t, copy_to std_hook_to outer value (VObj (msg_ty outer) false false None)
              = Ok (t, [(WriteMissing, "c"); (WriteMissing, "d")]).
  Proof. eexists. vm_compute. reflexivity. Qed.

  (* CopyFrom *)
  Lemma outer_own_key : own_go_key outer fc ([] ++ rest).
  Proof.
    split; [intros []|]. intros f [<-|[<-|[<-|[]]]]; cbn; split; intros H; intuition discriminate.
  Qed.

  Lemma outer_zeros : CF.zeros_ok outer /\ CF.has_keys outer value.
  Proof.
    assert (KI : CF.has_keys inner (m_zero inner)).
    { eexists. split; [reflexivity|]. split; [intros h []|]. intros f [<-|[<-|[]]]; cbn; tauto. }
    split; [cbn; tauto|].
    eexists. split; [reflexivity|]. split; [intros h []|]. intros f [<-|[<-|[<-|[<-|[]]]]]; cbn; tauto.
  Qed.

  Example outer_from_total hook a n u at0 :
    CF.attrs_typed at0 = true ->
    exists obj' ds, copy_from hook outer (VObj a n u at0) value = Ok (obj', ds) /\ CF.has_keys outer obj'.
  Proof.
    intros T. exact (copy_from_total_custom_partial hook outer a n u at0 value eq_refl (proj1 outer_zeros) T
                       (proj2 outer_zeros)).
  Qed.

  (* any hook, any attributes, the target holding [bools] *)
  Example outer_from_delegated hook a n u at0 obj' ds' :
    copy_from hook outer (VObj a n u at0) value = Ok (obj', ds') ->
    gfield obj' "C" = Ok (hook "BoolCustom" (lookup "c" (CF.attrs_list at0)) bools)
    /\ (lookup "c" (CF.attrs_list at0) = None -> In (ReadMissing, "c") ds')
    /\ (lookup "c" (CF.attrs_list at0) <> None -> forall d, In d ds' -> snd d <> "c").
  Proof.
    intros H.
    destruct (copy_from_custom_delegated hook outer a n u at0 value obj' ds' [] fc None rest bools H
                eq_refl eq_refl eq_refl eq_refl eq_refl eq_refl outer_own_key eq_refl) as (R1 & R2 & R3).
    split; [exact R1|]. split; [exact R2|]. intros A0. apply (R3 A0).
    cbn. intros X. intuition discriminate.
  Qed.

  (* a hook which records its two arguments: a present attribute of any shape (here VNil) is handed over
     with what the target held, nothing is reported for it; the other fields report their missing attributes *)
  Definition rec_hook : hook_from_t :=
    fun s a cur => GStruct [("suffix", GPrim (PStr s));
                            ("attr", match a with Some _ => GPrim (PBool true) | None => GPrim (PBool false) end);
                            ("prior", cur)].

  Example outer_from_run :
    copy_from rec_hook outer (VObj [] false false (Some [("c", VNil)])) value
    = Ok (GStruct [("C", GStruct [("suffix", GPrim (PStr "BoolCustom")); ("attr", GPrim (PBool true)); ("prior", bools)]);
                   ("N", GPrim (PInt 7)); ("Sub", GPtr (Some (in_val "x" 5))); ("Items", GSlice (Some [in_val "y" 6]))],
          [(ReadMissing, "n"); (ReadMissing, "sub"); (ReadMissing, "items")]).
  Proof. vm_compute. reflexivity. Qed.

  Example outer_from_missing_run :
    copy_from rec_hook outer (VObj [] false false None) value
    = Ok (GStruct [("C", GStruct [("suffix", GPrim (PStr "BoolCustom")); ("attr", GPrim (PBool false)); ("prior", bools)]);
                   ("N", GPrim (PInt 7)); ("Sub", GPtr (Some (in_val "x" 5))); ("Items", GSlice (Some [in_val "y" 6]))],
          [(ReadMissing, "c"); (ReadMissing, "n"); (ReadMissing, "sub"); (ReadMissing, "items")]).
  Proof. vm_compute. reflexivity. Qed.

  (* round trip: the harness hooks are inverse to each other *)
  Lemma std_hooks_inverse s g t z : std_hook_from s (Some (std_hook_to s g t None)) z = g.
  Proof. reflexivity. Qed.

  Example outer_round_trip_c target z :
    gfield target "C" = Ok z ->
    exists t, copy_to std_hook_to outer value (VObj (msg_ty_c outer) false false None) = Ok (t, [])
              /\ forall obj' ds', copy_from std_hook_from outer t target = Ok (obj', ds') -> gfield obj' "C" = Ok bools.
  Proof.
    intros Z.
    destruct (copy_custom_round_trip_partial std_hook_to std_hook_from outer value target [] fc None rest z
                (proj1 outer_ok) value_typed eq_refl eq_refl outer_own_key Z) as (t & g & E & G & R).
    exists t. split; [exact E|]. intros obj' ds' H. destruct (R obj' ds' H) as (_ & _ & R3).
    cbn in G. inversion G; subst g. apply R3. apply std_hooks_inverse.
  Qed.

  (* the whole value, custom fields of the nested messages included, by computation *)
  Example outer_round_trip_run :
    match copy_to std_hook_to outer value (VObj (msg_ty_c outer) false false None) with
    | Ok (t, ds) => ds = [] /\ copy_from std_hook_from outer t (m_zero outer) = Ok (value, [])
    | Panic => False
    end.
  Proof. vm_compute. split; reflexivity. Qed.
End Example.

Print Assumptions Example.outer_total.
Print Assumptions Example.outer_c_delegated.
Print Assumptions Example.outer_from_delegated.
Print Assumptions Example.outer_round_trip_c.
