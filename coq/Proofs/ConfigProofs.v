(* C16: the two configuration channels (config.go: ReadConfig).
   The YAML document is read first, then the command-line parameters override it. *)
From Coq Require Import List String Ascii Bool Arith Lia.
From PGT Require Import Base.Strs Base.AList Model.Vals Model.IR Model.Desc.
Import ListNotations.
Local Open Scope string_scope.

(* ------------------------------------------------------------------------------------- *)
(* 1. get_string_param *)

Lemma get_string_param_absent ps name d :
  lookup name ps = None -> get_string_param ps name d = d.
Proof. unfold get_string_param. now intros ->. Qed.

Lemma get_string_param_blank ps name v d :
  lookup name ps = Some v -> trim_space v = "" -> get_string_param ps name d = d.
Proof. unfold get_string_param. intros -> E. cbv zeta. now rewrite E. Qed.

Lemma get_string_param_present ps name v d :
  lookup name ps = Some v -> trim_space v <> "" -> get_string_param ps name d = trim_space v.
Proof.
  unfold get_string_param. intros -> N. cbv zeta.
  destruct (String.eqb_spec (trim_space v) ""); [contradiction|reflexivity].
Qed.

(* with the empty default the result is the trimmed value, blank or not *)
Lemma get_string_param_default_empty ps name v :
  lookup name ps = Some v -> get_string_param ps name "" = trim_space v.
Proof.
  unfold get_string_param. intros ->. cbv zeta.
  destruct (String.eqb_spec (trim_space v) ""); congruence.
Qed.

(* ------------------------------------------------------------------------------------- *)
(* 2. get_slice_param, get_bool_param *)

Lemma get_slice_param_absent ps name d :
  lookup name ps = None -> get_slice_param ps name d = d.
Proof. unfold get_slice_param. intros H. now rewrite (get_string_param_absent _ _ _ H). Qed.

Lemma get_slice_param_blank ps name v d :
  lookup name ps = Some v -> trim_space v = "" -> get_slice_param ps name d = d.
Proof. unfold get_slice_param. intros H E. now rewrite (get_string_param_blank _ _ _ _ H E). Qed.

Lemma get_slice_param_present ps name v d :
  lookup name ps = Some v -> trim_space v <> "" ->
  get_slice_param ps name d = split_on "+"%char (trim_space v).
Proof.
  unfold get_slice_param. intros H N. rewrite (get_string_param_present _ _ _ _ H N). cbv zeta.
  destruct (String.eqb_spec (trim_space v) ""); [contradiction|reflexivity].
Qed.

Lemma lower_str_empty s : lower_str s = "" <-> s = "".
Proof. destruct s; cbn; split; congruence. Qed.

Lemma get_bool_param_absent ps name d :
  lookup name ps = None -> get_bool_param ps name d = d.
Proof. unfold get_bool_param. intros H. now rewrite (get_string_param_absent _ _ _ H). Qed.

Lemma get_bool_param_blank ps name v d :
  lookup name ps = Some v -> trim_space v = "" -> get_bool_param ps name d = d.
Proof. unfold get_bool_param. intros H E. now rewrite (get_string_param_blank _ _ _ _ H E). Qed.

Lemma get_bool_param_present ps name v d b :
  lookup name ps = Some v -> parse_bool (lower_str (trim_space v)) = Some b ->
  get_bool_param ps name d = b.
Proof.
  unfold get_bool_param. intros H P. rewrite (get_string_param_default_empty _ _ _ H). cbv zeta.
  destruct (String.eqb_spec (lower_str (trim_space v)) "") as [E|E].
  - rewrite E in P. vm_compute in P. discriminate.
  - now rewrite P.
Qed.

Lemma get_bool_param_unparsable ps name v d :
  lookup name ps = Some v -> parse_bool (lower_str (trim_space v)) = None ->
  get_bool_param ps name d = d.
Proof.
  unfold get_bool_param. intros H P. rewrite (get_string_param_default_empty _ _ _ H). cbv zeta.
  rewrite P. now destruct (String.eqb _ _).
Qed.

(* a parsable value is never blank *)
Lemma parse_bool_nonblank v b : parse_bool (lower_str (trim_space v)) = Some b -> trim_space v <> "".
Proof. intros P E. rewrite E in P. vm_compute in P. discriminate. Qed.

(* ------------------------------------------------------------------------------------- *)
(* the shape of read_config *)

Definition from_yaml_doc (d : yamldoc) : config :=
  let r := y_rest d in
  {| c_types := opt_or (y_types d) [];
     c_duration_custom_type := opt_or (y_duration_custom_type d) "";
     c_exclude := opt_or (y_exclude d) [];
     c_computed := opt_or (y_computed d) [];
     c_required := opt_or (y_required d) [];
     c_sensitive := opt_or (y_sensitive d) [];
     c_target_pkg := opt_or (y_target_pkg d) "";
     c_default_pkg := opt_or (y_default_pkg d) "";
     c_sort := opt_or (y_sort d) false;
     c_use_state := c_use_state r; c_suffixes := c_suffixes r;
     c_name_overrides := c_name_overrides r; c_validators := c_validators r;
     c_planmods := c_planmods r; c_time_type := c_time_type r;
     c_duration_type := c_duration_type r; c_injected := c_injected r;
     c_import_overrides := c_import_overrides r; c_custom_types := c_custom_types r |}.

(* the command line laid over a configuration *)
Definition overlay (ps : params) (c : config) : config :=
  {| c_types := get_slice_param ps "types" (c_types c);
     c_duration_custom_type := get_string_param ps "custom_duration" (c_duration_custom_type c);
     c_exclude := get_slice_param ps "exclude_fields" (c_exclude c);
     c_computed := get_slice_param ps "computed_fields" (c_computed c);
     c_required := get_slice_param ps "required_fields" (c_required c);
     c_sensitive := get_slice_param ps "sensitive" (c_sensitive c);
     c_target_pkg := get_string_param ps "target_package_name" (c_target_pkg c);
     c_default_pkg := get_string_param ps "default_package_name" (c_default_pkg c);
     c_sort := get_bool_param ps "sort" (c_sort c);
     c_use_state := c_use_state c; c_suffixes := c_suffixes c;
     c_name_overrides := c_name_overrides c; c_validators := c_validators c;
     c_planmods := c_planmods c; c_time_type := c_time_type c;
     c_duration_type := c_duration_type c; c_injected := c_injected c;
     c_import_overrides := c_import_overrides c; c_custom_types := c_custom_types c |}.

Definition finish (c : config) : cfgres :=
  match c_types c with [] => CfgFail | _ => CfgOk c end.

Lemma read_config_doc_gen ps d :
  read_config ps (YDoc d) =
  finish (overlay ps (if String.eqb (get_string_param ps "config" "") "" then empty_config
                      else from_yaml_doc d)).
Proof. unfold read_config. destruct (String.eqb _ _); reflexivity. Qed.

Lemma read_config_doc ps d :
  get_string_param ps "config" "" <> "" ->
  read_config ps (YDoc d) = finish (overlay ps (from_yaml_doc d)).
Proof.
  intros N. rewrite read_config_doc_gen.
  destruct (String.eqb_spec (get_string_param ps "config" "") ""); [contradiction|reflexivity].
Qed.

Lemma read_config_nofile ps y :
  get_string_param ps "config" "" = "" ->
  read_config ps y = finish (overlay ps empty_config).
Proof. intros E. unfold read_config. rewrite E. reflexivity. Qed.

Lemma read_config_absent ps : read_config ps YAbsent = finish (overlay ps empty_config).
Proof. unfold read_config. destruct (String.eqb _ _); reflexivity. Qed.

(* ------------------------------------------------------------------------------------- *)
(* 6. failures *)

Lemma get_slice_param_nil ps name d :
  get_slice_param ps name d = [] -> get_slice_param ps name [] = [].
Proof. unfold get_slice_param. destruct (String.eqb _ _); auto. Qed.

Theorem C16_no_types ps y :
  get_slice_param ps "types" (match y with YDoc d => opt_or (y_types d) [] | _ => [] end) = [] ->
  read_config ps y = CfgFail.
Proof.
  intros H.
  destruct (String.eqb_spec (get_string_param ps "config" "") "") as [E|N].
  - rewrite (read_config_nofile _ _ E). unfold finish, overlay. cbn [c_types empty_config].
    now rewrite (get_slice_param_nil _ _ _ H).
  - destruct y.
    + rewrite read_config_absent. unfold finish, overlay. cbn [c_types empty_config]. now rewrite H.
    + unfold read_config. destruct (String.eqb_spec (get_string_param ps "config" "") ""); [contradiction|reflexivity].
    + unfold read_config. destruct (String.eqb_spec (get_string_param ps "config" "") ""); [contradiction|reflexivity].
    + rewrite (read_config_doc _ _ N). unfold finish, overlay. cbn [c_types from_yaml_doc]. now rewrite H.
Qed.
Print Assumptions C16_no_types.

Theorem C16_bad_file ps :
  get_string_param ps "config" "" <> "" ->
  read_config ps YUnreadable = CfgFail /\ read_config ps YMalformed = CfgFail.
Proof.
  intros N. unfold read_config.
  destruct (String.eqb_spec (get_string_param ps "config" "") ""); [contradiction|split; reflexivity].
Qed.
Print Assumptions C16_bad_file.

(* ------------------------------------------------------------------------------------- *)
(* 3. the "+" separator of list parameters *)

Lemma rev_str_aux_twice x acc acc2 :
  rev_str_aux (rev_str_aux x acc) acc2 = rev_str_aux acc (x ++ acc2).
Proof.
  revert acc. induction x as [|c r IH]; intros acc; cbn; [reflexivity|].
  now rewrite IH.
Qed.

Lemma str_app_nil_r (s : string) : s ++ "" = s.
Proof. induction s; cbn; congruence. Qed.

Lemma rev_str_rev_str_aux x : rev_str (rev_str_aux x "") = x.
Proof. unfold rev_str. rewrite rev_str_aux_twice. cbn. apply str_app_nil_r. Qed.

Lemma str_app_assoc (a b c : string) : (a ++ b) ++ c = a ++ (b ++ c).
Proof. induction a; cbn; congruence. Qed.

Lemma split_on_aux_app sep x s cur :
  contains_char sep x = false ->
  split_on_aux sep (x ++ s) cur = split_on_aux sep s (rev_str_aux x cur).
Proof.
  revert cur. induction x as [|c r IH]; intros cur H; cbn; [reflexivity|].
  cbn in H. apply orb_false_iff in H. destruct H as [H1 H2].
  unfold ascii_eqb in *. rewrite Ascii.eqb_sym, H1. now apply IH.
Qed.

Lemma split_on_aux_join sep x r :
  Forall (fun y => contains_char sep y = false) (x :: r) ->
  split_on_aux sep (join (String sep "") (x :: r)) "" = x :: r.
Proof.
  revert x. induction r as [|y r IH]; intros x F.
  - cbn [join]. rewrite <- (str_app_nil_r x) at 1. inversion F; subst.
    rewrite split_on_aux_app by assumption. cbn. now rewrite rev_str_rev_str_aux.
  - inversion F; subst.
    change (join (String sep "") (x :: y :: r)) with (x ++ String sep "" ++ join (String sep "") (y :: r)).
    rewrite split_on_aux_app by assumption.
    cbn [append split_on_aux]. unfold ascii_eqb at 1. rewrite Ascii.eqb_refl.
    rewrite rev_str_rev_str_aux. f_equal. now apply IH.
Qed.

Lemma split_on_join l :
  l <> [] -> Forall (fun x => contains_char "+" x = false) l ->
  split_on "+"%char (join "+" l) = l.
Proof.
  destruct l as [|x r]; [congruence|]. intros _ F. unfold split_on. now apply split_on_aux_join.
Qed.

(* strings.Split always returns at least one element *)
Lemma split_on_aux_nonnil sep s cur : split_on_aux sep s cur <> [].
Proof.
  revert cur. induction s as [|c r IH]; intros cur; cbn; [discriminate|].
  destruct (ascii_eqb c sep); [discriminate|apply IH].
Qed.

(* ------------------------------------------------------------------------------------- *)
(* lookups in an extended parameter list *)

Lemma lookup_app {A} k (l1 l2 : list (string * A)) :
  lookup k (l1 ++ l2)%list = match lookup k l1 with Some v => Some v | None => lookup k l2 end.
Proof.
  induction l1 as [|[k' v'] r IH]; cbn; [reflexivity|].
  destruct (String.eqb k k'); [reflexivity|exact IH].
Qed.

Lemma lookup_snoc_other {A} k k' (v : A) l : k <> k' -> lookup k (l ++ [(k', v)])%list = lookup k l.
Proof.
  intros N. rewrite lookup_app. destruct (lookup k l); [reflexivity|]. cbn.
  destruct (String.eqb_spec k k'); [contradiction|reflexivity].
Qed.

Lemma lookup_snoc_same {A} k (v : A) l : lookup k l = None -> lookup k (l ++ [(k, v)])%list = Some v.
Proof. intros H. rewrite lookup_app, H. cbn. now rewrite String.eqb_refl. Qed.

Lemma get_string_param_snoc_other ps k v name d :
  name <> k -> get_string_param (ps ++ [(k, v)])%list name d = get_string_param ps name d.
Proof. intros N. unfold get_string_param. now rewrite (lookup_snoc_other _ _ v ps N). Qed.

Lemma get_slice_param_snoc_other ps k v name d :
  name <> k -> get_slice_param (ps ++ [(k, v)])%list name d = get_slice_param ps name d.
Proof. intros N. unfold get_slice_param. now rewrite get_string_param_snoc_other. Qed.

Lemma get_bool_param_snoc_other ps k v name d :
  name <> k -> get_bool_param (ps ++ [(k, v)])%list name d = get_bool_param ps name d.
Proof. intros N. unfold get_bool_param. now rewrite get_string_param_snoc_other. Qed.

Lemma get_string_param_snoc_same ps k v d :
  lookup k ps = None -> trim_space v <> "" -> get_string_param (ps ++ [(k, v)])%list k d = trim_space v.
Proof. intros H N. apply get_string_param_present; [now apply lookup_snoc_same|assumption]. Qed.

Lemma get_slice_param_snoc_same ps k v d :
  lookup k ps = None -> trim_space v <> "" ->
  get_slice_param (ps ++ [(k, v)])%list k d = split_on "+"%char (trim_space v).
Proof. intros H N. apply get_slice_param_present; [now apply lookup_snoc_same|assumption]. Qed.

Lemma get_bool_param_snoc_same ps k v d b :
  lookup k ps = None -> parse_bool (lower_str (trim_space v)) = Some b ->
  get_bool_param (ps ++ [(k, v)])%list k d = b.
Proof. intros H P. eapply get_bool_param_present; [now apply lookup_snoc_same|assumption]. Qed.

(* join "+" l <> "" is "l is neither [] nor [""]" *)
Lemma join_nonempty_nonnil l : join "+" l <> "" -> l <> [].
Proof. intros N E. subst l. now apply N. Qed.

(* ------------------------------------------------------------------------------------- *)
(* 4. channel equivalence: an option given on the command line has the effect of the same option
   written in the YAML file *)

Definition y_set_types (d : yamldoc) (l : list string) : yamldoc :=
  {| y_types := Some l; y_duration_custom_type := y_duration_custom_type d; y_exclude := y_exclude d;
     y_computed := y_computed d; y_required := y_required d; y_sensitive := y_sensitive d;
     y_target_pkg := y_target_pkg d; y_default_pkg := y_default_pkg d; y_sort := y_sort d;
     y_rest := y_rest d |}.
Definition y_set_duration_custom_type (d : yamldoc) (s : string) : yamldoc :=
  {| y_types := y_types d; y_duration_custom_type := Some s; y_exclude := y_exclude d;
     y_computed := y_computed d; y_required := y_required d; y_sensitive := y_sensitive d;
     y_target_pkg := y_target_pkg d; y_default_pkg := y_default_pkg d; y_sort := y_sort d;
     y_rest := y_rest d |}.
Definition y_set_exclude (d : yamldoc) (l : list string) : yamldoc :=
  {| y_types := y_types d; y_duration_custom_type := y_duration_custom_type d; y_exclude := Some l;
     y_computed := y_computed d; y_required := y_required d; y_sensitive := y_sensitive d;
     y_target_pkg := y_target_pkg d; y_default_pkg := y_default_pkg d; y_sort := y_sort d;
     y_rest := y_rest d |}.
Definition y_set_computed (d : yamldoc) (l : list string) : yamldoc :=
  {| y_types := y_types d; y_duration_custom_type := y_duration_custom_type d; y_exclude := y_exclude d;
     y_computed := Some l; y_required := y_required d; y_sensitive := y_sensitive d;
     y_target_pkg := y_target_pkg d; y_default_pkg := y_default_pkg d; y_sort := y_sort d;
     y_rest := y_rest d |}.
Definition y_set_required (d : yamldoc) (l : list string) : yamldoc :=
  {| y_types := y_types d; y_duration_custom_type := y_duration_custom_type d; y_exclude := y_exclude d;
     y_computed := y_computed d; y_required := Some l; y_sensitive := y_sensitive d;
     y_target_pkg := y_target_pkg d; y_default_pkg := y_default_pkg d; y_sort := y_sort d;
     y_rest := y_rest d |}.
Definition y_set_sensitive (d : yamldoc) (l : list string) : yamldoc :=
  {| y_types := y_types d; y_duration_custom_type := y_duration_custom_type d; y_exclude := y_exclude d;
     y_computed := y_computed d; y_required := y_required d; y_sensitive := Some l;
     y_target_pkg := y_target_pkg d; y_default_pkg := y_default_pkg d; y_sort := y_sort d;
     y_rest := y_rest d |}.
Definition y_set_target_pkg (d : yamldoc) (s : string) : yamldoc :=
  {| y_types := y_types d; y_duration_custom_type := y_duration_custom_type d; y_exclude := y_exclude d;
     y_computed := y_computed d; y_required := y_required d; y_sensitive := y_sensitive d;
     y_target_pkg := Some s; y_default_pkg := y_default_pkg d; y_sort := y_sort d;
     y_rest := y_rest d |}.
Definition y_set_default_pkg (d : yamldoc) (s : string) : yamldoc :=
  {| y_types := y_types d; y_duration_custom_type := y_duration_custom_type d; y_exclude := y_exclude d;
     y_computed := y_computed d; y_required := y_required d; y_sensitive := y_sensitive d;
     y_target_pkg := y_target_pkg d; y_default_pkg := Some s; y_sort := y_sort d;
     y_rest := y_rest d |}.
Definition y_set_sort (d : yamldoc) (b : bool) : yamldoc :=
  {| y_types := y_types d; y_duration_custom_type := y_duration_custom_type d; y_exclude := y_exclude d;
     y_computed := y_computed d; y_required := y_required d; y_sensitive := y_sensitive d;
     y_target_pkg := y_target_pkg d; y_default_pkg := y_default_pkg d; y_sort := Some b;
     y_rest := y_rest d |}.

(* the value given last on the command line has the effect of the YAML default *)
Lemma slice_channel (ps : params) k l d0 :
  lookup k ps = None -> join "+" l <> "" -> Forall (fun x => contains_char "+" x = false) l ->
  trim_space (join "+" l) = join "+" l ->
  get_slice_param (ps ++ [(k, join "+" l)])%list k d0 = get_slice_param ps k l.
Proof.
  intros H N F T. rewrite get_slice_param_snoc_same by (rewrite ?T; assumption).
  rewrite T, split_on_join by (auto using join_nonempty_nonnil).
  now rewrite get_slice_param_absent.
Qed.

Lemma string_channel (ps : params) k s d0 :
  lookup k ps = None -> s <> "" -> trim_space s = s ->
  get_string_param (ps ++ [(k, s)])%list k d0 = get_string_param ps k s.
Proof.
  intros H N T. rewrite get_string_param_snoc_same by (rewrite ?T; assumption).
  now rewrite T, get_string_param_absent.
Qed.

Lemma bool_channel (ps : params) k v b d0 :
  lookup k ps = None -> parse_bool (lower_str (trim_space v)) = Some b ->
  get_bool_param (ps ++ [(k, v)])%list k d0 = get_bool_param ps k b.
Proof.
  intros H P. rewrite (get_bool_param_snoc_same _ _ _ _ _ H P).
  now rewrite get_bool_param_absent.
Qed.

Lemma config_given ps path :
  lookup "config" ps = Some path -> trim_space path <> "" -> get_string_param ps "config" "" <> "".
Proof. intros H N. now rewrite (get_string_param_present _ _ _ _ H N). Qed.

Ltac snoc_others :=
  rewrite ?get_string_param_snoc_other, ?get_slice_param_snoc_other, ?get_bool_param_snoc_other
    by discriminate.

Ltac channel Hc Hp :=
  rewrite !read_config_doc;
  [ | exact (config_given _ _ Hc Hp)
    | rewrite get_string_param_snoc_other by discriminate; exact (config_given _ _ Hc Hp) ];
  f_equal; unfold overlay;
  cbn -[get_slice_param get_string_param get_bool_param split_on trim_space join];
  first [ rewrite slice_channel by assumption
        | rewrite string_channel by assumption
        | erewrite bool_channel by eassumption ];
  snoc_others; reflexivity.

Section Channels.
  Variables (ps : params) (path : string) (d : yamldoc).
  Hypothesis Hc : lookup "config" ps = Some path.
  Hypothesis Hp : trim_space path <> "".

  Theorem C16_channel_types l :
    lookup "types" ps = None -> join "+" l <> "" -> Forall (fun x => contains_char "+" x = false) l ->
    trim_space (join "+" l) = join "+" l ->
    read_config (ps ++ [("types", join "+" l)])%list (YDoc d) = read_config ps (YDoc (y_set_types d l)).
  Proof. intros. channel Hc Hp. Qed.

  Theorem C16_channel_exclude l :
    lookup "exclude_fields" ps = None -> join "+" l <> "" -> Forall (fun x => contains_char "+" x = false) l ->
    trim_space (join "+" l) = join "+" l ->
    read_config (ps ++ [("exclude_fields", join "+" l)])%list (YDoc d) = read_config ps (YDoc (y_set_exclude d l)).
  Proof. intros. channel Hc Hp. Qed.

  Theorem C16_channel_computed l :
    lookup "computed_fields" ps = None -> join "+" l <> "" -> Forall (fun x => contains_char "+" x = false) l ->
    trim_space (join "+" l) = join "+" l ->
    read_config (ps ++ [("computed_fields", join "+" l)])%list (YDoc d) = read_config ps (YDoc (y_set_computed d l)).
  Proof. intros. channel Hc Hp. Qed.

  Theorem C16_channel_required l :
    lookup "required_fields" ps = None -> join "+" l <> "" -> Forall (fun x => contains_char "+" x = false) l ->
    trim_space (join "+" l) = join "+" l ->
    read_config (ps ++ [("required_fields", join "+" l)])%list (YDoc d) = read_config ps (YDoc (y_set_required d l)).
  Proof. intros. channel Hc Hp. Qed.

  Theorem C16_channel_sensitive l :
    lookup "sensitive" ps = None -> join "+" l <> "" -> Forall (fun x => contains_char "+" x = false) l ->
    trim_space (join "+" l) = join "+" l ->
    read_config (ps ++ [("sensitive", join "+" l)])%list (YDoc d) = read_config ps (YDoc (y_set_sensitive d l)).
  Proof. intros. channel Hc Hp. Qed.

  Theorem C16_channel_target_pkg s :
    lookup "target_package_name" ps = None -> s <> "" -> trim_space s = s ->
    read_config (ps ++ [("target_package_name", s)])%list (YDoc d) = read_config ps (YDoc (y_set_target_pkg d s)).
  Proof. intros. channel Hc Hp. Qed.

  Theorem C16_channel_default_pkg s :
    lookup "default_package_name" ps = None -> s <> "" -> trim_space s = s ->
    read_config (ps ++ [("default_package_name", s)])%list (YDoc d) = read_config ps (YDoc (y_set_default_pkg d s)).
  Proof. intros. channel Hc Hp. Qed.

  Theorem C16_channel_duration_custom_type s :
    lookup "custom_duration" ps = None -> s <> "" -> trim_space s = s ->
    read_config (ps ++ [("custom_duration", s)])%list (YDoc d) = read_config ps (YDoc (y_set_duration_custom_type d s)).
  Proof. intros. channel Hc Hp. Qed.

  Theorem C16_channel_sort v b :
    lookup "sort" ps = None -> parse_bool (lower_str (trim_space v)) = Some b ->
    read_config (ps ++ [("sort", v)])%list (YDoc d) = read_config ps (YDoc (y_set_sort d b)).
  Proof. intros. channel Hc Hp. Qed.
End Channels.

Print Assumptions C16_channel_types.
Print Assumptions C16_channel_exclude.
Print Assumptions C16_channel_computed.
Print Assumptions C16_channel_required.
Print Assumptions C16_channel_sensitive.
Print Assumptions C16_channel_target_pkg.
Print Assumptions C16_channel_default_pkg.
Print Assumptions C16_channel_duration_custom_type.
Print Assumptions C16_channel_sort.

(* ------------------------------------------------------------------------------------- *)
(* 5. precedence: when the parameter is given, what the YAML file says for that option is irrelevant *)

Ltac precedence :=
  rewrite !read_config_doc_gen; destruct (String.eqb _ _); [reflexivity|];
  f_equal; unfold overlay;
  cbn -[get_slice_param get_string_param get_bool_param split_on trim_space join].

Section Precedence.
  Variables (ps : params) (d : yamldoc) (v : string).

  Theorem C16_precedence_types l' :
    lookup "types" ps = Some v -> trim_space v <> "" ->
    read_config ps (YDoc d) = read_config ps (YDoc (y_set_types d l')).
  Proof. intros H N. precedence. now rewrite !(get_slice_param_present _ _ _ _ H N). Qed.

  Theorem C16_precedence_exclude l' :
    lookup "exclude_fields" ps = Some v -> trim_space v <> "" ->
    read_config ps (YDoc d) = read_config ps (YDoc (y_set_exclude d l')).
  Proof. intros H N. precedence. now rewrite !(get_slice_param_present _ _ _ _ H N). Qed.

  Theorem C16_precedence_computed l' :
    lookup "computed_fields" ps = Some v -> trim_space v <> "" ->
    read_config ps (YDoc d) = read_config ps (YDoc (y_set_computed d l')).
  Proof. intros H N. precedence. now rewrite !(get_slice_param_present _ _ _ _ H N). Qed.

  Theorem C16_precedence_required l' :
    lookup "required_fields" ps = Some v -> trim_space v <> "" ->
    read_config ps (YDoc d) = read_config ps (YDoc (y_set_required d l')).
  Proof. intros H N. precedence. now rewrite !(get_slice_param_present _ _ _ _ H N). Qed.

  Theorem C16_precedence_sensitive l' :
    lookup "sensitive" ps = Some v -> trim_space v <> "" ->
    read_config ps (YDoc d) = read_config ps (YDoc (y_set_sensitive d l')).
  Proof. intros H N. precedence. now rewrite !(get_slice_param_present _ _ _ _ H N). Qed.

  Theorem C16_precedence_target_pkg s' :
    lookup "target_package_name" ps = Some v -> trim_space v <> "" ->
    read_config ps (YDoc d) = read_config ps (YDoc (y_set_target_pkg d s')).
  Proof. intros H N. precedence. now rewrite !(get_string_param_present _ _ _ _ H N). Qed.

  Theorem C16_precedence_default_pkg s' :
    lookup "default_package_name" ps = Some v -> trim_space v <> "" ->
    read_config ps (YDoc d) = read_config ps (YDoc (y_set_default_pkg d s')).
  Proof. intros H N. precedence. now rewrite !(get_string_param_present _ _ _ _ H N). Qed.

  Theorem C16_precedence_duration_custom_type s' :
    lookup "custom_duration" ps = Some v -> trim_space v <> "" ->
    read_config ps (YDoc d) = read_config ps (YDoc (y_set_duration_custom_type d s')).
  Proof. intros H N. precedence. now rewrite !(get_string_param_present _ _ _ _ H N). Qed.

  (* for the boolean the value must also parse: an unparsable value falls back to the YAML one *)
  Theorem C16_precedence_sort b b' :
    lookup "sort" ps = Some v -> parse_bool (lower_str (trim_space v)) = Some b ->
    read_config ps (YDoc d) = read_config ps (YDoc (y_set_sort d b')).
  Proof. intros H P. precedence. now rewrite !(get_bool_param_present _ _ _ _ _ H P). Qed.
End Precedence.

Print Assumptions C16_precedence_types.
Print Assumptions C16_precedence_exclude.
Print Assumptions C16_precedence_computed.
Print Assumptions C16_precedence_required.
Print Assumptions C16_precedence_sensitive.
Print Assumptions C16_precedence_target_pkg.
Print Assumptions C16_precedence_default_pkg.
Print Assumptions C16_precedence_duration_custom_type.
Print Assumptions C16_precedence_sort.

(* ------------------------------------------------------------------------------------- *)
(* non-vacuity: concrete parameters and documents satisfying the hypotheses of every theorem *)

Definition ex_doc : yamldoc :=
  {| y_types := Some ["X"]; y_duration_custom_type := None; y_exclude := Some ["X.a"]; y_computed := None;
     y_required := None; y_sensitive := None; y_target_pkg := Some "tfschema"; y_default_pkg := None;
     y_sort := Some false; y_rest := empty_config |}.
Definition ex_ps : params := [("config", " cfg.yaml ")].

Ltac nonvac := vm_compute; repeat split; try discriminate; repeat constructor.
Definition is_ok (r : cfgres) : bool := match r with CfgOk _ => true | CfgFail => false end.

Example C16_no_types_nonvacuous :
  get_slice_param [("config", "cfg.yaml")] "types"
    (match YDoc (y_set_types ex_doc []) with YDoc d => opt_or (y_types d) [] | _ => [] end) = []
  /\ get_slice_param [] "types" (match YAbsent with YDoc d => opt_or (y_types d) [] | _ => [] end) = [].
Proof. nonvac. Qed.

Example C16_bad_file_nonvacuous : get_string_param ex_ps "config" "" <> "".
Proof. nonvac. Qed.

Example split_on_join_nonvacuous :
  let l := ["A"; "B.C"; ""] in
  l <> [] /\ Forall (fun x => contains_char "+" x = false) l /\ split_on "+"%char (join "+" l) = l.
Proof. nonvac. Qed.

Example C16_channel_types_nonvacuous :
  let l := ["A"; "B.C"] in
  lookup "config" ex_ps = Some " cfg.yaml " /\ trim_space " cfg.yaml " <> "" /\
  lookup "types" ex_ps = None /\ join "+" l <> "" /\
  Forall (fun x => contains_char "+" x = false) l /\ trim_space (join "+" l) = join "+" l /\
  is_ok (read_config (ex_ps ++ [("types", join "+" l)])%list (YDoc ex_doc)) = true.
Proof. nonvac. Qed.

Example C16_channel_exclude_nonvacuous :
  let l := ["A.b"; "B.c.d"] in
  lookup "config" ex_ps = Some " cfg.yaml " /\ trim_space " cfg.yaml " <> "" /\
  lookup "exclude_fields" ex_ps = None /\ join "+" l <> "" /\
  Forall (fun x => contains_char "+" x = false) l /\ trim_space (join "+" l) = join "+" l /\
  is_ok (read_config (ex_ps ++ [("exclude_fields", join "+" l)])%list (YDoc ex_doc)) = true.
Proof. nonvac. Qed.

Example C16_channel_computed_nonvacuous :
  let l := ["A.b"; "B.c.d"] in
  lookup "config" ex_ps = Some " cfg.yaml " /\ trim_space " cfg.yaml " <> "" /\
  lookup "computed_fields" ex_ps = None /\ join "+" l <> "" /\
  Forall (fun x => contains_char "+" x = false) l /\ trim_space (join "+" l) = join "+" l /\
  is_ok (read_config (ex_ps ++ [("computed_fields", join "+" l)])%list (YDoc ex_doc)) = true.
Proof. nonvac. Qed.

Example C16_channel_required_nonvacuous :
  let l := ["A.b"; "B.c.d"] in
  lookup "config" ex_ps = Some " cfg.yaml " /\ trim_space " cfg.yaml " <> "" /\
  lookup "required_fields" ex_ps = None /\ join "+" l <> "" /\
  Forall (fun x => contains_char "+" x = false) l /\ trim_space (join "+" l) = join "+" l /\
  is_ok (read_config (ex_ps ++ [("required_fields", join "+" l)])%list (YDoc ex_doc)) = true.
Proof. nonvac. Qed.

Example C16_channel_sensitive_nonvacuous :
  let l := ["A.b"; "B.c.d"] in
  lookup "config" ex_ps = Some " cfg.yaml " /\ trim_space " cfg.yaml " <> "" /\
  lookup "sensitive" ex_ps = None /\ join "+" l <> "" /\
  Forall (fun x => contains_char "+" x = false) l /\ trim_space (join "+" l) = join "+" l /\
  is_ok (read_config (ex_ps ++ [("sensitive", join "+" l)])%list (YDoc ex_doc)) = true.
Proof. nonvac. Qed.

Example C16_channel_target_pkg_nonvacuous :
  let s := "tfschema2" in
  lookup "config" ex_ps = Some " cfg.yaml " /\ trim_space " cfg.yaml " <> "" /\
  lookup "target_package_name" ex_ps = None /\ s <> "" /\ trim_space s = s /\
  is_ok (read_config (ex_ps ++ [("target_package_name", s)])%list (YDoc ex_doc)) = true.
Proof. nonvac. Qed.

Example C16_channel_default_pkg_nonvacuous :
  let s := "types" in
  lookup "config" ex_ps = Some " cfg.yaml " /\ trim_space " cfg.yaml " <> "" /\
  lookup "default_package_name" ex_ps = None /\ s <> "" /\ trim_space s = s /\
  is_ok (read_config (ex_ps ++ [("default_package_name", s)])%list (YDoc ex_doc)) = true.
Proof. nonvac. Qed.

Example C16_channel_duration_custom_type_nonvacuous :
  let s := "Duration" in
  lookup "config" ex_ps = Some " cfg.yaml " /\ trim_space " cfg.yaml " <> "" /\
  lookup "custom_duration" ex_ps = None /\ s <> "" /\ trim_space s = s /\
  is_ok (read_config (ex_ps ++ [("custom_duration", s)])%list (YDoc ex_doc)) = true.
Proof. nonvac. Qed.

Example C16_channel_sort_nonvacuous :
  lookup "config" ex_ps = Some " cfg.yaml " /\ trim_space " cfg.yaml " <> "" /\
  lookup "sort" ex_ps = None /\ parse_bool (lower_str (trim_space " TRUE ")) = Some true /\
  is_ok (read_config (ex_ps ++ [("sort", " TRUE ")])%list (YDoc ex_doc)) = true.
Proof. nonvac. Qed.

(* precedence: the parameter is given and not blank, and the two YAML documents really differ *)
Definition ex_ps2 : params :=
  [("types", "A+B"); ("config", "cfg.yaml"); ("exclude_fields", "A.b"); ("computed_fields", "A.c");
   ("required_fields", "A.d"); ("sensitive", "A.e"); ("target_package_name", "tf");
   ("default_package_name", "types"); ("custom_duration", "Duration"); ("sort", "T")].

Example C16_precedence_types_nonvacuous :
  lookup "types" ex_ps2 = Some "A+B" /\ trim_space "A+B" <> "" /\
  is_ok (read_config ex_ps2 (YDoc (y_set_types ex_doc ["Z"]))) = true.
Proof. nonvac. Qed.
Example C16_precedence_exclude_nonvacuous :
  lookup "exclude_fields" ex_ps2 = Some "A.b" /\ trim_space "A.b" <> "".
Proof. nonvac. Qed.
Example C16_precedence_computed_nonvacuous :
  lookup "computed_fields" ex_ps2 = Some "A.c" /\ trim_space "A.c" <> "".
Proof. nonvac. Qed.
Example C16_precedence_required_nonvacuous :
  lookup "required_fields" ex_ps2 = Some "A.d" /\ trim_space "A.d" <> "".
Proof. nonvac. Qed.
Example C16_precedence_sensitive_nonvacuous :
  lookup "sensitive" ex_ps2 = Some "A.e" /\ trim_space "A.e" <> "".
Proof. nonvac. Qed.
Example C16_precedence_target_pkg_nonvacuous :
  lookup "target_package_name" ex_ps2 = Some "tf" /\ trim_space "tf" <> "".
Proof. nonvac. Qed.
Example C16_precedence_default_pkg_nonvacuous :
  lookup "default_package_name" ex_ps2 = Some "types" /\ trim_space "types" <> "".
Proof. nonvac. Qed.
Example C16_precedence_duration_custom_type_nonvacuous :
  lookup "custom_duration" ex_ps2 = Some "Duration" /\ trim_space "Duration" <> "".
Proof. nonvac. Qed.
Example C16_precedence_sort_nonvacuous :
  lookup "sort" ex_ps2 = Some "T" /\ parse_bool (lower_str (trim_space "T")) = Some true.
Proof. nonvac. Qed.

(* why "l <> []" alone is not enough in the channel theorems: the list [""] joins to the blank
   parameter, which the command line treats as absent *)
Example C16_channel_types_blank_counterexample :
  let l := [""] in
  l <> [] /\ Forall (fun x => contains_char "+" x = false) l /\ trim_space (join "+" l) = join "+" l /\
  read_config (ex_ps ++ [("types", join "+" l)])%list (YDoc ex_doc) <> read_config ex_ps (YDoc (y_set_types ex_doc l)).
Proof. nonvac. Qed.
