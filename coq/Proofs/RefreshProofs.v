(* C09 at the level of the message: Copy<T>ToTerraform into a target which already holds values
   (the state read back, or the result of an earlier CopyTo), compared with CopyTo into the empty
   target of the schema's type.

   The in-place copy is NOT history independent (counter-examples at the end of the file,
   Module Counter): the Null flag of a value scalar, of an object and of an empty list or map is
   taken from the earlier value when there is one, and under a nil pointer the earlier payload /
   the earlier attributes stay.  What holds, on the class tf_ok of Proofs/CopyToTotal.v and for
   every prior target which is well formed ([prior_ok]: the types the values carry are those of
   the schema, at every depth, attributes in the order of the schema; unknown flags, null flags,
   payloads, list and map elements are arbitrary):

   - copy_to_refresh_rel_partial, copy_to_prior_rel_partial: no panic, no diagnostic, and the result
     is related to the result on the empty target by [rel]: same types, nothing unknown, the
     elements of every list and map are exactly those of the fresh result, every payload is the
     fresh one unless the fresh value is null, every Null flag is the fresh one or the earlier one;
   - copy_to_idem_partial: a second CopyTo of the same value changes nothing (syntactic equality);
   - copy_to_prior_ok_partial: results (fresh or in place) are well-formed prior targets again. *)
From Coq Require Import List String Bool ZArith Lia.
From PGT Require Import Base.Strs Base.AList Model.Vals Model.IR Model.CopyTo.
From PGT Require Import Proofs.CopyToProofs Proofs.CopyToTotal.
Import ListNotations.

(* ------------------------------------------------------------------------------------- *)
(* 1. association lists *)

Lemma update_absent {A} k (v : A) l : lookup k l = None -> update k v l = l ++ [(k, v)].
Proof.
  induction l as [|[k' v'] r IH]; cbn [lookup update app]; [reflexivity|].
  destruct (String.eqb k k'); [discriminate|]. intros H. now rewrite IH.
Qed.

Lemma lookup_Some_keys {A} k (v : A) l : lookup k l = Some v -> In k (keys l).
Proof.
  intros H. destruct (in_dec string_dec k (keys l)) as [I|N]; [exact I|].
  apply lookup_None_keys in N. congruence.
Qed.

Lemma update_same {A} k (v : A) l : lookup k l = Some v -> update k v l = l.
Proof.
  induction l as [|[k' v'] r IH]; cbn [lookup update]; [discriminate|].
  destruct (String.eqb k k') eqn:E.
  - apply String.eqb_eq in E. intros [= ->]. now subst.
  - intros H. now rewrite IH.
Qed.

(* same keys in the same order, without repetition, and the same values: the same list *)
Lemma alist_ext {A} (l1 : list (string * A)) : forall l2,
  keys l1 = keys l2 -> NoDup (keys l1) -> (forall k, In k (keys l1) -> lookup k l1 = lookup k l2) -> l1 = l2.
Proof.
  induction l1 as [|[k v] r IH]; intros [|[k2 v2] r2] K ND L; cbn [keys map] in K; try discriminate K; [reflexivity|].
  cbn [fst] in K. injection K as <- K. cbn [keys map fst] in ND. inversion ND as [|? ? N1 N2]; subst.
  pose proof (L k (or_introl eq_refl)) as Lk. cbn [lookup] in Lk. rewrite String.eqb_refl in Lk.
  injection Lk as <-. f_equal. apply IH; [exact K|exact N2|]. intros k' I.
  specialize (L k' (or_intror I)). cbn [lookup] in L.
  destruct (String.eqb k' k) eqn:E; [apply String.eqb_eq in E; subst; contradiction|exact L].
Qed.

(* ------------------------------------------------------------------------------------- *)
(* 2. well-formed prior targets *)

(* v carries the types of t at every depth which CopyTo looks into (also below a null object); the
   attributes of an object are absent, or none, or exactly those of the type in its order.  Flags,
   payloads and the elements of lists and maps are arbitrary: CopyTo overwrites them. *)
Fixpoint prior_ok (t : tfty) (v : tfval) {struct t} : bool :=
  match t, v with
  | TyPrim k, VPrim k' _ _ _ => tfkind_eqb k k'
  | TyList e, VList e' _ _ _ => tfty_eqb e e'
  | TyMap e, VMap e' _ _ _ => tfty_eqb e e'
  | TyObj ats, VObj ats' _ _ attrs =>
      tfty_eqb (TyObj ats) (TyObj ats')
      && match attrs with
         | None | Some [] => true
         | Some l =>
             (fix go (a : list (string * tfty)) (l : list (string * tfval)) {struct a} : bool :=
                match a, l with
                | [], [] => true
                | (k, t') :: r, (k', v') :: r' => String.eqb k k' && prior_ok t' v' && go r r'
                | _, _ => false
                end) ats l
         end
  | _, _ => false
  end.

Fixpoint attrs_pos (ats : list (string * tfty)) (l : list (string * tfval)) {struct ats} : bool :=
  match ats, l with
  | [], [] => true
  | (k, t') :: r, (k', v') :: r' => String.eqb k k' && prior_ok t' v' && attrs_pos r r'
  | _, _ => false
  end.

Definition attrs_prior_ok (ats : list (string * tfty)) (l : list (string * tfval)) : bool :=
  match l with [] => true | _ => attrs_pos ats l end.

Definition oattrs (a : option (list (string * tfval))) : list (string * tfval) :=
  match a with Some x => x | None => [] end.

Lemma prior_ok_obj ats ats' n u a :
  prior_ok (TyObj ats) (VObj ats' n u a) = tfty_eqb (TyObj ats) (TyObj ats') && attrs_prior_ok ats (oattrs a).
Proof.
  cbn [prior_ok]. f_equal. destruct a as [l|]; [|reflexivity]. unfold oattrs, attrs_prior_ok.
  destruct l as [|kv l]; [reflexivity|]. generalize (kv :: l). clear.
  induction ats as [|[k t] r IH]; intros [|[k' v'] r']; cbn [attrs_pos]; first [reflexivity|now rewrite IH].
Qed.

Lemma attrs_pos_keys ats l : attrs_pos ats l = true -> keys l = map fst ats.
Proof.
  revert l. induction ats as [|[k t] r IH]; intros [|[k' v'] r'] H; cbn [attrs_pos] in H; try discriminate H; [reflexivity|].
  apply andb_prop in H. destruct H as [H H3]. apply andb_prop in H. destruct H as [H1 _].
  apply String.eqb_eq in H1. subst. cbn [keys map fst]. f_equal. now apply IH.
Qed.

Lemma attrs_pos_lookup ats l : attrs_pos ats l = true -> NoDup (map fst ats) ->
  forall k t, In (k, t) ats -> exists v, lookup k l = Some v /\ prior_ok t v = true.
Proof.
  revert l. induction ats as [|[k0 t0] r IH]; intros [|[k' v'] r'] H ND k t I; cbn [attrs_pos] in H; try discriminate H;
    [destruct I|].
  apply andb_prop in H. destruct H as [H H3]. apply andb_prop in H. destruct H as [H1 H2].
  apply String.eqb_eq in H1. subst k'. cbn [map fst] in ND. inversion ND as [|? ? N1 N2]; subst.
  cbn [lookup]. destruct I as [[= <- <-]|I].
  - rewrite String.eqb_refl. eauto.
  - destruct (String.eqb k k0) eqn:E.
    + apply String.eqb_eq in E. subst. exfalso. apply N1. change k0 with (fst (k0, t)). now apply in_map.
    + now apply IH.
Qed.

Lemma attrs_pos_of_lookup ats : forall l, keys l = map fst ats -> NoDup (map fst ats) ->
  (forall k t, In (k, t) ats -> exists v, lookup k l = Some v /\ prior_ok t v = true) -> attrs_pos ats l = true.
Proof.
  induction ats as [|[k0 t0] r IH]; intros [|[k' v'] r'] K ND L; cbn [keys map] in K; try discriminate K; [reflexivity|].
  cbn [fst] in K. injection K as -> K. cbn [map fst] in ND. inversion ND as [|? ? N1 N2]; subst.
  cbn [attrs_pos]. rewrite String.eqb_refl.
  destruct (L k0 t0 (or_introl eq_refl)) as (v & Lv & Pv). cbn [lookup] in Lv. rewrite String.eqb_refl in Lv.
  injection Lv as ->. rewrite Pv. cbn [andb]. apply IH; [exact K|exact N2|]. intros k t I.
  destruct (L k t (or_intror I)) as (v0 & Lv & Pv0). cbn [lookup] in Lv.
  destruct (String.eqb k k0) eqn:E; [|eauto].
  apply String.eqb_eq in E. subst. exfalso. apply N1. change k0 with (fst (k0, t)). now apply in_map.
Qed.

Lemma prior_ok_null_value t : (forall s, t <> TyHook s) -> prior_ok t (null_value t) = true.
Proof.
  intros NH. destruct t; cbn [null_value prior_ok]; try apply tfty_eqb_refl; try apply tfkind_eqb_refl.
  - rewrite andb_true_r. apply (tfty_eqb_refl (TyObj ats)).
  - now contradiction (NH suffix).
Qed.

Lemma field_ty_not_hook f t s : field_ty f = Some t -> t <> TyHook s.
Proof.
  destruct f as [i om]. cbn [field_ty]. destruct (fi_kind i); try destruct om; intros [= <-]; discriminate.
Qed.

(* ------------------------------------------------------------------------------------- *)
(* 3. the relation between the earlier value c, the fresh result r and the in-place result v *)

Definition flag_rel (n0 n n' : bool) : Prop := n' = n \/ n' = n0.

Fixpoint rel (t : tfty) (c r v : tfval) {struct t} : Prop :=
  match t with
  | TyPrim k =>
      match c, r, v with
      | VPrim _ n0 _ p0, VPrim kr n ur p, VPrim k' n' u' p' =>
          kr = k /\ ur = false /\ k' = k /\ u' = false /\ flag_rel n0 n n' /\ (p' = p \/ (n = true /\ p' = p0))
      | _, _, _ => False
      end
  | TyList e =>
      match c, r with
      | VList _ n0 _ _, VList er n ur els =>
          er = e /\ ur = false /\ exists n', v = VList e n' false els /\ (n' = n \/ (n = true /\ n' = n0))
      | _, _ => False
      end
  | TyMap e =>
      match c, r with
      | VMap _ n0 _ _, VMap er n ur els =>
          er = e /\ ur = false /\ exists n', v = VMap e n' false els /\ (n' = n \/ (n = true /\ n' = n0))
      | _, _ => False
      end
  | TyObj ats =>
      match c, r with
      | VObj _ n0 _ a0, VObj ar0 n ur ar =>
          ar0 = ats /\ ur = false /\ exists n' lr l',
            ar = Some lr /\ v = VObj ats n' false (Some l') /\ flag_rel n0 n n' /\
            ((n = true /\ l' = oattrs a0)
             \/ (oattrs a0 = [] /\ l' = lr)
             \/ (NoDup (map fst ats) /\ keys (oattrs a0) = map fst ats /\ keys lr = map fst ats
                 /\ keys l' = map fst ats
                 /\ (fix go (a : list (string * tfty)) : Prop :=
                       match a with
                       | [] => True
                       | (k, t') :: rest =>
                           (exists c1 r1 v1, lookup k (oattrs a0) = Some c1 /\ lookup k lr = Some r1
                                             /\ lookup k l' = Some v1 /\ rel t' c1 r1 v1) /\ go rest
                       end) ats))
      | _, _ => False
      end
  | TyHook _ => False
  end.

Definition attrs_rel_at (ats : list (string * tfty)) (l0 lr l' : list (string * tfval)) : Prop :=
  Forall (fun kt => exists c1 r1 v1, lookup (fst kt) l0 = Some c1 /\ lookup (fst kt) lr = Some r1
                                     /\ lookup (fst kt) l' = Some v1 /\ rel (snd kt) c1 r1 v1) ats.

Definition attrs_rel (ats : list (string * tfty)) (l0 lr l' : list (string * tfval)) : Prop :=
  (l0 = [] /\ l' = lr)
  \/ (NoDup (map fst ats) /\ keys l0 = map fst ats /\ keys lr = map fst ats /\ keys l' = map fst ats
      /\ attrs_rel_at ats l0 lr l').

Lemma rel_obj ats a1 n0 u0 a0 a2 n u ar v :
  rel (TyObj ats) (VObj a1 n0 u0 a0) (VObj a2 n u ar) v
  <-> a2 = ats /\ u = false /\ exists n' lr l', ar = Some lr /\ v = VObj ats n' false (Some l') /\ flag_rel n0 n n' /\
        ((n = true /\ l' = oattrs a0) \/ attrs_rel ats (oattrs a0) lr l').
Proof.
  cbn [rel]. unfold attrs_rel, attrs_rel_at.
  assert (G : forall l0 lr l' (a : list (string * tfty)),
             (fix go (a : list (string * tfty)) : Prop :=
                match a with
                | [] => True
                | (k, t') :: rest =>
                    (exists c1 r1 v1, lookup k l0 = Some c1 /\ lookup k lr = Some r1
                                      /\ lookup k l' = Some v1 /\ rel t' c1 r1 v1) /\ go rest
                end) a
             <-> Forall (fun kt => exists c1 r1 v1, lookup (fst kt) l0 = Some c1 /\ lookup (fst kt) lr = Some r1
                                                   /\ lookup (fst kt) l' = Some v1 /\ rel (snd kt) c1 r1 v1) a).
  { intros l0 lr l' a. induction a as [|[k t'] rest IH].
    - split; [constructor|trivial].
    - split.
      + intros [H1 H2]. constructor; [exact H1|now apply IH].
      + intros H. inversion H as [|? ? H1 H2]; subst. split; [exact H1|now apply IH]. }
  split; intros (A1 & A2 & n' & lr & l' & E1 & E2 & F & H); (split; [exact A1|]); (split; [exact A2|]);
    exists n', lr, l'; (split; [exact E1|]); (split; [exact E2|]); (split; [exact F|]).
  - destruct H as [H|[H|(H1 & H2 & H3 & H4 & H5)]]; [now left|right; now left|].
    right. right. repeat (split; [assumption|]). now apply G.
  - destruct H as [H|[H|(H1 & H2 & H3 & H4 & H5)]]; [now left|right; now left|].
    right. right. repeat (split; [assumption|]). now apply G.
Qed.

(* a second copy of the same value: the earlier value is the fresh one, and so is the result *)
Lemma rel_same t : forall r v, rel t r r v -> v = r.
Proof.
  induction t as [k|e IH|e IH|ats IH|s] using tfty_ind'; intros r v H.
  - cbn [rel] in H. destruct r; try contradiction. destruct v; try contradiction.
    destruct H as (-> & -> & -> & -> & F & P). f_equal.
    + destruct F as [F|F]; exact F.
    + destruct P as [P|[_ P]]; exact P.
  - cbn [rel] in H. destruct r; try contradiction. destruct H as (-> & -> & n' & -> & F). f_equal.
    destruct F as [F|[_ F]]; exact F.
  - cbn [rel] in H. destruct r; try contradiction. destruct H as (-> & -> & n' & -> & F). f_equal.
    destruct F as [F|[_ F]]; exact F.
  - destruct r; try (cbn [rel] in H; contradiction). apply rel_obj in H.
    destruct H as (-> & -> & n' & lr & l' & -> & -> & F & H). f_equal.
    + destruct F as [F|F]; exact F.
    + f_equal. cbn [oattrs] in H. destruct H as [[_ H]|[[_ H]|(ND & K0 & _ & K' & H)]]; [exact H|exact H|].
      apply alist_ext; [congruence|rewrite K'; exact ND|]. intros k I. rewrite K' in I.
      apply in_map_iff in I. destruct I as ([k' t'] & <- & I). cbn [fst].
      unfold attrs_rel_at in H. rewrite Forall_forall in H, IH.
      destruct (H _ I) as (c1 & r1 & v1 & L0 & Lr & L' & R). cbn [fst snd] in *.
      rewrite L0 in Lr. injection Lr as <-. specialize (IH _ I). cbn [snd] in IH.
      rewrite (IH _ _ R) in L'. congruence.
  - contradiction.
Qed.

(* ------------------------------------------------------------------------------------- *)
(* 4. scalars *)

(* the current value of a list or map attribute is not a scalar: its elements are written as on an
   empty target *)
Lemma to_prim_value_cur_list i rd obj t e n u el ds :
  to_prim_value i rd obj t (Some (VList e n u el)) ds = to_prim_value i rd obj t None ds.
Proof. reflexivity. Qed.

Lemma to_prim_value_cur_map i rd obj t e n u el ds :
  to_prim_value i rd obj t (Some (VMap e n u el)) ds = to_prim_value i rd obj t None ds.
Proof. reflexivity. Qed.

Lemma obj_value_cur_list hook i obj m' rd ats e n u el ds :
  obj_value hook i obj (Some (VList e n u el)) m' rd ats ds = obj_value hook i obj None m' rd ats ds.
Proof. reflexivity. Qed.

Lemma obj_value_cur_map hook i obj m' rd ats e n u el ds :
  obj_value hook i obj (Some (VMap e n u el)) m' rd ats ds = obj_value hook i obj None m' rd ats ds.
Proof. reflexivity. Qed.

Lemma to_prim_value_refresh i rd obj ds :
  fi_parent i = None ->
  (fi_zero i = true -> fi_nullable i = false) ->
  (fi_placeholder i = true \/ exists g, rd = Ok g /\ sc_shape i g) ->
  exists n p,
    to_prim_value i rd obj (TyPrim (fi_tk i)) None ds = Ok (VPrim (fi_tk i) n false p, ds)
    /\ forall n0 u0 p0, exists n' p',
         to_prim_value i rd obj (TyPrim (fi_tk i)) (Some (VPrim (fi_tk i) n0 u0 p0)) ds
         = Ok (VPrim (fi_tk i) n' false p', ds)
         /\ flag_rel n0 n n' /\ (p' = p \/ (n = true /\ p' = p0)).
Proof.
  intros P Z H. unfold to_prim_value, parent_is_nil, flag_rel. rewrite P. cbn [null_value].
  rewrite tfkind_eqb_refl.
  destruct (fi_placeholder i) eqn:PH.
  { cbn [bind]. do 2 eexists. split; [reflexivity|]. intros n0 u0 p0. do 2 eexists.
    split; [reflexivity|]. split; [now right|]. right. now split. }
  destruct H as [H|(g & -> & S)]; [discriminate|]. unfold sc_shape, elem_shape in S.
  destruct (fi_nullable i) eqn:N.
  - destruct (fi_zero i); [specialize (Z eq_refl); discriminate|].
    destruct S as [->|(x & -> & Sx)].
    + destruct (fi_oneof i); cbn [bind]; do 2 eexists; (split; [reflexivity|]); intros n0 u0 p0; do 2 eexists;
        (split; [reflexivity|]); (split; [now left|]); right; now split.
    + destruct (cast_ok _ _ Sx) as (p & E & K).
      destruct (fi_oneof i); cbn [bind]; rewrite E; cbn [bind]; do 2 eexists; (split; [reflexivity|]);
        intros n0 u0 p0; do 2 eexists; (split; [reflexivity|]); (split; [now left|]); now left.
  - destruct (cast_ok _ _ S) as (p & E & K).
    destruct (fi_zero i), (fi_oneof i); cbn [bind]; rewrite E; cbn [bind]; do 2 eexists; (split; [reflexivity|]);
      intros n0 u0 p0; do 2 eexists; (split; [reflexivity|]); (split; [now right|]); now left.
Qed.

(* ------------------------------------------------------------------------------------- *)
(* 5. the element loops: the result as a function *)

Lemma fold_list_fun {A} (F : A -> list diag -> res (tfval * list diag)) (C : tfval -> Prop) l :
  Forall (fun a => forall ds, exists v, F a ds = Ok (v, ds) /\ C v) l ->
  forall vs0 ds, exists vs,
    fold_left (fun acc a => do '(vs, ds1) <- acc; do '(v, ds2) <- F a ds1; Ok (vs ++ [v], ds2)) l (Ok (vs0, ds))
    = Ok (vs0 ++ vs, ds) /\ Forall C vs.
Proof.
  induction 1 as [|a r Ha _ IH]; intros vs0 ds; cbn [fold_left].
  - exists []. now rewrite app_nil_r.
  - destruct (Ha ds) as (v & E & Cv). cbn [bind]. rewrite E. cbn [bind].
    destruct (IH (vs0 ++ [v]) ds) as (vs & E2 & Cs). exists (v :: vs). rewrite E2, <- app_assoc.
    split; [reflexivity|]. now constructor.
Qed.

Lemma fold_map_fun {A} (F : A -> list diag -> res (tfval * list diag)) (l : list (string * A)) :
  Forall (fun ka => forall ds, exists v, F (snd ka) ds = Ok (v, ds)) l ->
  forall es0 ds, exists es,
    fold_left (fun acc ka => do '(es, ds1) <- acc; do '(v, ds2) <- F (snd ka) ds1; Ok (update (fst ka) v es, ds2))
              l (Ok (es0, ds))
    = Ok (es, ds).
Proof.
  induction 1 as [|a r Ha _ IH]; intros es0 ds; cbn [fold_left].
  - eauto.
  - destruct (Ha ds) as (v & E). cbn [bind]. rewrite E. cbn [bind]. apply IH.
Qed.

(* ------------------------------------------------------------------------------------- *)
(* 6. the fields *)

Lemma attrs_pos_prior ats l : attrs_pos ats l = true -> attrs_prior_ok ats l = true.
Proof. unfold attrs_prior_ok. now destruct l. Qed.

Lemma prior_ok_obj_inv ats a1 n0 u0 a0 :
  prior_ok (TyObj ats) (VObj a1 n0 u0 a0) = true -> a1 = ats /\ attrs_prior_ok ats (oattrs a0) = true.
Proof.
  rewrite prior_ok_obj. intros H. apply andb_prop in H. destruct H as [H1 H2].
  apply tfty_eqb_eq in H1. injection H1 as <-. now split.
Qed.

Section Refresh.
  Variable hook : hook_to_t.

  (* on the empty object and on a well-formed earlier object: no panic, no diagnostic, related
     results which are well formed again *)
  Definition msg_refresh (m : message) : Prop :=
    forall obj ds, typed m obj ->
      exists lr, to_fields hook m obj (msg_ty m) ([], ds) = Ok (lr, ds)
        /\ attrs_pos (msg_ty m) lr = true
        /\ forall l0, attrs_prior_ok (msg_ty m) l0 = true ->
             exists l', to_fields hook m obj (msg_ty m) (l0, ds) = Ok (l', ds)
                        /\ attrs_rel (msg_ty m) l0 lr l' /\ attrs_pos (msg_ty m) l' = true.

  Definition field_refresh (f : field) : Prop :=
    forall gs atys ds t, ftyped f gs -> field_ty f = Some t -> lookup (snake f) atys = Some t ->
      exists r, prior_ok t r = true
        /\ (forall attrsE, lookup (snake f) attrsE = None ->
              to_field hook f (GStruct gs) atys (attrsE, ds) = Ok (update (snake f) r attrsE, ds))
        /\ (forall attrs c, lookup (snake f) attrs = Some c -> prior_ok t c = true ->
              exists v, to_field hook f (GStruct gs) atys (attrs, ds) = Ok (update (snake f) v attrs, ds)
                        /\ rel t c r v /\ prior_ok t v = true).

  Lemma obj_value_refresh i gs m' g ds :
    tf_ok m' = true -> msg_refresh m' -> elem_shape i (typed m') g ->
    exists r, obj_value hook i (GStruct gs) None m' (Ok g) (msg_ty m') ds = Ok (r, ds)
      /\ prior_ok (TyObj (msg_ty m')) r = true
      /\ forall a1 n0 u0 a0, prior_ok (TyObj (msg_ty m')) (VObj a1 n0 u0 a0) = true ->
           exists v, obj_value hook i (GStruct gs) (Some (VObj a1 n0 u0 a0)) m' (Ok g) (msg_ty m') ds = Ok (v, ds)
             /\ rel (TyObj (msg_ty m')) (VObj a1 n0 u0 a0) r v /\ prior_ok (TyObj (msg_ty m')) v = true.
  Proof.
    intros T G S. unfold elem_shape in S.
    assert (K : forall x, typed m' x ->
                exists r, (do st' <- to_fields hook m' x (msg_ty m') ([], ds);
                           let '(attrs', ds') := st' in
                           Ok (VObj (msg_ty m') false false (Some attrs'), ds')) = Ok (r, ds)
                  /\ prior_ok (TyObj (msg_ty m')) r = true
                  /\ forall a1 n0 u0 a0, prior_ok (TyObj (msg_ty m')) (VObj a1 n0 u0 a0) = true ->
                       exists v, (do st' <- to_fields hook m' x a1 (oattrs a0, ds);
                                  let '(attrs', ds') := st' in
                                  Ok (VObj a1 n0 false (Some attrs'), ds')) = Ok (v, ds)
                         /\ rel (TyObj (msg_ty m')) (VObj a1 n0 u0 a0) r v
                         /\ prior_ok (TyObj (msg_ty m')) v = true).
    { intros x Tx. destruct (G x ds Tx) as (lr & E & Pr & Hin). rewrite E. cbn [bind].
      eexists. split; [reflexivity|]. split.
      { rewrite prior_ok_obj, tfty_eqb_refl. cbn [oattrs andb]. now apply attrs_pos_prior. }
      intros a1 n0 u0 a0 P0. apply prior_ok_obj_inv in P0. destruct P0 as [-> P0].
      destruct (Hin _ P0) as (l' & E' & R & P'). rewrite E'. cbn [bind].
      eexists. split; [reflexivity|]. split.
      - apply rel_obj. split; [reflexivity|]. split; [reflexivity|]. exists n0, lr, l'.
        split; [reflexivity|]. split; [reflexivity|]. split; [now right|]. now right.
      - rewrite prior_ok_obj, tfty_eqb_refl. cbn [oattrs andb]. now apply attrs_pos_prior. }
    unfold obj_value. cbv beta iota zeta. fold (oattrs).
    destruct (fi_nullable i).
    - destruct S as [->|(x & -> & Tx)]; cbn [bind].
      + eexists. split; [reflexivity|]. split; [rewrite prior_ok_obj, tfty_eqb_refl; reflexivity|].
        intros a1 n0 u0 a0 P0. pose proof P0 as P1. apply prior_ok_obj_inv in P1. destruct P1 as [-> P1].
        eexists. split; [reflexivity|]. split.
        * apply rel_obj. split; [reflexivity|]. split; [reflexivity|]. exists true, [], (oattrs a0).
          split; [reflexivity|]. split; [reflexivity|]. split; [now left|]. left. now split.
        * rewrite prior_ok_obj, tfty_eqb_refl. exact P1.
      + destruct (m_empty m') eqn:E; apply K; [now apply empty_typed|assumption].
    - destruct (m_empty m') eqn:E; cbn [bind]; apply K; [now apply empty_typed|assumption].
  Qed.

  Lemma celems_nil (el : option (list tfval)) :
    match el with
    | Some x => if Nat.eqb (List.length x) 0 then x else make_nils 0
    | None => make_nils 0
    end = [].
  Proof. destruct el as [[|x r]|]; reflexivity. Qed.

  Lemma field_step_refresh i om :
    finfo_ok i om = true ->
    (forall m', om = Some m' -> tf_ok m' = true /\ msg_refresh m') ->
    field_refresh (Field i om).
  Proof.
    intros F Q gs atys ds t Ty FT La.
    destruct (finfo_ok_inv _ _ F) as (V & P & NC & Z & OM & OO & PH).
    unfold snake in *. cbn [f_info] in *.
    cbn [ftyped] in Ty. cbn [field_ty] in FT. unfold val_shape in Ty.
    revert Ty Z OM OO PH FT NC. destruct (fi_kind i) eqn:K; intros Ty Z OM OO PH FT NC.
    - (* PrimitiveKind *)
      inversion FT; subst t; clear FT. specialize (Z eq_refl).
      assert (Hh : (match fi_oneof i with
                    | Some h => do _u <- read_holder i h (GStruct gs); Ok tt
                    | None => Ok tt
                    end) = Ok tt
                   /\ (fi_placeholder i = true
                       \/ exists g, read_field i (zero_of_prim i) (GStruct gs) = Ok g /\ sc_shape i g)).
      { destruct (fi_placeholder i) eqn:PHE.
        - destruct (PH eq_refl) as [_ O]. rewrite O. split; [reflexivity|now left].
        - assert (Hbz : fi_oneof i <> None -> sc_shape i (zero_of_prim i)).
          { intros N. unfold sc_shape, elem_shape, zero_of_prim. destruct (fi_oneof i) as [h|]; [|congruence].
            destruct (fi_nullable i); [now left|].
            destruct (OO h eq_refl) as [[_ [D|D]]|[D _]]; [discriminate|exact D|discriminate]. }
          destruct (read_field_ok i _ gs _ V P Ty Hbz) as (g & E & Sg). split; [|right; eauto].
          destruct (fi_oneof i) as [h|] eqn:O; [|reflexivity].
          destruct (read_holder_ok i _ gs h V P O Ty) as (hv & Eh). now rewrite Eh. }
      destruct Hh as [Hh Hrd].
      destruct (to_prim_value_refresh i (read_field i (zero_of_prim i) (GStruct gs)) (GStruct gs) ds P Z Hrd)
        as (n & p & Ef & Hin).
      exists (VPrim (fi_tk i) n false p). split; [cbn [prior_ok]; apply tfkind_eqb_refl|]. split.
      + intros attrsE Lc. rewrite to_field_eq. cbv zeta. rewrite La, Lc, K, Hh. cbn [bind]. rewrite Ef. reflexivity.
      + intros attrs c Lc Pc. destruct c as [ck cn cu cp|ce cn cu cel|ce cn cu cel|ca cn cu cat| |cs cf cn cu cg cty ccur]; try discriminate Pc. cbn [prior_ok] in Pc.
        apply tfkind_eqb_eq in Pc. subst ck. destruct (Hin cn cu cp) as (n' & p' & E' & F1 & F2).
        exists (VPrim (fi_tk i) n' false p'). split.
        { rewrite to_field_eq. cbv zeta. rewrite La, Lc, K, Hh. cbn [bind]. rewrite E'. reflexivity. }
        split; [cbn [rel]; repeat (split; [reflexivity|]); split; assumption|cbn [prior_ok]; apply tfkind_eqb_refl].
    - (* PrimitiveListKind *)
      inversion FT; subst t; clear FT. specialize (Z eq_refl).
      destruct (fi_placeholder i); [destruct (PH eq_refl); discriminate|].
      destruct (read_source_ok i _ gs (GSlice None) V P Ty) as (g & E & o & -> & Hl).
      { intros _. exists None. split; [reflexivity|discriminate]. }
      destruct o as [l|].
      + assert (HF : Forall (fun a => forall ds, exists v,
                                 (fun a d => to_prim_value i (Ok a) (GStruct gs) (TyPrim (fi_tk i)) None d) a ds
                                 = Ok (v, ds) /\ True) l).
        { eapply Forall_impl; [|exact (Hl l eq_refl)]. intros a Sa d.
          destruct (to_prim_value_total i (Ok a) (GStruct gs) d P Z (or_intror (ex_intro _ a (conj eq_refl Sa))))
            as (n & p & Ev & Kp). eauto. }
        destruct (fold_list_fun _ _ l HF [] ds) as (vs & Ef & _). cbv beta in Ef. cbn [app] in Ef.
        exists (VList (TyPrim (fi_tk i)) (if Nat.ltb 0 (List.length l) then false else true) false (Some vs)).
        split; [cbn [prior_ok]; apply tfty_eqb_refl|]. split.
        * intros attrsE Lc. rewrite to_field_eq. cbv zeta. rewrite La, Lc, K, E. cbn [bind]. cbv beta iota zeta.
          rewrite Ef. reflexivity.
        * intros attrs c Lc Pc. destruct c as [ck cn cu cp|ce cn cu cel|ce cn cu cel|ca cn cu cat| |cs cf cn cu cg cty ccur]; try discriminate Pc. cbn [prior_ok] in Pc.
          apply tfty_eqb_eq in Pc. subst ce.
          exists (VList (TyPrim (fi_tk i)) (if Nat.ltb 0 (List.length l) then false else cn) false (Some vs)).
          split.
          { rewrite to_field_eq. cbv zeta. rewrite La, Lc, K, E. cbn [bind]. cbv beta iota zeta.
            match goal with |- context [fold_left ?f l ?a] =>
              assert (Ef' : fold_left f l a = Ok (vs, ds)) by exact Ef end.
            rewrite Ef'. reflexivity. }
          split; [|cbn [prior_ok]; apply tfty_eqb_refl].
          cbn [rel]. split; [reflexivity|]. split; [reflexivity|]. eexists. split; [reflexivity|].
          destruct (Nat.ltb 0 (List.length l)); [now left|right; now split].
      + exists (VList (TyPrim (fi_tk i)) true false (Some [])).
        split; [cbn [prior_ok]; apply tfty_eqb_refl|]. split.
        * intros attrsE Lc. rewrite to_field_eq. cbv zeta. rewrite La, Lc, K, E. reflexivity.
        * intros attrs c Lc Pc. destruct c as [ck cn cu cp|ce cn cu cel|ce cn cu cel|ca cn cu cat| |cs cf cn cu cg cty ccur]; try discriminate Pc. cbn [prior_ok] in Pc.
          apply tfty_eqb_eq in Pc. subst ce.
          exists (VList (TyPrim (fi_tk i)) cn false (Some [])). split.
          { rewrite to_field_eq. cbv zeta. rewrite La, Lc, K, E. cbn [bind]. cbv beta iota zeta.
            cbn [List.length]. rewrite celems_nil. reflexivity. }
          split; [|cbn [prior_ok]; apply tfty_eqb_refl].
          cbn [rel]. split; [reflexivity|]. split; [reflexivity|]. eexists. split; [reflexivity|]. right. now split.
    - (* ObjectKind *)
      destruct (OM eq_refl) as (m' & ->). inversion FT; subst t; clear FT.
      destruct (Q m' eq_refl) as [T' G'].
      destruct (fi_placeholder i); [destruct (PH eq_refl); discriminate|].
      destruct (read_source_ok i _ gs (if fi_nullable i then GPtr None else m_zero m') V P Ty) as (g & E & Sg).
      { intros N. destruct (fi_oneof i) as [h|]; [|congruence].
        destruct (OO h eq_refl) as [[D _]|[_ D]]; [discriminate|]. unfold elem_shape. rewrite D. now left. }
      destruct (obj_value_refresh i gs m' g ds T' G' Sg) as (r & Ef & Pr & Hin).
      exists r. split; [exact Pr|]. split.
      + intros attrsE Lc. rewrite to_field_eq. cbv zeta. rewrite La, Lc, K, E. cbn [bind]. rewrite Ef. reflexivity.
      + intros attrs c Lc Pc. destruct c as [ck cn cu cp|ce cn cu cel|ce cn cu cel|ca cn cu cat| |cs cf cn cu cg cty ccur]; try discriminate Pc.
        destruct (Hin _ _ _ _ Pc) as (v & E' & R & Pv). exists v. split; [|now split].
        rewrite to_field_eq. cbv zeta. rewrite La, Lc, K, E. cbn [bind]. rewrite E'. reflexivity.
    - (* ObjectListKind *)
      destruct (OM eq_refl) as (m' & ->). inversion FT; subst t; clear FT.
      destruct (Q m' eq_refl) as [T' G'].
      destruct (fi_placeholder i); [destruct (PH eq_refl); discriminate|].
      destruct (read_source_ok i _ gs (GSlice None) V P Ty) as (g & E & o & -> & Hl).
      { intros _. exists None. split; [reflexivity|discriminate]. }
      destruct o as [l|].
      + assert (HF : Forall (fun a => forall ds, exists v,
                                 (fun a d => obj_value hook i (GStruct gs) None m' (Ok a) (msg_ty m') d) a ds
                                 = Ok (v, ds) /\ True) l).
        { eapply Forall_impl; [|exact (Hl l eq_refl)]. intros a Sa d.
          destruct (obj_value_refresh i gs m' a d T' G' Sa) as (r & Ev & _). eauto. }
        destruct (fold_list_fun _ _ l HF [] ds) as (vs & Ef & _). cbv beta in Ef. cbn [app] in Ef.
        exists (VList (TyObj (msg_ty m')) (if Nat.ltb 0 (List.length l) then false else true) false (Some vs)).
        split; [cbn [prior_ok]; apply tfty_eqb_refl|]. split.
        * intros attrsE Lc. rewrite to_field_eq. cbv zeta. rewrite La, Lc, K, E. cbn [bind]. cbv beta iota zeta.
          rewrite Ef. reflexivity.
        * intros attrs c Lc Pc. destruct c as [ck cn cu cp|ce cn cu cel|ce cn cu cel|ca cn cu cat| |cs cf cn cu cg cty ccur]; try discriminate Pc. cbn [prior_ok] in Pc.
          apply tfty_eqb_eq in Pc. subst ce.
          exists (VList (TyObj (msg_ty m')) (if Nat.ltb 0 (List.length l) then false else cn) false (Some vs)).
          split.
          { rewrite to_field_eq. cbv zeta. rewrite La, Lc, K, E. cbn [bind]. cbv beta iota zeta.
            match goal with |- context [fold_left ?f l ?a] =>
              assert (Ef' : fold_left f l a = Ok (vs, ds)) by exact Ef end.
            rewrite Ef'. reflexivity. }
          split; [|cbn [prior_ok]; apply tfty_eqb_refl].
          cbn [rel]. split; [reflexivity|]. split; [reflexivity|]. eexists. split; [reflexivity|].
          destruct (Nat.ltb 0 (List.length l)); [now left|right; now split].
      + exists (VList (TyObj (msg_ty m')) true false (Some [])).
        split; [cbn [prior_ok]; apply tfty_eqb_refl|]. split.
        * intros attrsE Lc. rewrite to_field_eq. cbv zeta. rewrite La, Lc, K, E. reflexivity.
        * intros attrs c Lc Pc. destruct c as [ck cn cu cp|ce cn cu cel|ce cn cu cel|ca cn cu cat| |cs cf cn cu cg cty ccur]; try discriminate Pc. cbn [prior_ok] in Pc.
          apply tfty_eqb_eq in Pc. subst ce.
          exists (VList (TyObj (msg_ty m')) cn false (Some [])). split.
          { rewrite to_field_eq. cbv zeta. rewrite La, Lc, K, E. cbn [bind]. cbv beta iota zeta.
            cbn [List.length]. rewrite celems_nil. reflexivity. }
          split; [|cbn [prior_ok]; apply tfty_eqb_refl].
          cbn [rel]. split; [reflexivity|]. split; [reflexivity|]. eexists. split; [reflexivity|]. right. now split.
    - (* PrimitiveMapKind *)
      inversion FT; subst t; clear FT. specialize (Z eq_refl).
      destruct (fi_placeholder i); [destruct (PH eq_refl); discriminate|].
      destruct (read_source_ok i _ gs (GMap None) V P Ty) as (g & E & o & -> & Hl).
      { intros _. exists None. split; [reflexivity|discriminate]. }
      destruct o as [l|].
      + assert (HF : Forall (fun ka : string * goval => forall ds, exists v,
                                 (fun a d => to_prim_value i (Ok a) (GStruct gs) (TyPrim (fi_tk i)) None d) (snd ka) ds
                                 = Ok (v, ds)) l).
        { eapply Forall_impl; [|exact (Hl l eq_refl)]. intros a Sa d.
          destruct (to_prim_value_total i (Ok (snd a)) (GStruct gs) d P Z
                                        (or_intror (ex_intro _ (snd a) (conj eq_refl Sa))))
            as (n & p & Ev & Kp). eauto. }
        destruct (fold_map_fun _ l HF [] ds) as (es & Ef). cbv beta in Ef.
        exists (VMap (TyPrim (fi_tk i)) (match l with [] => true | _ => false end) false (Some es)).
        split; [cbn [prior_ok]; apply tfty_eqb_refl|]. split.
        * intros attrsE Lc. rewrite to_field_eq. cbv zeta. rewrite La, Lc, K, E. cbn [bind]. cbv beta iota zeta.
          rewrite Ef. reflexivity.
        * intros attrs c Lc Pc. destruct c as [ck cn cu cp|ce cn cu cel|ce cn cu cel|ca cn cu cat| |cs cf cn cu cg cty ccur]; try discriminate Pc. cbn [prior_ok] in Pc.
          apply tfty_eqb_eq in Pc. subst ce.
          exists (VMap (TyPrim (fi_tk i)) (match l with [] => cn | _ => false end) false (Some es)).
          split.
          { rewrite to_field_eq. cbv zeta. rewrite La, Lc, K, E. cbn [bind]. cbv beta iota zeta.
            match goal with |- context [fold_left ?f l ?a] =>
              assert (Ef' : fold_left f l a = Ok (es, ds)) by exact Ef end.
            rewrite Ef'. reflexivity. }
          split; [|cbn [prior_ok]; apply tfty_eqb_refl].
          cbn [rel]. split; [reflexivity|]. split; [reflexivity|]. eexists. split; [reflexivity|].
          destruct l; [right; now split|now left].
      + exists (VMap (TyPrim (fi_tk i)) true false (Some [])).
        split; [cbn [prior_ok]; apply tfty_eqb_refl|]. split.
        * intros attrsE Lc. rewrite to_field_eq. cbv zeta. rewrite La, Lc, K, E. reflexivity.
        * intros attrs c Lc Pc. destruct c as [ck cn cu cp|ce cn cu cel|ce cn cu cel|ca cn cu cat| |cs cf cn cu cg cty ccur]; try discriminate Pc. cbn [prior_ok] in Pc.
          apply tfty_eqb_eq in Pc. subst ce.
          exists (VMap (TyPrim (fi_tk i)) cn false (Some [])). split.
          { rewrite to_field_eq. cbv zeta. rewrite La, Lc, K, E. reflexivity. }
          split; [|cbn [prior_ok]; apply tfty_eqb_refl].
          cbn [rel]. split; [reflexivity|]. split; [reflexivity|]. eexists. split; [reflexivity|]. right. now split.
    - (* ObjectMapKind *)
      destruct (OM eq_refl) as (m' & ->). inversion FT; subst t; clear FT.
      destruct (Q m' eq_refl) as [T' G'].
      destruct (fi_placeholder i); [destruct (PH eq_refl); discriminate|].
      destruct (read_source_ok i _ gs (GMap None) V P Ty) as (g & E & o & -> & Hl).
      { intros _. exists None. split; [reflexivity|discriminate]. }
      destruct o as [l|].
      + assert (HF : Forall (fun ka : string * goval => forall ds, exists v,
                                 (fun a d => obj_value hook i (GStruct gs) None m' (Ok a) (msg_ty m') d) (snd ka) ds
                                 = Ok (v, ds)) l).
        { eapply Forall_impl; [|exact (Hl l eq_refl)]. intros a Sa d.
          destruct (obj_value_refresh i gs m' (snd a) d T' G' Sa) as (r & Ev & _). eauto. }
        destruct (fold_map_fun _ l HF [] ds) as (es & Ef). cbv beta in Ef.
        exists (VMap (TyObj (msg_ty m')) (match l with [] => true | _ => false end) false (Some es)).
        split; [cbn [prior_ok]; apply tfty_eqb_refl|]. split.
        * intros attrsE Lc. rewrite to_field_eq. cbv zeta. rewrite La, Lc, K, E. cbn [bind]. cbv beta iota zeta.
          rewrite Ef. reflexivity.
        * intros attrs c Lc Pc. destruct c as [ck cn cu cp|ce cn cu cel|ce cn cu cel|ca cn cu cat| |cs cf cn cu cg cty ccur]; try discriminate Pc. cbn [prior_ok] in Pc.
          apply tfty_eqb_eq in Pc. subst ce.
          exists (VMap (TyObj (msg_ty m')) (match l with [] => cn | _ => false end) false (Some es)).
          split.
          { rewrite to_field_eq. cbv zeta. rewrite La, Lc, K, E. cbn [bind]. cbv beta iota zeta.
            match goal with |- context [fold_left ?f l ?a] =>
              assert (Ef' : fold_left f l a = Ok (es, ds)) by exact Ef end.
            rewrite Ef'. reflexivity. }
          split; [|cbn [prior_ok]; apply tfty_eqb_refl].
          cbn [rel]. split; [reflexivity|]. split; [reflexivity|]. eexists. split; [reflexivity|].
          destruct l; [right; now split|now left].
      + exists (VMap (TyObj (msg_ty m')) true false (Some [])).
        split; [cbn [prior_ok]; apply tfty_eqb_refl|]. split.
        * intros attrsE Lc. rewrite to_field_eq. cbv zeta. rewrite La, Lc, K, E. reflexivity.
        * intros attrs c Lc Pc. destruct c as [ck cn cu cp|ce cn cu cel|ce cn cu cel|ca cn cu cat| |cs cf cn cu cg cty ccur]; try discriminate Pc. cbn [prior_ok] in Pc.
          apply tfty_eqb_eq in Pc. subst ce.
          exists (VMap (TyObj (msg_ty m')) cn false (Some [])). split.
          { rewrite to_field_eq. cbv zeta. rewrite La, Lc, K, E. reflexivity. }
          split; [|cbn [prior_ok]; apply tfty_eqb_refl].
          cbn [rel]. split; [reflexivity|]. split; [reflexivity|]. eexists. split; [reflexivity|]. right. now split.
    - now contradiction NC.
  Qed.

  (* the fields of a message one after the other, on the empty and on the earlier attributes: each
     appends, respectively replaces in place, its own attribute *)
  Lemma field_list_refresh l gs atys :
    Forall field_refresh l -> Forall (fun f => ftyped f gs) l ->
    (forall f, In f l -> exists t, field_ty f = Some t /\ lookup (snake f) atys = Some t) ->
    NoDup (snakes l) ->
    forall attrsE attrs ds,
      (forall f, In f l -> lookup (snake f) attrsE = None) ->
      (forall f t, In f l -> field_ty f = Some t ->
                   exists c, lookup (snake f) attrs = Some c /\ prior_ok t c = true) ->
      exists lr l',
        to_field_list hook l (GStruct gs) atys (attrsE, ds) = Ok (lr, ds)
        /\ to_field_list hook l (GStruct gs) atys (attrs, ds) = Ok (l', ds)
        /\ keys lr = keys attrsE ++ snakes l
        /\ keys l' = keys attrs
        /\ (forall k, ~ In k (snakes l) -> lookup k lr = lookup k attrsE /\ lookup k l' = lookup k attrs)
        /\ (forall f t, In f l -> field_ty f = Some t ->
              exists c r v, lookup (snake f) attrs = Some c /\ lookup (snake f) lr = Some r
                            /\ lookup (snake f) l' = Some v /\ rel t c r v
                            /\ prior_ok t r = true /\ prior_ok t v = true).
  Proof.
    induction l as [|f r IH]; intros G T A ND attrsE attrs ds N C; cbn [to_field_list].
    - exists attrsE, attrs. split; [reflexivity|]. split; [reflexivity|]. cbn [snakes map].
      split; [now rewrite app_nil_r|]. split; [reflexivity|]. split; [now split|]. intros f t [].
    - inversion G as [|? ? Gf Gr]; subst. inversion T as [|? ? Tf Tr]; subst.
      cbn [snakes map] in ND. inversion ND as [|? ? N1 N2]; subst.
      destruct (A f (or_introl eq_refl)) as (t & FT & La).
      destruct (Gf gs atys ds t Tf FT La) as (rf & Prf & Hfresh & Hin).
      destruct (C f t (or_introl eq_refl) FT) as (c & Lc & Pc).
      destruct (Hin attrs c Lc Pc) as (v & Ein & R & Pv).
      rewrite (Hfresh attrsE (N f (or_introl eq_refl))), Ein. cbn [bind].
      assert (NE : forall f', In f' r -> snake f' <> snake f).
      { intros f' I Eq. apply N1. rewrite <- Eq. now apply in_map. }
      destruct (IH Gr Tr (fun f' I => A f' (or_intror I)) N2 (update (snake f) rf attrsE) (update (snake f) v attrs) ds)
        as (lr & l' & E1 & E2 & K1 & K2 & L & C').
      { intros f' I. rewrite lookup_update_neq; [apply N; now right|now apply NE]. }
      { intros f' t' I FT'. rewrite lookup_update_neq; [apply C; [now right|exact FT']|now apply NE]. }
      exists lr, l'. split; [exact E1|]. split; [exact E2|]. split.
      { rewrite K1, (update_absent _ _ _ (N f (or_introl eq_refl))). unfold keys. rewrite map_app.
        cbn [map fst snakes]. now rewrite <- app_assoc. }
      split.
      { rewrite K2. apply keys_update_in. eapply lookup_Some_keys; exact Lc. }
      split.
      { intros k Nk. cbn [snakes map In] in Nk. destruct (L k) as [L1 L2]; [tauto|].
        rewrite L1, L2. split; apply lookup_update_neq; intros ->; tauto. }
      intros f' t' [<-|I] FT'.
      + rewrite FT in FT'. injection FT' as <-. destruct (L (snake f) N1) as [L1 L2].
        exists c, rf, v. rewrite L1, L2, !lookup_update_eq. now repeat split.
      + destruct (C' f' t' I FT') as (c' & r' & v' & Lc' & Lr' & Lv' & R' & Pr' & Pv').
        exists c', r', v'. rewrite lookup_update_neq in Lc' by (now apply NE). now repeat split.
  Qed.

  Lemma in_fields_ty fs k t :
    In (k, t) (fields_ty fs) <-> exists f, In f fs /\ k = snake f /\ field_ty f = Some t.
  Proof.
    unfold fields_ty. rewrite in_flat_map. split.
    - intros (f & If & I). destruct (field_ty f) as [t0|] eqn:FT; [|destruct I].
      destruct I as [[= <- <-]|[]]. eauto.
    - intros (f & If & -> & FT). exists f. split; [exact If|]. rewrite FT. now left.
  Qed.

  Lemma keys_fields_ty fs :
    (forall f, In f fs -> exists t, field_ty f = Some t) -> map fst (fields_ty fs) = snakes fs.
  Proof.
    induction fs as [|f r IH]; intros A; [reflexivity|]. unfold fields_ty. cbn [flat_map snakes map].
    destruct (A f (or_introl eq_refl)) as (t & ->). cbn [app map fst]. f_equal. apply IH.
    intros f' I. apply A. now right.
  Qed.

  Lemma lookup_map_val {A B} (g : A -> B) k (l : list (string * A)) :
    lookup k (map (fun kt => (fst kt, g (snd kt))) l) = option_map g (lookup k l).
  Proof.
    induction l as [|[k' a] r IH]; [reflexivity|]. cbn [map lookup fst snd].
    destruct (String.eqb k k'); [reflexivity|exact IH].
  Qed.

  Lemma refresh_mutual : forall m, tf_ok m = true -> msg_refresh m.
  Proof.
    apply (message_ind' (fun f => ftf_ok f = true -> field_refresh f) (fun m => tf_ok m = true -> msg_refresh m)).
    - intros i F. cbn [ftf_ok] in F. rewrite andb_true_r in F. apply field_step_refresh; [exact F|]. intros m' [=].
    - intros i m IH F. cbn [ftf_ok] in F. apply andb_prop in F. destruct F as [F1 F2].
      apply field_step_refresh; [exact F1|]. intros m' [= <-]. split; [exact F2|exact (IH F2)].
    - intros n fs os inj e z IH F obj ds T. rewrite tf_ok_eq in F.
      apply andb_prop in F. destruct F as [F F3]. apply andb_prop in F. destruct F as [F1 _].
      apply nodup_b_NoDup in F1. rewrite forallb_forall in F3.
      rewrite typed_eq in T. destruct T as (gs & -> & T). rewrite msg_ty_eq.
      assert (G : Forall field_refresh fs).
      { rewrite Forall_forall in IH |- *. intros f I. exact (IH f I (F3 f I)). }
      assert (A : forall f, In f fs -> exists t, field_ty f = Some t /\ lookup (snake f) (fields_ty fs) = Some t).
      { intros [i om] I. pose proof (F3 _ I) as Ff. cbn [ftf_ok] in Ff.
        apply andb_prop in Ff. destruct Ff as [Ff _].
        destruct (field_ty_some _ _ Ff) as (t & FT). exists t. split; [exact FT|]. now apply lookup_fields_ty. }
      assert (KT : map fst (fields_ty fs) = snakes fs).
      { apply keys_fields_ty. intros f I. destruct (A f I) as (t & FT & _). eauto. }
      assert (NDT : NoDup (map fst (fields_ty fs))) by (rewrite KT; exact F1).
      pose proof (field_list_refresh fs gs (fields_ty fs) G T A F1 []) as H.
      (* the results are well formed: positions from lookups *)
      assert (POS : forall attrs lr l',
                 keys lr = [] ++ snakes fs -> keys l' = keys attrs -> keys attrs = map fst (fields_ty fs) ->
                 (forall f t, In f fs -> field_ty f = Some t ->
                    exists c r v, lookup (snake f) attrs = Some c /\ lookup (snake f) lr = Some r
                                  /\ lookup (snake f) l' = Some v /\ rel t c r v
                                  /\ prior_ok t r = true /\ prior_ok t v = true) ->
                 attrs_pos (fields_ty fs) lr = true /\ attrs_pos (fields_ty fs) l' = true
                 /\ attrs_rel_at (fields_ty fs) attrs lr l').
      { intros attrs lr l' K1 K2 K0 C'. cbn [app] in K1. split; [|split].
        - apply attrs_pos_of_lookup; [congruence|exact NDT|]. intros k t I.
          apply in_fields_ty in I. destruct I as (f & If & -> & FT).
          destruct (C' f t If FT) as (c & r & v & _ & Lr & _ & _ & Pr & _). eauto.
        - apply attrs_pos_of_lookup; [congruence|exact NDT|]. intros k t I.
          apply in_fields_ty in I. destruct I as (f & If & -> & FT).
          destruct (C' f t If FT) as (c & r & v & _ & _ & Lv & _ & _ & Pv). eauto.
        - unfold attrs_rel_at. apply Forall_forall. intros [k t] I. cbn [fst snd].
          apply in_fields_ty in I. destruct I as (f & If & -> & FT).
          destruct (C' f t If FT) as (c & r & v & Lc & Lr & Lv & R & _). eauto 8. }
      (* the fresh result, by a run against the null values of the attribute types *)
      set (W := map (fun kt : string * tfty => (fst kt, null_value (snd kt))) (fields_ty fs)).
      assert (KW : keys W = map fst (fields_ty fs)).
      { unfold W, keys. rewrite map_map. reflexivity. }
      destruct (H W ds) as (lr & lw & Er & _ & K1 & K2 & _ & C').
      { intros f I. reflexivity. }
      { intros f t I FT. destruct (A f I) as (t' & FT' & La). rewrite FT in FT'. injection FT' as <-.
        exists (null_value t). unfold W. rewrite lookup_map_val, La. split; [reflexivity|].
        apply prior_ok_null_value. intros s. exact (field_ty_not_hook f t s FT). }
      destruct (POS W lr lw K1 K2 KW C') as (Pr & _ & _).
      rewrite !to_fields_list. exists lr. split; [exact Er|]. split; [exact Pr|].
      intros l0 P0. rewrite to_fields_list. destruct l0 as [|kv l0'].
      + exists lr. split; [exact Er|]. split; [left; now split|exact Pr].
      + unfold attrs_prior_ok in P0. set (l0 := kv :: l0') in *.
        pose proof (attrs_pos_keys _ _ P0) as K0.
        destruct (H l0 ds) as (lr2 & l' & Er2 & E' & K1' & K2' & _ & C2).
        { intros f I. reflexivity. }
        { intros f t I FT. apply (attrs_pos_lookup _ _ P0 NDT). apply in_fields_ty. eauto. }
        rewrite Er in Er2. injection Er2 as <-.
        destruct (POS l0 lr l' K1' K2' K0 C2) as (_ & Pl & RA).
        exists l'. split; [exact E'|]. split; [|exact Pl]. right.
        split; [exact NDT|]. split; [exact K0|]. split; [now apply attrs_pos_keys|]. split; [congruence|exact RA].
  Qed.
End Refresh.

(* ------------------------------------------------------------------------------------- *)
(* 7. C09 on the class tf_ok *)

(* any well-formed earlier target: no panic, no diagnostic, and the result is related to the fresh
   result; both are well-formed earlier targets again *)
Theorem copy_to_prior_rel_partial hook m v t :
  tf_ok m = true -> typed m v -> prior_ok (TyObj (msg_ty m)) t = true ->
  exists r t',
    copy_to hook m v (VObj (msg_ty m) false false None) = Ok (r, [])
    /\ copy_to hook m v t = Ok (t', [])
    /\ rel (TyObj (msg_ty m)) t r t'
    /\ prior_ok (TyObj (msg_ty m)) r = true /\ prior_ok (TyObj (msg_ty m)) t' = true.
Proof.
  intros F T P. destruct t as [| | |a1 n0 u0 a0| |]; try discriminate P.
  pose proof P as P1. apply prior_ok_obj_inv in P1. destruct P1 as [-> P1].
  destruct (refresh_mutual hook m F v [] T) as (lr & E & Pr & Hin).
  destruct (Hin _ P1) as (l' & E' & R & P').
  exists (VObj (msg_ty m) false false (Some lr)), (VObj (msg_ty m) false false (Some l')).
  cbn [copy_to]. change (match a0 with Some x => x | None => [] end) with (oattrs a0).
  rewrite E, E'. cbn [bind]. split; [reflexivity|]. split; [reflexivity|]. split.
  - apply rel_obj. split; [reflexivity|]. split; [reflexivity|]. exists false, lr, l'.
    split; [reflexivity|]. split; [reflexivity|]. split; [now left|]. now right.
  - split; rewrite prior_ok_obj, tfty_eqb_refl; cbn [oattrs andb]; now apply attrs_pos_prior.
Qed.

(* the result on the empty target is a well-formed earlier target *)
Theorem copy_to_prior_ok_partial hook m v t ds :
  tf_ok m = true -> typed m v ->
  copy_to hook m v (VObj (msg_ty m) false false None) = Ok (t, ds) ->
  prior_ok (TyObj (msg_ty m)) t = true.
Proof.
  intros F T H.
  destruct (copy_to_prior_rel_partial hook m v (VObj (msg_ty m) false false None) F T) as (r & t' & E & _ & _ & P & _).
  { rewrite prior_ok_obj, tfty_eqb_refl. reflexivity. }
  rewrite E in H. now injection H as <- _.
Qed.

(* C09: CopyTo into the result of an earlier CopyTo *)
Theorem copy_to_refresh_rel_partial hook m v1 v2 t1 ds1 :
  tf_ok m = true -> typed m v1 -> typed m v2 ->
  copy_to hook m v1 (VObj (msg_ty m) false false None) = Ok (t1, ds1) ->
  exists r t2,
    copy_to hook m v2 (VObj (msg_ty m) false false None) = Ok (r, [])
    /\ copy_to hook m v2 t1 = Ok (t2, [])
    /\ rel (TyObj (msg_ty m)) t1 r t2
    /\ prior_ok (TyObj (msg_ty m)) t2 = true.
Proof.
  intros F T1 T2 H. pose proof (copy_to_prior_ok_partial hook m v1 t1 ds1 F T1 H) as P.
  destruct (copy_to_prior_rel_partial hook m v2 t1 F T2 P) as (r & t2 & E & E' & R & _ & P2). eauto 6.
Qed.

(* idempotence: a second CopyTo of the same value changes nothing *)
Theorem copy_to_idem_partial hook m v t1 ds1 :
  tf_ok m = true -> typed m v ->
  copy_to hook m v (VObj (msg_ty m) false false None) = Ok (t1, ds1) ->
  copy_to hook m v t1 = Ok (t1, ds1).
Proof.
  intros F T H. destruct (copy_to_refresh_rel_partial hook m v v t1 ds1 F T T H) as (r & t2 & E & E' & R & _).
  rewrite E in H. injection H as <- <-. now rewrite E', (rel_same _ _ _ R).
Qed.

(* what [rel] says, attribute by attribute *)
Lemma rel_prim_reads k c r v : rel (TyPrim k) c r v ->
  exists n p n' p', r = VPrim k n false p /\ v = VPrim k n' false p' /\ (n = false -> p' = p).
Proof.
  cbn [rel]. destruct c; try contradiction. destruct r; try contradiction. destruct v; try contradiction.
  intros (-> & -> & -> & -> & _ & P). do 4 eexists. split; [reflexivity|]. split; [reflexivity|].
  intros ->. destruct P as [P|[P _]]; [exact P|discriminate].
Qed.

Lemma rel_list_reads e c r v : rel (TyList e) c r v ->
  exists n n' els, r = VList e n false els /\ v = VList e n' false els /\ (n = false -> n' = false).
Proof.
  cbn [rel]. destruct c; try contradiction. destruct r; try contradiction.
  intros (-> & -> & n' & -> & N). do 3 eexists. split; [reflexivity|]. split; [reflexivity|].
  intros ->. destruct N as [N|[N _]]; [exact N|discriminate].
Qed.

Lemma rel_map_reads e c r v : rel (TyMap e) c r v ->
  exists n n' els, r = VMap e n false els /\ v = VMap e n' false els /\ (n = false -> n' = false).
Proof.
  cbn [rel]. destruct c; try contradiction. destruct r; try contradiction.
  intros (-> & -> & n' & -> & N). do 3 eexists. split; [reflexivity|]. split; [reflexivity|].
  intros ->. destruct N as [N|[N _]]; [exact N|discriminate].
Qed.

(* an object which the fresh result holds non-null: the in-place result holds the same attribute
   names in the same order, and attribute by attribute the values are related *)
Lemma rel_obj_reads ats c r v : rel (TyObj ats) c r v ->
  exists n lr n' l', r = VObj ats n false (Some lr) /\ v = VObj ats n' false (Some l')
    /\ (n = false -> keys l' = keys lr
                     /\ forall k t, In (k, t) ats -> lookup k l' = lookup k lr
                                     \/ exists c1 r1 v1, lookup k lr = Some r1 /\ lookup k l' = Some v1
                                                         /\ rel t c1 r1 v1).
Proof.
  destruct c; try (cbn [rel]; contradiction). destruct r; try (cbn [rel]; contradiction).
  intros H. apply rel_obj in H. destruct H as (-> & -> & n' & lr & l' & -> & -> & _ & H).
  do 4 eexists. split; [reflexivity|]. split; [reflexivity|]. intros ->.
  destruct H as [[H _]|[[_ ->]|(_ & _ & K1 & K2 & H)]]; [discriminate| |].
  - split; [reflexivity|]. intros k t _. now left.
  - split; [congruence|]. intros k t I. right. unfold attrs_rel_at in H. rewrite Forall_forall in H.
    destruct (H _ I) as (c1 & r1 & v1 & _ & Lr & Lv & R). eauto 6.
Qed.

Print Assumptions copy_to_prior_rel_partial.
Print Assumptions copy_to_prior_ok_partial.
Print Assumptions copy_to_refresh_rel_partial.
Print Assumptions copy_to_idem_partial.

(* ------------------------------------------------------------------------------------- *)
(* 8. the in-place copy is not history independent: the statements with syntactic equality are
   false (message and value of Proofs/CopyToTotal.v, Module Example) *)
Module Counter.
  Import CopyToTotal.Example.
  Local Open Scope string_scope.

  Definition value2 : goval :=
    GStruct [("Kind", GOneof (Some ("X", GPrim (PInt 7))));
             ("Items", GSlice (Some [GPtr None]));
             ("Labels", GMap (Some [("z", GPrim (PStr "v")); ("k", GPrim (PStr "w"))]));
             ("Tags", GSlice None);
             ("Sub", in_val "");
             ("P", GPtr (Some (GPrim (PBool true))));
             ("N", GPrim (PF32 (SpecFloat.S754_infinity false)));
             ("E", GPtr None)].

  Lemma value2_typed : typed outer value2.
  Proof.
    pose proof in_val_typed as T.
    unfold outer. rewrite typed_eq. eexists. split; [reflexivity|].
    repeat apply Forall_cons; try apply Forall_nil; cbn [ftyped mk fi_placeholder];
      unfold reads, val_shape, elem_shape; cbn [mk fi_oneof fi_kind fi_nullable fi_name fi_tk];
      (eexists; split; [reflexivity|]).
    - right. do 2 eexists. split; [reflexivity|]. intros _. reflexivity.
    - right. do 2 eexists. split; [reflexivity|]. discriminate.
    - eexists. split; [reflexivity|]. intros l [= <-]. apply Forall_cons; [now left|apply Forall_nil].
    - eexists. split; [reflexivity|]. intros l [= <-]. repeat constructor.
    - eexists. split; [reflexivity|]. intros l [=].
    - apply T.
    - right. eexists. split; reflexivity.
    - reflexivity.
    - now left.
  Qed.

  Definition E0 : tfval := VObj (msg_ty outer) false false None.
  Definition run (v : goval) (t : tfval) := copy_to std_hook_to outer v t.
  Definition result (r : res (tfval * list diag)) : tfval := match r with Ok (t, _) => t | Panic => VNil end.
  Definition attr (k : string) (r : res (tfval * list diag)) : option tfval :=
    match r with Ok (VObj _ _ _ (Some l), _) => lookup k l | _ => None end.

  Definition t1 : tfval := result (run value E0).     (* the state after a first CopyTo of [value] *)
  Definition t2 : tfval := result (run value2 E0).

  (* a value scalar with a zero literal: null after the first copy (it held 0), and the flag stays
     although the source now holds +inf *)
  Example sticky_null_scalar :
    attr "n" (run value2 t1) = Some (VPrim KF64 true false (PF64 (SpecFloat.S754_infinity false)))
    /\ attr "n" (run value2 E0) = Some (VPrim KF64 false false (PF64 (SpecFloat.S754_infinity false))).
  Proof. split; vm_compute; reflexivity. Qed.

  (* a pointer scalar which becomes nil keeps the earlier payload under the Null flag *)
  Example stale_payload_under_nil :
    attr "p" (run value t2) = Some (VPrim KBool true false (PBool true))
    /\ attr "p" (run value E0) = Some (VPrim KBool true false (PBool false)).
  Proof. split; vm_compute; reflexivity. Qed.

  (* a nullable message which becomes nil keeps the earlier attributes under the Null flag *)
  Example stale_attrs_under_nil :
    attr "y" (run value2 t1)
    = Some (VObj [("a", TyPrim KStr)] true false (Some [("a", VPrim KStr false false (PStr "hello"))]))
    /\ attr "y" (run value2 E0) = Some (VObj [("a", TyPrim KStr)] true false (Some [])).
  Proof. split; vm_compute; reflexivity. Qed.

  (* a nullable message which was nil and is set: the object stays null *)
  Example sticky_null_object :
    attr "y" (run value t2)
    = Some (VObj [("a", TyPrim KStr)] true false (Some [("a", VPrim KStr false false (PStr "hello"))]))
    /\ attr "y" (run value E0)
       = Some (VObj [("a", TyPrim KStr)] false false (Some [("a", VPrim KStr false false (PStr "hello"))])).
  Proof. split; vm_compute; reflexivity. Qed.

  (* a list which becomes nil: emptied, but the Null flag of the earlier list stays *)
  Example sticky_flag_empty_list :
    attr "tags" (run value2 t1) = Some (VList (TyPrim KStr) false false (Some []))
    /\ attr "tags" (run value2 E0) = Some (VList (TyPrim KStr) true false (Some [])).
  Proof. split; vm_compute; reflexivity. Qed.

  (* the statements with equality are false *)
  Example refresh_equality_false :
    ~ (forall hook m v1 v2 t1 ds1,
         tf_ok m = true -> typed m v1 -> typed m v2 ->
         copy_to hook m v1 (VObj (msg_ty m) false false None) = Ok (t1, ds1) ->
         copy_to hook m v2 t1 = copy_to hook m v2 (VObj (msg_ty m) false false None)).
  Proof.
    intros H. specialize (H std_hook_to outer value value2 t1 [] outer_ok value_typed value2_typed).
    assert (E : copy_to std_hook_to outer value (VObj (msg_ty outer) false false None) = Ok (t1, []))
      by (vm_compute; reflexivity).
    specialize (H E). vm_compute in H. discriminate H.
  Qed.

  Example any_conforming_target_equality_false :
    ~ (forall hook m v t,
         tf_ok m = true -> typed m v -> conforms (TyObj (msg_ty m)) t = true ->
         copy_to hook m v t = copy_to hook m v (VObj (msg_ty m) false false None)).
  Proof.
    intros H. apply refresh_equality_false. intros hook m v1 v2 t ds F T1 T2 E.
    apply H; [exact F|exact T2|]. exact (copy_to_conforms_partial hook m v1 t ds F T1 E).
  Qed.

  (* neither does a null object of the state with attributes of other types conform to [prior_ok]:
     [conforms] does not look below a null object, CopyTo does *)
  Example conforms_not_prior_ok :
    let t := VObj (msg_ty outer) true false (Some [("x", VList (TyPrim KStr) false false None)]) in
    conforms (TyObj (msg_ty outer)) t = true /\ prior_ok (TyObj (msg_ty outer)) t = false.
  Proof. split; vm_compute; reflexivity. Qed.
End Counter.

(* ------------------------------------------------------------------------------------- *)
(* 9. the hypotheses are satisfiable *)
Module RefreshExample.
  Import CopyToTotal.Example Counter.
  Local Open Scope string_scope.

  (* well-formed earlier targets: the empty object, a null object, the result of a copy, an object
     of the state with unknown values, another list, other map keys and a null nested object *)
  Definition state : tfval :=
    VObj (msg_ty outer) false false
         (Some [("x", VPrim KI64 false true (PInt 0));
                ("y", VObj [("a", TyPrim KStr)] true false None);
                ("items", VList (TyObj [("a", TyPrim KStr)]) false false
                                (Some [VNil; VNil; VNil; VNil]));
                ("labels", VMap (TyPrim KStr) false true (Some [("other", VPrim KStr false false (PStr "o"))]));
                ("tags", VList (TyPrim KStr) true false None);
                ("sub", VObj [("a", TyPrim KStr)] false false (Some [("a", VPrim KStr false true (PStr ""))]));
                ("p", VPrim KBool false false (PBool true));
                ("n", VPrim KF64 false false (PF64 (SpecFloat.S754_zero false)));
                ("e", VObj [("active", TyPrim KBool)] true false None)]).

  Example prior_ok_examples :
    prior_ok (TyObj (msg_ty outer)) E0 = true
    /\ prior_ok (TyObj (msg_ty outer)) (VObj (msg_ty outer) true false None) = true
    /\ prior_ok (TyObj (msg_ty outer)) t1 = true
    /\ prior_ok (TyObj (msg_ty outer)) state = true.
  Proof. repeat split; vm_compute; reflexivity. Qed.

  (* the theorems, instantiated *)
  Example outer_refresh hook t ds :
    copy_to hook outer value (VObj (msg_ty outer) false false None) = Ok (t, ds) ->
    exists r t', copy_to hook outer value2 (VObj (msg_ty outer) false false None) = Ok (r, [])
                 /\ copy_to hook outer value2 t = Ok (t', [])
                 /\ rel (TyObj (msg_ty outer)) t r t' /\ prior_ok (TyObj (msg_ty outer)) t' = true.
  Proof. exact (copy_to_refresh_rel_partial hook outer value value2 t ds outer_ok value_typed value2_typed). Qed.

  Example outer_idem hook t ds :
    copy_to hook outer value (VObj (msg_ty outer) false false None) = Ok (t, ds) ->
    copy_to hook outer value t = Ok (t, ds).
  Proof. exact (copy_to_idem_partial hook outer value t ds outer_ok value_typed). Qed.

  Example outer_state hook :
    exists r t', copy_to hook outer value2 (VObj (msg_ty outer) false false None) = Ok (r, [])
                 /\ copy_to hook outer value2 state = Ok (t', [])
                 /\ rel (TyObj (msg_ty outer)) state r t'.
  Proof.
    destruct (copy_to_prior_rel_partial hook outer value2 state outer_ok value2_typed) as (r & t' & H1 & H2 & H3 & _);
      [vm_compute; reflexivity|eauto].
  Qed.

  (* and the model computes: on [state] the attributes are those of the fresh result (unknown flags
     cleared, the list re-made with the length of the source, the other map key gone), except the
     Null flag of the zero-literal scalar sub.a, which is the earlier one *)
  Example state_run :
    Forall (fun k => attr k (run value2 state) = attr k (run value2 E0))
           ["x"; "y"; "items"; "labels"; "tags"; "p"; "n"; "e"]
    /\ attr "sub" (run value2 state)
       = Some (VObj [("a", TyPrim KStr)] false false (Some [("a", VPrim KStr false false (PStr ""))]))
    /\ attr "sub" (run value2 E0)
       = Some (VObj [("a", TyPrim KStr)] false false (Some [("a", VPrim KStr true false (PStr ""))])).
  Proof. split; [repeat constructor; vm_compute; reflexivity|split; vm_compute; reflexivity]. Qed.

  Example idem_run : run value t1 = Ok (t1, []) /\ run value2 t2 = Ok (t2, []).
  Proof. split; vm_compute; reflexivity. Qed.
End RefreshExample.

Print Assumptions Counter.refresh_equality_false.
Print Assumptions RefreshExample.outer_refresh.
Print Assumptions RefreshExample.outer_idem.
