(* C06, CopyTo direction: "malformed input becomes diagnostics, never a panic", for the model of
   Copy<T>ToTerraform (Model/CopyTo.v), on the class of messages tf_ok and typed Go values of
   Proofs/CopyToTotal.v.

   What the model does on a malformed TARGET (established by computation, module Panics below, and
   by the theorems):
   - the top-level target must be an object: on VNil, VPrim, VList, VMap, VHook the model returns
     Panic (copy_to: "tf must be an object");
   - an attribute TYPE which is missing gives the WriteMissing diagnostic of the field, whatever
     the kind of the field, before anything is read (to_field_missing_type: no condition at all);
   - an attribute type of the wrong kind gives WriteConv, a held value of the wrong kind is
     replaced; a null/unknown object, an object without attributes, an object with its own,
     different, type list are all worked on as they are;
   - ONE case panics: a list (map) field of messages whose attribute type is a list (map) type
     with an element type which is not an object type, when the Go slice (map) is not nil, even
     when it is empty: the emitted code asserts o.ElemType.(types.ObjectType) in the one-value
     form.  The type list which is consulted is the one of the object that is written into: the
     one carried by the value the attribute already holds when that is an object, the one of the
     attribute type otherwise.

   [tgt_ok m atys attrs] excludes exactly this (it follows the objects held by the target the way
   the model does and constrains nothing else); under it CopyTo never panics
   (copy_to_never_panics_partial).  [tgt_exact] asks, along the same paths, for the types of the
   schema; under it no diagnostic is produced, whatever values are held
   (copy_to_no_diag_partial).  The statement with [conforms] in place of [tgt_exact] is false
   (a null object may hold anything and is written into): Panics.conforms_not_enough. *)
From Coq Require Import List String Bool ZArith Lia.
From PGT Require Import Base.Strs Base.AList Model.Vals Model.IR Model.CopyTo.
From PGT Require Import Proofs.CopyToProofs Proofs.CopyToTotal.
From PGT Require Proofs.MsgRoundTrip.
Import ListNotations.

(* ------------------------------------------------------------------------------------- *)
(* 1. a missing attribute type: every kind of field *)

(* the type lookup is the first thing to_field does: nothing is read from the Go value, so no
   condition on the field (placeholder, embedded parent, oneof) or on the value is needed *)
Theorem to_field_missing_type hook f obj atys attrs ds :
  lookup (fi_snake (f_info f)) atys = None ->
  to_field hook f obj atys (attrs, ds)
  = Ok (attrs, diag_append ds (WriteMissing, fi_path (f_info f))).
Proof.
  intros L. destruct f as [i om]. rewrite to_field_eq. cbv zeta. cbn [f_info] in L |- *.
  rewrite L. reflexivity.
Qed.

(* the diagnostic is there afterwards, once *)
Corollary to_field_missing_type_mem hook f obj atys attrs ds :
  lookup (fi_snake (f_info f)) atys = None ->
  exists ds', to_field hook f obj atys (attrs, ds) = Ok (attrs, ds')
              /\ diag_mem (WriteMissing, fi_path (f_info f)) ds' = true.
Proof.
  intros L. eexists. split; [apply to_field_missing_type; exact L|apply diag_append_mem].
Qed.

(* ------------------------------------------------------------------------------------- *)
(* 2. the targets *)

(* no list or map field of messages meets a list or map type whose element type is not an object
   type; followed into the objects which are written into *)
Fixpoint tgt_ok (m : message) (atys : list (string * tfty)) (attrs : attrs_t) {struct m} : bool :=
  match m with
  | Msg _ fs _ _ _ _ =>
      (fix go (l : list field) : bool :=
         match l with
         | [] => true
         | f :: r => ftgt_ok f atys (lookup (fi_snake (f_info f)) attrs) && go r
         end) fs
  end
with ftgt_ok (f : field) (atys : list (string * tfty)) (cur : option tfval) {struct f} : bool :=
  match f with
  | Field i om =>
      match om, lookup (fi_snake i) atys with
      | Some m', Some t =>
          let sub (ats : list (string * tfty)) :=
            match cur with
            | Some (VObj a _ _ at0) => tgt_ok m' a (match at0 with Some x => x | None => [] end)
            | _ => tgt_ok m' ats []
            end in
          match fi_kind i, t with
          | ObjectKind, TyObj ats => sub ats
          | ObjectListKind, TyList (TyObj ats) => sub ats
          | ObjectListKind, TyList _ => false
          | ObjectMapKind, TyMap (TyObj ats) => sub ats
          | ObjectMapKind, TyMap _ => false
          | _, _ => true
          end
      | _, _ => true
      end
  end.

(* every attribute type is the one of the schema (up to the type lists of nested objects, which
   are constrained where they are used); followed into the objects which are written into *)
Fixpoint tgt_exact (m : message) (atys : list (string * tfty)) (attrs : attrs_t) {struct m} : bool :=
  match m with
  | Msg _ fs _ _ _ _ =>
      (fix go (l : list field) : bool :=
         match l with
         | [] => true
         | f :: r => ftgt_exact f atys (lookup (fi_snake (f_info f)) attrs) && go r
         end) fs
  end
with ftgt_exact (f : field) (atys : list (string * tfty)) (cur : option tfval) {struct f} : bool :=
  match f with
  | Field i om =>
      match lookup (fi_snake i) atys with
      | None => false
      | Some t =>
          let sub (m' : message) (ats : list (string * tfty)) :=
            match cur with
            | Some (VObj a _ _ at0) => tgt_exact m' a (match at0 with Some x => x | None => [] end)
            | _ => tgt_exact m' ats []
            end in
          match fi_kind i, om, t with
          | PrimitiveKind, _, TyPrim k => tfkind_eqb (fi_tk i) k
          | PrimitiveListKind, _, TyList (TyPrim k) => tfkind_eqb (fi_tk i) k
          | PrimitiveMapKind, _, TyMap (TyPrim k) => tfkind_eqb (fi_tk i) k
          | ObjectKind, Some m', TyObj ats => sub m' ats
          | ObjectListKind, Some m', TyList (TyObj ats) => sub m' ats
          | ObjectMapKind, Some m', TyMap (TyObj ats) => sub m' ats
          | _, _, _ => false
          end
      end
  end.

Definition unopt (o : option (list (string * tfval))) : list (string * tfval) := match o with Some x => x | None => [] end.

Definition target_ok (m : message) (t : tfval) : bool :=
  match t with VObj atys _ _ at0 => tgt_ok m atys (unopt at0) | _ => false end.

Definition target_exact (m : message) (t : tfval) : bool :=
  match t with VObj atys _ _ at0 => tgt_exact m atys (unopt at0) | _ => false end.

(* the object a message value is written into: the held one, or a new one of the attribute's type *)
Definition sub_ok (m' : message) (cur : option tfval) (ats : list (string * tfty)) : bool :=
  match cur with
  | Some (VObj a _ _ at0) => tgt_ok m' a (unopt at0)
  | _ => tgt_ok m' ats []
  end.

Definition sub_exact (m' : message) (cur : option tfval) (ats : list (string * tfty)) : bool :=
  match cur with
  | Some (VObj a _ _ at0) => tgt_exact m' a (unopt at0)
  | _ => tgt_exact m' ats []
  end.

Lemma tgt_ok_eq n fs os inj e z atys attrs :
  tgt_ok (Msg n fs os inj e z) atys attrs
  = forallb (fun f => ftgt_ok f atys (lookup (snake f) attrs)) fs.
Proof.
  cbn [tgt_ok]. unfold snake. induction fs as [|f r IH]; [reflexivity|]. cbn [forallb]. now rewrite IH.
Qed.

Lemma tgt_exact_eq n fs os inj e z atys attrs :
  tgt_exact (Msg n fs os inj e z) atys attrs
  = forallb (fun f => ftgt_exact f atys (lookup (snake f) attrs)) fs.
Proof.
  cbn [tgt_exact]. unfold snake. induction fs as [|f r IH]; [reflexivity|]. cbn [forallb]. now rewrite IH.
Qed.

Lemma ftgt_ok_eq i om atys cur :
  ftgt_ok (Field i om) atys cur
  = match om, lookup (fi_snake i) atys with
    | Some m', Some t =>
        match fi_kind i, t with
        | ObjectKind, TyObj ats => sub_ok m' cur ats
        | ObjectListKind, TyList (TyObj ats) => sub_ok m' cur ats
        | ObjectListKind, TyList _ => false
        | ObjectMapKind, TyMap (TyObj ats) => sub_ok m' cur ats
        | ObjectMapKind, TyMap _ => false
        | _, _ => true
        end
    | _, _ => true
    end.
Proof. reflexivity. Qed.

Lemma ftgt_exact_eq i om atys cur :
  ftgt_exact (Field i om) atys cur
  = match lookup (fi_snake i) atys with
    | None => false
    | Some t =>
        match fi_kind i, om, t with
        | PrimitiveKind, _, TyPrim k => tfkind_eqb (fi_tk i) k
        | PrimitiveListKind, _, TyList (TyPrim k) => tfkind_eqb (fi_tk i) k
        | PrimitiveMapKind, _, TyMap (TyPrim k) => tfkind_eqb (fi_tk i) k
        | ObjectKind, Some m', TyObj ats => sub_exact m' cur ats
        | ObjectListKind, Some m', TyList (TyObj ats) => sub_exact m' cur ats
        | ObjectMapKind, Some m', TyMap (TyObj ats) => sub_exact m' cur ats
        | _, _, _ => false
        end
    end.
Proof. reflexivity. Qed.

(* ------------------------------------------------------------------------------------- *)
(* 3. scalars: any attribute type, any held value *)

(* genPrimitiveBody in three pieces *)
Definition pv_cur (k : tfkind) (cur : option tfval) : option (bool * bool * prim) :=
  match cur with
  | Some (VPrim k' n u p) => if tfkind_eqb k k' then Some (n, u, p) else None
  | _ => None
  end.

Definition pv_default (i : finfo) (t : tfty) (ds : list diag) : bool * bool * prim * list diag :=
  match null_value t with
  | VPrim k' n u p =>
      if tfkind_eqb (fi_tk i) k' then (n, u, p, ds)
      else (false, false, zero_prim_of_kind (fi_tk i), diag_append ds (WriteConv, fi_path i))
  | _ => (false, false, zero_prim_of_kind (fi_tk i), diag_append ds (WriteConv, fi_path i))
  end.

Definition pv_zero (i : finfo) (rd : res goval) (obj : goval) (d : bool * bool * prim * list diag)
  : res (bool * bool * prim * list diag) :=
  let '(n0, u0, p0, ds0) := d in
  if fi_placeholder i then Ok (true, u0, p0, ds0)
  else if fi_zero i then
    do pn <- (match fi_oneof i with Some _ => Ok None | None => parent_is_nil i obj end);
    match pn with
    | Some true => Ok (true, u0, p0, ds0)
    | _ => do g <- rd; do c <- cast_to (fi_tk i) g; Ok (prim_is_zero c, u0, p0, ds0)
    end
  else Ok (false, u0, p0, ds0).

Definition pv_assign (i : finfo) (rd : res goval) (obj : goval) (n1 : bool) (p1 : prim) : res (bool * prim) :=
  if fi_placeholder i then Ok (n1, p1)
  else
    do pn <- (match fi_oneof i with Some _ => Ok None | None => parent_is_nil i obj end);
    match pn with
    | Some true => Ok (true, p1)
    | _ =>
        if fi_nullable i then
          do g <- rd;
          match g with
          | GPtr None => Ok (true, p1)
          | GPtr (Some x) => do c <- cast_to (fi_tk i) x; Ok (false, c)
          | _ => Panic
          end
        else
          do g <- rd; do c <- cast_to (fi_tk i) g; Ok (n1, c)
    end.

Lemma to_prim_value_eq i rd obj t cur ds :
  to_prim_value i rd obj t cur ds
  = do st <- match pv_cur (fi_tk i) cur with
             | Some (n, u, p) => Ok (n, u, p, ds)
             | None => pv_zero i rd obj (pv_default i t ds)
             end;
    let '(n1, u1, p1, ds1) := st in
    do np <- pv_assign i rd obj n1 p1;
    let '(n2, p2) := np in
    Ok (VPrim (fi_tk i) n2 false p2, ds1).
Proof. reflexivity. Qed.

Lemma pv_default_spec i t ds :
  exists n0 u0 p0 ds0, pv_default i t ds = (n0, u0, p0, ds0) /\ (t = TyPrim (fi_tk i) -> ds0 = ds).
Proof.
  unfold pv_default. destruct t as [k|e|e|ats|s]; cbn [null_value];
    try (do 4 eexists; split; [reflexivity|]; intros E; discriminate E).
  destruct (tfkind_eqb (fi_tk i) k) eqn:K; do 4 eexists; (split; [reflexivity|]); intros E.
  - reflexivity.
  - injection E as ->. rewrite tfkind_eqb_refl in K. discriminate K.
Qed.

Section Scalars.
  Variables (i : finfo) (rd : res goval) (obj : goval).
  Hypothesis P : fi_parent i = None.
  Hypothesis Z : fi_zero i = true -> fi_nullable i = false.
  Hypothesis R : fi_placeholder i = true \/ exists g, rd = Ok g /\ sc_shape i g.

  Lemma pv_zero_ok n0 u0 p0 ds0 :
    exists n1, pv_zero i rd obj (n0, u0, p0, ds0) = Ok (n1, u0, p0, ds0).
  Proof.
    unfold pv_zero, parent_is_nil. rewrite P.
    destruct (fi_placeholder i) eqn:PH; [eauto|].
    destruct R as [H|(g & -> & S)]; [discriminate H|].
    destruct (fi_zero i); [|eauto]. specialize (Z eq_refl).
    unfold sc_shape, elem_shape in S. rewrite Z in S.
    destruct (cast_ok _ _ S) as (p & E & _).
    destruct (fi_oneof i); cbn [bind]; rewrite E; cbn [bind]; eauto.
  Qed.

  Lemma pv_assign_ok n1 p1 : exists n2 p2, pv_assign i rd obj n1 p1 = Ok (n2, p2).
  Proof.
    unfold pv_assign, parent_is_nil. rewrite P.
    destruct (fi_placeholder i) eqn:PH; [eauto|].
    destruct R as [H|(g & -> & S)]; [discriminate H|].
    unfold sc_shape, elem_shape in S.
    destruct (fi_nullable i).
    - destruct S as [->|(x & -> & Sx)].
      + destruct (fi_oneof i); cbn [bind]; eauto.
      + destruct (cast_ok _ _ Sx) as (p & E & _).
        destruct (fi_oneof i); cbn [bind]; rewrite E; cbn [bind]; eauto.
    - destruct (cast_ok _ _ S) as (p & E & _).
      destruct (fi_oneof i); cbn [bind]; rewrite E; cbn [bind]; eauto.
  Qed.

  (* whatever the attribute (element) type and the held value: a value, and no diagnostic when
     the type is the scalar's *)
  Lemma to_prim_value_np t cur ds :
    exists v ds', to_prim_value i rd obj t cur ds = Ok (v, ds') /\ (t = TyPrim (fi_tk i) -> ds' = ds).
  Proof.
    rewrite to_prim_value_eq.
    destruct (pv_cur (fi_tk i) cur) as [[[n u] p]|].
    - cbn [bind]. destruct (pv_assign_ok n p) as (n2 & p2 & E). rewrite E. cbn [bind].
      do 2 eexists. split; [reflexivity|]. intros _. reflexivity.
    - destruct (pv_default_spec i t ds) as (n0 & u0 & p0 & ds0 & E0 & D0). rewrite E0.
      destruct (pv_zero_ok n0 u0 p0 ds0) as (n1 & E1). rewrite E1. cbn [bind].
      destruct (pv_assign_ok n1 p0) as (n2 & p2 & E). rewrite E. cbn [bind].
      do 2 eexists. split; [reflexivity|exact D0].
  Qed.
End Scalars.

(* ------------------------------------------------------------------------------------- *)
(* 4. the element loops, with diagnostics *)

Lemma fold_list_np {A} (F : A -> list diag -> res (tfval * list diag)) (X : Prop) l :
  Forall (fun a => forall ds, exists v ds', F a ds = Ok (v, ds') /\ (X -> ds' = ds)) l ->
  forall vs0 ds, exists vs ds',
    fold_left (fun acc a => do '(vs, ds1) <- acc; do '(v, ds2) <- F a ds1; Ok (vs ++ [v], ds2)) l (Ok (vs0, ds))
    = Ok (vs, ds') /\ (X -> ds' = ds).
Proof.
  induction 1 as [|a r Ha _ IH]; intros vs0 ds; cbn [fold_left].
  - do 2 eexists. split; [reflexivity|]. intros _. reflexivity.
  - destruct (Ha ds) as (v & d1 & E & D1). cbn [bind]. rewrite E. cbn [bind].
    destruct (IH (vs0 ++ [v]) d1) as (vs & d2 & E2 & D2). exists vs, d2. split; [exact E2|].
    intros HX. now rewrite (D2 HX), (D1 HX).
Qed.

Lemma fold_map_np {A} (F : A -> list diag -> res (tfval * list diag)) (X : Prop) (l : list (string * A)) :
  Forall (fun ka => forall ds, exists v ds', F (snd ka) ds = Ok (v, ds') /\ (X -> ds' = ds)) l ->
  forall es0 ds, exists es ds',
    fold_left (fun acc ka => do '(es, ds1) <- acc; do '(v, ds2) <- F (snd ka) ds1; Ok (update (fst ka) v es, ds2))
              l (Ok (es0, ds))
    = Ok (es, ds') /\ (X -> ds' = ds).
Proof.
  induction 1 as [|a r Ha _ IH]; intros es0 ds; cbn [fold_left].
  - do 2 eexists. split; [reflexivity|]. intros _. reflexivity.
  - destruct (Ha ds) as (v & d1 & E & D1). cbn [bind]. rewrite E. cbn [bind].
    destruct (IH (update (fst a) v es0) d1) as (es & d2 & E2 & D2). exists es, d2. split; [exact E2|].
    intros HX. now rewrite (D2 HX), (D1 HX).
Qed.

(* ------------------------------------------------------------------------------------- *)
(* 5. the fields *)

Ltac split_triple :=
  match goal with
  | |- context [match ?X with _ => _ end] =>
      match type of X with
      | (_ * _ * _)%type => destruct X as [[cety cn] celems]
      end
  end.

Section NeverPanics.
  Variable hook : hook_to_t.

  Definition msg_np (m : message) : Prop :=
    forall obj atys attrs ds, typed m obj -> tgt_ok m atys attrs = true ->
      exists attrs' ds', to_fields hook m obj atys (attrs, ds) = Ok (attrs', ds')
                         /\ (tgt_exact m atys attrs = true -> ds' = ds).

  Definition field_np (f : field) : Prop :=
    forall gs atys attrs ds, ftyped f gs -> ftgt_ok f atys (lookup (snake f) attrs) = true ->
      exists attrs' ds', to_field hook f (GStruct gs) atys (attrs, ds) = Ok (attrs', ds')
                         /\ (ftgt_exact f atys (lookup (snake f) attrs) = true -> ds' = ds).

  Lemma obj_value_np i gs cur m' g ats ds :
    tf_ok m' = true -> msg_np m' -> elem_shape i (typed m') g -> sub_ok m' cur ats = true ->
    exists v ds', obj_value hook i (GStruct gs) cur m' (Ok g) ats ds = Ok (v, ds')
                  /\ (sub_exact m' cur ats = true -> ds' = ds).
  Proof.
    intros T G S SO. unfold obj_value.
    assert (C : exists oatys n0 attrs0,
               match cur with
               | Some (VObj a n u at0) => (a, n, match at0 with Some x => x | None => [] end)
               | _ => (ats, false, [])
               end = (oatys, n0, attrs0)
               /\ sub_ok m' cur ats = tgt_ok m' oatys attrs0
               /\ sub_exact m' cur ats = tgt_exact m' oatys attrs0).
    { destruct cur as [c|]; [|do 3 eexists; repeat split].
      destruct c; do 3 eexists; repeat split. }
    destruct C as (oatys & n0 & attrs0 & E & E1 & E2). rewrite E. clear E. rewrite E1 in SO. rewrite E2.
    clear E1 E2. cbv beta iota zeta. unfold elem_shape in S.
    assert (K : forall x, typed m' x ->
                exists v ds', (do st' <- to_fields hook m' x oatys (attrs0, ds);
                               let '(attrs', ds') := st' in
                               Ok (VObj oatys n0 false (Some attrs'), ds')) = Ok (v, ds')
                              /\ (tgt_exact m' oatys attrs0 = true -> ds' = ds)).
    { intros x Tx. destruct (G x oatys attrs0 ds Tx SO) as (attrs' & ds' & E & D).
      unfold attrs_t in E. rewrite E. cbn [bind]. do 2 eexists. split; [reflexivity|exact D]. }
    destruct (fi_nullable i).
    - destruct S as [->|(x & -> & Tx)]; cbn [bind].
      + do 2 eexists. split; [reflexivity|]. intros _. reflexivity.
      + destruct (m_empty m') eqn:EM; apply K; [now apply empty_typed|assumption].
    - destruct (m_empty m') eqn:EM; cbn [bind]; apply K; [now apply empty_typed|assumption].
  Qed.

  Lemma field_np_step i om :
    finfo_ok i om = true ->
    (forall m', om = Some m' -> tf_ok m' = true /\ msg_np m') ->
    field_np (Field i om).
  Proof.
    intros F Q gs atys attrs ds Ty TO.
    destruct (finfo_ok_inv _ _ F) as (V & P & NC & Z & OM & OO & PH).
    rewrite to_field_eq. cbv zeta. unfold snake in *. cbn [f_info] in *.
    rewrite ftgt_ok_eq in TO. rewrite ftgt_exact_eq.
    destruct (lookup (fi_snake i) atys) as [t|] eqn:La.
    2:{ do 2 eexists. split; [reflexivity|]. intros D. discriminate D. }
    set (cur := lookup (fi_snake i) attrs) in *.
    cbn [ftyped] in Ty. unfold val_shape in Ty.
    revert Ty Z OM OO PH NC TO. destruct (fi_kind i) eqn:K; intros Ty Z OM OO PH NC TO.
    - (* PrimitiveKind *)
      specialize (Z eq_refl).
      assert (EX : match om with
                   | Some _ | _ => match t with TyPrim k => tfkind_eqb (fi_tk i) k | _ => false end
                   end = true -> t = TyPrim (fi_tk i)).
      { intros D. destruct t; try (destruct om; discriminate D).
        assert (D' : tfkind_eqb (fi_tk i) k = true) by (destruct om; exact D).
        now rewrite (tfkind_eqb_eq _ _ D'). }
      assert (RD : fi_placeholder i = true
                   \/ exists g, read_field i (zero_of_prim i) (GStruct gs) = Ok g /\ sc_shape i g).
      { destruct (fi_placeholder i) eqn:PHE; [now left|right].
        assert (Hbz : fi_oneof i <> None -> sc_shape i (zero_of_prim i)).
        { intros N. unfold sc_shape, elem_shape, zero_of_prim. destruct (fi_oneof i) as [h|]; [|congruence].
          destruct (fi_nullable i); [now left|].
          destruct (OO h eq_refl) as [[_ [D|D]]|[D _]]; [discriminate|exact D|discriminate]. }
        exact (read_field_ok i _ gs _ V P Ty Hbz). }
      assert (Hh : (match fi_oneof i with
                    | Some h => do _u <- read_holder i h (GStruct gs); Ok tt
                    | None => Ok tt
                    end) = Ok tt).
      { destruct (fi_oneof i) as [h|] eqn:O; [|reflexivity].
        destruct (fi_placeholder i) eqn:PHE; [destruct (PH eq_refl) as [_ D]; discriminate D|].
        destruct (read_holder_ok i _ gs h V P O Ty) as (hv & Eh). now rewrite Eh. }
      rewrite Hh. cbn [bind].
      destruct (to_prim_value_np i (read_field i (zero_of_prim i) (GStruct gs)) (GStruct gs) P Z RD t cur ds)
        as (v & ds' & Ev & D).
      rewrite Ev. cbn [bind]. do 2 eexists. split; [reflexivity|].
      intros X. apply D, EX. destruct om; destruct t; exact X.
    - (* PrimitiveListKind *)
      specialize (Z eq_refl).
      destruct (fi_placeholder i); [destruct (PH eq_refl) as [D _]; discriminate D|].
      assert (NL : forall d, exists attrs' ds',
                     Ok (attrs, diag_append ds d) = Ok (attrs', ds') /\ (false = true -> ds' = ds)).
      { intros d. do 2 eexists. split; [reflexivity|]. intros D. discriminate D. }
      destruct t as [k|ety|e|ats|s]; try (destruct om; apply NL).
      assert (G : exists attrs' ds',
                 (do g <- read_source i (GSlice None) (GStruct gs);
                  match g with
                  | GSlice src =>
                      let n := match src with Some l => List.length l | None => O end in
                      let '(cety, cn, celems) :=
                        match cur with
                        | Some (VList e n0 u0 el) =>
                            (e, n0, match el with
                                    | Some x => if Nat.eqb (List.length x) n then x else make_nils n
                                    | None => make_nils n
                                    end)
                        | _ => (ety, true, make_nils n)
                        end in
                      match src with
                      | None => Ok (update (fi_snake i) (VList cety cn false (Some celems)) attrs, ds)
                      | Some l =>
                          do r <- fold_left (fun acc a =>
                                               do '(vs, ds1) <- acc;
                                               do '(v, ds2) <- to_prim_value i (Ok a) (GStruct gs) ety cur ds1;
                                               Ok (vs ++ [v], ds2)) l (Ok ([], ds));
                          let '(vs, ds') := r in
                          Ok (update (fi_snake i)
                                     (VList cety (if Nat.ltb 0 n then false else cn) false (Some vs)) attrs, ds')
                      end
                  | _ => Panic
                  end) = Ok (attrs', ds') /\ (ety = TyPrim (fi_tk i) -> ds' = ds)).
      { destruct (read_source_ok i _ gs (GSlice None) V P Ty) as (g & E & o & -> & Hl).
        { intros _. exists None. split; [reflexivity|discriminate]. }
        rewrite E. cbn [bind]. cbv zeta. split_triple. destruct o as [l|].
        - assert (HF : Forall (fun a => forall ds, exists v ds',
                                   (fun a d => to_prim_value i (Ok a) (GStruct gs) ety cur d) a ds = Ok (v, ds')
                                   /\ (ety = TyPrim (fi_tk i) -> ds' = ds)) l).
          { eapply Forall_impl; [|exact (Hl l eq_refl)]. intros a Sa d.
            apply to_prim_value_np; [exact P|exact Z|]. right. exists a. split; [reflexivity|exact Sa]. }
          destruct (fold_list_np _ _ l HF [] ds) as (vs & ds' & Ef & D). cbv beta in Ef. rewrite Ef.
          cbn [bind]. do 2 eexists. split; [reflexivity|exact D].
        - do 2 eexists. split; [reflexivity|]. intros _. reflexivity. }
      destruct G as (attrs' & ds' & E & D).
      destruct om; (exists attrs', ds'; split; [exact E|]);
        (intros X; apply D; destruct ety; try discriminate X; now rewrite (tfkind_eqb_eq _ _ X)).
    - (* ObjectKind *)
      destruct (OM eq_refl) as (m' & ->). destruct (Q m' eq_refl) as [T' G'].
      destruct (fi_placeholder i); [destruct (PH eq_refl) as [D _]; discriminate D|].
      destruct (read_source_ok i _ gs (if fi_nullable i then GPtr None else m_zero m') V P Ty) as (g & E & Sg).
      { intros N. destruct (fi_oneof i) as [h|]; [|congruence].
        destruct (OO h eq_refl) as [[D _]|[_ D]]; [discriminate|]. unfold elem_shape. rewrite D. now left. }
      rewrite E. cbn [bind].
      destruct t as [k|e|e|ats|s];
        try (do 2 eexists; split; [reflexivity|]; intros D; discriminate D).
      destruct (obj_value_np i gs cur m' g ats ds T' G' Sg TO) as (v & ds' & Ev & D). rewrite Ev. cbn [bind].
      do 2 eexists. split; [reflexivity|exact D].
    - (* ObjectListKind *)
      destruct (OM eq_refl) as (m' & ->). destruct (Q m' eq_refl) as [T' G'].
      destruct (fi_placeholder i); [destruct (PH eq_refl) as [D _]; discriminate D|].
      destruct t as [k|ety|e|ats|s];
        try (do 2 eexists; split; [reflexivity|]; intros D; discriminate D).
      destruct ety as [k|e|e|ats|s]; try discriminate TO.
      destruct (read_source_ok i _ gs (GSlice None) V P Ty) as (g & E & o & -> & Hl).
      { intros _. exists None. split; [reflexivity|discriminate]. }
      rewrite E. cbn [bind]. cbv zeta. split_triple. destruct o as [l|].
      + assert (HF : Forall (fun a => forall ds, exists v ds',
                                 (fun a d => obj_value hook i (GStruct gs) cur m' (Ok a) ats d) a ds = Ok (v, ds')
                                 /\ (sub_exact m' cur ats = true -> ds' = ds)) l).
        { eapply Forall_impl; [|exact (Hl l eq_refl)]. intros a Sa d. now apply obj_value_np. }
        destruct (fold_list_np _ _ l HF [] ds) as (vs & ds' & Ef & D). cbv beta in Ef. rewrite Ef.
        cbn [bind]. do 2 eexists. split; [reflexivity|exact D].
      + do 2 eexists. split; [reflexivity|]. intros _. reflexivity.
    - (* PrimitiveMapKind *)
      specialize (Z eq_refl).
      destruct (fi_placeholder i); [destruct (PH eq_refl) as [D _]; discriminate D|].
      assert (NL : forall d, exists attrs' ds',
                     Ok (attrs, diag_append ds d) = Ok (attrs', ds') /\ (false = true -> ds' = ds)).
      { intros d. do 2 eexists. split; [reflexivity|]. intros D. discriminate D. }
      destruct t as [k|e|ety|ats|s]; try (destruct om; apply NL).
      assert (G : exists attrs' ds',
                 (do g <- read_source i (GMap None) (GStruct gs);
                  match g with
                  | GMap src =>
                      let '(cety, cn, celems) :=
                        match cur with
                        | Some (VMap e n0 u0 el) => (e, n0, [])
                        | _ => (ety, true, [])
                        end in
                      match src with
                      | None => Ok (update (fi_snake i) (VMap cety cn false (Some celems)) attrs, ds)
                      | Some l =>
                          do r <- fold_left (fun acc ka =>
                                               do '(es, ds1) <- acc;
                                               do '(v, ds2) <- to_prim_value i (Ok (snd ka)) (GStruct gs) ety cur ds1;
                                               Ok (update (fst ka) v es, ds2)) l (Ok (celems, ds));
                          let '(es, ds') := r in
                          Ok (update (fi_snake i)
                                     (VMap cety (match l with [] => cn | _ => false end) false (Some es)) attrs, ds')
                      end
                  | _ => Panic
                  end) = Ok (attrs', ds') /\ (ety = TyPrim (fi_tk i) -> ds' = ds)).
      { destruct (read_source_ok i _ gs (GMap None) V P Ty) as (g & E & o & -> & Hl).
        { intros _. exists None. split; [reflexivity|discriminate]. }
        rewrite E. cbn [bind]. split_triple. destruct o as [l|].
        - assert (HF : Forall (fun ka : string * goval => forall ds, exists v ds',
                                   (fun a d => to_prim_value i (Ok a) (GStruct gs) ety cur d) (snd ka) ds = Ok (v, ds')
                                   /\ (ety = TyPrim (fi_tk i) -> ds' = ds)) l).
          { eapply Forall_impl; [|exact (Hl l eq_refl)]. intros a Sa d.
            apply to_prim_value_np; [exact P|exact Z|]. right. exists (snd a). split; [reflexivity|exact Sa]. }
          destruct (fold_map_np _ _ l HF celems ds) as (es & ds' & Ef & D). cbv beta in Ef. rewrite Ef.
          cbn [bind]. do 2 eexists. split; [reflexivity|exact D].
        - do 2 eexists. split; [reflexivity|]. intros _. reflexivity. }
      destruct G as (attrs' & ds' & E & D).
      destruct om; (exists attrs', ds'; split; [exact E|]);
        (intros X; apply D; destruct ety; try discriminate X; now rewrite (tfkind_eqb_eq _ _ X)).
    - (* ObjectMapKind *)
      destruct (OM eq_refl) as (m' & ->). destruct (Q m' eq_refl) as [T' G'].
      destruct (fi_placeholder i); [destruct (PH eq_refl) as [D _]; discriminate D|].
      destruct t as [k|e|ety|ats|s];
        try (do 2 eexists; split; [reflexivity|]; intros D; discriminate D).
      destruct ety as [k|e|e|ats|s]; try discriminate TO.
      destruct (read_source_ok i _ gs (GMap None) V P Ty) as (g & E & o & -> & Hl).
      { intros _. exists None. split; [reflexivity|discriminate]. }
      rewrite E. cbn [bind]. split_triple. destruct o as [l|].
      + assert (HF : Forall (fun ka : string * goval => forall ds, exists v ds',
                                 (fun a d => obj_value hook i (GStruct gs) cur m' (Ok a) ats d) (snd ka) ds = Ok (v, ds')
                                 /\ (sub_exact m' cur ats = true -> ds' = ds)) l).
        { eapply Forall_impl; [|exact (Hl l eq_refl)]. intros a Sa d. now apply obj_value_np. }
        destruct (fold_map_np _ _ l HF celems ds) as (es & ds' & Ef & D). cbv beta in Ef. rewrite Ef.
        cbn [bind]. do 2 eexists. split; [reflexivity|exact D].
      + do 2 eexists. split; [reflexivity|]. intros _. reflexivity.
    - now contradiction NC.
  Qed.

  (* the fields of a message one after the other: each works on its own attribute *)
  Lemma field_list_np l gs atys :
    Forall field_np l -> Forall (fun f => ftyped f gs) l -> NoDup (snakes l) ->
    forall attrs ds, (forall f, In f l -> ftgt_ok f atys (lookup (snake f) attrs) = true) ->
    exists attrs' ds', to_field_list hook l (GStruct gs) atys (attrs, ds) = Ok (attrs', ds')
      /\ ((forall f, In f l -> ftgt_exact f atys (lookup (snake f) attrs) = true) -> ds' = ds).
  Proof.
    induction l as [|f r IH]; intros G T ND attrs ds N; cbn [to_field_list].
    - do 2 eexists. split; [reflexivity|]. intros _. reflexivity.
    - inversion G as [|? ? Gf Gr]; subst. inversion T as [|? ? Tf Tr]; subst.
      cbn [snakes map] in ND. inversion ND as [|? ? N1 N2]; subst.
      destruct (Gf gs atys attrs ds Tf (N f (or_introl eq_refl))) as (a1 & d1 & E & D1).
      rewrite E. cbn [bind].
      assert (L : forall f', In f' r -> lookup (snake f') a1 = lookup (snake f') attrs).
      { intros f' I. apply (to_field_local _ _ _ _ _ _ _ _ E). intros Eq. apply N1.
        change (fi_snake (f_info f)) with (snake f) in Eq. rewrite <- Eq. now apply in_map. }
      destruct (IH Gr Tr N2 a1 d1) as (a2 & d2 & E2 & D2).
      { intros f' I. rewrite (L f' I). apply N. now right. }
      exists a2, d2. split; [exact E2|]. intros X.
      rewrite D2.
      + apply D1, X. now left.
      + intros f' I. rewrite (L f' I). apply X. now right.
  Qed.

  Lemma np_mutual : forall m, tf_ok m = true -> msg_np m.
  Proof.
    apply (message_ind' (fun f => ftf_ok f = true -> field_np f) (fun m => tf_ok m = true -> msg_np m)).
    - intros i F. cbn [ftf_ok] in F. rewrite andb_true_r in F. apply field_np_step; [exact F|]. intros m' [=].
    - intros i m IH F. cbn [ftf_ok] in F. apply andb_prop in F. destruct F as [F1 F2].
      apply field_np_step; [exact F1|]. intros m' [= <-]. split; [exact F2|exact (IH F2)].
    - intros n fs os inj e z IH F obj atys attrs ds T TO. rewrite tf_ok_eq in F.
      apply andb_prop in F. destruct F as [F F3]. apply andb_prop in F. destruct F as [F1 _].
      apply nodup_b_NoDup in F1. rewrite forallb_forall in F3.
      rewrite typed_eq in T. destruct T as (gs & -> & T). rewrite to_fields_list.
      rewrite tgt_ok_eq, forallb_forall in TO.
      assert (G : Forall field_np fs).
      { rewrite Forall_forall in IH |- *. intros f I. exact (IH f I (F3 f I)). }
      destruct (field_list_np fs gs atys G T F1 attrs ds TO) as (attrs' & ds' & E & D).
      exists attrs', ds'. split; [exact E|]. intros X. rewrite tgt_exact_eq, forallb_forall in X.
      exact (D X).
  Qed.
End NeverPanics.

(* ------------------------------------------------------------------------------------- *)
(* 6. the relation of the two classes of targets, and the target of CopyToTotal *)

Lemma exact_ok_mutual : forall m atys attrs, tgt_exact m atys attrs = true -> tgt_ok m atys attrs = true.
Proof.
  apply (message_ind' (fun f => forall atys cur, ftgt_exact f atys cur = true -> ftgt_ok f atys cur = true)
                      (fun m => forall atys attrs, tgt_exact m atys attrs = true -> tgt_ok m atys attrs = true)).
  - intros i atys cur _. rewrite ftgt_ok_eq. reflexivity.
  - intros i m IH atys cur X. rewrite ftgt_ok_eq. rewrite ftgt_exact_eq in X.
    assert (S : forall ats, sub_exact m cur ats = true -> sub_ok m cur ats = true).
    { intros ats. unfold sub_exact, sub_ok. destruct cur as [[]|]; apply IH. }
    destruct (lookup (fi_snake i) atys) as [t|]; [|reflexivity].
    destruct (fi_kind i); try reflexivity; destruct t as [k|e|e|ats|s]; try reflexivity; try discriminate X.
    + now apply S.
    + destruct e; try discriminate X. now apply S.
    + destruct e; try discriminate X. now apply S.
  - intros n fs os inj e z IH atys attrs X. rewrite tgt_ok_eq, forallb_forall.
    rewrite tgt_exact_eq, forallb_forall in X. rewrite Forall_forall in IH.
    intros f I. exact (IH f I _ _ (X f I)).
Qed.

Lemma target_exact_ok m t : target_exact m t = true -> target_ok m t = true.
Proof. destruct t; try discriminate. apply exact_ok_mutual. Qed.

(* the object of the schema's type, without values *)
Lemma msg_ty_exact : forall m, tf_ok m = true -> tgt_exact m (msg_ty m) [] = true.
Proof.
  apply (message_ind' (fun f => ftf_ok f = true -> forall atys t, field_ty f = Some t ->
                                lookup (snake f) atys = Some t -> ftgt_exact f atys None = true)
                      (fun m => tf_ok m = true -> tgt_exact m (msg_ty m) [] = true)).
  - intros i F atys t FT La. rewrite ftgt_exact_eq. unfold snake in La. cbn [f_info] in La. rewrite La.
    cbn [field_ty] in FT. destruct (fi_kind i); inversion FT; subst; apply tfkind_eqb_refl.
  - intros i m IH F atys t FT La. rewrite ftgt_exact_eq. unfold snake in La. cbn [f_info] in La. rewrite La.
    cbn [ftf_ok] in F. apply andb_prop in F. destruct F as [_ F2]. specialize (IH F2).
    cbn [field_ty] in FT. destruct (fi_kind i); inversion FT; subst; first [apply tfkind_eqb_refl|exact IH].
  - intros n fs os inj e z IH F. pose proof F as F0. rewrite tf_ok_eq in F.
    apply andb_prop in F. destruct F as [F F3]. apply andb_prop in F. destruct F as [F1 _].
    apply nodup_b_NoDup in F1. rewrite forallb_forall in F3. rewrite Forall_forall in IH.
    rewrite tgt_exact_eq, forallb_forall. intros f I. cbn [lookup].
    pose proof (F3 f I) as Ff. destruct f as [i om]. cbn [ftf_ok] in Ff.
    apply andb_prop in Ff. destruct Ff as [Fi _]. destruct (field_ty_some _ _ Fi) as (t & FT).
    apply (IH _ I (F3 _ I) _ t FT). rewrite msg_ty_eq. now apply lookup_fields_ty.
Qed.

(* ------------------------------------------------------------------------------------- *)
(* 7. C06, CopyTo direction, on the class tf_ok *)

(* a target which is not an object makes the model panic, whatever the message and the value *)
Theorem copy_to_not_object hook m obj t :
  match t with VObj _ _ _ _ => False | _ => True end -> copy_to hook m obj t = Panic.
Proof. destruct t; intros H; [reflexivity..|destruct H|reflexivity|reflexivity]. Qed.

Theorem copy_to_never_panics_partial hook m obj :
  tf_ok m = true -> typed m obj ->
  forall t, target_ok m t = true -> exists r ds, copy_to hook m obj t = Ok (r, ds).
Proof.
  intros F T t TO. destruct t as [| | |atys n u at0| |]; try discriminate TO.
  cbn [target_ok] in TO. unfold copy_to.
  destruct (np_mutual hook m F obj atys (unopt at0) [] T TO) as (attrs' & ds' & E & _).
  unfold unopt, attrs_t in E. rewrite E. cbn [bind]. eauto.
Qed.

(* at the level of the fields: any attribute types, any attributes, any diagnostics before *)
Theorem to_fields_never_panics_partial hook m obj atys attrs ds :
  tf_ok m = true -> typed m obj -> tgt_ok m atys attrs = true ->
  exists attrs' ds', to_fields hook m obj atys (attrs, ds) = Ok (attrs', ds').
Proof.
  intros F T TO. destruct (np_mutual hook m F obj atys attrs ds T TO) as (attrs' & ds' & E & _). eauto.
Qed.

(* the types of the schema along the objects which are written into, any held values: no
   diagnostic *)
Theorem copy_to_no_diag_partial hook m obj :
  tf_ok m = true -> typed m obj ->
  forall t, target_exact m t = true -> exists r, copy_to hook m obj t = Ok (r, []).
Proof.
  intros F T t TX. pose proof (target_exact_ok _ _ TX) as TO.
  destruct t as [| | |atys n u at0| |]; try discriminate TO.
  cbn [target_ok] in TO. cbn [target_exact] in TX. unfold copy_to.
  destruct (np_mutual hook m F obj atys (unopt at0) [] T TO) as (attrs' & ds' & E & D).
  unfold unopt, attrs_t in E. rewrite E. cbn [bind]. rewrite (D TX). eauto.
Qed.

(* copy_to_total_partial of CopyToTotal.v is the instance without held values, null or not, unknown
   or not *)
Corollary copy_to_no_diag_empty hook m obj n u :
  tf_ok m = true -> typed m obj ->
  exists r, copy_to hook m obj (VObj (msg_ty m) n u None) = Ok (r, []).
Proof.
  intros F T. apply copy_to_no_diag_partial; [exact F|exact T|]. cbn [target_exact unopt].
  now apply msg_ty_exact.
Qed.

(* ------------------------------------------------------------------------------------- *)
(* 8. the one panic: the element type of a list or map of messages is asserted to be an object
   type in the one-value form, as soon as the Go slice (map) is not nil *)

Theorem to_field_objlist_elem_panics hook i m' obj atys attrs ds ety l :
  fi_kind i = ObjectListKind -> lookup (fi_snake i) atys = Some (TyList ety) ->
  match ety with TyObj _ => False | _ => True end ->
  read_source i (GSlice None) obj = Ok (GSlice (Some l)) ->
  to_field hook (Field i (Some m')) obj atys (attrs, ds) = Panic.
Proof.
  intros K La NE R. rewrite to_field_eq. cbv zeta. rewrite La, K, R. cbn [bind]. split_triple.
  destruct ety; first [reflexivity|destruct NE].
Qed.

Theorem to_field_objmap_elem_panics hook i m' obj atys attrs ds ety l :
  fi_kind i = ObjectMapKind -> lookup (fi_snake i) atys = Some (TyMap ety) ->
  match ety with TyObj _ => False | _ => True end ->
  read_source i (GMap None) obj = Ok (GMap (Some l)) ->
  to_field hook (Field i (Some m')) obj atys (attrs, ds) = Panic.
Proof.
  intros K La NE R. rewrite to_field_eq. cbv zeta. rewrite La, K, R. cbn [bind]. split_triple.
  destruct ety; first [reflexivity|destruct NE].
Qed.

(* ------------------------------------------------------------------------------------- *)
(* 9. [conforms] and [tgt_exact] *)

(* a null object holds no attribute, at every depth which is looked into *)
Fixpoint null_bare (v : tfval) : bool :=
  match v with
  | VObj _ n _ (Some l) =>
      (if n then match l with [] => true | _ => false end else true)
      && forallb (fun kv => null_bare (snd kv)) l
  | _ => true
  end.

Lemma lookup_null_bare k l v :
  lookup k l = Some v -> forallb (fun kv => null_bare (snd kv)) l = true -> null_bare v = true.
Proof.
  intros L H. apply lookup_In in L. rewrite forallb_forall in H. exact (H _ L).
Qed.

Lemma conforms_exact_mutual : forall m, tf_ok m = true ->
  forall a n u at0, conforms (TyObj (msg_ty m)) (VObj a n u at0) = true ->
                    null_bare (VObj a n u at0) = true -> tgt_exact m a (unopt at0) = true.
Proof.
  apply (message_ind'
           (fun f => ftf_ok f = true -> forall t atys cur, field_ty f = Some t ->
                     lookup (snake f) atys = Some t ->
                     (forall v, cur = Some v -> conforms t v = true /\ null_bare v = true) ->
                     ftgt_exact f atys cur = true)
           (fun m => tf_ok m = true ->
                     forall a n u at0, conforms (TyObj (msg_ty m)) (VObj a n u at0) = true ->
                                       null_bare (VObj a n u at0) = true -> tgt_exact m a (unopt at0) = true)).
  - intros i F t atys cur FT La _. rewrite ftgt_exact_eq. unfold snake in La. cbn [f_info] in La. rewrite La.
    cbn [field_ty] in FT. destruct (fi_kind i); inversion FT; subst; apply tfkind_eqb_refl.
  - intros i m IH F t atys cur FT La HC. rewrite ftgt_exact_eq. unfold snake in La. cbn [f_info] in La.
    rewrite La. cbn [ftf_ok] in F. apply andb_prop in F. destruct F as [_ F2]. specialize (IH F2).
    cbn [field_ty] in FT. destruct (fi_kind i); inversion FT; subst; try apply tfkind_eqb_refl.
    + (* ObjectKind *)
      unfold sub_exact. destruct cur as [v|]; [|now apply msg_ty_exact].
      destruct (HC v eq_refl) as [C B]. destruct v; try (cbn [conforms] in C; discriminate C).
      now apply IH with (n := null) (u := unknown).
    + (* ObjectListKind *)
      unfold sub_exact. destruct cur as [v|]; [|now apply msg_ty_exact].
      destruct (HC v eq_refl) as [C _]. destruct v; try (now apply msg_ty_exact).
      cbn [conforms] in C. discriminate C.
    + (* ObjectMapKind *)
      unfold sub_exact. destruct cur as [v|]; [|now apply msg_ty_exact].
      destruct (HC v eq_refl) as [C _]. destruct v; try (now apply msg_ty_exact).
      cbn [conforms] in C. discriminate C.
  - intros nm fs os inj e z IH F a n u at0 C B. pose proof (msg_ty_exact _ F) as X0.
    pose proof F as F0. rewrite tf_ok_eq in F.
    apply andb_prop in F. destruct F as [F F3]. apply andb_prop in F. destruct F as [F1 _].
    apply nodup_b_NoDup in F1. rewrite forallb_forall in F3. rewrite Forall_forall in IH.
    destruct at0 as [l|].
    2:{ cbn [conforms] in C. apply andb_prop in C. destruct C as [C _]. apply andb_prop in C.
        destruct C as [C _]. apply tfty_eqb_eq in C. injection C as <-. exact X0. }
    rewrite conforms_obj in C. apply andb_prop in C. destruct C as [C C3]. apply andb_prop in C.
    destruct C as [C1 _]. apply tfty_eqb_eq in C1. injection C1 as <-.
    cbn [null_bare] in B. apply andb_prop in B. destruct B as [B1 B2]. cbn [unopt].
    destruct n.
    { destruct l; [exact X0|discriminate B1]. }
    cbn [orb] in C3. unfold attrs_conform in C3. apply andb_prop in C3. destruct C3 as [C3 _].
    rewrite forallb_forall in C3.
    rewrite tgt_exact_eq, forallb_forall. intros f I.
    pose proof (F3 f I) as Ff.
    assert (FT : exists t, field_ty f = Some t).
    { destruct f as [i om]. cbn [ftf_ok] in Ff. apply andb_prop in Ff. destruct Ff as [Fi _].
      exact (field_ty_some _ _ Fi). }
    destruct FT as (t & FT).
    assert (La : lookup (snake f) (msg_ty (Msg nm fs os inj e z)) = Some t)
      by (rewrite msg_ty_eq; now apply lookup_fields_ty).
    apply (IH f I Ff t _ _ FT La). intros v Lv.
    pose proof (C3 _ (lookup_In _ _ _ La)) as Cv. cbn [fst snd] in Cv. rewrite Lv in Cv.
    split; [exact Cv|exact (lookup_null_bare _ _ _ Lv B2)].
Qed.

Lemma conforms_target_exact m t :
  tf_ok m = true -> conforms (TyObj (msg_ty m)) t = true -> null_bare t = true -> target_exact m t = true.
Proof.
  intros F C B. destruct t; try (cbn [conforms] in C; discriminate C).
  cbn [target_exact]. now apply conforms_exact_mutual with (n := null) (u := unknown).
Qed.

(* a target of exactly the schema's type at every depth ([conforms]: any values of the right types
   held, nothing unknown) whose null objects hold no attributes: no diagnostic.  Without
   [null_bare] the statement is false: Panics.conforms_not_enough *)
Theorem copy_to_conforming_no_diag_partial hook m obj :
  tf_ok m = true -> typed m obj ->
  forall t, conforms (TyObj (msg_ty m)) t = true -> null_bare t = true ->
            exists r, copy_to hook m obj t = Ok (r, []).
Proof.
  intros F T t C B. apply copy_to_no_diag_partial; [exact F|exact T|]. now apply conforms_target_exact.
Qed.


(* ------------------------------------------------------------------------------------- *)
(* 10. computed on the message of MsgRoundTrip.RTExample (two oneofs, all six kinds, a message
   without fields) *)
Module Panics.
  Import MsgRoundTrip.RTExample.
  Local Open Scope string_scope.
  Local Open Scope Z_scope.

  Lemma outer_tf_ok : tf_ok outer = true.
  Proof. vm_compute. reflexivity. Qed.

  Lemma value_is_typed : typed outer value.
  Proof. apply MsgRoundTrip.rt_typed_typed; [vm_compute; reflexivity|exact value_typed]. Qed.

  Definition retype (k : string) (t : tfty) : list (string * tfty) := update k t (msg_ty outer).

  (* ---- the targets on which the model panics ---- *)

  (* the target is not an object: a nil interface, a scalar *)
  Example nil_target : copy_to std_hook_to outer value VNil = Panic.
  Proof. reflexivity. Qed.

  Example scalar_target : copy_to std_hook_to outer value (VPrim KI64 false false (PInt 0)) = Panic.
  Proof. reflexivity. Qed.

  (* the list of messages "items" is given a list type with a scalar element type *)
  Definition items_of_strings : tfval := VObj (retype "items" (TyList (TyPrim KStr))) false false None.

  Example list_elem_not_object :
    copy_to std_hook_to outer value items_of_strings = Panic /\ target_ok outer items_of_strings = false.
  Proof. split; vm_compute; reflexivity. Qed.

  (* an empty slice and an empty map which are not nil are enough *)
  Definition value_e : goval :=
    GStruct [("Kind", GOneof None); ("Other", GOneof None);
             ("Items", GSlice (Some [])); ("Labels", GMap None); ("Tags", GSlice None);
             ("Sub", inn "s" 0); ("P", GPtr None); ("N", GPrim (PF32 (SpecFloat.S754_zero false)));
             ("E", GPtr None); ("T", GPrim (PTime 5 6 7)); ("M", GMap (Some []))].

  Example empty_slice_panics : copy_to std_hook_to outer value_e items_of_strings = Panic.
  Proof. vm_compute. reflexivity. Qed.

  Definition m_of_lists : tfval := VObj (retype "m" (TyMap (TyList (TyObj [])))) false false None.

  Example map_elem_not_object :
    copy_to std_hook_to outer value_e m_of_lists = Panic /\ target_ok outer m_of_lists = false.
  Proof. split; vm_compute; reflexivity. Qed.

  (* with a nil map the same target is worked on without a diagnostic: the panic depends on the value *)
  Example map_elem_not_object_nil_map : exists r, copy_to std_hook_to outer value m_of_lists = Ok (r, []).
  Proof. eexists. vm_compute. reflexivity. Qed.

  (* one level down: the attribute type of "sub" is the schema's, the object it holds carries its
     own type list, and this is the one which is consulted *)
  Definition outer2 : message :=
    Msg "Outer2" [Field (mk "Sub" "sub" ObjectKind KI64 GsInt64 true false None) (Some outer)] [] [] false
        (GStruct [("Sub", GPtr None)]).
  Definition value2 : goval := GStruct [("Sub", GPtr (Some value))].
  Definition held_bad : tfval := VObj (msg_ty outer2) false false (Some [("sub", items_of_strings)]).

  Example held_object_type_list :
    copy_to std_hook_to outer2 value2 held_bad = Panic /\ target_ok outer2 held_bad = false.
  Proof. split; vm_compute; reflexivity. Qed.

  (* ---- a damaged target: diagnostics, no panic ---- *)

  Definition ity : list (string * tfty) := [("a", TyPrim KStr); ("u", TyPrim KI64)].

  (* "x" has no type; the elements of "items" are objects whose "a" is a list and which have no
     "u"; "labels" is a map of booleans; "tags" is a string; "n" has the type of a custom field;
     "e" is an object without attribute types *)
  Definition bad_atys : list (string * tfty) :=
    [("y", TyObj ity);
     ("items", TyList (TyObj [("a", TyList (TyPrim KStr))]));
     ("labels", TyMap (TyPrim KBool));
     ("tags", TyPrim KStr);
     ("sub", TyObj ity);
     ("p", TyPrim KBool); ("n", TyHook "h");
     ("e", TyObj []);
     ("t", TyPrim KTime);
     ("m", TyMap (TyObj ity));
     ("z", TyPrim KI64)].

  (* "y" holds a list, "sub" a null, unknown object without attributes with a type list of its own
     (no "a", "u" a map), "p" an object, "t" a string, "z" a nil interface, "m" a scalar; an
     attribute which is no field *)
  Definition bad_attrs : list (string * tfval) :=
    [("y", VList (TyPrim KI64) false true (Some [VNil]));
     ("sub", VObj [("u", TyMap (TyPrim KI64))] true true None);
     ("p", VObj [] false false None);
     ("t", VPrim KStr false true (PStr "x"));
     ("z", VNil);
     ("m", VPrim KI64 true false (PInt 3));
     ("extra", VNil)].

  (* the object itself null and unknown *)
  Definition bad : tfval := VObj bad_atys true true (Some bad_attrs).

  Example bad_classes : target_ok outer bad = true /\ target_exact outer bad = false.
  Proof. split; vm_compute; reflexivity. Qed.

  Example bad_diagnostics :
    exists r, copy_to std_hook_to outer value bad
              = Ok (r, [(WriteMissing, "x"); (WriteConv, "a"); (WriteMissing, "u"); (WriteConv, "labels");
                        (WriteConv, "tags"); (WriteMissing, "a"); (WriteConv, "u"); (WriteConv, "n");
                        (WriteMissing, "Outer.E.active")]).
  Proof. eexists. vm_compute. reflexivity. Qed.

  (* the theorem on this target *)
  Example bad_thm : exists r ds, copy_to std_hook_to outer value bad = Ok (r, ds).
  Proof.
    apply copy_to_never_panics_partial; [exact outer_tf_ok|exact value_is_typed|]. vm_compute. reflexivity.
  Qed.

  (* nothing but the type list: one diagnostic for each field *)
  Example no_types :
    exists r, copy_to std_hook_to outer value (VObj [] false false None)
              = Ok (r, map (fun f => (WriteMissing, fi_path (f_info f))) (m_fields outer)).
  Proof. eexists. vm_compute. reflexivity. Qed.

  (* ---- the target of an earlier CopyTo ---- *)

  Definition first : tfval :=
    match copy_to std_hook_to outer value (VObj (msg_ty outer) false false None) with
    | Ok (r, _) => r
    | Panic => VNil
    end.

  Example first_classes :
    conforms (TyObj (msg_ty outer)) first = true /\ null_bare first = true /\ target_exact outer first = true.
  Proof. repeat split; vm_compute; reflexivity. Qed.

  Example second_copy : exists r, copy_to std_hook_to outer value_e first = Ok (r, []).
  Proof. eexists. vm_compute. reflexivity. Qed.

  (* the result of the first CopyTo, then damaged: the list "items" replaced by a scalar and its
     type by a string, the object "y" emptied of its types *)
  Definition damaged : tfval :=
    match first with
    | VObj atys n u (Some attrs) =>
        VObj (update "items" (TyPrim KStr) atys) n u
             (Some (update "y" (VObj [] false false None) (update "items" (VPrim KStr false false (PStr "")) attrs)))
    | v => v
    end.

  Example damaged_diagnostics :
    exists r, copy_to std_hook_to outer value damaged
              = Ok (r, [(WriteMissing, "a"); (WriteMissing, "u"); (WriteConv, "items")]).
  Proof. eexists. vm_compute. reflexivity. Qed.

  (* ---- [conforms] alone does not exclude diagnostics ---- *)

  (* the null object held under "sub" conforms whatever it holds, and what it holds is written into *)
  Definition null_with_attrs : tfval :=
    VObj (msg_ty outer2) false false
         (Some [("sub", VObj (msg_ty outer) true false (Some [("sub", VObj [] false false None)]))]).

  Example conforms_not_enough :
    tf_ok outer2 = true
    /\ conforms (TyObj (msg_ty outer2)) null_with_attrs = true
    /\ null_bare null_with_attrs = false
    /\ exists r, copy_to std_hook_to outer2 value2 null_with_attrs
                 = Ok (r, [(WriteMissing, "a"); (WriteMissing, "u")]).
  Proof. repeat split; try (vm_compute; reflexivity). eexists. vm_compute. reflexivity. Qed.
End Panics.

Print Assumptions to_field_missing_type.
Print Assumptions copy_to_not_object.
Print Assumptions copy_to_never_panics_partial.
Print Assumptions to_fields_never_panics_partial.
Print Assumptions copy_to_no_diag_partial.
Print Assumptions copy_to_no_diag_empty.
Print Assumptions to_field_objlist_elem_panics.
Print Assumptions to_field_objmap_elem_panics.
Print Assumptions copy_to_conforming_no_diag_partial.
